import Arc.Model.C17
import Arc.Generated.C17
import Arc.Proofs.C17.Time
import Arc.Proofs.C17.Like
import Arc.Proofs.C17.Url
import Arc.Proofs.C17.Floor
import Arc.Proofs.C17.UrlGuard
/-!
# C17 — performance rewrites do not change query results

FULL STATEMENT (property text): for every row, arc's rewrites of `date_trunc`, `time_bucket`, the
URL-domain regex and the LIKE/`<> ''` predicate order give the same value / filter decision as DuckDB on
the original expression.  Status per clause on /repo 075e59e:

    3-argument time_bucket (whole-second origin; others are not rewritten)   PROVED  C17_time_bucket3_full
    LIKE / `<> ''` reordering                                                PROVED  C17_like_optimize_full
    URL-domain REGEXP_REPLACE / REGEXP_EXTRACT (the two exact patterns)       PROVED  C17_url_replace_full, C17_url_extract_full
    date_trunc (second..week) and 2-argument time_bucket                     FALSE   (existing tests pin the
        epoch template): ∀ u t, rewrite2 semX G.dtExpr u.secs t = dateTrunc u t  and
        ∀ s t, 0 < s → rewrite2 semX G.tb2Expr s t = timeBucket (s·10⁶) defaultOriginUs t  do not hold.

For the false clause: the EXACT characterisation of the inputs on which rewrite = original (`*_exact`, an
`↔` for all timestamps / widths), full-strength equality under explicit decidable carve-outs (`*_partial`),
"never equal" theorems (`week`; widths not dividing the default-origin offset) and witnesses reproduced
by the harness (10 known-finding keys).  Theorems named `*_prefix_*` are HISTORY: they are about the
templates/CASE that were in the source before the fix commits and document the fixed findings.

DuckDB's function semantics (Model/C17.lean header) are ASSUMPTIONS validated by the harness against the
real DuckDB; theorems are over the exact arithmetic `semX`, which coincides with DuckDB's binary64
arithmetic `semF` for |t| ≤ 2⁵³ µs (validated on every generated timestamp; `C17_far_future_witness`
shows they part beyond — `to_timestamp(seconds)` multiplies in binary64 in every template).
`G` = `Arc.Generated.C17`, regenerated from the source on every run.
-/
namespace Arc.C17
open Arc.Generated.C17

/-! ## tie to the current source (regenerated facts) -/

/-- the `fmt.Sprintf` templates of `rewriteTimeBucket` / `rewriteDateTrunc`, parsed by factgen, are the
epoch-arithmetic expressions the theorems below are about. -/
theorem C17_generated_templates : tb2Expr = tmpl2 ∧ tb3Expr = tmpl3Floor ∧ dtExpr = tmpl2 := by decide

/-- `intervalToSeconds` maps every unit to the number of seconds DuckDB's fixed-length interval has
(0 = leave to DuckDB: month), every unit the `date_trunc` regex accepts is one of them, and the amount is
parsed in base 10 (as DuckDB reads interval literals: `'010 minutes'` is ten minutes), which is what the
model's `intervalToSeconds` (a `Nat` amount read from the decimal digits) assumes. -/
theorem C17_generated_units :
    (∀ u : TUnit, lookupUnit unitTable u.name = u.secs) ∧
    dtUnits.all (fun u => (TUnit.ofString? u).isSome) = true ∧
    amountParseBase = 10 := by
  refine ⟨fun u => ?_, by decide, by decide⟩
  cases u <;> decide

/-- `buildURLDomainCASEExact`: the four scheme/`www.` prefixes, longest first, `substr` starting right
after the prefix, the WHEN format with its `LIKE '<p>_%'` / `'<p>_%/%'` tails, the first-character and
newline guards, and the two exact regexes for which the rewrite fires — as the model (`armOk`,
`caseGuarded`, `regexReplace`, `regexExtract`) assumes. -/
theorem C17_generated_case_arms :
    caseArmsTbl = expectedArms ∧
    caseWhenFmt = "WHEN %s LIKE '%s%s' AND substr(%s, %d, 1) <> '/'%s THEN split_part(substr(%s, %d), '/', 1) " ∧
    caseLikeTail = "_%" ∧ caseLikeTailSlash = "_%/%" ∧ caseGuardFmt = " AND position(chr(10) in %s) = 0" ∧
    urlCanonicalPatterns = ["^https?://(?:www\\.)?([^/]+)/.*$", "^https?://(?:www\\.)?([^/]+)"] := by decide

/-- capture-group permutations of the two LIKE reorderings (`${1}${4}${3}${2}` and
`parts[1]+parts[4]+parts[3]+parts[2]+parts[5]`): the empty check (group 4) is moved in front of the text
of group 2, which is what `reorder1` / `reorder2` model; pattern 2 is guarded by the `OR`-keyword regex
(`if patternOrKeyword.MatchString(parts[2]) { return match }`, presence checked by factgen). -/
theorem C17_generated_like_orders :
    likeOrder1 = [1, 4, 3, 2] ∧ likeOrder2 = [1, 4, 3, 2, 5] ∧ likeOrGuard = "(?i)\\bOR\\b" := by decide

/-! ## A. date_trunc / time_bucket -/

/-- FULL (since /repo ee4a0eb; origins with a sub-second part are not rewritten since c931596): the
3-argument `time_bucket` rewrite with a whole-second origin `o` equals DuckDB's `time_bucket` for every
timestamp — sub-second, before the origin, pre-1970 — and every positive width. -/
theorem C17_time_bucket3_full (o s t : Int) (hs : 0 < s) :
    rewrite3 semX tb3Expr o s t = timeBucket (s * usPerSec) (o * usPerSec) t := by
  rw [C17_generated_templates.2.1]; exact rewrite3_floor o s t hs

/-- the rows of the old witnesses are now bucketed like DuckDB does. -/
example : rewrite3 semX tb3Expr 1704067200 86400 1704063600000000 = 1703980800000000 := by decide
example : rewrite3 semX tb3Expr 1704069000 1 1700000000500001 = 1700000000000000 := by decide

/-- HISTORY (template before /repo ee4a0eb, `tmpl3`; findings `time_bucket:before-origin-truncates-toward-zero`,
now fixed). EXACT: 3-argument `time_bucket` with a whole-second origin `o`: the OLD rewrite equals DuckDB iff
truncating division of the rounded second count agrees with flooring division of the exact one, i.e.
(at/after the origin and not rounded up onto a bucket edge) or (before the origin, not rounded up, and
exactly on a bucket edge). -/
theorem C17_time_bucket3_prefix_exact (o s t : Int) (hs : 0 < s) :
    rewrite3 semX tmpl3 o s t = timeBucket (s * usPerSec) (o * usPerSec) t ↔
      Exact (secOf t - o) (upOf t) s :=
  tb3_iff o s t hs

example : Exact (secOf 1700000000400000 - 1704067200) (upOf 1700000000400000) 60 ↔ False := by decide
example : Exact (secOf 1710000000400000 - 1704067200) (upOf 1710000000400000) 60 := by decide

/-- HISTORY (before /repo c931596, which leaves such calls to DuckDB; finding
`time_bucket:origin-subsecond-truncated`, now fixed). NEVER: an origin with a sub-second part `r` was truncated by `originTime.Unix()`; the rewrite is
then a whole second, DuckDB's bucket is not. -/
theorem C17_time_bucket3_prefix_subsecond_origin_never (o r s t : Int) (hr : 0 < r ∧ r < usPerSec) :
    rewrite3 semX tmpl3 o s t ≠ timeBucket (s * usPerSec) (o * usPerSec + r) t := by
  rw [rewrite3_tmpl3]
  unfold timeBucket
  intro h
  have h1 : ((o + Int.tdiv (secOf t - o + upOf t) s * s) * usPerSec) % usPerSec = 0 :=
    Int.mul_emod_left _ _
  have h2 : (o * usPerSec + r + (t - (o * usPerSec + r)) / (s * usPerSec) * (s * usPerSec)) % usPerSec = r := by
    have : o * usPerSec + r + (t - (o * usPerSec + r)) / (s * usPerSec) * (s * usPerSec)
        = r + (o + (t - (o * usPerSec + r)) / (s * usPerSec) * s) * usPerSec := by
      rw [Int.add_mul, Int.mul_assoc]; omega
    rw [this, Int.add_mul_emod_self_right]
    exact Int.emod_eq_of_lt (by omega) hr.2
  rw [h] at h1; omega

example : (0 : Int) < 500000 ∧ (500000 : Int) < usPerSec := by decide

/-- shifting the origin by a multiple of the width does not change the buckets. -/
theorem timeBucket_shift (W k t : Int) (hW : 0 < W) : timeBucket W (W * k) t = t / W * W := by
  unfold timeBucket
  have : t - W * k = t + (-k) * W := by rw [Int.neg_mul, Int.mul_comm]; omega
  rw [this, Int.add_mul_ediv_right _ _ (by omega), Int.add_mul, Int.neg_mul, Int.mul_comm k W]
  omega

/-- EXACT: 2-argument `time_bucket`: DuckDB buckets from 2000-01-03, the rewrite from 1970-01-01; they
agree iff the width divides the offset 946857600 s AND the 3-argument condition holds with o = 0. -/
theorem C17_time_bucket2_exact (s t : Int) (hs : 0 < s) :
    rewrite2 semX tb2Expr s t = timeBucket (s * usPerSec) defaultOriginUs t ↔
      (defaultOriginSec % s = 0 ∧ Exact (secOf t) (upOf t) s) := by
  rw [C17_generated_templates.1]
  by_cases hd : defaultOriginSec % s = 0
  · have hk : defaultOriginUs = (s * usPerSec) * (defaultOriginSec / s) := by
      unfold defaultOriginUs
      have := Int.mul_ediv_add_emod defaultOriginSec s
      rw [hd] at this
      have h2 : defaultOriginSec = s * (defaultOriginSec / s) := by omega
      rw [Int.mul_assoc, Int.mul_comm usPerSec, ← Int.mul_assoc, ← h2]
    have hW : 0 < s * usPerSec := Int.mul_pos hs (by decide)
    rw [hk, timeBucket_shift _ _ _ hW]
    have h3 := tb3_iff 0 s t hs
    simp only [Int.zero_mul, Int.sub_zero] at h3
    have h4 : rewrite3 semX tmpl3 0 s t = rewrite2 semX tmpl2 s t := by
      simp [rewrite3, rewrite2, tmpl3, tmpl2, evalR]
    have h5 : timeBucket (s * usPerSec) 0 t = t / (s * usPerSec) * (s * usPerSec) := by
      simp [timeBucket]
    rw [h4, h5] at h3
    rw [h3]
    exact ⟨fun h => ⟨hd, h⟩, fun h => h.2⟩
  · constructor
    · intro h
      exfalso
      rw [rewrite2_tmpl2] at h
      unfold timeBucket at h
      have hW : 0 < s * usPerSec := Int.mul_pos hs (by decide)
      have h1 : (Int.tdiv (secOf t + upOf t) s * s * usPerSec) % (s * usPerSec) = 0 := by
        rw [Int.mul_assoc]; exact Int.mul_emod_left _ _
      have h2 : (defaultOriginUs + (t - defaultOriginUs) / (s * usPerSec) * (s * usPerSec)) % (s * usPerSec)
          = (defaultOriginSec % s) * usPerSec := by
        rw [Int.add_mul_emod_self_right]
        unfold defaultOriginUs
        rw [Int.mul_comm defaultOriginSec, Int.mul_comm s, Int.mul_comm (defaultOriginSec % s)]
        exact Int.mul_emod_mul_of_pos (a := usPerSec) _ _ (by decide)
      rw [h] at h1
      rw [h2] at h1
      have : defaultOriginSec % s = 0 := by
        rcases Int.mul_eq_zero.mp h1 with h | h
        · exact h
        · exact absurd h (by decide)
      exact hd this
    · intro h; exact absurd h.1 hd

example : defaultOriginSec % 3600 = 0 ∧ Exact (secOf 1700000000400000) (upOf 1700000000400000) 3600 := by decide

/-- EXACT: `date_trunc` for second/minute/hour/day. -/
theorem C17_date_trunc_exact (u : TUnit) (hu : u = .second ∨ u = .minute ∨ u = .hour ∨ u = .day) (t : Int) :
    rewrite2 semX dtExpr u.secs t = dateTrunc u t ↔ Exact (secOf t) (upOf t) u.secs := by
  rw [C17_generated_templates.2.2]
  have hs : 0 < u.secs := by rcases hu with h | h | h | h <;> subst h <;> decide
  have h3 := tb3_iff 0 u.secs t hs
  simp only [Int.zero_mul, Int.sub_zero] at h3
  have h4 : rewrite3 semX tmpl3 0 u.secs t = rewrite2 semX tmpl2 u.secs t := by
    simp [rewrite3, rewrite2, tmpl3, tmpl2, evalR]
  have h5 : timeBucket (u.secs * usPerSec) 0 t = dateTrunc u t := by
    rcases hu with h | h | h | h <;> subst h <;> simp [timeBucket, dateTrunc]
  rw [h4, h5] at h3
  exact h3

example : Exact (secOf 1700000001400000) (upOf 1700000001400000) TUnit.hour.secs := by decide

/-- NEVER: `date_trunc('week', ·)` is Monday-based, multiples of 604800 s since the epoch are Thursdays. -/
theorem C17_date_trunc_week_never (t : Int) : rewrite2 semX dtExpr 604800 t ≠ dateTrunc .week t := by
  rw [C17_generated_templates.2.2, rewrite2_tmpl2]
  unfold dateTrunc timeBucket mondayUs usPerSec
  generalize Int.tdiv (secOf t + upOf t) 604800 = x
  simp only
  omega

/-- PARTIAL (carve-out: width divides the default-origin offset, t ≥ 0, sub-second part below one half):
full-strength equality of the 2-argument rewrite. -/
theorem C17_time_bucket2_partial (s t : Int) (hs : 0 < s) (hdiv : defaultOriginSec % s = 0)
    (hge : 0 ≤ t) (hfrac : fracOf t < 500000) :
    rewrite2 semX tb2Expr s t = timeBucket (s * usPerSec) defaultOriginUs t := by
  rw [C17_time_bucket2_exact s t hs, upOf_zero_of_frac_lt t hfrac]
  refine ⟨hdiv, Or.inl ⟨?_, Or.inl rfl⟩⟩
  have : 0 ≤ secOf t := Int.ediv_nonneg hge (by decide)
  omega

example : defaultOriginSec % 900 = 0 ∧ (0 : Int) ≤ 1700000000400000 ∧ fracOf 1700000000400000 < 500000 := by decide

theorem C17_date_trunc_partial (u : TUnit) (hu : u = .second ∨ u = .minute ∨ u = .hour ∨ u = .day) (t : Int)
    (hge : 0 ≤ t) (hfrac : fracOf t < 500000) :
    rewrite2 semX dtExpr u.secs t = dateTrunc u t := by
  rw [C17_date_trunc_exact u hu t, upOf_zero_of_frac_lt t hfrac]
  have : 0 ≤ secOf t := Int.ediv_nonneg hge (by decide)
  exact Or.inl ⟨by omega, Or.inl rfl⟩

example : (0 : Int) ≤ 1700000000400000 ∧ fracOf 1700000000400000 < 500000 := by decide

/-! ### witnesses (each reproduced by the harness on the real code + DuckDB) -/

/-- 1970-01-01 12:59:59.7: `date_trunc('hour')` = 12:00, rewrite = 13:00. -/
theorem C17_date_trunc_subsecond_witness :
    rewrite2 semX dtExpr 3600 46799700000 = 46800000000 ∧ dateTrunc .hour 46799700000 = 43200000000 := by
  decide

/-- 1969-12-31 23:59:59.999999: `date_trunc('hour')` = 23:00, rewrite = 1970-01-01 00:00. -/
theorem C17_date_trunc_pre1970_witness :
    rewrite2 semX dtExpr 3600 (-1) = 0 ∧ dateTrunc .hour (-1) = -3600000000 := by decide

/-- 2024-01-03 (a Wednesday): `date_trunc('week')` = Mon 2024-01-01, rewrite = Thu 2023-12-28. -/
theorem C17_date_trunc_week_witness :
    rewrite2 semX dtExpr 604800 1704240000000000 = 1703721600000000 ∧
    dateTrunc .week 1704240000000000 = 1704067200000000 := by decide

/-- `time_bucket('7 hours', 2024-01-03 05:00)`: DuckDB 01:00, rewrite 03:00. -/
theorem C17_time_bucket_default_origin_witness :
    rewrite2 semX tb2Expr 25200 1704258000000000 = 1704250800000000 ∧
    timeBucket (25200 * usPerSec) defaultOriginUs 1704258000000000 = 1704243600000000 := by decide

/-- HISTORY (pre-ee4a0eb template): origin 2024-01-01, 1-day buckets, a row one hour before the origin:
DuckDB 2023-12-31, old rewrite 2024-01-01. -/
theorem C17_time_bucket_before_origin_prefix_witness :
    rewrite3 semX tmpl3 1704067200 86400 1704063600000000 = 1704067200000000 ∧
    timeBucket (86400 * usPerSec) (1704067200 * usPerSec) 1704063600000000 = 1703980800000000 := by decide

/-- year 128 723: DuckDB's double arithmetic (`semF`) moves even a whole-second timestamp by 64 µs. -/
theorem C17_far_future_witness :
    rewrite2 semF dtExpr 1 4000000000001000000 = 4000000000000999936 ∧
    dateTrunc .second 4000000000001000000 = 4000000000001000000 ∧
    rewrite2 semX dtExpr 1 4000000000001000000 = 4000000000001000000 := by decide +kernel

/-! ## B. LIKE / `<> ''` reordering -/

/-- FULL: pattern 1 (`WHERE <like> AND <col <> ''>` → swapped) preserves the three-valued value of the
WHERE clause on every row, whatever follows. -/
theorem C17_like_reorder1_full (v : Atom → B3) (w : Where) : evalW v (reorder1 w) = evalW v w :=
  reorder1_eval v w

example : reorder1 [[.atom (.like 0 0), .atom (.nonEmpty 1), .atom (.eq 2 0)], [.atom (.eq 0 0)]]
    = [[.atom (.nonEmpty 1), .atom (.like 0 0), .atom (.eq 2 0)], [.atom (.eq 0 0)]] := by decide

/-- FULL (since /repo e4d9758, which added the `\bOR\b` guard): `OptimizeLikePatterns` preserves the
three-valued value of the WHERE clause — hence the filter decision — on every row, for every clause
mixing AND/OR/NOT/parentheses and every valuation of the atoms. -/
theorem C17_like_optimize_full (endOk : Bool) (v : Atom → B3) (w : Where) :
    evalW v (optimize endOk w) = evalW v w :=
  optimize_eval endOk v w

/-- non-vacuity: the ClickBench Q23 shape is reordered … -/
example : optimize true [[.atom (.like 0 0), .atom (.notLike 1 1), .atom (.nonEmpty 2)]]
    = [[.atom (.nonEmpty 2), .atom (.like 0 0), .atom (.notLike 1 1)]] := by decide
/-- … and a clause with a top-level OR is now left alone. -/
example : optimize true [[.atom (.like 0 0)], [.atom (.eq 1 0), .atom (.nonEmpty 2)]]
    = [[.atom (.like 0 0)], [.atom (.eq 1 0), .atom (.nonEmpty 2)]] := by decide

def witnessV : Atom → B3
  | .like _ _ => some true
  | _ => some false

/-- HISTORY (pre-fix model `optimizePreFix`, the code before e4d9758; finding
`like-reorder:empty-check-moved-across-top-level-OR`, now fixed):
`WHERE c0 LIKE '%google%' OR c1 = 'abc' AND c2 <> ''` was rewritten to
`WHERE c2 <> '' AND c0 LIKE '%google%' OR c1 = 'abc'`; a row with c0 matching, c1 ≠ 'abc', c2 = '' was
selected by the original and dropped by the rewrite. -/
theorem C17_like_prefix_witness :
    optimizePreFix true [[.atom (.like 0 0)], [.atom (.eq 1 0), .atom (.nonEmpty 2)]]
      = [[.atom (.nonEmpty 2), .atom (.like 0 0)], [.atom (.eq 1 0)]] ∧
    evalW witnessV [[.atom (.like 0 0)], [.atom (.eq 1 0), .atom (.nonEmpty 2)]] = some true ∧
    evalW witnessV (optimizePreFix true [[.atom (.like 0 0)], [.atom (.eq 1 0), .atom (.nonEmpty 2)]]) = some false := by
  decide

/-! ## C. URL-domain regex → CASE/split_part -/

/-- FULL (since /repo c3f571e + 075e59e): for every byte string, the guarded CASE expression that replaces
`REGEXP_REPLACE(s, '^https?://(?:www\.)?([^/]+)/.*$', '\1')` has the value of that call (a WHEN arm
fires only where the string functions agree with the regex; every other row evaluates the call). -/
theorem C17_url_replace_full (s : Bytes) :
    caseGuarded true regexReplace caseArmsTbl s = regexReplace s := by
  rw [C17_generated_case_arms.1]; exact replace_guarded s

/-- FULL: the same for `REGEXP_EXTRACT(s, '^https?://(?:www\.)?([^/]+)', 1)`. -/
theorem C17_url_extract_full (s : Bytes) :
    caseGuarded false regexExtract caseArmsTbl s = regexExtract s := by
  rw [C17_generated_case_arms.1]; exact extract_guarded s

/-- non-vacuity: on "https://www.a.com/x" the first WHEN arm fires (the fast path is really taken) … -/
example : armOk true ((bHttps ++ bWww ++ [97, 46, 99, 111, 109, 47, 120]).drop 12)
    (bHttps ++ bWww ++ [97, 46, 99, 111, 109, 47, 120]) = true ∧
    caseGuarded true (fun _ => []) caseArmsTbl (bHttps ++ bWww ++ [97, 46, 99, 111, 109, 47, 120])
      = [97, 46, 99, 111, 109] := by decide
/-- … and on "http://a.b" (no path) no arm fires. -/
example : caseGuarded true (fun _ => [1]) caseArmsTbl (bHttp ++ [97, 46, 98]) = [1] := by decide

/-! ### HISTORY: the unguarded CASE of `buildURLDomainCASE` (`caseExpr`), used until c3f571e
(findings `url-replace:*`, `url-extract:*`, now fixed) -/

/-- EXACT (old CASE): it equalled `REGEXP_REPLACE(…)` iff s has no scheme and no '/', or s has a scheme and
the (www-stripped) remainder is `host/…` with a non-empty host, a '/' after it and no newline in the path. -/
theorem C17_url_prefix_replace_exact (s : Bytes) : caseExpr s = regexReplace s ↔ ReplaceOk s :=
  replace_exact s

/-- EXACT (old CASE): it equalled `REGEXP_EXTRACT(…)` iff s has no scheme and starts with '/' or is empty,
or s has a scheme and is not `www.` followed by '/' or the end. -/
theorem C17_url_prefix_extract_exact (s : Bytes) : caseExpr s = regexExtract s ↔ ExtractOk s :=
  extract_exact s

/-- WITNESS (old CASE) "http://a.b" (no path): regexp_replace leaves the input, the CASE returned "a.b". -/
theorem C17_url_prefix_witness_nopath :
    regexReplace (bHttp ++ [97, 46, 98]) = bHttp ++ [97, 46, 98] ∧
    caseExpr (bHttp ++ [97, 46, 98]) = [97, 46, 98] := by decide

/-- WITNESS (old CASE) "a/b" (no scheme): regexp_replace leaves "a/b", regexp_extract gives "", the CASE gave "a". -/
theorem C17_url_prefix_witness_noscheme :
    regexReplace [97, 47, 98] = [97, 47, 98] ∧ regexExtract [97, 47, 98] = [] ∧
    caseExpr [97, 47, 98] = [97] := by decide

/-- WITNESS (old CASE) "https://www./x": both regexes backtrack to host "www.", the CASE gave "". -/
theorem C17_url_prefix_witness_www :
    regexReplace (bHttps ++ bWww ++ [47, 120]) = bWww ∧ regexExtract (bHttps ++ bWww ++ [47, 120]) = bWww ∧
    caseExpr (bHttps ++ bWww ++ [47, 120]) = [] := by decide

end Arc.C17
