import Arc.Proofs.C25.Steps
import Arc.Generated.C25
/-!
# C25 — peer file replication never exposes a bad file and converges

Objects (see `Arc/Model/C25.lean`): one manifest file with bytes `content` (manifest size
`content.length`, manifest digest `H content`), the replica files `Rep = (final, part)`, the fault
alphabet `Outcome`, one retry-loop iteration `attemptStep`, a whole `processEntry` call `runProc`
(script = per attempt one outcome per candidate peer) and a history of calls `runHist`.
`H` is an arbitrary function; collision-freeness appears only as a hypothesis (`CollisionFree`).

The code facts `f : Facts` are parameters.  Theorems without a side condition on `f` hold for every
combination — in particular for `Arc.Generated.C25.facts`, which factgen regenerates from the
source on every run; `C25_generated` states which regime the current source is in.

Property text, clause by clause
  (a) "appears at its final path only with exactly the bytes whose SHA-256 the manifest records"
      → `C25_final_correct`, `C25_final_exact`            (ALL facts, all fault histories)
  (b) "never counts a file as present while it is missing or incomplete at its final path"
      → `C25_counts`  (facts with a sound presence check or a `Delete` that removes `.part`)
        REFUTED for the round-1 facts: `C25_counts_witness`; what survives: `C25_counts_partial`
  (c) "once faults stop, every manifest file ends up present and correct"
      → `C25_converges` (same facts); REFUTED for the round-1 facts: `C25_converges_witness`;
        what survives: `C25_converges_partial`
-/
set_option linter.unusedSectionVars false
namespace Arc.C25

/-- the presence check of `processEntry` cannot be satisfied by a staging file -/
def Facts.presenceSound (f : Facts) : Bool := f.presenceNeedsFinal || !f.statPartFallback

/-- one of the two repairs is in the source -/
def Facts.repaired (f : Facts) : Bool := f.presenceSound || f.deleteRemovesPart

/-- decidable carve-out of the `_partial` theorems: no transfer in the history is corrupted -/
def notCorrupt : Outcome → Bool
  | .corrupt _ => false
  | _ => true

def scriptClean (script : List (List Outcome)) : Bool := script.all (fun a => a.all notCorrupt)
def histClean (hist : List (List (List Outcome))) : Bool := hist.all scriptClean

theorem notCorrupt_spec {o : Outcome} (h : notCorrupt o = true) : NotCorrupt o := by
  intro i hi; subst hi; simp [notCorrupt] at h

theorem scriptClean_spec {script : List (List Outcome)} (h : scriptClean script = true) :
    ScriptIn NotCorrupt script := by
  intro a ha o ho
  unfold scriptClean at h
  rw [List.all_eq_true] at h
  have := h a ha
  rw [List.all_eq_true] at this
  exact notCorrupt_spec (this o ho)

theorem scriptIn_true (script : List (List Outcome)) : ScriptIn (fun _ => True) script :=
  fun _ _ _ _ => trivial

section
variable {D : Type} [DecidableEq D] (H : Bytes → D)

def CollisionFree : Prop := ∀ a b : Bytes, H a = H b → a = b

/-! ## helper lemmas -/

theorem noPhantom_sound {f : Facts} (hf : f.presenceSound = true) (content : Bytes) (r : Rep) :
    ¬ Phantom f content r := by
  intro ⟨hn, hp⟩
  unfold Facts.presenceSound at hf
  unfold present statFile at hp
  rw [hn] at hp
  cases h1 : f.presenceNeedsFinal <;> cases h2 : f.statPartFallback <;> simp [h1, h2] at hf hp

theorem noPhantom_short {f : Facts} {content : Bytes} {r : Rep}
    (hq : r.final = none → PartShort content r) : ¬ Phantom f content r := by
  intro ⟨hn, hp⟩
  unfold present statFile at hp
  rw [hn] at hp
  cases h2 : f.statPartFallback
  · simp [h2] at hp
  · cases hpart : r.part with
    | none => simp [h2, hpart] at hp
    | some p =>
      have := hq hn p hpart
      simp [h2, hpart] at hp
      omega

theorem noPhantom_prefix {f : Facts} {content : Bytes} {r : Rep}
    (hq : r.final = none → PartPrefix content r) : ¬ Phantom f content r :=
  noPhantom_short (fun hn p hp => (hq hn p hp).2)

/-- side condition on the replica's starting state that the `Delete` repair needs (the
presence-check repair needs none): a non-empty file and no full-size staging file lying around. -/
def StartOK (f : Facts) (content : Bytes) (r : Rep) : Prop :=
  f.presenceSound = true ∨ (content ≠ [] ∧ (r.final = none → PartShort content r))

/-! ## (a) what reaches the final path -/

/-- **C25_final_correct.** For EVERY combination of code facts, every starting replica whose final
file (if any) is good, every history of `processEntry` calls and every per-attempt/per-peer fault
script: the final path holds only bytes with the manifest's digest and size.  (Histories are
prefix-closed, so this covers every intermediate state after whole calls; `C25_final_correct_within`
covers the states inside a call.) -/
theorem C25_final_correct (f : Facts) (hpo : f.orderOK = true) (content : Bytes) (maxA : Nat) (r0 : Rep) (c0 : Counters)
    (hist : List (List (List Outcome))) (h0 : GoodFinal H content r0) :
    ∀ b, (runHist H f content maxA (r0, c0) hist).1.final = some b →
      H b = H content ∧ b.length = content.length := by
  have := runHist_inv H (stepOK_any H f hpo content) maxA hist (r0, c0)
    (fun p _ => scriptIn_true p) ⟨h0, fun _ => trivial⟩
  exact this.1

theorem C25_final_correct_within (f : Facts) (hpo : f.orderOK = true) (content : Bytes) (maxA : Nat) (s : PState)
    (script : List (List Outcome)) (h0 : GoodFinal H content s.rep) :
    ∀ b, (runProc H f content maxA s script).rep.final = some b →
      H b = H content ∧ b.length = content.length := by
  have := runProc_inv H (stepOK_any H f hpo content) maxA script s (scriptIn_true _) ⟨h0, fun _ => trivial⟩
  exact this.1

/-- **C25_final_exact.** With a collision-free digest the final path holds exactly the manifest
file's bytes. -/
theorem C25_final_exact (hcf : CollisionFree H) (f : Facts) (hpo : f.orderOK = true) (content : Bytes) (maxA : Nat) (r0 : Rep)
    (c0 : Counters) (hist : List (List (List Outcome))) (h0 : GoodFinal H content r0) :
    ∀ b, (runHist H f content maxA (r0, c0) hist).1.final = some b → b = content :=
  fun b hb => hcf _ _ (C25_final_correct H f hpo content maxA r0 c0 hist h0 b hb).1

/-- **C25_final_correct_during.** Step order inside an attempt: at the moment the write goroutine
of a `pullOnce` has finished (where `WriteReader`/`AppendReader` return and where the cleanup
`Delete` looks) the final path is empty or holds the verified file — PROVIDED `WriteReader` renames
only after the clean EOF that follows `Fetch`'s digest verdict (`promoteAfterVerdict`).  This is the
obligation `C25_promote_after_verdict` discharges for the current source; without it
`C25_early_promote_witness` shows unverified bytes at the final path. -/
theorem C25_final_correct_during (f : Facts) (hpo : f.orderOK = true) (content : Bytes)
    (resume : Bool) (r : Rep) (o : Outcome) (hr : r.final = none) :
    ∀ b, (pullOnce H f content resume r o).mid.final = some b →
      H b = H content ∧ b.length = content.length :=
  pullOnce_mid_good H f hpo content resume o hr

/-! ## (b) counted ⇒ complete -/

/-- **C25_counts_step.** The exact step-level statement, for every combination of code facts: an
attempt that counts the file (skipped-local or pulled) ends with a complete final file — unless the
presence check looked at a *phantom* (final file absent, yet "present").  -/
theorem C25_counts_step (f : Facts) (hpo : f.orderOK = true) (content : Bytes) (maxA : Nat) (s : PState) (peers : List Outcome)
    (hg : GoodFinal H content s.rep) (hrun : s.st = .running) (hnp : ¬ Phantom f content s.rep)
    (hc : (attemptStep H f content maxA s peers).st = .skipped ∨
          (attemptStep H f content maxA s peers).st = .pulled) :
    Complete H content (attemptStep H f content maxA s peers).rep :=
  attemptStep_counted H (stepOK_any H f hpo content) maxA s peers (fun _ _ => trivial)
    ⟨hg, fun _ => trivial⟩ hrun hnp hc

/-- **C25_counters_status.** The two "the file is here" counters of the puller (`skipped_local`,
`pulled`) move — by exactly one — precisely in an attempt that ends skipped / pulled; "counted" in
the theorems below is literally these counters. -/
theorem C25_counters_status (f : Facts) (content : Bytes) (maxA : Nat) (s : PState)
    (peers : List Outcome) (hrun : s.st = .running) :
    (attemptStep H f content maxA s peers).cnt.skippedLocal =
      s.cnt.skippedLocal + (if (attemptStep H f content maxA s peers).st = .skipped then 1 else 0) ∧
    (attemptStep H f content maxA s peers).cnt.pulled =
      s.cnt.pulled + (if (attemptStep H f content maxA s peers).st = .pulled then 1 else 0) :=
  attemptStep_cnt H f content maxA s peers hrun

/-- **C25_counts.** If the source has a sound presence check (`presenceNeedsFinal`, or `StatFile`
without the `.part` fallback) or a `Delete` that removes `.part`, then after ANY fault history, any
`processEntry` call that ends counted (skipped-local / pulled) leaves the file complete at its
final path. -/
theorem C25_counts (f : Facts) (hpo : f.orderOK = true) (hrep : f.repaired = true) (content : Bytes) (maxA : Nat)
    (r0 : Rep) (c0 : Counters) (hist : List (List (List Outcome))) (script : List (List Outcome))
    (h0 : GoodFinal H content r0) (hs : StartOK f content r0) :
    let rc := runHist H f content maxA (r0, c0) hist
    let s := runProc H f content maxA (PState.start rc.1 rc.2) script
    (s.st = .skipped ∨ s.st = .pulled) → Complete H content s.rep := by
  intro rc s hc
  by_cases hps : f.presenceSound = true
  · have hi := runHist_inv H (stepOK_any H f hpo content) maxA hist (r0, c0)
      (fun p _ => scriptIn_true p) ⟨h0, fun _ => trivial⟩
    exact runProc_counted H (stepOK_any H f hpo content) maxA (fun r _ => noPhantom_sound hps content r)
      script (PState.start rc.1 rc.2) (scriptIn_true _) hi rfl hc
  · have hdel : f.deleteRemovesPart = true := by
      unfold Facts.repaired at hrep; simp [hps] at hrep; exact hrep
    rcases hs with h | ⟨hne, hq⟩
    · exact absurd h hps
    · have hst := stepOK_delete H f hpo content hdel hne
      have hi := runHist_inv H hst maxA hist (r0, c0) (fun p _ => scriptIn_true p) ⟨h0, hq⟩
      exact runProc_counted H hst maxA (fun r hr => noPhantom_short hr.2)
        script (PState.start rc.1 rc.2) (scriptIn_true _) hi rfl hc

/-- **C25_counts_partial.** What holds for EVERY combination of code facts (in particular the
round-1 source): provided no transfer in the history is corrupted (`histClean`/`scriptClean`), the
file is non-empty and a staging file present at the start is a proper prefix of the file, every
counted call leaves the file complete.
Full statement (= `C25_counts` without the side condition on `f`) is refuted by
`C25_counts_witness`. -/
theorem C25_counts_partial (f : Facts) (hpo : f.orderOK = true) (content : Bytes) (maxA : Nat)
    (r0 : Rep) (c0 : Counters) (hist : List (List (List Outcome))) (script : List (List Outcome))
    (h0 : GoodFinal H content r0) (hne : content ≠ []) (hq : r0.final = none → PartPrefix content r0)
    (hclean : histClean hist = true) (hclean' : scriptClean script = true) :
    let rc := runHist H f content maxA (r0, c0) hist
    let s := runProc H f content maxA (PState.start rc.1 rc.2) script
    (s.st = .skipped ∨ s.st = .pulled) → Complete H content s.rep := by
  intro rc s hc
  have hst := stepOK_prefix H f hpo content hne
  have hh : ∀ p ∈ hist, ScriptIn NotCorrupt p := by
    intro p hp
    unfold histClean at hclean
    rw [List.all_eq_true] at hclean
    exact scriptClean_spec (hclean p hp)
  have hi := runHist_inv H hst maxA hist (r0, c0) hh ⟨h0, hq⟩
  exact runProc_counted H hst maxA (fun r hr => noPhantom_prefix hr.2)
    script (PState.start rc.1 rc.2) (scriptClean_spec hclean') hi rfl hc

/-! ## (c) convergence once the faults stop -/

/-- a fresh `processEntry` call whose first candidate peer is healthy, from a non-phantom state -/
theorem fresh_ok_call (f : Facts) (hpo : f.orderOK = true) (content : Bytes) (maxA : Nat) (r : Rep) (c : Counters)
    (rest : List Outcome) (more : List (List Outcome))
    (hg : GoodFinal H content r) (hnp : ¬ Phantom f content r) :
    let s := runProc H f content maxA (PState.start r c) ((.ok :: rest) :: more)
    (s.st = .skipped ∨ s.st = .pulled) ∧ Complete H content s.rep ∧
    (CollisionFree H → s.rep.final = some content) := by
  intro s
  have h := attemptStep_fresh_ok H hpo maxA r c rest hg hnp
  simp only at h
  have hs : s = attemptStep H f content maxA (PState.start r c) (.ok :: rest) := by
    show runProc H f content maxA (PState.start r c) ((.ok :: rest) :: more) = _
    simp only [runProc]
    apply runProc_of_not_running
    rcases h with ⟨h, _⟩ | ⟨h, _⟩ <;> rw [h] <;> simp
  rw [hs]
  rcases h with ⟨h1, h2, h3⟩ | ⟨h1, h2⟩
  · refine ⟨Or.inl h1, by rw [h2]; exact h3, fun hcf => ?_⟩
    rw [h2]
    obtain ⟨b, hb, hh, _⟩ := h3
    rw [hb, hcf b content hh]
  · refine ⟨Or.inr h1, ?_, fun _ => by rw [h2]⟩
    rw [h2]; exact ⟨content, rfl, rfl, rfl⟩

/-- **C25_converges.** With a repaired source: after ANY fault history, the next `processEntry`
call for the entry (FSM callback / catch-up re-enqueue) in which the first candidate peer is healthy
ends counted, with the file complete at its final path — and, for a collision-free digest, with
exactly the manifest file's bytes. -/
theorem C25_converges (f : Facts) (hpo : f.orderOK = true) (hrep : f.repaired = true) (content : Bytes) (maxA : Nat)
    (r0 : Rep) (c0 : Counters) (hist : List (List (List Outcome)))
    (rest : List Outcome) (more : List (List Outcome))
    (h0 : GoodFinal H content r0) (hs : StartOK f content r0) :
    let rc := runHist H f content maxA (r0, c0) hist
    let s := runProc H f content maxA (PState.start rc.1 rc.2) ((.ok :: rest) :: more)
    (s.st = .skipped ∨ s.st = .pulled) ∧ Complete H content s.rep ∧
    (CollisionFree H → s.rep.final = some content) := by
  intro rc
  by_cases hps : f.presenceSound = true
  · have hi := runHist_inv H (stepOK_any H f hpo content) maxA hist (r0, c0)
      (fun p _ => scriptIn_true p) ⟨h0, fun _ => trivial⟩
    exact fresh_ok_call H f hpo content maxA rc.1 rc.2 rest more hi.1 (noPhantom_sound hps content _)
  · have hdel : f.deleteRemovesPart = true := by
      unfold Facts.repaired at hrep; simp [hps] at hrep; exact hrep
    rcases hs with h | ⟨hne, hq⟩
    · exact absurd h hps
    · have hi := runHist_inv H (stepOK_delete H f hpo content hdel hne) maxA hist (r0, c0)
        (fun p _ => scriptIn_true p) ⟨h0, hq⟩
      exact fresh_ok_call H f hpo content maxA rc.1 rc.2 rest more hi.1 (noPhantom_short hi.2)

/-- **C25_converges_partial.** Every combination of code facts, same carve-out as
`C25_counts_partial`.  Full statement refuted by `C25_converges_witness`. -/
theorem C25_converges_partial (f : Facts) (hpo : f.orderOK = true) (content : Bytes) (maxA : Nat)
    (r0 : Rep) (c0 : Counters) (hist : List (List (List Outcome)))
    (rest : List Outcome) (more : List (List Outcome))
    (h0 : GoodFinal H content r0) (hne : content ≠ []) (hq : r0.final = none → PartPrefix content r0)
    (hclean : histClean hist = true) :
    let rc := runHist H f content maxA (r0, c0) hist
    let s := runProc H f content maxA (PState.start rc.1 rc.2) ((.ok :: rest) :: more)
    (s.st = .skipped ∨ s.st = .pulled) ∧ Complete H content s.rep ∧
    (CollisionFree H → s.rep.final = some content) := by
  intro rc
  have hh : ∀ p ∈ hist, ScriptIn NotCorrupt p := by
    intro p hp
    unfold histClean at hclean
    rw [List.all_eq_true] at hclean
    exact scriptClean_spec (hclean p hp)
  have hi := runHist_inv H (stepOK_prefix H f hpo content hne) maxA hist (r0, c0) hh ⟨h0, hq⟩
  exact fresh_ok_call H f hpo content maxA rc.1 rc.2 rest more hi.1 (noPhantom_prefix hi.2)
end

/-! ## witnesses: the round-1 source violates (b) and (c)

The digest is instantiated with the identity — a collision-free hash — so the failure is not an
artefact of hashing.  File `0a 0b 0c`, empty replica, up to 3 attempts.
Attempt 1: a full-length transfer with byte 0 altered → checksum mismatch → `Delete` removes the
final path only, the 3-byte `.part` stays.  Attempt 2 (healthy peer): `StatFile` falls back to
`.part`, 3 = SizeBytes → "already present": counted, nothing at the final path. -/

def wContent : Bytes := [10, 11, 12]
def wId : Bytes → Bytes := fun b => b

theorem wId_collisionFree : CollisionFree wId := fun _ _ h => h

/-- **C25_counts_witness.** Two-step fault sequence after which the real procedure counts the file
as present (`skippedLocal = 1`, status skipped) while the final path is empty. -/
theorem C25_counts_witness :
    let s := runProc wId Facts.current wContent 3 (PState.start ⟨none, none⟩ {}) [[.corrupt 0], [.ok]]
    s.st = .skipped ∧ s.cnt.skippedLocal = 1 ∧ s.rep.final = none ∧ s.rep.part = some [11, 11, 12] := by
  decide

/-- **C25_converges_witness.** … and it never recovers: any number of further all-healthy calls
leave the final path empty (shown for the next two). -/
theorem C25_converges_witness :
    let rc := runHist wId Facts.current wContent 3 (⟨none, none⟩, {}) [[[.corrupt 0], [.ok]]]
    let s1 := runProc wId Facts.current wContent 3 (PState.start rc.1 rc.2) [[.ok], [.ok], [.ok]]
    let s2 := runProc wId Facts.current wContent 3 (PState.start s1.rep s1.cnt) [[.ok], [.ok], [.ok]]
    s1.st = .skipped ∧ s1.rep.final = none ∧ s2.st = .skipped ∧ s2.rep.final = none := by
  decide

/-- the witness history is exactly what the carve-out of the `_partial` theorems excludes -/
theorem C25_witness_outside_carveout : histClean [[[.corrupt 0], [.ok]]] = false := by decide

/-! ## the current source -/

/-- **C25_promote_after_verdict.** Obligation on the current source (regenerated fact, read off
`LocalBackend.WriteReader`: `io.Copy(stagingFile, reader)` on the caller's un-limited reader, error
return before the single rename): promotion to the final path happens only after the verified-EOF
signal.  Every theorem above takes this as hypothesis `hpo`. -/
theorem C25_promote_after_verdict : Arc.Generated.C25.facts.promoteAfterVerdict = true := by decide

/-- **C25_no_resume_from_full.** With the `>=` boundary in `tryResumeFromPartial`, a local file of
length ≥ the manifest size is never used as a resume point: the fetch restarts from offset 0 (and
`WriteReader` truncates the staging file). -/
theorem C25_no_resume_from_full (f : Facts) (hrb : f.resumeFullPart = false) (size : Nat) (r : Rep)
    (n : Nat) (hs : statFile f r = some n) (hn : size ≤ n) : resumePrefix f size r = [] := by
  unfold resumePrefix
  rw [hs]
  simp [hrb, hn]

/-- **C25_resume_boundary.** Obligation on the current source (regenerated fact, read off the guard
of `tryResumeFromPartial`): the boundary is `partial >= entry.SizeBytes`. -/
theorem C25_resume_boundary : Arc.Generated.C25.facts.resumeFullPart = false := by decide

/-- **C25_order_ok.** Both step-order obligations (`hpo` of every theorem above) hold for the
current source. -/
theorem C25_order_ok : Arc.Generated.C25.facts.orderOK = true := by decide

/-- **C25_resume_boundary_witness.** Why the boundary matters (presence check repaired, `Delete`
leaves `.part`): after one full-length corrupted transfer the 3-byte `.part` is reused as resume
point, the peer rejects offset 3 = size with bad_offset, the bad-offset cleanup removes only the
final path — both fault-free retries are burnt and the call gives up.  With `>=` the same history
ends pulled. -/
theorem C25_resume_boundary_witness :
    let hist : List (List Outcome) := [[.corrupt 0], [.ok], [.ok]]
    let bad := runProc wId ⟨true, false, true, true, true⟩ wContent 3 (PState.start ⟨none, none⟩ {}) hist
    let good := runProc wId ⟨true, false, true, true, false⟩ wContent 3 (PState.start ⟨none, none⟩ {}) hist
    bad.st = .failed ∧ bad.rep = ⟨none, some [11, 11, 12]⟩ ∧ bad.cnt.badOffset = 2 ∧
    good.st = .pulled ∧ good.rep = ⟨some wContent, none⟩ := by
  decide

/-- **C25_early_promote_witness.** Why the obligation matters: with a `WriteReader` that stops
copying at the declared size, a full-length transfer with byte 0 altered is renamed onto the final
path before the checksum verdict (visible at `mid`), and only then removed by the cleanup. -/
theorem C25_early_promote_witness :
    let f : Facts := ⟨true, false, true, false, false⟩
    let po := pullOnce wId f wContent false ⟨none, none⟩ (.corrupt 0)
    po.mid.final = some [11, 11, 12] ∧ po.err = .checksum ∧ po.rep = ⟨none, none⟩ := by
  decide

/-- **C25_generated.** `Arc.Generated.C25.facts` is read off `LocalBackend.StatFile`,
`LocalBackend.Delete`, `LocalBackend.WriteReader` and `Puller.processEntry` on every run.  Either
the presence check / cleanup is repaired — then `C25_counts`/`C25_converges` apply — or it is
exactly the round-1 combination, for which the witnesses above are violations. -/
theorem C25_generated :
    Arc.Generated.C25.facts.repaired = true ∨
    (Arc.Generated.C25.facts.statPartFallback = true ∧ Arc.Generated.C25.facts.deleteRemovesPart = false ∧
      Arc.Generated.C25.facts.presenceNeedsFinal = false) := by
  decide

theorem C25_repaired_or_current (f : Facts) :
    f.repaired = true ∨
    (f.statPartFallback = true ∧ f.deleteRemovesPart = false ∧ f.presenceNeedsFinal = false) := by
  obtain ⟨a, b, c, d, e⟩ := f
  cases a <;> cases b <;> cases c <;> simp [Facts.repaired, Facts.presenceSound]

/-! ## non-vacuity -/

/-- hypotheses of `C25_counts`/`C25_converges` are satisfiable by a non-trivial state and history
(repaired facts, a stale 2-byte staging file, a truncation then a corruption then recovery) -/
example :
    let f : Facts := ⟨true, true, false, true, false⟩
    let r0 : Rep := ⟨none, some [10, 11]⟩
    f.repaired = true ∧ GoodFinal wId wContent r0 ∧ StartOK f wContent r0 ∧
    (runProc wId f wContent 3 (PState.start r0 {}) [[.trunc 1], [.corrupt 2], [.ok]]).st = .pulled ∧
    (runProc wId f wContent 3 (PState.start r0 {}) [[.trunc 1], [.corrupt 2], [.ok]]).rep.final = some wContent := by
  refine ⟨by decide, ?_, ?_, by decide, by decide⟩
  · intro b hb; cases hb
  · right; refine ⟨by decide, fun _ p hp => ?_⟩
    cases hp; decide

/-- hypotheses of the `_partial` theorems are satisfiable under the round-1 facts with a
non-trivial clean history (truncation, resume, wrong hash in the ack, success) -/
example :
    let r0 : Rep := ⟨none, some [10]⟩
    GoodFinal wId wContent r0 ∧ PartPrefix wContent r0 ∧
    histClean [[[.trunc 2], [.ackWrongHash, .trunc 1], [.dialFail]]] = true ∧
    (runProc wId Facts.current wContent 3 (PState.start r0 {}) [[.trunc 2], [.ackWrongHash], [.ok]]).st = .pulled := by
  refine ⟨?_, ?_, by decide, by decide⟩
  · intro b hb; cases hb
  · intro p hp; cases hp; decide

end Arc.C25
