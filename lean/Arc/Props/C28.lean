import Arc.Model.C28
import Arc.Generated.C28
/-!
# C28 — query rate limits and quotas are never exceeded

Helper lemmas first (names do not start with `C28_`), property theorems `C28_*` below.
-/
namespace Arc.C28

/-! ## generic: "every entry of a trace is fine w.r.t. the entries before it" -/

/-- `SafeBy P past tr`: walking through `tr` (chronological), each entry `e` satisfies
`P e (e :: everything before it)`; `past` is what came before `tr` (newest first). -/
def SafeBy {α : Type} (P : α → List α → Prop) : List α → List α → Prop
  | _, [] => True
  | past, e :: rest => P e (e :: past) ∧ SafeBy P (e :: past) rest

theorem SafeBy.split {α : Type} {P : α → List α → Prop} :
    ∀ (tr past pre : List α) (e : α) (suf : List α), SafeBy P past tr → tr = pre ++ e :: suf →
      P e (e :: (pre.reverse ++ past)) := by
  intro tr
  induction tr with
  | nil => intro past pre e suf _ h; cases pre <;> simp at h
  | cons a rest ih =>
    intro past pre e suf hs h
    cases pre with
    | nil =>
      simp at h
      obtain ⟨rfl, rfl⟩ := h
      simpa using hs.1
    | cons b pre' =>
      simp at h
      obtain ⟨rfl, h2⟩ := h
      have := ih (a :: past) pre' e suf hs.2 h2
      simpa [List.reverse_cons, List.append_assoc] using this

/-! ## sliding window -/

inductive SWEv
  | allow (now : Int)      -- `Allow()` at clock reading `now`
  | touch (now : Int)      -- `Remaining()` / `RetryAfterSec()` (they run `advance`)
  | setLimit (l : Int)     -- `UpdateLimit(l)`
deriving Repr

structure SWEntry where
  now   : Int    -- clock reading of the request
  slot  : Int    -- `lastSlotTime` after `advance` (the limiter's truncated notion of "now")
  adm   : Bool   -- admitted?
  limit : Int    -- the limit in force for this request
deriving Repr

/-- the admit/reject decisions (with their times) of a history of operations on one limiter. -/
def swTrace (s : SW) : List SWEv → List SWEntry
  | [] => []
  | .allow now :: es =>
    ⟨now, (swAllow s now).1.last, (swAllow s now).2, (swAllow s now).1.limit⟩ :: swTrace (swAllow s now).1 es
  | .touch now :: es => swTrace (advance s now) es
  | .setLimit l :: es => swTrace (swSetLimit s l) es

/-- admitted entries whose slot lies strictly after `lo`. -/
def cntAfter (lo : Int) (tr : List SWEntry) : Nat := tr.countP (fun x => x.adm && decide (lo < x.slot))

theorem cntAfter_mono (tr : List SWEntry) (a b : Int) (h : a ≤ b) : cntAfter b tr ≤ cntAfter a tr := by
  unfold cntAfter
  apply List.countP_mono_left
  intro x _ hx
  simp only [Bool.and_eq_true, decide_eq_true_eq] at hx ⊢
  exact ⟨hx.1, by omega⟩

structure WF (s : SW) : Prop where
  dpos : 0 < s.d
  npos : 0 < s.n
  len  : s.recent.length = s.n
  tot  : s.total = (s.recent.sum : Nat)

/-- the newest `k` slots account for every admitted request with slot after `L - k·d`. -/
def Covers (d : Int) (n : Nat) (L : Int) (r : List Nat) (past : List SWEntry) : Prop :=
  ∀ k : Nat, k ≤ n → cntAfter (L - k * d) past ≤ (r.take k).sum

structure Good (s : SW) (past : List SWEntry) : Prop where
  wf  : WF s
  cov : Covers s.d s.n s.last s.recent past

theorem sum_dropLast_lastOr0 : ∀ r : List Nat, r.dropLast.sum + lastOr0 r = r.sum
  | [] => by simp [lastOr0]
  | [a] => by simp [lastOr0]
  | a :: b :: t => by
    have := sum_dropLast_lastOr0 (b :: t)
    simp only [List.dropLast_cons_cons, List.sum_cons, lastOr0] at this ⊢
    omega

theorem shift1_d (s : SW) : (shift1 s).d = s.d := rfl
theorem shift1_n (s : SW) : (shift1 s).n = s.n := rfl
theorem shift1_last (s : SW) : (shift1 s).last = s.last := rfl
theorem shift1_limit (s : SW) : (shift1 s).limit = s.limit := rfl

theorem shiftN_d : ∀ (k : Nat) (s : SW), (shiftN k s).d = s.d
  | 0, _ => rfl
  | k + 1, s => by simp [shiftN, shiftN_d k, shift1_d]
theorem shiftN_n : ∀ (k : Nat) (s : SW), (shiftN k s).n = s.n
  | 0, _ => rfl
  | k + 1, s => by simp [shiftN, shiftN_n k, shift1_n]
theorem shiftN_limit : ∀ (k : Nat) (s : SW), (shiftN k s).limit = s.limit
  | 0, _ => rfl
  | k + 1, s => by simp [shiftN, shiftN_limit k, shift1_limit]

theorem shift1_wf (s : SW) (h : WF s) : WF (shift1 s) := by
  have hne : s.recent ≠ [] := by
    intro h0; have := h.len; rw [h0] at this; simp at this; have := h.npos; omega
  refine ⟨h.dpos, h.npos, ?_, ?_⟩
  · show (0 :: s.recent.dropLast).length = s.n
    simp [List.length_dropLast, h.len]; have := h.npos; omega
  · show s.total - (lastOr0 s.recent : Nat) = ((0 :: s.recent.dropLast).sum : Nat)
    have := sum_dropLast_lastOr0 s.recent
    rw [h.tot]; simp only [List.sum_cons]; omega

theorem shift1_covers (s : SW) (past : List SWEntry) (L : Int) (hw : WF s)
    (hc : Covers s.d s.n L s.recent past) : Covers s.d s.n (L + s.d) (shift1 s).recent past := by
  intro k hk
  show cntAfter (L + s.d - k * s.d) past ≤ ((0 :: s.recent.dropLast).take k).sum
  cases k with
  | zero =>
    have h0 := hc 0 (Nat.zero_le _)
    have hm := cntAfter_mono past (L - (0 : Nat) * s.d) (L + s.d - (0 : Nat) * s.d) (by have := hw.dpos; simp; omega)
    simp at h0 hm ⊢
    omega
  | succ k' =>
    have h1 := hc k' (by omega)
    have e1 : L + s.d - ((k' + 1 : Nat) : Int) * s.d = L - (k' : Int) * s.d := by
      rw [Int.natCast_add, Int.add_mul]; simp; omega
    rw [e1]
    have e2 : ((0 :: s.recent.dropLast).take (k' + 1)).sum = (s.recent.take k').sum := by
      simp only [List.take_succ_cons, List.sum_cons, Nat.zero_add]
      rw [List.dropLast_eq_take, List.take_take]
      congr 2
      have := hw.len; omega
    rw [e2]; exact h1

theorem shiftN_good : ∀ (j : Nat) (s : SW) (past : List SWEntry) (L : Int), WF s →
    Covers s.d s.n L s.recent past →
    WF (shiftN j s) ∧ Covers s.d s.n (L + j * s.d) (shiftN j s).recent past
  | 0, s, past, L, hw, hc => by simpa [shiftN] using ⟨hw, hc⟩
  | j + 1, s, past, L, hw, hc => by
    have hw1 := shift1_wf s hw
    have hc1 := shift1_covers s past L hw hc
    have := shiftN_good j (shift1 s) past (L + s.d) hw1 (by simpa [shift1_d, shift1_n] using hc1)
    simp only [shiftN]
    refine ⟨this.1, ?_⟩
    have e : L + ((j + 1 : Nat) : Int) * s.d = L + s.d + (j : Int) * (shift1 s).d := by
      rw [Int.natCast_add, Int.add_mul, shift1_d]; simp; omega
    rw [e]
    simpa [shift1_d, shift1_n] using this.2

theorem covers_later (d : Int) (n : Nat) (L L' : Int) (r : List Nat) (past : List SWEntry)
    (h : L ≤ L') (hc : Covers d n L r past) : Covers d n L' r past := by
  intro k hk
  exact Nat.le_trans (cntAfter_mono past _ _ (by omega)) (hc k hk)

theorem sum_take_replicate_zero (n k : Nat) : ((List.replicate n 0).take k).sum = 0 := by
  simp [List.take_replicate]

theorem advance_d (s : SW) (now : Int) : (advance s now).d = s.d := by
  unfold advance; split
  · rfl
  · split
    · rfl
    · simp [shiftN_d]
theorem advance_n (s : SW) (now : Int) : (advance s now).n = s.n := by
  unfold advance; split
  · rfl
  · split
    · rfl
    · simp [shiftN_n]
theorem advance_limit (s : SW) (now : Int) : (advance s now).limit = s.limit := by
  unfold advance; split
  · rfl
  · split
    · rfl
    · simp [shiftN_limit]

theorem advance_good (s : SW) (past : List SWEntry) (now : Int) (h : Good s past) :
    Good (advance s now) past := by
  have hd := h.wf.dpos
  unfold advance
  split
  · exact h
  · rename_i hel
    split
    · -- whole window expired
      rename_i hk
      refine ⟨⟨hd, h.wf.npos, by simp [swReset], by simp [swReset]⟩, ?_⟩
      intro k hkn
      show cntAfter (trunc s.d now - k * s.d) past ≤ ((List.replicate s.n 0).take k).sum
      rw [sum_take_replicate_zero]
      have h0 := h.cov 0 (Nat.zero_le _)
      simp at h0
      have hge : (s.n : Int) * s.d ≤ trunc s.d now - s.last := by
        have h1 : (trunc s.d now - s.last) / s.d * s.d ≤ trunc s.d now - s.last :=
          Int.ediv_mul_le _ (by omega)
        have h2 : (s.n : Int) * s.d ≤ (trunc s.d now - s.last) / s.d * s.d :=
          Int.mul_le_mul_of_nonneg_right hk (by omega)
        omega
      have hkd : (k : Int) * s.d ≤ (s.n : Int) * s.d :=
        Int.mul_le_mul_of_nonneg_right (by exact_mod_cast hkn) (by omega)
      have := cntAfter_mono past s.last (trunc s.d now - k * s.d) (by omega)
      omega
    · rename_i hk
      have hq : 0 ≤ (trunc s.d now - s.last) / s.d := Int.ediv_nonneg (by omega) (by omega)
      have hj : (((trunc s.d now - s.last) / s.d).toNat : Int) = (trunc s.d now - s.last) / s.d :=
        Int.toNat_of_nonneg hq
      have hsg := shiftN_good ((trunc s.d now - s.last) / s.d).toNat s past s.last h.wf h.cov
      refine ⟨⟨by simpa [shiftN_d] using hd, by simpa [shiftN_n] using h.wf.npos, ?_, ?_⟩, ?_⟩
      · simpa [shiftN_n] using hsg.1.len
      · simpa using hsg.1.tot
      · show Covers (shiftN _ s).d (shiftN _ s).n (trunc s.d now) (shiftN _ s).recent past
        rw [shiftN_d, shiftN_n]
        apply covers_later _ _ _ _ _ _ ?_ hsg.2
        rw [hj]
        have h1 : (trunc s.d now - s.last) / s.d * s.d ≤ trunc s.d now - s.last :=
          Int.ediv_mul_le _ (by omega)
        omega

theorem sum_take_bump (r : List Nat) (k : Nat) (hr : r ≠ []) :
    ((bump r).take (k + 1)).sum = (r.take (k + 1)).sum + 1 := by
  cases r with
  | nil => exact absurd rfl hr
  | cons x xs => simp [bump, List.take_succ_cons]; omega

theorem cntAfter_cons (lo : Int) (e : SWEntry) (past : List SWEntry) :
    cntAfter lo (e :: past) = cntAfter lo past + (if e.adm && decide (lo < e.slot) then 1 else 0) := by
  simp [cntAfter, List.countP_cons]

/-- the slot-level statement for one admitted request `e`: among `e` and everything before it, the
admitted requests whose slot is one of the `n` newest (as of `e`) number at most the limit. -/
def SlotOK (d : Int) (n : Nat) (e : SWEntry) (upto : List SWEntry) : Prop :=
  e.adm = true → 0 < e.limit → (cntAfter (e.slot - n * d) upto : Int) ≤ e.limit

theorem allow_good (s : SW) (past : List SWEntry) (now : Int) (h : Good s past) :
    Good (swAllow s now).1
        (⟨now, (swAllow s now).1.last, (swAllow s now).2, (swAllow s now).1.limit⟩ :: past) ∧
      SlotOK s.d s.n ⟨now, (swAllow s now).1.last, (swAllow s now).2, (swAllow s now).1.limit⟩
        (⟨now, (swAllow s now).1.last, (swAllow s now).2, (swAllow s now).1.limit⟩ :: past) := by
  have ha := advance_good s past now h
  have hd := ha.wf.dpos
  unfold swAllow
  by_cases hf : swFull (advance s now) = true
  · -- rejected
    simp only [if_pos hf]
    refine ⟨⟨ha.wf, ?_⟩, ?_⟩
    · intro k hk
      rw [cntAfter_cons]; simp; exact ha.cov k hk
    · intro hadm; simp at hadm
  · simp only [if_neg hf]
    have hne : (advance s now).recent ≠ [] := by
      intro h0; have := ha.wf.len; rw [h0] at this; simp at this; have := ha.wf.npos; omega
    refine ⟨⟨⟨hd, ha.wf.npos, ?_, ?_⟩, ?_⟩, ?_⟩
    · show (bump (advance s now).recent).length = (advance s now).n
      cases hr : (advance s now).recent with
      | nil => exact absurd hr hne
      | cons x xs => have := ha.wf.len; rw [hr] at this; simpa [bump] using this
    · show (advance s now).total + 1 = ((bump (advance s now).recent).sum : Nat)
      cases hr : (advance s now).recent with
      | nil => exact absurd hr hne
      | cons x xs =>
        have := ha.wf.tot; rw [hr] at this
        simp only [bump, List.sum_cons] at this ⊢; omega
    · intro k hk
      show cntAfter ((advance s now).last - k * (advance s now).d) (_ :: past) ≤ ((bump (advance s now).recent).take k).sum
      rw [cntAfter_cons]
      cases k with
      | zero =>
        have := ha.cov 0 (Nat.zero_le _)
        simp at this ⊢; exact ⟨this, Int.le_refl _⟩
      | succ k' =>
        rw [sum_take_bump _ _ hne]
        have := ha.cov (k' + 1) hk
        split <;> omega
    · intro _ hlim
      show (cntAfter ((advance s now).last - s.n * s.d) (_ :: past) : Int) ≤ (advance s now).limit
      rw [cntAfter_cons]
      have hc := ha.cov (advance s now).n (Nat.le_refl _)
      rw [advance_n, advance_d] at hc
      have htk : (advance s now).recent.take s.n = (advance s now).recent := by
        apply List.take_of_length_le; rw [ha.wf.len, advance_n]; exact Nat.le_refl _
      rw [htk] at hc
      have htot := ha.wf.tot
      have hnf : ¬ ((0 < (advance s now).limit) ∧ (advance s now).limit ≤ (advance s now).total) := by
        intro hh; apply hf; simp [swFull, hh.1, hh.2]
      have hlim' : 0 < (advance s now).limit := hlim
      have : (advance s now).total < (advance s now).limit := by omega
      split <;> omega

theorem swTrace_safe (evs : List SWEv) : ∀ (s : SW) (past : List SWEntry), Good s past →
    SafeBy (SlotOK s.d s.n) past (swTrace s evs) := by
  induction evs with
  | nil => intro s past _; trivial
  | cons ev es ih =>
    intro s past h
    cases ev with
    | allow now =>
      have hg := allow_good s past now h
      simp only [swTrace, SafeBy]
      refine ⟨hg.2, ?_⟩
      have hd : (swAllow s now).1.d = s.d := by
        unfold swAllow; split <;> simp [countIn, advance_d]
      have hn : (swAllow s now).1.n = s.n := by
        unfold swAllow; split <;> simp [countIn, advance_n]
      have := ih (swAllow s now).1 _ hg.1
      rwa [hd, hn] at this
    | touch now =>
      simp only [swTrace]
      have := ih (advance s now) past (advance_good s past now h)
      rwa [advance_d, advance_n] at this
    | setLimit l =>
      simp only [swTrace]
      exact ih (swSetLimit s l) past ⟨⟨h.wf.dpos, h.wf.npos, h.wf.len, h.wf.tot⟩, h.cov⟩

theorem swNew_d_pos (w slots limit now : Int) : 0 < (swNew w slots limit now).d := by
  simp only [swNew]; split <;> (simp only [msNs] at *; omega)

theorem swNew_good (w slots limit now : Int) : Good (swNew w slots limit now) [] := by
  refine ⟨⟨swNew_d_pos _ _ _ _, ?_, by simp [swNew], by simp [swNew]⟩, ?_⟩
  · simp only [swNew]; split
    · decide
    · omega
  · intro k _; simp [cntAfter]

/-! ### from slots to clock readings (non-decreasing clock) -/

/-- the clock readings of a history are non-decreasing and not before `t`. Forward jumps of any
size are allowed. -/
def MonoFrom : Int → List SWEv → Prop
  | _, [] => True
  | t, .allow now :: es => t ≤ now ∧ MonoFrom now es
  | t, .touch now :: es => t ≤ now ∧ MonoFrom now es
  | t, .setLimit _ :: es => MonoFrom t es

theorem trunc_eq (d a : Int) (hd : 0 < d) : trunc d a = d * ((a + goEpochOffNs) / d) - goEpochOffNs := by
  unfold trunc
  have : ¬ d ≤ 0 := by omega
  simp only [this, if_false]
  rw [Int.emod_def]; omega

theorem trunc_mono (d a b : Int) (hd : 0 < d) (h : a ≤ b) : trunc d a ≤ trunc d b := by
  rw [trunc_eq d a hd, trunc_eq d b hd]
  have := Int.ediv_le_ediv hd (show a + goEpochOffNs ≤ b + goEpochOffNs by omega)
  have := Int.mul_le_mul_of_nonneg_left this (show 0 ≤ d by omega)
  omega

theorem trunc_bounds (d a : Int) (hd : 0 < d) : trunc d a ≤ a ∧ a < trunc d a + d := by
  unfold trunc
  have : ¬ d ≤ 0 := by omega
  simp only [this, if_false]
  have h1 := Int.emod_nonneg (a + goEpochOffNs) (show d ≠ 0 by omega)
  have h2 := Int.emod_lt_of_pos (a + goEpochOffNs) hd
  omega

theorem advance_last (s : SW) (now : Int) (h : s.last ≤ trunc s.d now) :
    (advance s now).last = trunc s.d now := by
  unfold advance
  split
  · omega
  · split <;> rfl

theorem swAllow_last (s : SW) (now : Int) : (swAllow s now).1.last = (advance s now).last := by
  unfold swAllow; split <;> rfl
theorem swAllow_d (s : SW) (now : Int) : (swAllow s now).1.d = s.d := by
  unfold swAllow; split <;> simp [countIn, advance_d]
theorem swAllow_n (s : SW) (now : Int) : (swAllow s now).1.n = s.n := by
  unfold swAllow; split <;> simp [countIn, advance_n]

theorem trace_slots (evs : List SWEv) : ∀ (s : SW) (t : Int), 0 < s.d → s.last ≤ trunc s.d t →
    MonoFrom t evs → ∀ x ∈ swTrace s evs, x.slot = trunc s.d x.now := by
  induction evs with
  | nil => intro s t _ _ _ x hx; simp [swTrace] at hx
  | cons ev es ih =>
    intro s t hd hl hm x hx
    cases ev with
    | allow now =>
      simp only [MonoFrom] at hm
      have hl' : s.last ≤ trunc s.d now := Int.le_trans hl (trunc_mono _ _ _ hd hm.1)
      have hlast : (swAllow s now).1.last = trunc s.d now := by rw [swAllow_last, advance_last s now hl']
      simp only [swTrace, List.mem_cons] at hx
      rcases hx with rfl | hx
      · exact hlast
      · have := ih (swAllow s now).1 now (by rw [swAllow_d]; exact hd)
          (by rw [swAllow_d, hlast]; exact Int.le_refl _) hm.2 x hx
        rwa [swAllow_d] at this
    | touch now =>
      simp only [MonoFrom] at hm
      have hl' : s.last ≤ trunc s.d now := Int.le_trans hl (trunc_mono _ _ _ hd hm.1)
      simp only [swTrace] at hx
      have := ih (advance s now) now (by rw [advance_d]; exact hd)
        (by rw [advance_d, advance_last s now hl']; exact Int.le_refl _) hm.2 x hx
      rwa [advance_d] at this
    | setLimit l =>
      simp only [MonoFrom] at hm
      simp only [swTrace] at hx
      exact ih (swSetLimit s l) t hd hl hm x hx

/-! ### property theorems: rate-limit window -/

/-- **C28_window_slots** (all histories, any clock — also one that jumps backwards). For every
admitted request `e` of any history of `Allow`/`Remaining`/`RetryAfterSec`/`UpdateLimit` calls on a
limiter created by `newSlidingWindowCounter(w, slots, limit)`: the admitted requests up to and
including `e` whose slot (the limiter's `lastSlotTime` when they were handled) is among the `n`
slots ending with `e`'s number at most the limit in force for `e`. -/
theorem C28_window_slots (w slots limit t0 : Int) (evs : List SWEv)
    (pre : List SWEntry) (e : SWEntry) (suf : List SWEntry)
    (htr : swTrace (swNew w slots limit t0) evs = pre ++ e :: suf)
    (hadm : e.adm = true) (hlim : 0 < e.limit) :
    (cntAfter (e.slot - (swNew w slots limit t0).n * (swNew w slots limit t0).d) (pre ++ [e]) : Int) ≤ e.limit := by
  have hs := swTrace_safe evs (swNew w slots limit t0) [] (swNew_good w slots limit t0)
  have := SafeBy.split _ _ pre e suf hs htr hadm hlim
  have hperm : cntAfter (e.slot - (swNew w slots limit t0).n * (swNew w slots limit t0).d) (pre ++ [e])
      = cntAfter (e.slot - (swNew w slots limit t0).n * (swNew w slots limit t0).d) (e :: (pre.reverse ++ [])) := by
    simp [cntAfter, List.countP_append, List.countP_cons, List.countP_reverse]
  rw [hperm]; exact this

/-- admitted requests among `tr` that lie at most `len` ns before `e` (closed window `[e.now-len, e.now]`). -/
def cntWithin (len : Int) (e : SWEntry) (tr : List SWEntry) : Nat :=
  tr.countP (fun x => x.adm && decide (e.now - x.now ≤ len))

/-
The property as stated would be (W = the configured window, `n·d` for the two call sites):

  theorem C28_window_full … (hmono : MonoFrom t0 evs) … :
      (cntWithin (W - 1) e (pre ++ [e]) : Int) ≤ e.limit          -- any window of length W

It is FALSE for the code as written (`C28_window_full_witness` below; reproduced on the real
limiter by the harness, keys `window-exceeded:*`): the ring covers the current, partly elapsed
slot plus `n-1` older ones, i.e. only `(n-1)·d … n·d` of real time.  What the code guarantees:
-/

/-- **C28_window_partial.** Under a non-decreasing clock (arbitrary forward jumps, bursts, limit
updates): in every window of length `(n-1)·d` ending at an admitted request — `59 s` for the
per-minute limiter, `59 min` for the per-hour limiter — at most `limit` requests are admitted,
`limit` being the limit in force for that request. -/
theorem C28_window_partial (w slots limit t0 : Int) (evs : List SWEv)
    (hmono : MonoFrom t0 evs)
    (pre : List SWEntry) (e : SWEntry) (suf : List SWEntry)
    (htr : swTrace (swNew w slots limit t0) evs = pre ++ e :: suf)
    (hadm : e.adm = true) (hlim : 0 < e.limit) :
    (cntWithin (((swNew w slots limit t0).n - 1) * (swNew w slots limit t0).d) e (pre ++ [e]) : Int) ≤ e.limit := by
  have hd := swNew_d_pos w slots limit t0
  have hslots := trace_slots evs (swNew w slots limit t0) t0 hd
    (by simp only [swNew]; exact Int.le_refl _) hmono
  have hmain := C28_window_slots w slots limit t0 evs pre e suf htr hadm hlim
  refine Int.le_trans ?_ hmain
  have hmem : ∀ x ∈ pre ++ [e], x ∈ swTrace (swNew w slots limit t0) evs := by
    intro x hx; rw [htr]; simp at hx ⊢; rcases hx with h | h
    · exact Or.inl h
    · exact Or.inr (Or.inl h)
  have he := hslots e (hmem e (by simp))
  apply Int.ofNat_le.mpr
  unfold cntWithin cntAfter
  apply List.countP_mono_left
  intro x hx hp
  simp only [Bool.and_eq_true, decide_eq_true_eq] at hp ⊢
  refine ⟨hp.1, ?_⟩
  have hx' := hslots x (hmem x hx)
  rw [hx', he]
  have b1 := trunc_bounds (swNew w slots limit t0).d x.now hd
  have b2 := trunc_bounds (swNew w slots limit t0).d e.now hd
  have := hp.2
  rw [Int.sub_mul] at this
  omega

/-- **C28_window_full_witness.** The per-minute limiter (`window = 60 s`, `60` slots) with limit 2
admits 4 requests that all lie within 59.000000001 s: two at the very end of one slot and two at
the start of the slot 60 later. Same shape for the per-hour limiter (59 min + 1 ns). -/
theorem C28_window_full_witness :
    (swTrace (swNew 60000000000 60 2 0)
        [.allow 999999999, .allow 999999999, .allow 60000000000, .allow 60000000000]).map
      (fun x => (x.now, x.adm, x.limit))
      = [(999999999, true, 2), (999999999, true, 2), (60000000000, true, 2), (60000000000, true, 2)] := by
  decide

/-- … in the vocabulary of the full statement: the last of these requests sees 4 admitted requests in
the window of length `W` ending at it, under limit 2. -/
theorem C28_window_full_witness_count :
    let tr := swTrace (swNew 60000000000 60 2 0)
      [.allow 999999999, .allow 999999999, .allow 60000000000, .allow 60000000000]
    cntWithin (60000000000 - 1) ⟨60000000000, 60000000000, true, 2⟩ tr = 4 := by
  decide

/-- non-vacuity of `C28_window_partial`: a monotone history with a rejection, a limit update, a
forward jump and admitted requests (the last one, under limit 3, satisfies every hypothesis). -/
example :
    let evs : List SWEv := [.allow 5, .allow 6, .allow 7, .setLimit 3, .touch 2000000000, .allow 58999999999, .allow 61000000000]
    MonoFrom 0 evs ∧
    (swTrace (swNew 60000000000 60 2 0) evs).map (fun x => (x.adm, x.limit)) =
      [(true, 2), (true, 2), (false, 2), (true, 3), (true, 3)] := by
  refine ⟨by simp only [MonoFrom, and_true]; omega, by decide +kernel⟩

/-! ### with a constant limit: at most `2·limit` per configured window -/

def NoSetLimit : List SWEv → Prop
  | [] => True
  | .setLimit _ :: _ => False
  | _ :: es => NoSetLimit es

/-- admitted entries handled in exactly the slot starting at `S`. -/
def cntAt (S : Int) (tr : List SWEntry) : Nat := tr.countP (fun x => x.adm && decide (x.slot = S))

theorem cntAt_cons (S : Int) (e : SWEntry) (past : List SWEntry) :
    cntAt S (e :: past) = cntAt S past + (if e.adm && decide (e.slot = S) then 1 else 0) := by
  simp [cntAt, List.countP_cons]

theorem cntAt_le_cntAfter (S lo : Int) (past : List SWEntry) (h : lo < S) : cntAt S past ≤ cntAfter lo past := by
  unfold cntAt cntAfter
  apply List.countP_mono_left
  intro x _ hx
  simp only [Bool.and_eq_true, decide_eq_true_eq] at hx ⊢
  exact ⟨hx.1, by omega⟩

def PerSlotOK (L : Int) (_e : SWEntry) (upto : List SWEntry) : Prop := ∀ S, (cntAt S upto : Int) ≤ L

theorem swAllow_limit (s : SW) (now : Int) : (swAllow s now).1.limit = s.limit := by
  unfold swAllow; split <;> simp [countIn, advance_limit]

theorem swTrace_perSlot (evs : List SWEv) : NoSetLimit evs → ∀ (s : SW) (past : List SWEntry) (L : Int),
    Good s past → s.limit = L → 0 < L → (∀ S, (cntAt S past : Int) ≤ L) →
    SafeBy (PerSlotOK L) past (swTrace s evs) := by
  induction evs with
  | nil => intro _ s past L _ _ _ _; trivial
  | cons ev es ih =>
    intro hns s past L hg hL hpos hps
    cases ev with
    | setLimit l => simp [NoSetLimit] at hns
    | touch now =>
      simp only [NoSetLimit] at hns
      simp only [swTrace]
      exact ih hns (advance s now) past L (advance_good s past now hg) (by rw [advance_limit]; exact hL) hpos hps
    | allow now =>
      simp only [NoSetLimit] at hns
      have hag := allow_good s past now hg
      have ha := advance_good s past now hg
      simp only [swTrace, SafeBy]
      have key : ∀ S, (cntAt S (⟨now, (swAllow s now).1.last, (swAllow s now).2, (swAllow s now).1.limit⟩ :: past) : Int) ≤ L := by
        intro S
        rw [cntAt_cons]
        have hS := hps S
        by_cases hf : swFull (advance s now) = true
        · have : (swAllow s now).2 = false := by unfold swAllow; simp [hf]
          simp [this]; exact hS
        · have h2 : (swAllow s now).2 = true := by unfold swAllow; simp [hf]
          have h1 : (swAllow s now).1.last = (advance s now).last := swAllow_last s now
          simp only [h1, h2, Bool.true_and]
          by_cases hs : (advance s now).last = S
          · subst hs
            simp only [decide_true, if_true]
            -- everything admitted in the current slot is covered by the ring
            have hc := ha.cov (advance s now).n (Nat.le_refl _)
            have htk : (advance s now).recent.take (advance s now).n = (advance s now).recent := by
              apply List.take_of_length_le; rw [ha.wf.len]; exact Nat.le_refl _
            rw [htk] at hc
            have hnd : 0 < ((advance s now).n : Int) * (advance s now).d :=
              Int.mul_pos (by have := ha.wf.npos; omega) ha.wf.dpos
            have hle := cntAt_le_cntAfter (advance s now).last
              ((advance s now).last - (advance s now).n * (advance s now).d) past (by omega)
            have htot := ha.wf.tot
            have hnf : ¬ ((0 < (advance s now).limit) ∧ (advance s now).limit ≤ (advance s now).total) := by
              intro hh; apply hf; simp [swFull, hh.1, hh.2]
            have hl : (advance s now).limit = L := by rw [advance_limit]; exact hL
            rw [hl] at hnf
            have : (advance s now).total < L := by omega
            show ((cntAt (advance s now).last past + 1 : Nat) : Int) ≤ L
            omega
          · simp [hs]; exact hS
      exact ⟨key, ih hns (swAllow s now).1 _ L hag.1 (by rw [swAllow_limit]; exact hL) hpos key⟩

theorem trace_limit (evs : List SWEv) : NoSetLimit evs → ∀ (s : SW), ∀ x ∈ swTrace s evs, x.limit = s.limit := by
  induction evs with
  | nil => intro _ s x hx; simp [swTrace] at hx
  | cons ev es ih =>
    intro hns s x hx
    cases ev with
    | setLimit l => simp [NoSetLimit] at hns
    | touch now =>
      simp only [NoSetLimit] at hns
      simp only [swTrace] at hx
      rw [ih hns _ x hx, advance_limit]
    | allow now =>
      simp only [NoSetLimit] at hns
      simp only [swTrace, List.mem_cons] at hx
      rcases hx with rfl | hx
      · exact swAllow_limit s now
      · rw [ih hns _ x hx, swAllow_limit]

theorem countP_or_le {α : Type} (p q : α → Bool) (l : List α) :
    l.countP (fun x => p x || q x) ≤ l.countP p + l.countP q := by
  induction l with
  | nil => simp
  | cons a t ih =>
    simp only [List.countP_cons]
    cases p a <;> cases q a <;> simp <;> omega

theorem slot_cases (d : Int) (n : Nat) (a b : Int) (hd : 0 < d) (h : b - a ≤ n * d) :
    trunc d b - n * d < trunc d a ∨ trunc d a = trunc d b - n * d := by
  rw [trunc_eq d a hd, trunc_eq d b hd]
  have h1 : (b + goEpochOffNs) / d ≤ (a + goEpochOffNs + n * d) / d :=
    Int.ediv_le_ediv hd (by omega)
  rw [Int.add_mul_ediv_right _ _ (by omega : d ≠ 0)] at h1
  by_cases hc : (b + goEpochOffNs) / d ≤ (a + goEpochOffNs) / d + n - 1
  · left
    have := Int.mul_le_mul_of_nonneg_left hc (show 0 ≤ d by omega)
    rw [Int.mul_sub, Int.mul_add, Int.mul_one, Int.mul_comm d n] at this
    omega
  · right
    have he : (b + goEpochOffNs) / d = (a + goEpochOffNs) / d + n := by omega
    rw [he, Int.mul_add, Int.mul_comm d n]
    omega

/-- **C28_window_2x.** With a constant limit and a non-decreasing clock, every window of the
configured kind of length `n·d` (= the configured window for both call sites, `C28_sites_cover`)
ending at an admitted request contains at most `2·limit` admitted requests — the exact price of
the slot granularity (`C28_window_full_witness` reaches it). -/
theorem C28_window_2x (w slots limit t0 : Int) (evs : List SWEv)
    (hns : NoSetLimit evs) (hmono : MonoFrom t0 evs) (hpos : 0 < limit)
    (pre : List SWEntry) (e : SWEntry) (suf : List SWEntry)
    (htr : swTrace (swNew w slots limit t0) evs = pre ++ e :: suf) (hadm : e.adm = true) :
    (cntWithin ((swNew w slots limit t0).n * (swNew w slots limit t0).d) e (pre ++ [e]) : Int) ≤ 2 * limit := by
  have hd := swNew_d_pos w slots limit t0
  have hmem : ∀ x ∈ pre ++ [e], x ∈ swTrace (swNew w slots limit t0) evs := by
    intro x hx; rw [htr]; simp at hx ⊢; rcases hx with h | h
    · exact Or.inl h
    · exact Or.inr (Or.inl h)
  have hlim : e.limit = limit := trace_limit evs hns _ e (hmem e (by simp))
  have hslots := trace_slots evs (swNew w slots limit t0) t0 hd
    (by simp only [swNew]; exact Int.le_refl _) hmono
  have he := hslots e (hmem e (by simp))
  have h1 := C28_window_slots w slots limit t0 evs pre e suf htr hadm (by rw [hlim]; exact hpos)
  rw [hlim] at h1
  have hps := swTrace_perSlot evs hns (swNew w slots limit t0) [] limit (swNew_good w slots limit t0) rfl hpos
    (by intro S; simp [cntAt]; omega)
  have h2 := SafeBy.split _ _ pre e suf hps htr (e.slot - (swNew w slots limit t0).n * (swNew w slots limit t0).d)
  have hperm : cntAt (e.slot - (swNew w slots limit t0).n * (swNew w slots limit t0).d) (e :: (pre.reverse ++ []))
      = cntAt (e.slot - (swNew w slots limit t0).n * (swNew w slots limit t0).d) (pre ++ [e]) := by
    simp [cntAt, List.countP_append, List.countP_cons, List.countP_reverse]
  rw [hperm] at h2
  have hsplit : cntWithin ((swNew w slots limit t0).n * (swNew w slots limit t0).d) e (pre ++ [e]) ≤
      cntAfter (e.slot - (swNew w slots limit t0).n * (swNew w slots limit t0).d) (pre ++ [e]) +
      cntAt (e.slot - (swNew w slots limit t0).n * (swNew w slots limit t0).d) (pre ++ [e]) := by
    refine Nat.le_trans ?_ (countP_or_le _ _ _)
    unfold cntWithin
    apply List.countP_mono_left
    intro x hx hp
    simp only [Bool.and_eq_true, decide_eq_true_eq, Bool.or_eq_true] at hp ⊢
    have hx' := hslots x (hmem x hx)
    rw [hx', he]
    rcases slot_cases _ _ x.now e.now hd hp.2 with h | h
    · exact Or.inl ⟨hp.1, h⟩
    · exact Or.inr ⟨hp.1, h⟩
  omega

/-! ## quota tracker -/

inductive QEv
  | allow (now : Int)           -- `AllowQuery()` at clock reading `now`
  | touch (now : Int)           -- `GetUsage()` (runs `maybeReset`)
  | setLimits (mh md : Int)     -- `UpdateLimits(mh, md)`
deriving Repr

structure QEntry where
  eff  : Int    -- effective time: the largest clock reading the tracker has seen so far
                -- (= the request's own reading while the clock never goes backwards)
  ok   : Bool
  maxH : Int    -- limits in force for this request
  maxD : Int
deriving Repr

def imax (a b : Int) : Int := if a ≤ b then b else a

/-- decisions of a history of operations on one tracker; `m` = largest reading seen so far. -/
def qTrace (q : QT) (m : Int) : List QEv → List QEntry
  | [] => []
  | .allow now :: es =>
    ⟨imax m now, decide ((qtAllow q now).2 = .ok), (qtAllow q now).1.maxH, (qtAllow q now).1.maxD⟩ ::
      qTrace (qtAllow q now).1 (imax m now) es
  | .touch now :: es => qTrace (maybeReset q now) (imax m now) es
  | .setLimits a b :: es => qTrace (qtSetLimits q a b) m es

/-- admitted requests of clock hour `k` (`[k·1h, (k+1)·1h)`). -/
def cntHour (k : Int) (tr : List QEntry) : Nat :=
  tr.countP (fun x => x.ok && decide (x.eff / 3600000000000 = k))

/-- admitted requests of UTC day `k`. -/
def cntDay (k : Int) (tr : List QEntry) : Nat :=
  tr.countP (fun x => x.ok && decide (x.eff / 86400000000000 = k))

theorem truncHour (now : Int) : trunc 3600000000000 now = now / 3600000000000 * 3600000000000 := by
  unfold trunc; rw [if_neg (by decide)]; simp only [goEpochOffNs]; omega
theorem truncDay (now : Int) : trunc 86400000000000 now = now / 86400000000000 * 86400000000000 := by
  unfold trunc; rw [if_neg (by decide)]; simp only [goEpochOffNs]; omega

theorem resetDay_h (q : QT) (now : Int) : (resetDay q now).h = q.h ∧ (resetDay q now).hourResetAt = q.hourResetAt ∧
    (resetDay q now).maxH = q.maxH ∧ (resetDay q now).maxD = q.maxD := by
  unfold resetDay; split <;> simp
theorem resetHour_d (q : QT) (now : Int) : (resetHour q now).dc = q.dc ∧ (resetHour q now).dayResetAt = q.dayResetAt ∧
    (resetHour q now).maxH = q.maxH ∧ (resetHour q now).maxD = q.maxD := by
  unfold resetHour; split <;> simp

theorem qtAllow_ok (q : QT) (now : Int) (hv : qtVerdict (maybeReset q now) = .ok) :
    qtAllow q now = ({ maybeReset q now with h := (maybeReset q now).h + 1, dc := (maybeReset q now).dc + 1 }, .ok) := by
  simp [qtAllow, hv]
theorem qtAllow_rej (q : QT) (now : Int) (hv : qtVerdict (maybeReset q now) ≠ .ok) :
    qtAllow q now = (maybeReset q now, qtVerdict (maybeReset q now)) := by
  simp [qtAllow, hv]
theorem verdict_ok (q : QT) (h : qtVerdict q = .ok) :
    ¬ (0 < q.maxH ∧ q.maxH ≤ q.h) ∧ ¬ (0 < q.maxD ∧ q.maxD ≤ q.dc) := by
  unfold qtVerdict at h
  split at h
  · simp at h
  · split at h
    · simp at h
    · exact ⟨‹_›, ‹_›⟩

/-- hour invariant: `m` = largest reading seen, `past` = decisions so far (newest first); the
tracker's `hourResetAt` is the end of `m`'s clock hour and `queriesThisHour` bounds what was
admitted in that hour. -/
structure HInv (q : QT) (m : Int) (past : List QEntry) : Prop where
  le   : ∀ x ∈ past, x.eff ≤ m
  hi   : m < q.hourResetAt
  lo   : q.hourResetAt - 3600000000000 ≤ m
  al   : q.hourResetAt % 3600000000000 = 0
  cnt  : (cntHour (m / 3600000000000) past : Int) ≤ q.h

theorem cntHour_zero (k : Int) (past : List QEntry) (h : ∀ x ∈ past, ¬ (x.ok = true ∧ x.eff / 3600000000000 = k)) :
    cntHour k past = 0 := by
  unfold cntHour
  rw [List.countP_eq_zero]
  intro x hx
  have := h x hx
  simp only [Bool.and_eq_true, decide_eq_true_eq]
  intro hh; exact this ⟨hh.1, hh.2⟩

theorem cntHour_cons (k : Int) (e : QEntry) (past : List QEntry) :
    cntHour k (e :: past) = cntHour k past +
      (if e.ok && decide (e.eff / 3600000000000 = k) then 1 else 0) := by
  simp [cntHour, List.countP_cons]

def HourOK (e : QEntry) (upto : List QEntry) : Prop :=
  e.ok = true → 0 < e.maxH → (cntHour (e.eff / 3600000000000) upto : Int) ≤ e.maxH

theorem maybeReset_hinv (q : QT) (m now : Int) (past : List QEntry) (h : HInv q m past) :
    HInv (maybeReset q now) (imax m now) past := by
  obtain ⟨hle, hhi, hlo, hal, hcnt⟩ := h
  have hr := resetDay_h (resetHour q now) now
  have e1 : (maybeReset q now).h = (resetHour q now).h := hr.1
  have e2 : (maybeReset q now).hourResetAt = (resetHour q now).hourResetAt := hr.2.1
  refine ⟨?_, ?_, ?_, ?_, ?_⟩
  · intro x hx; have := hle x hx; unfold imax; split <;> omega
  · rw [e2]; unfold resetHour imax
    split <;> split <;> (try simp only [hourNs, truncHour]) <;> omega
  · rw [e2]; unfold resetHour imax
    split <;> split <;> (try simp only [hourNs, truncHour]) <;> omega
  · rw [e2]; unfold resetHour
    split <;> (try simp only [hourNs, truncHour]) <;> omega
  · rw [e1]; unfold resetHour imax
    by_cases hlt : q.hourResetAt ≤ now
    · simp only [hlt, if_true]
      have hmn : m ≤ now := by omega
      simp only [hmn, if_true]
      rw [cntHour_zero]
      · simp
      · intro x hx ⟨_, h2⟩
        have := hle x hx
        omega
    · simp only [hlt, if_false]
      split
      · have e : now / 3600000000000 = m / 3600000000000 := by omega
        rw [e]; exact hcnt
      · exact hcnt

theorem allow_hinv (q : QT) (m now : Int) (past : List QEntry) (h : HInv q m past) :
    HInv (qtAllow q now).1 (imax m now)
        (⟨imax m now, decide ((qtAllow q now).2 = .ok), (qtAllow q now).1.maxH, (qtAllow q now).1.maxD⟩ :: past) ∧
      HourOK ⟨imax m now, decide ((qtAllow q now).2 = .ok), (qtAllow q now).1.maxH, (qtAllow q now).1.maxD⟩
        (⟨imax m now, decide ((qtAllow q now).2 = .ok), (qtAllow q now).1.maxH, (qtAllow q now).1.maxD⟩ :: past) := by
  obtain ⟨hle, hhi, hlo, hal, hcnt⟩ := maybeReset_hinv q m now past h
  by_cases hv : qtVerdict (maybeReset q now) = .ok
  · rw [qtAllow_ok q now hv]
    have hvo := (verdict_ok _ hv).1
    simp only [decide_true]
    refine ⟨⟨?_, hhi, hlo, hal, ?_⟩, ?_⟩
    · intro x hx
      simp only [List.mem_cons] at hx
      rcases hx with rfl | hx
      · exact Int.le_refl _
      · exact hle x hx
    · rw [cntHour_cons]
      show ((cntHour _ past + _ : Nat) : Int) ≤ (maybeReset q now).h + 1
      split <;> omega
    · intro _ hmax
      show (cntHour (imax m now / 3600000000000) (_ :: past) : Int) ≤ (maybeReset q now).maxH
      have hmax' : 0 < (maybeReset q now).maxH := hmax
      rw [cntHour_cons]
      split <;> omega
  · rw [qtAllow_rej q now hv]
    have hd : decide (qtVerdict (maybeReset q now) = QV.ok) = false := by simp [hv]
    simp only [hd]
    refine ⟨⟨?_, hhi, hlo, hal, ?_⟩, ?_⟩
    · intro x hx
      simp only [List.mem_cons] at hx
      rcases hx with rfl | hx
      · exact Int.le_refl _
      · exact hle x hx
    · rw [cntHour_cons]; simpa using hcnt
    · intro hok; simp at hok

theorem qTrace_safeH (evs : List QEv) : ∀ (q : QT) (m : Int) (past : List QEntry), HInv q m past →
    SafeBy HourOK past (qTrace q m evs) := by
  induction evs with
  | nil => intro q m past _; trivial
  | cons ev es ih =>
    intro q m past h
    cases ev with
    | allow now =>
      have hg := allow_hinv q m now past h
      simp only [qTrace, SafeBy]
      exact ⟨hg.2, ih _ _ _ hg.1⟩
    | touch now =>
      simp only [qTrace]
      exact ih _ _ _ (maybeReset_hinv q m now past h)
    | setLimits a b =>
      simp only [qTrace]
      exact ih (qtSetLimits q a b) m past ⟨h.le, h.hi, h.lo, h.al, h.cnt⟩

theorem qtNew_hinv (mh md t0 : Int) : HInv (qtNew mh md t0) t0 [] := by
  refine ⟨by simp, ?_, ?_, ?_, ?_⟩ <;> simp only [qtNew, hourNs, truncHour]
  · omega
  · omega
  · omega
  · simp [cntHour]

/-! ### the same for the daily counter -/

/-- day invariant: `m` = largest reading seen, `past` = decisions so far (newest first); the
tracker's `dayResetAt` is the end of `m`'s UTC day and `queriesThisDay` bounds what was
admitted in that hour. -/
structure DInv (q : QT) (m : Int) (past : List QEntry) : Prop where
  le   : ∀ x ∈ past, x.eff ≤ m
  hi   : m < q.dayResetAt
  lo   : q.dayResetAt - 86400000000000 ≤ m
  al   : q.dayResetAt % 86400000000000 = 0
  cnt  : (cntDay (m / 86400000000000) past : Int) ≤ q.dc

theorem cntDay_zero (k : Int) (past : List QEntry) (h : ∀ x ∈ past, ¬ (x.ok = true ∧ x.eff / 86400000000000 = k)) :
    cntDay k past = 0 := by
  unfold cntDay
  rw [List.countP_eq_zero]
  intro x hx
  have := h x hx
  simp only [Bool.and_eq_true, decide_eq_true_eq]
  intro hh; exact this ⟨hh.1, hh.2⟩

theorem cntDay_cons (k : Int) (e : QEntry) (past : List QEntry) :
    cntDay k (e :: past) = cntDay k past +
      (if e.ok && decide (e.eff / 86400000000000 = k) then 1 else 0) := by
  simp [cntDay, List.countP_cons]

def DayOK (e : QEntry) (upto : List QEntry) : Prop :=
  e.ok = true → 0 < e.maxD → (cntDay (e.eff / 86400000000000) upto : Int) ≤ e.maxD

theorem maybeReset_dinv (q : QT) (m now : Int) (past : List QEntry) (h : DInv q m past) :
    DInv (maybeReset q now) (imax m now) past := by
  obtain ⟨hle, hhi, hlo, hal, hcnt⟩ := h
  have hr := resetHour_d q now
  have e1 : (maybeReset q now).dc = (if q.dayResetAt ≤ now then 0 else q.dc) := by
    unfold maybeReset resetDay; rw [hr.2.1]; split <;> simp [hr.1]
  have e2 : (maybeReset q now).dayResetAt =
      (if q.dayResetAt ≤ now then trunc dayNs now + dayNs else q.dayResetAt) := by
    unfold maybeReset resetDay; rw [hr.2.1]; split <;> simp [hr.2.1]
  refine ⟨?_, ?_, ?_, ?_, ?_⟩
  · intro x hx; have := hle x hx; unfold imax; split <;> omega
  · rw [e2]; unfold imax
    split <;> split <;> (try simp only [dayNs, truncDay]) <;> omega
  · rw [e2]; unfold imax
    split <;> split <;> (try simp only [dayNs, truncDay]) <;> omega
  · rw [e2]
    split <;> (try simp only [dayNs, truncDay]) <;> omega
  · rw [e1]; unfold imax
    by_cases hlt : q.dayResetAt ≤ now
    · simp only [hlt, if_true]
      have hmn : m ≤ now := by omega
      simp only [hmn, if_true]
      rw [cntDay_zero]
      · simp
      · intro x hx ⟨_, h2⟩
        have := hle x hx
        omega
    · simp only [hlt, if_false]
      split
      · have e : now / 86400000000000 = m / 86400000000000 := by omega
        rw [e]; exact hcnt
      · exact hcnt

theorem allow_dinv (q : QT) (m now : Int) (past : List QEntry) (h : DInv q m past) :
    DInv (qtAllow q now).1 (imax m now)
        (⟨imax m now, decide ((qtAllow q now).2 = .ok), (qtAllow q now).1.maxH, (qtAllow q now).1.maxD⟩ :: past) ∧
      DayOK ⟨imax m now, decide ((qtAllow q now).2 = .ok), (qtAllow q now).1.maxH, (qtAllow q now).1.maxD⟩
        (⟨imax m now, decide ((qtAllow q now).2 = .ok), (qtAllow q now).1.maxH, (qtAllow q now).1.maxD⟩ :: past) := by
  obtain ⟨hle, hhi, hlo, hal, hcnt⟩ := maybeReset_dinv q m now past h
  by_cases hv : qtVerdict (maybeReset q now) = .ok
  · rw [qtAllow_ok q now hv]
    have hvo := (verdict_ok _ hv).2
    simp only [decide_true]
    refine ⟨⟨?_, hhi, hlo, hal, ?_⟩, ?_⟩
    · intro x hx
      simp only [List.mem_cons] at hx
      rcases hx with rfl | hx
      · exact Int.le_refl _
      · exact hle x hx
    · rw [cntDay_cons]
      show ((cntDay _ past + _ : Nat) : Int) ≤ (maybeReset q now).dc + 1
      split <;> omega
    · intro _ hmax
      show (cntDay (imax m now / 86400000000000) (_ :: past) : Int) ≤ (maybeReset q now).maxD
      have hmax' : 0 < (maybeReset q now).maxD := hmax
      rw [cntDay_cons]
      split <;> omega
  · rw [qtAllow_rej q now hv]
    have hd : decide (qtVerdict (maybeReset q now) = QV.ok) = false := by simp [hv]
    simp only [hd]
    refine ⟨⟨?_, hhi, hlo, hal, ?_⟩, ?_⟩
    · intro x hx
      simp only [List.mem_cons] at hx
      rcases hx with rfl | hx
      · exact Int.le_refl _
      · exact hle x hx
    · rw [cntDay_cons]; simpa using hcnt
    · intro hok; simp at hok

theorem qTrace_safeD (evs : List QEv) : ∀ (q : QT) (m : Int) (past : List QEntry), DInv q m past →
    SafeBy DayOK past (qTrace q m evs) := by
  induction evs with
  | nil => intro q m past _; trivial
  | cons ev es ih =>
    intro q m past h
    cases ev with
    | allow now =>
      have hg := allow_dinv q m now past h
      simp only [qTrace, SafeBy]
      exact ⟨hg.2, ih _ _ _ hg.1⟩
    | touch now =>
      simp only [qTrace]
      exact ih _ _ _ (maybeReset_dinv q m now past h)
    | setLimits a b =>
      simp only [qTrace]
      exact ih (qtSetLimits q a b) m past ⟨h.le, h.hi, h.lo, h.al, h.cnt⟩

theorem qtNew_dinv (mh md t0 : Int) : DInv (qtNew mh md t0) t0 [] := by
  refine ⟨by simp, ?_, ?_, ?_, ?_⟩ <;> simp only [qtNew, dayNs, truncDay]
  · omega
  · omega
  · omega
  · simp [cntDay]

/-! ### property theorems: hourly / daily quota (full strength) -/

/-- **C28_quota_hour.** For every history of `AllowQuery`/`GetUsage`/`UpdateLimits` calls (any
clock, including forward and backward jumps; `eff` = largest reading seen so far, which is the
request's own reading under a non-decreasing clock, `qTrace_eff`): when a query is admitted under
an hourly quota `maxH > 0`, the queries admitted so far in its clock hour number at most `maxH`.
(Until /repo 9f59e62 this held only with a carve-out for queries arriving at the exact reset
instant; the strict `now.After` is gone — `C28_reset_tied`, `C28_quota_boundary_instant`.) -/
theorem C28_quota_hour (mh md t0 : Int) (evs : List QEv)
    (pre : List QEntry) (e : QEntry) (suf : List QEntry)
    (htr : qTrace (qtNew mh md t0) t0 evs = pre ++ e :: suf) (hok : e.ok = true) (hmax : 0 < e.maxH) :
    (cntHour (e.eff / 3600000000000) (pre ++ [e]) : Int) ≤ e.maxH := by
  have hs := qTrace_safeH evs (qtNew mh md t0) t0 [] (qtNew_hinv mh md t0)
  have := SafeBy.split _ _ pre e suf hs htr hok hmax
  have hperm : cntHour (e.eff / 3600000000000) (pre ++ [e]) = cntHour (e.eff / 3600000000000) (e :: (pre.reverse ++ [])) := by
    simp [cntHour, List.countP_append, List.countP_cons, List.countP_reverse]
  rw [hperm]; exact this

/-- **C28_quota_day.** The same for the daily quota and the UTC day. -/
theorem C28_quota_day (mh md t0 : Int) (evs : List QEv)
    (pre : List QEntry) (e : QEntry) (suf : List QEntry)
    (htr : qTrace (qtNew mh md t0) t0 evs = pre ++ e :: suf) (hok : e.ok = true) (hmax : 0 < e.maxD) :
    (cntDay (e.eff / 86400000000000) (pre ++ [e]) : Int) ≤ e.maxD := by
  have hs := qTrace_safeD evs (qtNew mh md t0) t0 [] (qtNew_dinv mh md t0)
  have := SafeBy.split _ _ pre e suf hs htr hok hmax
  have hperm : cntDay (e.eff / 86400000000000) (pre ++ [e]) = cntDay (e.eff / 86400000000000) (e :: (pre.reverse ++ [])) := by
    simp [cntDay, List.countP_append, List.countP_cons, List.countP_reverse]
  rw [hperm]; exact this

/-- **C28_quota_boundary_instant.** The former counterexamples: with quota 1, a query at exactly
01:00:00.000000000 (resp. at exactly midnight of day 1) resets the counter and is admitted, the one
a nanosecond later is rejected. -/
theorem C28_quota_boundary_instant :
    (qTrace (qtNew 1 0 0) 0 [.allow 3600000000000, .allow 3600000000001]).map (fun x => (x.eff, x.ok, x.maxH))
      = [(3600000000000, true, 1), (3600000000001, false, 1)] ∧
    (qTrace (qtNew 0 1 0) 0 [.allow 86400000000000, .allow 86400000000001]).map (fun x => (x.eff, x.ok, x.maxD))
      = [(86400000000000, true, 1), (86400000000001, false, 1)] := by
  decide

/-- non-vacuity of the quota theorems: a history with a rejection, a limit update, a backward
clock jump and a day change, ending with an admitted query. -/
example :
    (qTrace (qtNew 2 3 0) 0 [.allow 5, .allow 7, .allow 9, .setLimits 3 3, .allow 8, .allow 86400000000009,
        .touch 86400000000010, .allow 86400000000011]).map (fun x => (x.eff, x.ok, x.maxH, x.maxD)) =
      [(5, true, 2, 3), (7, true, 2, 3), (9, false, 2, 3), (9, true, 3, 3), (86400000000009, true, 3, 3),
       (86400000000011, true, 3, 3)] := by
  decide

/-- clock readings of the `AllowQuery` calls of a history. -/
def allowTimes : List QEv → List Int
  | [] => []
  | .allow now :: es => now :: allowTimes es
  | _ :: es => allowTimes es

def QMonoFrom : Int → List QEv → Prop
  | _, [] => True
  | t, .allow now :: es => t ≤ now ∧ QMonoFrom now es
  | t, .touch now :: es => t ≤ now ∧ QMonoFrom now es
  | t, .setLimits _ _ :: es => QMonoFrom t es

/-- under a non-decreasing clock the effective time of every request is its own clock reading. -/
theorem qTrace_eff (evs : List QEv) : ∀ (q : QT) (m : Int), QMonoFrom m evs →
    (qTrace q m evs).map (·.eff) = allowTimes evs := by
  induction evs with
  | nil => intro q m _; rfl
  | cons ev es ih =>
    intro q m h
    cases ev with
    | allow now =>
      simp only [QMonoFrom] at h
      have : imax m now = now := by unfold imax; simp [h.1]
      simp only [qTrace, allowTimes, List.map_cons, this]
      rw [ih _ now h.2]
    | touch now =>
      simp only [QMonoFrom] at h
      have : imax m now = now := by unfold imax; simp [h.1]
      simp only [qTrace, allowTimes, this]
      exact ih _ now h.2
    | setLimits a b =>
      simp only [QMonoFrom] at h
      simp only [qTrace, allowTimes]
      exact ih _ m h

/-! ## manager: order of checks, limit updates, token independence -/

theorem lookup_filter_ne (es : List (Int × Tok)) (k k' : Int) (h : k' ≠ k) :
    (es.filter (fun p => !(p.1 == k))).lookup k' = es.lookup k' := by
  induction es with
  | nil => rfl
  | cons a rest ih =>
    obtain ⟨a1, a2⟩ := a
    by_cases hak : a1 = k
    · subst hak
      have : (k' == a1) = false := by simpa using h
      simp [List.filter, List.lookup, this, ih]
    · have h1 : (a1 == k) = false := by simpa using hak
      simp only [List.filter, h1, Bool.not_false]
      by_cases hk' : k' = a1
      · subst hk'; simp [List.lookup]
      · have : (k' == a1) = false := by simpa using hk'
        simp [List.lookup, this, ih]

theorem get_put (m : Mgr) (t : Int) (k : Tok) : (m.put t k).get t = k := by
  simp [Mgr.get, Mgr.put]

theorem get_put_ne (m : Mgr) (t t' : Int) (k : Tok) (h : t' ≠ t) : (m.put t k).get t' = m.get t' := by
  have hb : (t' == t) = false := by simpa using h
  simp [Mgr.get, Mgr.put, List.lookup, hb, lookup_filter_ne _ _ _ h]

theorem checkRateLimit_qt (k : Tok) (p : Policy) (now : Int) : (checkRateLimit k p now).1.qt = k.qt := by
  unfold checkRateLimit
  simp only
  repeat' split
  all_goals simp_all

theorem rl_not_admit (k : Tok) (p : Policy) (now : Int) : (checkRateLimit k p now).2 ≠ some .admitted := by
  unfold checkRateLimit
  simp only
  repeat' split
  all_goals (first | (simp_all; done) | (rename_i heq _ _; simp_all; intro hh; rw [hh] at heq; cases heq))

theorem quota_not_admit (k : Tok) (p : Policy) (now : Int) : (checkQuota k p now).2 ≠ some .admitted := by
  unfold checkQuota
  simp only
  repeat' split
  all_goals simp_all

/-- **C28_reject_free.** A query rejected by the rate limit consumes no quota: the handler returns
the rate-limit verdict without running `CheckQuota`, and the token's quota tracker (its presence,
counters and reset times) is exactly what it was before the request. -/
theorem C28_reject_free (m : Mgr) (t now : Int) (v : Verdict)
    (hrej : (checkRateLimit (m.get t) (m.policy t) now).2 = some v) :
    (query m t now).2 = v ∧ ((query m t now).1.get t).qt = (m.get t).qt := by
  unfold query
  simp only [get_put]
  unfold handleTok
  simp only [hrej]
  exact ⟨by simp, checkRateLimit_qt _ _ _⟩

/-- **C28_order.** Conversely the quota is only consulted — and only then possibly consumed — after
the rate limit let the request pass; the final verdict is `admit` iff both checks pass. -/
theorem C28_order (k : Tok) (p : Policy) (now : Int) :
    (handleTok k p now).2 = .admitted ↔
      (checkRateLimit k p now).2 = none ∧ (checkQuota (checkRateLimit k p now).1 p now).2 = none := by
  have h1 := rl_not_admit k p now
  have h2 := quota_not_admit (checkRateLimit k p now).1 p now
  unfold handleTok
  cases hr : (checkRateLimit k p now).2 with
  | some v =>
    simp only
    constructor
    · intro h; subst h; exact absurd hr h1
    · intro h; simp at h
  | none =>
    simp only
    cases hq : (checkQuota (checkRateLimit k p now).1 p now).2 with
    | some v =>
      simp only
      constructor
      · intro h; subst h; exact absurd hq h2
      · intro h; simp at h
    | none => simp

/-- **C28_tokens_independent.** A request of token `t` leaves the limiters, tracker and policy of
every other token untouched ("for every token"). -/
theorem C28_tokens_independent (m : Mgr) (t t' now : Int) (h : t' ≠ t) :
    (query m t now).1.get t' = m.get t' ∧ (query m t now).1.policy t' = m.policy t' := by
  unfold query Mgr.policy
  simp only
  rw [get_put_ne _ _ _ _ h]
  exact ⟨rfl, by simp [Mgr.put]⟩

/-! ### limit changes apply to the next request -/

theorem shiftN_setLimit : ∀ (k : Nat) (s : SW) (l : Int), shiftN k (swSetLimit s l) = swSetLimit (shiftN k s) l
  | 0, _, _ => rfl
  | k + 1, s, l => by
    simp only [shiftN]
    have : shift1 (swSetLimit s l) = swSetLimit (shift1 s) l := rfl
    rw [this, shiftN_setLimit k]

theorem advance_setLimit (s : SW) (l now : Int) : advance (swSetLimit s l) now = swSetLimit (advance s now) l := by
  unfold advance
  have e1 : (swSetLimit s l).d = s.d := rfl
  have e2 : (swSetLimit s l).last = s.last := rfl
  have e3 : (swSetLimit s l).n = s.n := rfl
  rw [e1, e2, e3]
  split
  · rfl
  · split
    · rfl
    · rw [shiftN_setLimit]; rfl

/-- **C28_update_next_rate.** After `UpdateLimit(l)` the very next `Allow()` is decided against `l`
(and against the same usage the limiter would have had without the update): it is admitted iff
`l ≤ 0` (unlimited) or the current window total is below `l`. -/
theorem C28_update_next_rate (s : SW) (l now : Int) :
    (swAllow (swSetLimit s l) now).2 = !(decide (0 < l) && decide (l ≤ (advance s now).total)) := by
  unfold swAllow
  rw [advance_setLimit]
  have : swFull (swSetLimit (advance s now) l) = (decide (0 < l) && decide (l ≤ (advance s now).total)) := rfl
  rw [this]
  generalize (decide (0 < l) && decide (l ≤ (advance s now).total)) = c
  cases c <;> simp

theorem maybeReset_setLimits (q : QT) (a b now : Int) :
    maybeReset (qtSetLimits q a b) now = qtSetLimits (maybeReset q now) a b := by
  unfold maybeReset resetDay resetHour qtSetLimits
  simp only
  split <;> split <;> simp_all

/-- **C28_update_next_quota.** After `UpdateLimits(a, b)` the very next `AllowQuery()` is decided
against `a` and `b` and the usage counted so far. -/
theorem C28_update_next_quota (q : QT) (a b now : Int) :
    (qtAllow (qtSetLimits q a b) now).2 =
      (if 0 < a ∧ a ≤ (maybeReset q now).h then QV.hour
       else if 0 < b ∧ b ≤ (maybeReset q now).dc then QV.day else QV.ok) := by
  unfold qtAllow
  rw [maybeReset_setLimits]
  have : qtVerdict (qtSetLimits (maybeReset q now) a b) =
      (if 0 < a ∧ a ≤ (maybeReset q now).h then QV.hour
       else if 0 < b ∧ b ≤ (maybeReset q now).dc then QV.day else QV.ok) := rfl
  rw [this]
  generalize (if 0 < a ∧ a ≤ (maybeReset q now).h then QV.hour
       else if 0 < b ∧ b ≤ (maybeReset q now).dc then QV.day else QV.ok) = v
  cases v <;> simp

/-- **C28_update_applies.** `CreatePolicy`/`UpdatePolicy` push the new limits into every existing
limiter/tracker of the token before returning, and the next request of the token is evaluated
under the new policy with those updated limiters. -/
theorem C28_update_applies (m : Mgr) (t : Int) (p : Policy) (now : Int) :
    (setPolicy m t p).policy t = p ∧
    ((setPolicy m t p).get t).minute = ((m.get t).minute).map (swSetLimit · p.rpm) ∧
    ((setPolicy m t p).get t).hour = ((m.get t).hour).map (swSetLimit · p.rph) ∧
    ((setPolicy m t p).get t).qt = ((m.get t).qt).map (qtSetLimits · p.qh p.qd) ∧
    (query (setPolicy m t p) t now).2 = (handleTok ((setPolicy m t p).get t) p now).2 := by
  have hg : (setPolicy m t p).get t =
      { pol := some p, minute := (m.get t).minute.map (swSetLimit · p.rpm),
        hour := (m.get t).hour.map (swSetLimit · p.rph), qt := (m.get t).qt.map (qtSetLimits · p.qh p.qd) } := by
    unfold setPolicy; simp only [get_put]
  have hp : (setPolicy m t p).policy t = p := by
    unfold Mgr.policy; rw [hg]; rfl
  refine ⟨hp, by rw [hg], by rw [hg], by rw [hg], ?_⟩
  unfold query
  simp only [hp]

/-! ## ties to the current source (facts regenerated from /repo by go/factgen/cmd/c28 on every run) -/

/-- **C28_sites_tied.** The only two `newSlidingWindowCounter` call sites pass exactly the
`(window, slots)` pairs the manager model uses. -/
theorem C28_sites_tied :
    Arc.Generated.C28.sites =
      [("getOrCreateMinuteLimiter", minuteSite.1, minuteSite.2), ("getOrCreateHourLimiter", hourSite.1, hourSite.2)] := by
  decide

/-- **C28_sites_cover.** For every call site of the current source the limiter has `n·d = W`
exactly, so the window `C28_window_partial` guarantees, `(n-1)·d`, is one slot shorter than the
configured one (59 s instead of 60 s, 59 min instead of 60 min). -/
theorem C28_sites_cover : ∀ s ∈ Arc.Generated.C28.sites,
    ((swNew s.2.1 s.2.2 0 0).n : Int) * (swNew s.2.1 s.2.2 0 0).d = s.2.1 ∧
    (((swNew s.2.1 s.2.2 0 0).n : Int) - 1) * (swNew s.2.1 s.2.2 0 0).d = s.2.1 - s.2.1 / 60 := by
  decide

/-- **C28_ctor_tied.** The constructor's default slot count and minimum slot duration. -/
theorem C28_ctor_tied : Arc.Generated.C28.defaultSlots = 60 ∧ Arc.Generated.C28.minSlotNs = msNs := by decide

/-- **C28_reset_tied.** `maybeReset` resets the hour counter, then the day counter, each under
`!now.Before(resetAt)` (the reset instant belongs to the new period) with
`resetAt = now.Truncate(P).Add(P)` — what `resetHour`, `resetDay` model and what `C28_quota_hour`,
`C28_quota_day` need (with the strict `now.After` they are false). -/
theorem C28_reset_tied :
    Arc.Generated.C28.resets = [("q.hourResetAt", "NotBefore", hourNs), ("q.dayResetAt", "NotBefore", dayNs)] := by
  decide

/-- **C28_handler_order_tied.** `executeQuery` calls `CheckRateLimit`, returns from its
`!result.Allowed` branch, and only afterwards calls `CheckQuota` (the order `handleTok` models);
`CheckRateLimit` and the limiter code never mention the quota tracker. -/
theorem C28_handler_order_tied :
    Arc.Generated.C28.handlerOrder = ["CheckRateLimit", "CheckQuota"] ∧
    Arc.Generated.C28.rateLimitRejectReturns = true ∧ Arc.Generated.C28.rateLimitTouchesQuota = false := by
  decide

end Arc.C28
