import Arc.Generated.C16
import Arc.Proofs.C16.Main
import Arc.Proofs.C16.Mask
/-!
C16 — Query answers match DuckDB's semantics for the same SQL.

What is PROVED here is the shape of the rewrite (substitution exactness), on token streams:
for every raw token stream `ts` (comments, arbitrary whitespace, literals, quoted names) whose PREPARED
form (`prep`: function-body FROMs masked, comments stripped, whitespace merged) is the flattening of an
annotated statement `q` of the grammar `Item`, with or without the database header,

    rewrite hdr ts = unmask (flat (mapRefs hdr q))                                     (C16_subst_partial)

i.e. every base-table reference of `q` is replaced by its read_parquet call and every other token is
unchanged — under the decidable carve-out `Carve hdr q` and outside the two early exits of the code.
The FULL statement (no carve-out, no side conditions) is false of the current source; it is kept here:

    theorem C16_subst_full (hdr) (ts) (q) (hp : prep ts = flat q) :
        rewrite hdr ts = unmask (flat (specMap hdr q))

with one refutation per excluded class (`C16_*_witness`, all by kernel evaluation).
The transform-cache key clause is proved at FULL strength (`C16_cache_key`, true since /repo 12df811).
The step from "exact substitution" to "same rows as DuckDB with views" is the HYPOTHESIS
`DuckCompositional` of `C16_same_rows` (never an axiom); the harness exercises it on the real DuckDB and
finds two classes where it fails for Arc's replacement text (implicit table alias, name case).
-/
namespace Arc.C16

/-- the SPEC replacement at full strength: also comma-join positions are table positions -/
def specItem (hdr : Option Str) : Item → Item
  | .ref s => if s.cte then .ref s else .tok (s.replaced hdr)
  | .commaRef g t c => if c then .commaRef g t c else .tok (.rpT (dbOf hdr none) t.name)
  | it => it
def specToks (hdr : Option Str) : Item → List Tok
  | .commaRef g t c => if c then [.p ',', .s g, t.tok] else [.p ',', .s g, .rpT (dbOf hdr none) t.name]
  | it => (specItem hdr it).toks
def specFlat (hdr : Option Str) (q : List Item) : List Tok := q.flatMap (specToks hdr)

-- ================================================================ substitution exactness
/-- MAIN: on the regex path, the rewrite replaces exactly the base-table references. -/
theorem C16_subst_partial (hdr : Option Str) (ts : List Tok) (q : List Item)
    (hsc : shortCircuit ts = false) (hslow : hdr.isSome = true → fastEligible ts = false)
    (hprep : prep ts = flat q) (hc : Carve hdr q = true) :
    rewrite hdr ts = unmask (flat (mapRefs hdr q)) :=
  subst_core hdr ts q hsc hslow hprep hc

/-- the same on texts -/
theorem C16_subst_render (hdr : Option Str) (ts : List Tok) (q : List Item)
    (hsc : shortCircuit ts = false) (hslow : hdr.isSome = true → fastEligible ts = false)
    (hprep : prep ts = flat q) (hc : Carve hdr q = true) :
    render (rewrite hdr ts) = render (unmask (flat (mapRefs hdr q))) := by
  rw [C16_subst_partial hdr ts q hsc hslow hprep hc]

/-- nothing else: a statement without table positions is returned token for token -/
theorem C16_no_refs_identity (hdr : Option Str) (ts : List Tok) (toks : List Tok)
    (hsc : shortCircuit ts = false) (hslow : hdr.isSome = true → fastEligible ts = false)
    (hprep : prep ts = flat (toks.map Item.tok)) (hc : Carve hdr (toks.map Item.tok) = true) :
    rewrite hdr ts = unmask (flat (toks.map Item.tok)) := by
  have := C16_subst_partial hdr ts _ hsc hslow hprep hc
  simpa [mapRefs, mapItem, Function.comp_def] using this

/-- "same rows" from exact substitution, under the explicit DuckDB hypothesis. `evalViews` runs a
statement on DuckDB with one view per measurement, `evalFiles` on Arc's DuckDB. -/
theorem C16_same_rows {R : Type} (evalViews evalFiles : List Tok → Option R)
    (hdr : Option Str) (ts : List Tok) (q : List Item)
    (DuckCompositional : evalViews (unmask (flat q)) = evalFiles (unmask (flat (mapRefs hdr q))))
    (hsc : shortCircuit ts = false) (hslow : hdr.isSome = true → fastEligible ts = false)
    (hprep : prep ts = flat q) (hc : Carve hdr q = true) :
    evalFiles (rewrite hdr ts) = evalViews (unmask (flat q)) := by
  rw [C16_subst_partial hdr ts q hsc hslow hprep hc, DuckCompositional]

-- ---------------------------------------------------------------- non-vacuity
private def S (x : String) : Str := x.toList
private def sp : Tok := .s [' ']
private def from_ (tbl : String) (cte := false) : Item :=
  .ref ⟨[], none, S "FROM", false, [' '], none, .bare (S tbl), cte⟩

/-- `WITH r AS (SELECT x FROM cpu) SELECT * FROM r a LEFT OUTER JOIN prod."mem" b ON a.x = EXTRACT(hour FROM b.t)`
with comments and newlines in the raw text. -/
private def exQ : List Item :=
  [.tok (.w (S "WITH")), .tok sp, .tok (.w (S "r")), .tok sp, .tok (.w (S "AS")), .tok sp, .tok (.p '('),
   .tok (.w (S "SELECT")), .tok sp, .tok (.w (S "x")), .tok sp, from_ "cpu", .tok (.p ')'), .tok sp,
   .tok (.w (S "SELECT")), .tok sp, .tok (.p '*'), .tok (.s (S " \n ")), from_ "r" true, .tok sp, .tok (.w (S "a")), .tok sp,
   .ref ⟨[(S "LEFT", S " "), (S "OUTER", S "   ")], none, S "JOIN", true, [' '], some (.bare (S "prod")), .quoted (S "\"mem\""), false⟩,
   .tok sp, .tok (.w (S "b")), .tok sp, .tok (.w (S "ON")), .tok sp, .tok (.w (S "a")), .tok (.p '.'), .tok (.w (S "x")),
   .tok sp, .tok (.p '='), .tok sp, .tok (.w (S "EXTRACT")), .tok (.p '('), .tok (.w (S "hour")), .tok sp,
   .tok (.m (S "FROM")), .tok sp, .tok (.w (S "b")), .tok (.p '.'), .tok (.w (S "t")), .tok (.p ')')]

private def exRaw : List Tok :=
  [.w (S "WITH"), sp, .w (S "r"), sp, .w (S "AS"), sp, .p '(', .w (S "SELECT"), sp, .w (S "x"), sp, .w (S "FROM"), sp,
   .w (S "cpu"), .p ')', sp, .w (S "SELECT"), sp, .p '*', sp, .c (S "-- FROM mem"), .s (S "\n "), .w (S "FROM"), sp, .w (S "r"), sp,
   .w (S "a"), sp, .w (S "LEFT"), .b (S "/* x */"), .w (S "OUTER"), sp, .b (S "/* JOIN disk */"), sp, .w (S "JOIN"), sp,
   .w (S "prod"), .p '.', .q (S "\"mem\""), sp, .w (S "b"), sp, .w (S "ON"), sp, .w (S "a"), .p '.', .w (S "x"), sp, .p '=', sp,
   .w (S "EXTRACT"), .p '(', .w (S "hour"), sp, .w (S "FROM"), sp, .w (S "b"), .p '.', .w (S "t"), .p ')']

example : shortCircuit exRaw = false ∧ prep exRaw = flat exQ ∧ Carve none exQ = true ∧
    baseTableRefs exQ = [(none, .bare (S "cpu")), (some (.bare (S "prod")), .quoted (S "\"mem\""))] := by decide

set_option maxRecDepth 8000 in
example : String.ofList (render (rewrite none exRaw)) =
    "WITH r AS (SELECT x FROM read_parquet('ROOT/default/cpu/**/*.parquet', union_by_name=true)) SELECT * \n FROM r a LEFT OUTER JOIN read_parquet('ROOT/prod/mem/**/*.parquet', union_by_name=true) b ON a.x = EXTRACT(hour FROM b.t)" := by
  decide

-- ================================================================ function-body FROM mask (frame stack)
/-- MaskFromKeywordsInFunctionBodies, transcribed as `maskFns`: in `TRIG ( pre FROM rest`, TRIG one of
EXTRACT/SUBSTRING/TRIM/OVERLAY, the FROM at the body's own level is masked WHATEVER is nested in the operand
`pre` before it — calls and parentheses to any depth, FROM keywords of sub-queries inside them (`walk 0 pre =
some 0`: balanced, no further trigger word, no FROM at the body level) — and the scan continues inside the same
frame. (A frame popped one level too early, seeded change C16-b1, falsifies exactly this.) -/
theorem C16_mask_body (st : MS) (t f : Str) (pre rest : List Tok) (ht : isTrigger t = true)
    (hf : lower f = "from".toList) (hw : walk 0 pre = some 0) :
    maskFns st (.w t :: .p '(' :: (pre ++ .w f :: rest)) =
      .w t :: .p '(' :: (pre ++ .m f :: maskFns ⟨st.depth + 1, (st.depth + 1) :: st.stack, false⟩ rest) :=
  mask_body st t f pre rest ht hf hw

/-- `SUBSTRING(UPPER(CONCAT(a.pfx,(b.host))) FROM a.n FOR 3)`: three nested levels before the FROM. -/
example : walk 0 [.w (S "UPPER"), .p '(', .w (S "CONCAT"), .p '(', .w (S "a"), .p '.', .w (S "pfx"), .p ',', .p '(',
      .w (S "b"), .p '.', .w (S "host"), .p ')', .p ')', .p ')', sp] = some 0 ∧ isTrigger (S "SUBSTRING") = true := by decide

example : String.ofList (render (rewrite none
    [.w (S "SELECT"), sp, .w (S "SUBSTRING"), .p '(', .w (S "UPPER"), .p '(', .w (S "host"), .p ')', sp, .w (S "FROM"), sp,
     .w (S "cnt"), .p ')', sp, .w (S "FROM"), sp, .w (S "cpu")])) =
    "SELECT SUBSTRING(UPPER(host) FROM cnt) FROM read_parquet('ROOT/default/cpu/**/*.parquet', union_by_name=true)" := by decide

-- ================================================================ witnesses: classes where the full statement fails
private def tk (xs : List Tok) : List Item := xs.map Item.tok
private def sel : List Item := tk [.w (S "SELECT"), sp, .p '*', sp]

/-- comma join: `SELECT * FROM cpu a, mem b` — `mem` is a base table, the patterns never reach it. -/
theorem C16_comma_join_witness :
    let q := sel ++ [from_ "cpu", .tok sp, .tok (.w (S "a")), .commaRef [' '] (.bare (S "mem")) false, .tok sp, .tok (.w (S "b"))]
    prep (flat q) = flat q ∧ rewrite none (flat q) ≠ unmask (specFlat none q) := by decide

/-- `IS DISTINCT FROM region`: a FROM that is not a table position is rewritten. -/
theorem C16_distinct_from_witness :
    let q := sel ++ [from_ "cpu", .tok sp] ++ tk [.w (S "WHERE"), sp, .w (S "host"), sp, .w (S "IS"), sp, .w (S "DISTINCT"), sp] ++
      [.notRef (S "FROM") [' '] (.w (S "region"))]
    prep (flat q) = flat q ∧ rewrite none (flat q) ≠ unmask (specFlat none q) := by decide

/-- a CTE name of an inner scope hides a measurement referenced outside that scope (the registry is global):
`SELECT * FROM cpu a JOIN (WITH cpu AS (SELECT 1) SELECT * FROM cpu) s` — the first `cpu` is a base table. -/
theorem C16_cte_shadow_witness :
    let q := sel ++ [from_ "cpu", .tok sp, .tok (.w (S "a")), .tok sp] ++
      tk [.w (S "JOIN"), sp, .p '(', .w (S "WITH"), sp, .w (S "cpu"), sp, .w (S "AS"), sp, .p '(', .w (S "SELECT"), sp, .n (S "1"), .p ')', sp] ++
      sel ++ [from_ "cpu" true, .tok (.p ')'), .tok sp, .tok (.w (S "s"))]
    prep (flat q) = flat q ∧ rewrite none (flat q) ≠ unmask (specFlat none q) := by decide

/-- fixed by /repo 73763cd (history: the registry held only the placeholder of a quoted CTE definition and the bare
reference was rewritten): the unquoted name is registered too. -/
theorem C16_cte_quoted_fixed :
    let q := tk [.w (S "WITH"), sp, .q (S "\"agg\""), sp, .w (S "AS"), sp, .p '(', .w (S "SELECT"), sp, .n (S "1"), .p ')', sp] ++
      sel ++ [from_ "agg" true]
    prep (flat q) = flat q ∧ Carve none q = true ∧ rewrite none (flat q) = unmask (specFlat none q) := by decide

/-- fixed by /repo 56228b9 (history: the text `read_parquet` anywhere switched the whole rewrite off): only a real
call short-circuits. -/
theorem C16_rp_text_fixed :
    let q := sel ++ [from_ "cpu", .tok sp] ++ tk [.w (S "WHERE"), sp, .w (S "host"), sp, .p '=', sp, .l (S "'read_parquet'")]
    prep (flat q) = flat q ∧ shortCircuit (flat q) = false ∧ Carve none q = true ∧
      rewrite none (flat q) = unmask (specFlat none q) := by decide

/-- header, comma join through the single-table fast path: one "from ", one FROM reference, no JOIN word — the fast
path rewrites the first table and the second one (a base table) is never reached. (The JOIN-on-a-new-line variant
is fixed by /repo d4e5686.) -/
theorem C16_fastpath_partial_witness :
    let q := sel ++ [from_ "cpu", .tok sp, .tok (.w (S "a")), .commaRef [' '] (.bare (S "mem")) false, .tok sp, .tok (.w (S "b"))]
    prep (flat q) = flat q ∧ fastEligible (flat q) = true ∧
      rewrite (some (S "prod")) (flat q) ≠ unmask (specFlat (some (S "prod")) q) := by decide

/-- fixed by /repo d4e5686: JOIN followed by a newline no longer takes the fast path -/
example :
    let q := tk [.w (S "SELECT"), sp, .w (S "a"), .p '.', .w (S "rid"), sp] ++ [from_ "cpu", .tok sp, .tok (.w (S "a")), .tok (.s ['\n']),
      .ref ⟨[], none, S "JOIN", true, ['\n'], none, .bare (S "mem"), false⟩] ++ tk [sp, .w (S "b")]
    fastEligible (flat q) = false ∧ rewrite (some (S "prod")) (flat q) = unmask (specFlat (some (S "prod")) q) := by decide

/-- fixed by /repo 53c9b19: a second FROM reference (sub-query, UNION) now sends the statement to the regex path -/
example :
    let q := tk [.w (S "SELECT"), sp, .w (S "rid"), sp] ++ [.ref ⟨[], none, S "FROM", false, ['\n'], none, .bare (S "cpu"), false⟩] ++
      tk [sp, .w (S "WHERE"), sp, .w (S "rid"), sp, .w (S "IN"), sp, .p '(', .w (S "SELECT"), sp, .w (S "rid"), sp] ++
      [from_ "mem", .tok (.p ')')]
    fastEligible (flat q) = false ∧ rewrite (some (S "prod")) (flat q) = unmask (specFlat (some (S "prod")) q) := by decide

/-- fixed by /repo 002a8ca (history: the fast path did not skip CR after `from `, found no name and returned the
statement unchanged). -/
theorem C16_fastpath_cr_fixed :
    let q := tk [.w (S "SELECT"), sp, .w (S "rid"), sp] ++ [.ref ⟨[], none, S "FROM", false, S " \r\n", none, .bare (S "cpu"), false⟩]
    prep (flat q) = flat q ∧ fastEligible (flat q) = true ∧
      rewrite (some (S "prod")) (flat q) = unmask (specFlat (some (S "prod")) q) := by decide

/-- fixed by /repo 7134395 (history: the fast path had no call guard and turned `range` into a measurement). -/
theorem C16_tablefunc_fast_fixed :
    let q := tk [.w (S "SELECT"), sp, .w (S "g"), sp, .w (S "FROM"), sp, .w (S "range"), .p '(', .n (S "1"), .p ',', sp, .n (S "3"), .p ')',
      sp, .w (S "t"), .p '(', .w (S "g"), .p ')']
    prep (flat q) = flat q ∧ fastEligible (flat q) = true ∧ baseTableRefs q = [] ∧
      rewrite (some (S "prod")) (flat q) = unmask (specFlat (some (S "prod")) q) := by decide

/-- fixed by /repo 04fa395 (the header path always extracts the CTE names): `WITH` + newline no longer leaves the
registry empty; the statement that used to be the witness is now rewritten exactly. -/
theorem C16_with_newline_fixed :
    let q := tk [.w (S "WITH"), .s ['\n'], .w (S "r"), sp, .w (S "AS"), sp, .p '(', .w (S "SELECT"), sp, .n (S "1"), .p ')', sp] ++
      tk [.w (S "SELECT"), sp, .l (S "'x'"), sp] ++ [from_ "r" true]
    prep (flat q) = flat q ∧ Carve (some (S "prod")) q = true ∧
      rewrite (some (S "prod")) (flat q) = unmask (specFlat (some (S "prod")) q) := by decide

/-- fixed by /repo 00bd721 (history: isDotOrCallAt skipped blanks and tabs only, LATERAL + newline + `(` became a
table). -/
theorem C16_lateral_newline_fixed :
    let q := sel ++ [from_ "cpu", .tok sp, .tok (.w (S "a")), .tok sp] ++
      tk [.w (S "JOIN"), sp, .w (S "LATERAL"), .s ['\n'], .p '(', .w (S "SELECT"), sp, .n (S "1"), .p ')', sp, .w (S "b")]
    prep (flat q) = flat q ∧ rewrite none (flat q) = unmask (specFlat none q) := by decide

/-- fixed by /repo 168cceb (history: a block comment closing one byte before the end swallowed that byte). -/
theorem C16_comment_last_byte_fixed :
    let ts : List Tok := [.w (S "SELECT"), sp, .n (S "1"), sp, .w (S "LIMIT"), sp, .b (S "/* c */"), .n (S "9")]
    String.ofList (render (prep ts)) = "SELECT 1 LIMIT  9" := by decide

-- ================================================================ header-only single-table fast path
theorem fastGo_skip (h : Str) (t : Tok) (rest : List Tok) (hn : endsWith (lower t.text) "from".toList = false) :
    fastGo h (t :: rest) = (fastGo h rest).map (t :: ·) := by
  have hn' : endsWith (lower t.text) ['f', 'r', 'o', 'm'] = false := hn
  cases rest with
  | nil => simp [fastGo]
  | cons r rs =>
    cases r with
    | s x =>
      cases x with
      | nil => simp [fastGo]
      | cons c cs =>
        by_cases hc : c = ' '
        · subst hc; simp [fastGo, hn']
        · simp [fastGo, hc]
    | _ => simp [fastGo]

theorem fastGo_site (h : Str) (pre post : List Tok) (kw gap name : Str)
    (hpre : ∀ t ∈ pre, endsWith (lower t.text) "from".toList = false)
    (hkw : lower kw = ['f', 'r', 'o', 'm'])
    (hgap : (gap.dropWhile blank4).isEmpty = true) (hpost : dotOrCall post = false)
    (hskip : shouldSkip (lower name) = false) :
    fastGo h (pre ++ (.w kw :: .s (' ' :: gap) :: .w name :: post)) = some (pre ++ (.rpF h name :: post)) := by
  have hlen : kw.length = 4 := by
    have := congrArg List.length hkw
    simpa [lower] using this
  induction pre with
  | nil =>
    have he : endsWith (lower kw) ['f', 'r', 'o', 'm'] = true := by rw [hkw]; decide
    simp [fastGo, Tok.text, he, hgap, hpost, identRun, hskip, hlen]
  | cons t pre ih =>
    have := ih (fun x hx => hpre x (by simp [hx]))
    simp only [List.cons_append]
    rw [fastGo_skip h t _ (hpre t (by simp)), this]
    rfl

theorem flat_tk (xs : List Tok) (rest : List Item) : flat (xs.map Item.tok ++ rest) = xs ++ flat rest := by
  induction xs with
  | nil => rfl
  | cons x xs ih => simp [flat, Item.toks, ih]

/-- the fast path (header set, exactly one "from ", no " join ", no "with ", no quote/comment byte, no
EXTRACT/SUBSTRING/TRIM/OVERLAY call) replaces the one table position when it is the one after that "from ":
`pre FROM␠<blanks> name post`, no token of `pre` ending in "from". -/
theorem C16_fast_partial (h : Str) (pre post : List Tok) (kw gap name : Str)
    (hsc : shortCircuit (pre ++ (.w kw :: .s (' ' :: gap) :: .w name :: post)) = false)
    (hfe : fastEligible (pre ++ (.w kw :: .s (' ' :: gap) :: .w name :: post)) = true)
    (hpre : ∀ t ∈ pre, endsWith (lower t.text) "from".toList = false)
    (hkw : lower kw = "from".toList)
    (hgap : (gap.dropWhile blank4).isEmpty = true) (hpost : dotOrCall post = false)
    (hskip : shouldSkip (lower name) = false) :
    rewrite (some h) (pre ++ (.w kw :: .s (' ' :: gap) :: .w name :: post)) =
      flat (mapRefs (some h) (pre.map Item.tok ++
        (.ref ⟨[], none, kw, false, ' ' :: gap, none, .bare name, false⟩ :: post.map Item.tok))) := by
  have hgo := fastGo_site h pre post kw gap name hpre hkw hgap hpost hskip
  have hflat : flat (mapRefs (some h) (pre.map Item.tok ++
      (.ref ⟨[], none, kw, false, ' ' :: gap, none, .bare name, false⟩ :: post.map Item.tok))) =
      pre ++ (.rpF h name :: post) := by
    have h1 : mapRefs (some h) (pre.map Item.tok ++
        (.ref ⟨[], none, kw, false, ' ' :: gap, none, .bare name, false⟩ :: post.map Item.tok)) =
        pre.map Item.tok ++ (.tok (.rpF h name) :: post.map Item.tok) := by
      simp [mapRefs, mapItem, Function.comp_def, Site.replaced, dbOf, NameTok.name]
    rw [h1, flat_tk]
    have h2 := flat_tk post []
    simp only [List.append_nil] at h2
    simp [flat, Item.toks, h2]
  simp only [rewrite, hsc, Bool.false_eq_true, if_false, convert, hfe, if_true, fast, hgo, Option.getD_some, hflat]

example : let pre : List Tok := [.w (S "SELECT"), sp, .w (S "rid"), sp]
    let ts := pre ++ (.w (S "from") :: .s (S " \n ") :: .w (S "cpu") :: [sp, .w (S "WHERE"), sp, .w (S "cnt"), .p '>', .n (S "3")])
    shortCircuit ts = false ∧ fastEligible ts = true ∧ (∀ t ∈ pre, endsWith (lower t.text) "from".toList = false) := by decide

-- ================================================================ transform cache key
theorem split_sep (c : Char) (a b s t : Str) (ha : c ∉ a) (hb : c ∉ b) (h : a ++ c :: s = b ++ c :: t) :
    a = b ∧ s = t := by
  induction a generalizing b with
  | nil =>
    cases b with
    | nil => simpa using h
    | cons y b => simp at h; simp [← h.1] at hb
  | cons x a ih =>
    cases b with
    | nil => simp at h; simp [h.1] at ha
    | cons y b =>
      simp only [List.cons_append, List.cons.injEq] at h
      have := ih b (by simp_all) (by simp_all) h.2
      exact ⟨by simp [h.1, this.1], this.2⟩

/-- what the request gate lets through as x-arc-database: no header, or validIdentifierPattern -/
def hdrOK (h : Str) : Bool := h.isEmpty || validIdent h

theorem hdrOK_noNul (h : Str) (ok : hdrOK h = true) : '\x00' ∉ h := by
  intro hmem
  cases h with
  | nil => simp at hmem
  | cons c rest =>
    simp only [hdrOK, List.isEmpty_cons, Bool.false_or, validIdent, Bool.and_eq_true, List.all_eq_true] at ok
    obtain ⟨⟨hc, hr⟩, _⟩ := ok
    simp only [List.mem_cons] at hmem
    rcases hmem with rfl | hm
    · revert hc; decide
    · have := hr _ hm
      revert this; decide

/-- FULL (true since /repo 12df811, key = headerDB + NUL + sql): the transform-cache key determines
(header, sql) for every pair of requests the gate accepts — any SQL text (NUL bytes included), any
accepted header (absent, or matching validIdentifierPattern, hence NUL free). -/
theorem C16_cache_key (h₁ s₁ h₂ s₂ : Str) (v₁ : hdrOK h₁ = true) (v₂ : hdrOK h₂ = true)
    (hk : cacheKey h₁ s₁ = cacheKey h₂ s₂) : h₁ = h₂ ∧ s₁ = s₂ := by
  unfold cacheKey at hk
  simp only [List.append_assoc, List.cons_append, List.nil_append] at hk
  exact split_sep '\x00' h₁ h₂ s₁ s₂ (hdrOK_noNul h₁ v₁) (hdrOK_noNul h₂ v₂) hk

/-- the hypothesis on headers is needed: a header containing NUL could collide (the gate rejects it) -/
theorem C16_cache_key_needs_header_gate :
    cacheKey ['a', '\x00', 'b'] (S "q") = cacheKey ['a'] ('b' :: '\x00' :: S "q") := by decide

example : hdrOK [] = true ∧ hdrOK (S "prod") = true ∧ hdrOK (S "my-db_2") = true ∧
    cacheKey (S "prod") (S "SELECT 1 FROM cpu") ≠ cacheKey [] (S "prod:SELECT 1 FROM cpu") := by decide

/-- record of the defect fixed by 12df811: the previous construction (`sql`, or `headerDB + ":" + sql`)
let two different requests share one entry. -/
def cacheKeyOld (hdr : Str) (sql : Str) : Str := if hdr.isEmpty then sql else hdr ++ [':'] ++ sql
theorem C16_cache_key_old_witness :
    cacheKeyOld (S "prod") (S "SELECT 1 FROM cpu") = cacheKeyOld [] (S "prod:SELECT 1 FROM cpu") ∧
      (S "prod", S "SELECT 1 FROM cpu") ≠ (([] : Str), S "prod:SELECT 1 FROM cpu") := by decide

-- ================================================================ tie to the current source
set_option maxRecDepth 8000 in
/-- the literals the model was written for are the ones in the source now -/
theorem C16_facts_tied :
    Arc.Generated.C16.patternDBTable = "(?i)\\bFROM\\s+([a-zA-Z0-9_]+)\\.([a-zA-Z0-9_]+)\\b" ∧
    Arc.Generated.C16.patternSimpleTable = "(?i)\\bFROM\\s+([a-zA-Z_][a-zA-Z0-9_]*)\\b" ∧
    Arc.Generated.C16.patternJoinDBTable = "(?i)\\b((?:(?:LEFT|RIGHT|FULL|INNER|OUTER|CROSS|NATURAL|SEMI|ANTI|ASOF|POSITIONAL)\\s+)*(?:LATERAL\\s+)?JOIN\\s+(?:LATERAL\\s+)?)([a-zA-Z0-9_]+)\\.([a-zA-Z0-9_]+)\\b" ∧
    Arc.Generated.C16.patternJoinSimpleTable = "(?i)\\b((?:(?:LEFT|RIGHT|FULL|INNER|OUTER|CROSS|NATURAL|SEMI|ANTI|ASOF|POSITIONAL)\\s+)*(?:LATERAL\\s+)?JOIN\\s+(?:LATERAL\\s+)?)([a-zA-Z_][a-zA-Z0-9_]*)\\b" ∧
    Arc.Generated.C16.patternCTENames = "(?i)\\bWITH\\s+(?:RECURSIVE\\s+)?(\\w+)(?:\\s*\\([^)]*\\))?\\s+AS\\s*\\(|,\\s*(\\w+)(?:\\s*\\([^)]*\\))?\\s+AS\\s*\\(" ∧
    Arc.Generated.C16.validIdentifierPattern = "^[a-zA-Z_][a-zA-Z0-9_-]*$" ∧
    Arc.Generated.C16.skipPrefixes = skipPrefixes ∧
    Arc.Generated.C16.fromKeywordFunctions = ["extract", "substring", "trim", "overlay"] ∧
    Arc.Generated.C16.sentinel.toList = sentinel ∧
    Arc.Generated.C16.readParquetOptions = "union_by_name=true" ∧
    Arc.Generated.C16.cacheKeySep.toList = ['\x00'] ∧
    Arc.Generated.C16.cacheKeyShape = "headerDB+sep+sql" ∧
    Arc.Generated.C16.shortCircuitLits = ["read_parquet", "from", "join"] ∧
    Arc.Generated.C16.patternJoinWord = "\\bjoin\\b" ∧
    Arc.Generated.C16.patternReadParquetCall = "(?i)\\bread_parquet\\s*\\(" ∧
    Arc.Generated.C16.singleTableLits = ["from ", "patternJoinWord", " \t\r\n", "from "] ∧
    Arc.Generated.C16.dotOrCallTrim = " \t\r\n" ∧
    Arc.Generated.C16.fastPathCallGuard = true ∧
    Arc.Generated.C16.quotedCteRegistered = true ∧
    Arc.Generated.C16.readParquetShortCircuitNeedsCall = true ∧
    Arc.Generated.C16.singleTableGuards = ["FindAllStringIndex", "extractCTENames"] ∧
    Arc.Generated.C16.headerCteAlways = true ∧
    Arc.Generated.C16.slowPassOrder = ["patternDBTable:all", "patternJoinDBTable:all",
      "patternSimpleTable:guarded+cteNames+shouldSkipTableConversion+isDotOrCallAt",
      "patternJoinSimpleTable:guarded+cteNames+shouldSkipTableConversion+isDotOrCallAt"] ∧
    Arc.Generated.C16.headerPassOrder = ["patternSimpleTable:guarded+cteNames+shouldSkipTableConversion+isDotOrCallAt",
      "patternJoinSimpleTable:guarded+cteNames+shouldSkipTableConversion+isDotOrCallAt"] ∧
    Arc.Generated.C16.localPathTemplate = "b.GetBasePath() + \"/\" + database + \"/\" + measurement + \"/**/*.parquet\"" := by
  decide

end Arc.C16
