import Arc.Proofs.C31.Digits
/-!
# C31 — file imports store every data row of the uploaded file

Property (fixed text): *for every CSV or Parquet file accepted by the import endpoints, each data
row is stored once in the target database and measurement with its time converted to microseconds
as requested and every other value converted to its inferred type without loss; a file that cannot
be imported completely is rejected without storing a partial import.*

The model (`Arc.Model.C31`) reads the conversion tables and the error policy from
`Arc.Generated.C31` (regenerated from the current source), so every theorem below is re-checked
against the source on every run.

The real code VIOLATES three clauses; each has a witness theorem, a `_partial` theorem under an
explicit carve-out, and a monitor key in the harness:

* time, "as requested … no silent wrap": `intTimeToMicros` / `arrowTimestampToMicros` multiply in
  wrapping int64 arithmetic and cannot reject (`C31_time_int_witness`, `C31_time_arrow_witness`).
  FULL STATEMENT (false):  ∀ n fmt, inI64 n → intTimeToMicros n fmt = n · unit(fmt) ∨ rejected.
* "converted to its inferred type without loss": integer cells of a column that is demoted to
  float (or that exceed int64) are rounded to 53 bits (`C31_infer_float_witness`), cells beyond the
  header width are dropped (`C31_extra_fields_witness`), `_`-prefixed columns are dropped at the
  Parquet schema step (`C31_underscore_witness`).
  FULL STATEMENT (false):  ∀ column, ∀ cell, render (stored cell) = canon cell.
* "rejected without storing a partial import": a storage write fault on the k-th hour file leaves
  the first k files in storage (`C31_flush_fault_witness`); for every INPUT-caused failure the clause
  holds at full strength (`C31_all_or_nothing`).
-/
namespace Arc.C31
open Arc.Generated.C31 (Op)

/-! ## 1. integer epoch → microseconds -/

/-- Explicit units: the conversion is EXACT whenever the exact product fits int64 (carve-out),
`epoch_us` is the identity, `epoch_ns` is Go's truncating division (exact value rounded toward
zero, error < 1 µs). -/
theorem C31_time_int_partial (n : Int) (_h : inI64 n) :
    (inI64 (n * 1000000) → intTimeToMicros n "epoch_s" = n * 1000000) ∧
    (inI64 (n * 1000) → intTimeToMicros n "epoch_ms" = n * 1000) ∧
    intTimeToMicros n "epoch_us" = n ∧
    intTimeToMicros n "epoch_ns" = Int.tdiv n 1000 ∧
    (0 ≤ n → 1000 * intTimeToMicros n "epoch_ns" ≤ n ∧ n < 1000 * intTimeToMicros n "epoch_ns" + 1000) ∧
    (n < 0 → n ≤ 1000 * intTimeToMicros n "epoch_ns" ∧ 1000 * intTimeToMicros n "epoch_ns" - 1000 < n) := by
  refine ⟨fun h1 => by rw [intTime_s, wrap64_id h1], fun h1 => by rw [intTime_ms, wrap64_id h1],
    intTime_us n, intTime_ns n, ?_, ?_⟩
  · rw [intTime_ns]; exact (tdiv1000 n).1
  · rw [intTime_ns]; exact (tdiv1000 n).2

example : inI64 1609459200 ∧ inI64 (1609459200 * 1000000) ∧
    intTimeToMicros 1609459200 "epoch_s" = 1609459200000000 := by decide

/-- The carve-out is tight: the result equals the exact product IF AND ONLY IF the product fits;
outside it a *different* int64 is returned and nothing is rejected. -/
theorem C31_time_int_exact_iff (n : Int) :
    (intTimeToMicros n "epoch_s" = n * 1000000 ↔ inI64 (n * 1000000)) ∧
    (intTimeToMicros n "epoch_ms" = n * 1000 ↔ inI64 (n * 1000)) := by
  rw [intTime_s, intTime_ms]; exact ⟨wrap64_eq_iff _, wrap64_eq_iff _⟩

/-- WITNESS (finding `time-overflow-wrapped:epoch_s` / `:epoch_ms`): an int64 epoch-seconds value
whose microsecond value does not fit is silently wrapped to a negative time; a nanosecond epoch
mis-declared as seconds likewise. -/
theorem C31_time_int_witness :
    inI64 9223372036855 ∧ ¬ inI64 (9223372036855 * 1000000) ∧
    intTimeToMicros 9223372036855 "epoch_s" = -9223372036854551616 ∧
    intTimeToMicros 1609459200000000000 "epoch_s" = -773687084668944384 ∧
    intTimeToMicros 9223372036854776 "epoch_ms" = -9223372036854775616 := by decide

/-- Auto-detection (time_format empty or, for Parquet integer columns, unknown): FULL STRENGTH over
the whole int64 range including MinInt64 — the unit is chosen by |n| with the thresholds of the
current source, the conversion is exact for that unit and never leaves int64. -/
theorem C31_time_auto (n : Int) (h : inI64 n) :
    inI64 (autoIntEpochToMicros n) ∧
    ((-10000000000 < n ∧ n < 10000000000) → autoIntEpochToMicros n = n * 1000000) ∧
    ((10000000000 ≤ n ∧ n < 10000000000000) ∨ (-10000000000000 < n ∧ n ≤ -10000000000) →
        autoIntEpochToMicros n = n * 1000) ∧
    ((10000000000000 ≤ n ∧ n < 10000000000000000) ∨ (-10000000000000000 < n ∧ n ≤ -10000000000000) →
        autoIntEpochToMicros n = n) ∧
    (10000000000000000 ≤ n ∨ n ≤ -10000000000000000 → autoIntEpochToMicros n = Int.tdiv n 1000) := by
  have hb := h
  unfold inI64 at hb
  have hq := tdiv1000 n
  have key := autoInt_unfold n h
  simp only [] at key
  by_cases hn : n < 0
  · by_cases hm : n = -9223372036854775808
    · subst hm; decide
    · simp only [hn, hm, if_true, if_false] at key
      by_cases h1 : -n < 10000000000
      · have hw : wrap64 (n * 1000000) = n * 1000000 := wrap64_id (by unfold inI64; omega)
        simp only [h1, if_true, hw] at key
        rw [key]
        refine ⟨by unfold inI64; omega, ?_, ?_, ?_, ?_⟩ <;> intro hx <;> omega
      · by_cases h2 : -n < 10000000000000
        · have hw : wrap64 (n * 1000) = n * 1000 := wrap64_id (by unfold inI64; omega)
          simp only [h1, h2, if_true, if_false, hw] at key
          rw [key]
          refine ⟨by unfold inI64; omega, ?_, ?_, ?_, ?_⟩ <;> intro hx <;> omega
        · by_cases h3 : -n < 10000000000000000
          · simp only [h1, h2, h3, if_true, if_false] at key
            rw [key]
            refine ⟨h, ?_, ?_, ?_, ?_⟩ <;> intro hx <;> omega
          · simp only [h1, h2, h3, if_false] at key
            rw [key]
            refine ⟨by unfold inI64; omega, ?_, ?_, ?_, ?_⟩ <;> intro hx <;> omega
  · simp only [hn, if_false] at key
    by_cases h1 : n < 10000000000
    · have hw : wrap64 (n * 1000000) = n * 1000000 := wrap64_id (by unfold inI64; omega)
      simp only [h1, if_true, hw] at key
      rw [key]
      refine ⟨by unfold inI64; omega, ?_, ?_, ?_, ?_⟩ <;> intro hx <;> omega
    · by_cases h2 : n < 10000000000000
      · have hw : wrap64 (n * 1000) = n * 1000 := wrap64_id (by unfold inI64; omega)
        simp only [h1, h2, if_true, if_false, hw] at key
        rw [key]
        refine ⟨by unfold inI64; omega, ?_, ?_, ?_, ?_⟩ <;> intro hx <;> omega
      · by_cases h3 : n < 10000000000000000
        · simp only [h1, h2, h3, if_true, if_false] at key
          rw [key]
          refine ⟨h, ?_, ?_, ?_, ?_⟩ <;> intro hx <;> omega
        · simp only [h1, h2, h3, if_false] at key
          rw [key]
          refine ⟨by unfold inI64; omega, ?_, ?_, ?_, ?_⟩ <;> intro hx <;> omega

example : autoIntEpochToMicros 9999999999 = 9999999999000000 ∧ autoIntEpochToMicros 10000000000 = 10000000000000 ∧
    autoIntEpochToMicros (-9223372036854775808) = -9223372036854775 := by decide

/-- `intTimeToMicros` with any format other than the four explicit ones IS the auto-detection
(Parquet integer time columns: an unknown `time_format` is not rejected). -/
theorem C31_time_int_default (n : Int) : intTimeToMicros n "" = autoIntEpochToMicros n ∧
    intTimeToMicros n "rfc3339" = autoIntEpochToMicros n := by
  constructor <;> simp [intTimeToMicros, lookupOp, Arc.Generated.C31.intTime, Arc.Generated.C31.intTimeDefault, List.lookup, applyOp]

/-- Arrow TIMESTAMP columns, per unit (same carve-out as the explicit integer formats). -/
theorem C31_time_arrow_partial (v : Int) (_h : inI64 v) :
    (inI64 (v * 1000000) → arrowTimestampToMicros v "Second" = v * 1000000) ∧
    (inI64 (v * 1000) → arrowTimestampToMicros v "Millisecond" = v * 1000) ∧
    arrowTimestampToMicros v "Microsecond" = v ∧
    arrowTimestampToMicros v "Nanosecond" = Int.tdiv v 1000 := by
  exact ⟨fun h1 => by rw [arrow_s, wrap64_id h1], fun h1 => by rw [arrow_ms, wrap64_id h1], arrow_us v, arrow_ns v⟩

example : arrowTimestampToMicros 1609459200123 "Millisecond" = 1609459200123000 := by decide

/-- WITNESS (finding `time-overflow-wrapped:arrow_ms`). -/
theorem C31_time_arrow_witness :
    inI64 9223372036854776 ∧ ¬ inI64 (9223372036854776 * 1000) ∧
    arrowTimestampToMicros 9223372036854776 "Millisecond" = -9223372036854775616 := by decide

/-! ## 2. type inference and value conversion -/

theorem toDigits_eq_zero {m : Nat} (h : Nat.toDigits 10 m = ['0']) : m = 0 := by
  have := Nat.ofDigitChars_ten_toDigits (n := m)
  rw [h] at this
  simpa [Nat.ofDigitChars] using this.symm

/-- ParseInt is exact and never wraps: an accepted integer cell denotes an int64, and rendering the
stored value gives back the cell up to the DOCUMENTED NORMAL FORM `canonInt`
(no `+` sign, no leading zeros, no negative zero: `+5`→`5`, `007`→`7`, `-0`→`0`). -/
theorem C31_parse_int_exact (s : Cell) (n : Int) (h : parseInt s = some n) :
    inI64 n ∧ renderInt n = canonInt s := by
  unfold parseInt at h
  cases s with
  | nil => simp at h
  | cons c rest =>
    simp only [] at h
    by_cases h1 : c = '-'
    · subst h1
      simp only [beq_self_eq_true, if_true] at h
      cases hp : parseUDigits rest with
      | none => simp [hp] at h
      | some m =>
        simp only [hp] at h
        by_cases hm : m ≤ 9223372036854775808
        · simp only [hm, if_true, Option.some.injEq] at h
          obtain ⟨hne, hall, hv⟩ := parseUDigits_some hp
          have hd := toDigits_digitsVal rest hne hall
          rw [← hv] at hd
          subst h
          refine ⟨by unfold inI64; omega, ?_⟩
          by_cases hz : m = 0
          · subst hz
            have : stripZeros rest = ['0'] := by rw [← hd]; exact Nat.toDigits_zero 10
            simp [renderInt, canonInt, this, Nat.toDigits_zero]
          · have hne0 : stripZeros rest ≠ ['0'] := by
              intro hc; rw [← hd] at hc; exact hz (toDigits_eq_zero hc)
            have hneg : (-(m : Int)) < 0 := by omega
            simp [renderInt, canonInt, hneg, hne0, hd, hz]
        · simp [hm] at h
    · by_cases h2 : c = '+'
      · subst h2
        simp only [show ('+' == '-') = false by decide, if_false, beq_self_eq_true, if_true, Bool.false_eq_true] at h
        cases hp : parseUDigits rest with
        | none => simp [hp] at h
        | some m =>
          simp only [hp] at h
          by_cases hm : m < 9223372036854775808
          · simp only [hm, if_true, Option.some.injEq] at h
            obtain ⟨hne, hall, hv⟩ := parseUDigits_some hp
            have hd := toDigits_digitsVal rest hne hall
            rw [← hv] at hd
            subst h
            refine ⟨by unfold inI64; omega, ?_⟩
            have hnn : ¬ ((m : Int) < 0) := by omega
            simp [renderInt, canonInt, hnn, hd]
          · simp [hm] at h
      · have e1 : (c == '-') = false := by simp [h1]
        have e2 : (c == '+') = false := by simp [h2]
        simp only [e1, e2, if_false, Bool.false_eq_true] at h
        cases hp : parseUDigits (c :: rest) with
        | none => simp [hp] at h
        | some m =>
          simp only [hp] at h
          by_cases hm : m < 9223372036854775808
          · simp only [hm, if_true, Option.some.injEq] at h
            obtain ⟨hne, hall, hv⟩ := parseUDigits_some hp
            have hd := toDigits_digitsVal (c :: rest) hne hall
            rw [← hv] at hd
            subst h
            refine ⟨by unfold inI64; omega, ?_⟩
            have hnn : ¬ ((m : Int) < 0) := by omega
            simp [renderInt, canonInt, hnn, hd, e1, e2]
          · simp [hm] at h

example : parseInt "007".toList = some 7 ∧ parseInt "+5".toList = some 5 ∧ parseInt "-0".toList = some 0 ∧
    parseInt "9223372036854775808".toList = none ∧ parseInt "-9223372036854775808".toList = some (-9223372036854775808) ∧
    parseInt " 5".toList = none ∧ parseInt "1e3".toList = none := by decide

/-- INT columns are lossless (full strength): the column is typed int only when EVERY non-empty
cell is an int64 literal, the stored value is exactly that integer, and it renders back to the
cell's normal form. -/
theorem C31_infer_lossless_int (pf : Cell → Option Nat) (raw : List Cell) (vs : List Int) (v : Option (List Bool))
    (h : inferCol pf raw = (.int vs, v)) :
    vs = raw.map intCell ∧
    ∀ c ∈ raw, c ≠ [] → ∃ n, parseInt c = some n ∧ intCell c = n ∧ inI64 n ∧ renderInt n = canonInt c := by
  unfold inferCol at h
  by_cases h1 : raw.any (fun c => !c.isEmpty) = true
  · by_cases h2 : (raw.dropWhile intOK).isEmpty = true
    · simp only [h1, h2, Bool.not_true, Bool.false_eq_true, if_false, if_true, Prod.mk.injEq, Col.int.injEq] at h
      refine ⟨h.1.symm, ?_⟩
      intro c hc hne
      have hall : ∀ x ∈ raw, intOK x = true := by
        have := List.isEmpty_iff.mp h2
        exact dropWhile_nil_all intOK raw this
      have hok := hall c hc
      unfold intOK at hok
      have hce : c.isEmpty = false := by cases c with | nil => exact absurd rfl hne | cons _ _ => rfl
      simp only [hce, Bool.false_or] at hok
      obtain ⟨n, hn⟩ := Option.isSome_iff_exists.mp hok
      obtain ⟨hr, hcn⟩ := C31_parse_int_exact c n hn
      exact ⟨n, hn, by simp [intCell, hn], hr, hcn⟩
    · simp only [h1, h2, Bool.not_true, Bool.false_eq_true, if_false] at h
      split at h
      · simp at h
      · split at h <;> simp at h
  · simp [h1] at h

/-- STRING columns are stored verbatim (full strength), with no null bitmap. -/
theorem C31_infer_lossless_str (pf : Cell → Option Nat) (raw vs : List Cell) (v : Option (List Bool))
    (h : inferCol pf raw = (.str vs, v)) : vs = raw ∧ v = none := by
  unfold inferCol at h
  by_cases h1 : raw.any (fun c => !c.isEmpty) = true
  · simp only [h1, Bool.not_true, Bool.false_eq_true, if_false] at h
    split at h
    · simp at h
    · split at h
      · simp at h
      · split at h
        · simp at h
        · simp only [Prod.mk.injEq, Col.str.injEq] at h; exact ⟨h.1.symm, h.2.symm⟩
  · simp only [h1, Bool.not_false, if_true, Prod.mk.injEq, Col.str.injEq] at h
    exact ⟨h.1.symm, h.2.symm⟩

/-- BOOL columns (full strength): every non-empty cell is one of the accepted spellings
(`1`, `0`, or a case-folded `true`/`false`) and the stored bit is its meaning. -/
theorem C31_infer_lossless_bool (pf : Cell → Option Nat) (raw : List Cell) (vs : List Bool) (v : Option (List Bool))
    (h : inferCol pf raw = (.bool vs, v)) :
    vs = raw.map (fun c => !c.isEmpty && boolVal c) ∧ ∀ c ∈ raw, c ≠ [] → isBoolLiteral c = true := by
  unfold inferCol at h
  by_cases h1 : raw.any (fun c => !c.isEmpty) = true
  · simp only [h1, Bool.not_true, Bool.false_eq_true, if_false] at h
    split at h
    · simp at h
    · split at h
      · simp at h
      · split at h
        · rename_i hb
          simp only [Prod.mk.injEq, Col.bool.injEq] at h
          refine ⟨h.1.symm, ?_⟩
          intro c hc hne
          have := List.all_eq_true.mp hb c hc
          have hce : c.isEmpty = false := by cases c with | nil => exact absurd rfl hne | cons _ _ => rfl
          simpa [hce] using this
        · simp at h
  · simp [h1] at h

example : (inferCol (fun _ => none) ["TRUE".toList, [], "0".toList]).1 = .bool [true, false, false] := by decide

/-- FLOAT columns, what is stored: cells before the first non-integer cell are `float64(int64)`
of the parsed integer, the rest are `strconv.ParseFloat` (parameter `pf`). -/
theorem C31_infer_float_cells (pf : Cell → Option Nat) (raw : List Cell) (vs : List Nat) (v : Option (List Bool))
    (h : inferCol pf raw = (.float vs, v)) :
    vs = (raw.takeWhile intOK).map (fun c => f64BitsOfInt (intCell c)) ++
         (raw.dropWhile intOK).map (fun c => if c.isEmpty then 0 else (pf c).getD 0) := by
  unfold inferCol at h
  by_cases h1 : raw.any (fun c => !c.isEmpty) = true
  · simp only [h1, Bool.not_true, Bool.false_eq_true, if_false] at h
    split at h
    · simp at h
    · split at h
      · simp only [Prod.mk.injEq, Col.float.injEq] at h; exact h.1.symm
      · split at h <;> simp at h
  · simp [h1] at h

/-- carve-out of the float clause: `float64(n)` is exact for |n| ≤ 2^53 -/
theorem C31_infer_lossless_float_partial (n : Int) (h : -9007199254740992 ≤ n ∧ n ≤ 9007199254740992) :
    roundF64 n = n := by
  unfold roundF64 roundNat53
  by_cases hn : n < 0
  · by_cases hm : n.natAbs < 9007199254740992
    · simp only [hn, hm, if_true]; omega
    · have : n.natAbs = 9007199254740992 := by omega
      simp only [hn, if_true, this]
      have : n = -9007199254740992 := by omega
      subst this; decide
  · by_cases hm : n.natAbs < 9007199254740992
    · simp only [hn, hm, if_true, if_false]; omega
    · have : n.natAbs = 9007199254740992 := by omega
      simp only [hn, if_false, this]
      have : n = 9007199254740992 := by omega
      subst this; decide

/-- WITNESS (findings `value-lossy:int-demoted-to-float`, `value-lossy:int-beyond-int64-as-float`):
one decimal cell demotes the column to float and two DIFFERENT integer cells are stored as the
SAME float64 (2^53+1 ↦ 2^53); an unsigned 64-bit id is rounded likewise. -/
theorem C31_infer_float_witness :
    (inferCol (fun c => if c = "0.5".toList then some 0x3fe0000000000000 else none)
        ["9007199254740993".toList, "9007199254740992".toList, "0.5".toList]).1
      = .float [0x4340000000000000, 0x4340000000000000, 0x3fe0000000000000] ∧
    roundF64 9007199254740993 = 9007199254740992 ∧
    parseInt "18446744073709551615".toList = none ∧
    parseFloatDigits "18446744073709551615".toList = some 0x43f0000000000000 ∧
    parseFloatDigits "18446744073709551614".toList = some 0x43f0000000000000 := by decide

/-! ## 3. rows: count, alignment, once-only storage -/

theorem timeCells_length (fb : Cell → Option Int) (fmt : String) :
    ∀ (cs : List Cell) (ts : List Int), timeCells fb fmt cs = some ts → ts.length = cs.length := by
  intro cs
  induction cs with
  | nil => intro ts h; simp [timeCells] at h; simp [← h]
  | cons c cs ih =>
    intro ts h
    unfold timeCells at h
    simp only [] at h
    split at h
    · rename_i t ts' _ h2
      simp only [Option.some.injEq] at h
      subst h
      simp [ih ts' h2]
    · simp at h

theorem count_eraseDups : ∀ (k : Nat) (l : List Int) (h : Int), l.length ≤ k →
    (l.eraseDups).count h = if h ∈ l then 1 else 0 := by
  intro k
  induction k with
  | zero => intro l h hl; have : l = [] := List.eq_nil_of_length_eq_zero (by omega); subst this; simp
  | succ k ih =>
    intro l h hl
    cases l with
    | nil => simp
    | cons a as =>
      rw [List.eraseDups_cons]
      have hlen : (as.filter (fun b => !b == a)).length ≤ k := by
        have := List.length_filter_le (fun b => !b == a) as
        simp only [List.length_cons] at hl; omega
      rw [List.count_cons, ih _ h hlen]
      by_cases hah : a = h
      · subst hah; simp
      · have h1 : (a == h) = false := by simp [hah]
        have h2 : ¬ h = a := fun e => hah e.symm
        simp [h1, hah, h2, List.mem_filter]

theorem count_hourFiles (rows : List Row) (r : Row) (hs : List Int) :
    ((hs.map (fun h => rows.filter (fun x => hourOf x.time == h))).flatten).count r
      = rows.count r * hs.count (hourOf r.time) := by
  induction hs with
  | nil => simp
  | cons h hs ih =>
    simp only [List.map_cons, List.flatten_cons, List.count_append, ih, List.count_cons]
    by_cases e : hourOf r.time = h
    · have : (fun x : Row => hourOf x.time == h) r = true := by simp [e]
      rw [List.count_filter (p := fun x : Row => hourOf x.time == h) (a := r) (l := rows) this]
      have e' : (h == hourOf r.time) = true := by simp [e]
      simp only [e', if_true]
      rw [Nat.mul_add, Nat.mul_one, Nat.add_comm]
    · have hnot : r ∉ rows.filter (fun x => hourOf x.time == h) := by
        simp [List.mem_filter, e]
      rw [List.count_eq_zero_of_not_mem hnot]
      have e' : (h == hourOf r.time) = false := by simp; exact fun x => e x.symm
      simp [e']

/-- EACH ROW IS STORED ONCE: the hour files written by a flush contain every buffered row exactly
as often as the batch does (count equality for every row = multiset equality), whatever the number
of hour partitions. -/
theorem C31_rows_once (rows : List Row) (r : Row) :
    (((hourFiles rows).map (·.2)).flatten).count r = rows.count r := by
  unfold hourFiles
  simp only [List.map_map]
  have hf : ((fun x : Int × List Row => x.2) ∘ fun h => (h, rows.filter (fun r => hourOf r.time == h)))
      = fun h => rows.filter (fun x => hourOf x.time == h) := rfl
  rw [hf, count_hourFiles]
  by_cases hr : r ∈ rows
  · have : hourOf r.time ∈ rows.map (fun r => hourOf r.time) := List.mem_map.mpr ⟨r, hr, rfl⟩
    rw [count_eraseDups _ _ _ (Nat.le_refl _)]
    simp [this]
  · simp [List.count_eq_zero_of_not_mem hr]

/-- every file holds rows of one hour only (rows land in their own hour partition) -/
theorem C31_rows_hour (rows : List Row) : ∀ f ∈ hourFiles rows, ∀ r ∈ f.2, hourOf r.time = f.1 := by
  intro f hf r hr
  unfold hourFiles at hf
  obtain ⟨h, _, rfl⟩ := List.mem_map.mp hf
  have := (List.mem_filter.mp hr).2
  simpa using this

/-- ACCEPTED ⇒ one stored row per data record: the header and exactly `skip_rows` leading records
are excluded, every other record of the file becomes one row (ragged records are padded /
truncated to the header width, see `C31_extra_fields_witness`). -/
theorem C31_rows (pf : Cell → Option Nat) (fb : Cell → Option Int) (x : CsvIn) (b : Batch)
    (h : convertCSV pf fb x = some b) :
    b.time.length = (x.recs.drop (x.skip.toNat + 1)).length ∧
    (batchRows b).length = (x.recs.drop (x.skip.toNat + 1)).length ∧
    0 < b.time.length := by
  unfold convertCSV at h
  by_cases hd : x.delimOk = true
  · by_cases hl : x.recs.length < x.skip.toNat
    · simp [hd, hl] at h
    · simp only [hd, hl, Bool.not_true, Bool.false_eq_true, if_false] at h
      cases hrest : x.recs.drop x.skip.toNat with
      | nil => simp [hrest] at h
      | cons h0 body =>
        simp only [hrest] at h
        cases h0 with
        | nil => simp at h
        | cons h00 hr =>
          simp only [] at h
          cases hv : validateHeader (stripBOM h00 :: hr) x.timeCol with
          | none => simp [hv] at h
          | some ti =>
            simp only [hv] at h
            by_cases he : body = []
            · subst he; simp at h
            · cases ht : timeCells fb x.fmt (column (body.map (padTo (hr.length + 1))) ti) with
              | none => simp [he, ht] at h
              | some tm =>
                simp [he, ht] at h
                subst h
                have hl2 := timeCells_length fb x.fmt _ tm ht
                simp only [column, List.length_map] at hl2
                have hbody : (x.recs.drop (x.skip.toNat + 1)) = body := by
                  rw [← List.drop_drop, hrest]; rfl
                have hpos : 0 < body.length := by
                  cases body with
                  | nil => exact absurd rfl he
                  | cons _ _ => simp
                simp only [batchRows, List.length_map, List.length_range, hl2, hbody]
                exact ⟨trivial, trivial, hpos⟩
  · simp [hd] at h

/-! ## 4. all-or-nothing -/

/-- the regenerated error policy: every error branch of the import control flow RETURNS an error
(no `continue` past a bad row / column / hour), except the end-of-file `break` of the CSV read
loop; each import function performs exactly ONE buffer write, placed after every conversion-error
return and followed by FlushAll. -/
theorem C31_policy_tied :
    Arc.Generated.C31.errBranches.filter (fun b => b.2.2 != "return-error") = [("importCSV", "err == io.EOF", "break")] ∧
    Arc.Generated.C31.writeSeq.all (fun s => s.2.1 == 1 && s.2.2.2.1 == 2 && s.2.2.2.2) = true ∧
    aborts "stringsToTimeMicros" 0 = true ∧ aborts "stringsToTimeMicros" 1 = true ∧ aborts "stringsToTimeMicros" 2 = true ∧
    Arc.Generated.C31.unknownFormatRejected = true := by decide

/-- one bad time cell (empty after trimming, or not convertible) rejects the whole column -/
theorem C31_bad_time_rejects (fb : Cell → Option Int) (fmt : String) (pre post : List Cell) (c : Cell)
    (hbad : trimSpace c = [] ∨ oneTime fb fmt (trimSpace c) = none) :
    timeCells fb fmt (pre ++ c :: post) = none := by
  induction pre with
  | nil =>
    have a0 := C31_policy_tied.2.2.1
    have a1 := C31_policy_tied.2.2.2.1
    have a2 := C31_policy_tied.2.2.2.2.1
    simp only [List.nil_append]
    unfold timeCells
    rcases hbad with he | hn
    · simp [he, a0]
    · by_cases he : (trimSpace c).isEmpty = true
      · simp [he, a0]
      · simp only [he, hn, a1, a2]
        by_cases hf : fmt != ""
        · simp [hf]
        · simp [hf]
  | cons p pre ih =>
    simp only [List.cons_append]
    unfold timeCells
    simp only [ih]
    split <;> simp_all

/-- ALL-OR-NOTHING for every input-caused failure (full strength over the model): an import that
is not accepted leaves the storage exactly as it was; an accepted one appends exactly the rows of
the converted batch. -/
theorem C31_all_or_nothing (pf : Cell → Option Nat) (fb : Cell → Option Int) (x : CsvIn) (st : List Row) :
    ((importCSV pf fb x st).1 = false → (importCSV pf fb x st).2 = st) ∧
    ((importCSV pf fb x st).1 = true → ∃ b, convertCSV pf fb x = some b ∧
        (importCSV pf fb x st).2 = st ++ ((hourFiles (batchRows b)).map (·.2)).flatten) := by
  unfold importCSV
  cases hc : convertCSV pf fb x with
  | none => simp
  | some b => simp

theorem C31_all_or_nothing_parquet (x : PqIn) (st : List Row) :
    ((importPQ x st).1 = false → (importPQ x st).2 = st) ∧
    ((importPQ x st).1 = true → ∃ b, convertPQ x = some b ∧
        (importPQ x st).2 = st ++ ((hourFiles (batchRows b)).map (·.2)).flatten) := by
  unfold importPQ
  cases hc : convertPQ x with
  | none => simp
  | some b => simp

def demoRecs : List (List Cell) :=
  [["time".toList, "v".toList], ["1609459200".toList, "5".toList], ["oops".toList, "6".toList]]

/-- non-vacuity: a file whose LAST row has a bad time is rejected as a whole and stores nothing;
without that row it is accepted with one row. -/
example : importCSV (fun _ => none) (fun _ => none) { delimOk := true, skip := 0, timeCol := timeLit, fmt := "epoch_s", recs := demoRecs } [] = (false, []) ∧
    (importCSV (fun _ => none) (fun _ => none) { delimOk := true, skip := 0, timeCol := timeLit, fmt := "epoch_s", recs := demoRecs.take 2 } []).1 = true := by
  decide

/-- WITNESS (finding `partial-import-after-error:csv:storage-write-fault`): when the write of the
second hour file fails, `flushPartitionedData` returns the error (→ HTTP 500) and the first hour
file stays in storage. -/
theorem C31_flush_fault_witness :
    let rows : List Row := [{ time := 0, vals := [] }, { time := 3600000000, vals := [] }]
    flushFiles (hourFiles rows) (some 1) = ([(0, [{ time := 0, vals := [] }])], false) := by decide

/-- partial: without a storage fault the flush keeps every file -/
theorem C31_flush_partial (files : List (Int × List Row)) : flushFiles files none = (files, true) := rfl

/-! ## 5. further witnesses of silent loss in ACCEPTED files -/

/-- WITNESS (finding `value-lossy:extra-fields-dropped`): a data record with more fields than the
header is accepted and the surplus cell is discarded. -/
theorem C31_extra_fields_witness :
    (convertCSV (fun _ => none) (fun _ => none)
      { delimOk := true, skip := 0, timeCol := timeLit, fmt := "epoch_s",
        recs := [["time".toList, "v".toList], ["1".toList, "5".toList, "dropped".toList]] })
    = some { time := [1000000], cols := [{ name := "v".toList, col := .int [5], validity := none }] } := by decide +kernel

/-- WITNESS (finding `value-lossy:underscore-column-dropped`): a column whose name starts with `_`
is converted but never reaches the stored rows. -/
theorem C31_underscore_witness :
    batchRows { time := [1000000], cols := [{ name := "_v".toList, col := .int [5], validity := none }] }
      = [{ time := 1000000, vals := [] }] := by decide

/-- WITNESS (finding `value-lossy:uint64-wrapped`): a Parquet UINT64 value above MaxInt64 is stored
as a negative int64. -/
theorem C31_uint64_witness :
    (pqTyped { name := "u".toList, kind := .u64, cells := [{ v := .i 18446744073709551615 }] })
      = some { name := "u".toList, col := .int [-1], validity := none } := by decide

end Arc.C31
