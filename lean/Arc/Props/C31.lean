import Arc.Proofs.C31.Digits
/-!
# C31 — file imports store every data row of the uploaded file

Property (fixed text): *for every CSV or Parquet file accepted by the import endpoints, each data
row is stored once in the target database and measurement with its time converted to microseconds
as requested and every other value converted to its inferred type without loss; a file that cannot
be imported completely is rejected without storing a partial import.*

The model (`Arc.Model.C31`) reads the conversion tables and the error policy from
`Arc.Generated.C31` (regenerated from the current source), so every theorem below is re-checked
against the source on every run.

The real code VIOLATES three clauses; each has a witness theorem, a `_partial` theorem under an
explicit carve-out, and a monitor key in the harness:

* time, "as requested … no silent wrap": `intTimeToMicros` / `arrowTimestampToMicros` multiply in
  wrapping int64 arithmetic and cannot reject (`C31_time_int_witness`, `C31_time_arrow_witness`).
  FULL STATEMENT (false):  ∀ n fmt, inI64 n → intTimeToMicros n fmt = n · unit(fmt) ∨ rejected.
* "converted to its inferred type without loss": FIXED in /repo (8033d9e, 273e2e1, 306d476,
  83c5101) and now proved at full strength for the modelled classes (`C31_infer_lossless_int/_str/
  _bool/_float`, `C31_no_cell_dropped`, `C31_no_column_dropped`, `C31_uint64_exact`); the former
  witnesses are kept as HISTORY theorems (`C31_infer_big_int_stays_text`, `C31_long_row_rejected`,
  `C31_underscore_rejected`, `C31_uint64_rejected`).  Still open, outside the model (library
  parameters): CRLF inside quoted CSV fields, DECIMAL128 → float64.
* "rejected without storing a partial import": a storage write fault on the k-th hour file leaves
  the first k files in storage (`C31_flush_fault_witness`); for every INPUT-caused failure the clause
  holds at full strength (`C31_all_or_nothing`).
-/
namespace Arc.C31
open Arc.Generated.C31 (Op)

/-! ## 1. integer epoch → microseconds -/

/-- Explicit units: the conversion is EXACT whenever the exact product fits int64 (carve-out),
`epoch_us` is the identity, `epoch_ns` is Go's truncating division (exact value rounded toward
zero, error < 1 µs). -/
theorem C31_time_int_partial (n : Int) (_h : inI64 n) :
    (inI64 (n * 1000000) → intTimeToMicros n "epoch_s" = n * 1000000) ∧
    (inI64 (n * 1000) → intTimeToMicros n "epoch_ms" = n * 1000) ∧
    intTimeToMicros n "epoch_us" = n ∧
    intTimeToMicros n "epoch_ns" = Int.tdiv n 1000 ∧
    (0 ≤ n → 1000 * intTimeToMicros n "epoch_ns" ≤ n ∧ n < 1000 * intTimeToMicros n "epoch_ns" + 1000) ∧
    (n < 0 → n ≤ 1000 * intTimeToMicros n "epoch_ns" ∧ 1000 * intTimeToMicros n "epoch_ns" - 1000 < n) := by
  refine ⟨fun h1 => by rw [intTime_s, wrap64_id h1], fun h1 => by rw [intTime_ms, wrap64_id h1],
    intTime_us n, intTime_ns n, ?_, ?_⟩
  · rw [intTime_ns]; exact (tdiv1000 n).1
  · rw [intTime_ns]; exact (tdiv1000 n).2

example : inI64 1609459200 ∧ inI64 (1609459200 * 1000000) ∧
    intTimeToMicros 1609459200 "epoch_s" = 1609459200000000 := by decide

/-- The carve-out is tight: the result equals the exact product IF AND ONLY IF the product fits;
outside it a *different* int64 is returned and nothing is rejected. -/
theorem C31_time_int_exact_iff (n : Int) :
    (intTimeToMicros n "epoch_s" = n * 1000000 ↔ inI64 (n * 1000000)) ∧
    (intTimeToMicros n "epoch_ms" = n * 1000 ↔ inI64 (n * 1000)) := by
  rw [intTime_s, intTime_ms]; exact ⟨wrap64_eq_iff _, wrap64_eq_iff _⟩

/-- WITNESS (finding `time-overflow-wrapped:epoch_s` / `:epoch_ms`): an int64 epoch-seconds value
whose microsecond value does not fit is silently wrapped to a negative time; a nanosecond epoch
mis-declared as seconds likewise. -/
theorem C31_time_int_witness :
    inI64 9223372036855 ∧ ¬ inI64 (9223372036855 * 1000000) ∧
    intTimeToMicros 9223372036855 "epoch_s" = -9223372036854551616 ∧
    intTimeToMicros 1609459200000000000 "epoch_s" = -773687084668944384 ∧
    intTimeToMicros 9223372036854776 "epoch_ms" = -9223372036854775616 := by decide

/-- Auto-detection (time_format empty or, for Parquet integer columns, unknown): FULL STRENGTH over
the whole int64 range including MinInt64 — the unit is chosen by |n| with the thresholds of the
current source, the conversion is exact for that unit and never leaves int64. -/
theorem C31_time_auto (n : Int) (h : inI64 n) :
    inI64 (autoIntEpochToMicros n) ∧
    ((-10000000000 < n ∧ n < 10000000000) → autoIntEpochToMicros n = n * 1000000) ∧
    ((10000000000 ≤ n ∧ n < 10000000000000) ∨ (-10000000000000 < n ∧ n ≤ -10000000000) →
        autoIntEpochToMicros n = n * 1000) ∧
    ((10000000000000 ≤ n ∧ n < 10000000000000000) ∨ (-10000000000000000 < n ∧ n ≤ -10000000000000) →
        autoIntEpochToMicros n = n) ∧
    (10000000000000000 ≤ n ∨ n ≤ -10000000000000000 → autoIntEpochToMicros n = Int.tdiv n 1000) := by
  have hb := h
  unfold inI64 at hb
  have hq := tdiv1000 n
  have key := autoInt_unfold n h
  simp only [] at key
  by_cases hn : n < 0
  · by_cases hm : n = -9223372036854775808
    · subst hm; decide
    · simp only [hn, hm, if_true, if_false] at key
      by_cases h1 : -n < 10000000000
      · have hw : wrap64 (n * 1000000) = n * 1000000 := wrap64_id (by unfold inI64; omega)
        simp only [h1, if_true, hw] at key
        rw [key]
        refine ⟨by unfold inI64; omega, ?_, ?_, ?_, ?_⟩ <;> intro hx <;> omega
      · by_cases h2 : -n < 10000000000000
        · have hw : wrap64 (n * 1000) = n * 1000 := wrap64_id (by unfold inI64; omega)
          simp only [h1, h2, if_true, if_false, hw] at key
          rw [key]
          refine ⟨by unfold inI64; omega, ?_, ?_, ?_, ?_⟩ <;> intro hx <;> omega
        · by_cases h3 : -n < 10000000000000000
          · simp only [h1, h2, h3, if_true, if_false] at key
            rw [key]
            refine ⟨h, ?_, ?_, ?_, ?_⟩ <;> intro hx <;> omega
          · simp only [h1, h2, h3, if_false] at key
            rw [key]
            refine ⟨by unfold inI64; omega, ?_, ?_, ?_, ?_⟩ <;> intro hx <;> omega
  · simp only [hn, if_false] at key
    by_cases h1 : n < 10000000000
    · have hw : wrap64 (n * 1000000) = n * 1000000 := wrap64_id (by unfold inI64; omega)
      simp only [h1, if_true, hw] at key
      rw [key]
      refine ⟨by unfold inI64; omega, ?_, ?_, ?_, ?_⟩ <;> intro hx <;> omega
    · by_cases h2 : n < 10000000000000
      · have hw : wrap64 (n * 1000) = n * 1000 := wrap64_id (by unfold inI64; omega)
        simp only [h1, h2, if_true, if_false, hw] at key
        rw [key]
        refine ⟨by unfold inI64; omega, ?_, ?_, ?_, ?_⟩ <;> intro hx <;> omega
      · by_cases h3 : n < 10000000000000000
        · simp only [h1, h2, h3, if_true, if_false] at key
          rw [key]
          refine ⟨h, ?_, ?_, ?_, ?_⟩ <;> intro hx <;> omega
        · simp only [h1, h2, h3, if_false] at key
          rw [key]
          refine ⟨by unfold inI64; omega, ?_, ?_, ?_, ?_⟩ <;> intro hx <;> omega

example : autoIntEpochToMicros 9999999999 = 9999999999000000 ∧ autoIntEpochToMicros 10000000000 = 10000000000000 ∧
    autoIntEpochToMicros (-9223372036854775808) = -9223372036854775 := by decide

/-- `intTimeToMicros` with any format other than the four explicit ones IS the auto-detection
(Parquet integer time columns: an unknown `time_format` is not rejected). -/
theorem C31_time_int_default (n : Int) : intTimeToMicros n "" = autoIntEpochToMicros n ∧
    intTimeToMicros n "rfc3339" = autoIntEpochToMicros n := by
  constructor <;> simp [intTimeToMicros, lookupOp, Arc.Generated.C31.intTime, Arc.Generated.C31.intTimeDefault, List.lookup, applyOp]

/-- Arrow TIMESTAMP columns, per unit (same carve-out as the explicit integer formats). -/
theorem C31_time_arrow_partial (v : Int) (_h : inI64 v) :
    (inI64 (v * 1000000) → arrowTimestampToMicros v "Second" = v * 1000000) ∧
    (inI64 (v * 1000) → arrowTimestampToMicros v "Millisecond" = v * 1000) ∧
    arrowTimestampToMicros v "Microsecond" = v ∧
    arrowTimestampToMicros v "Nanosecond" = Int.tdiv v 1000 := by
  exact ⟨fun h1 => by rw [arrow_s, wrap64_id h1], fun h1 => by rw [arrow_ms, wrap64_id h1], arrow_us v, arrow_ns v⟩

example : arrowTimestampToMicros 1609459200123 "Millisecond" = 1609459200123000 := by decide

/-- WITNESS (finding `time-overflow-wrapped:arrow_ms`). -/
theorem C31_time_arrow_witness :
    inI64 9223372036854776 ∧ ¬ inI64 (9223372036854776 * 1000) ∧
    arrowTimestampToMicros 9223372036854776 "Millisecond" = -9223372036854775616 := by decide

/-! ## 2. type inference and value conversion -/

/-- the guards of the current source, as regenerated facts -/
theorem C31_repairs_tied :
    Arc.Generated.C31.rejectLongRows = true ∧ Arc.Generated.C31.headerRejectsUnderscore = true ∧
    Arc.Generated.C31.uint64RangeChecked = true ∧ Arc.Generated.C31.inexactIntsStayText = true ∧
    Arc.Generated.C31.underscoreSkips = 2 := by decide


theorem toDigits_eq_zero {m : Nat} (h : Nat.toDigits 10 m = ['0']) : m = 0 := by
  have := Nat.ofDigitChars_ten_toDigits (n := m)
  rw [h] at this
  simpa [Nat.ofDigitChars] using this.symm

/-- ParseInt is exact and never wraps: an accepted integer cell denotes an int64, and rendering the
stored value gives back the cell up to the DOCUMENTED NORMAL FORM `canonInt`
(no `+` sign, no leading zeros, no negative zero: `+5`→`5`, `007`→`7`, `-0`→`0`). -/
theorem C31_parse_int_exact (s : Cell) (n : Int) (h : parseInt s = some n) :
    inI64 n ∧ renderInt n = canonInt s := by
  unfold parseInt at h
  cases s with
  | nil => simp at h
  | cons c rest =>
    simp only [] at h
    by_cases h1 : c = '-'
    · subst h1
      simp only [beq_self_eq_true, if_true] at h
      cases hp : parseUDigits rest with
      | none => simp [hp] at h
      | some m =>
        simp only [hp] at h
        by_cases hm : m ≤ 9223372036854775808
        · simp only [hm, if_true, Option.some.injEq] at h
          obtain ⟨hne, hall, hv⟩ := parseUDigits_some hp
          have hd := toDigits_digitsVal rest hne hall
          rw [← hv] at hd
          subst h
          refine ⟨by unfold inI64; omega, ?_⟩
          by_cases hz : m = 0
          · subst hz
            have : stripZeros rest = ['0'] := by rw [← hd]; exact Nat.toDigits_zero 10
            simp [renderInt, canonInt, this, Nat.toDigits_zero]
          · have hne0 : stripZeros rest ≠ ['0'] := by
              intro hc; rw [← hd] at hc; exact hz (toDigits_eq_zero hc)
            have hneg : (-(m : Int)) < 0 := by omega
            simp [renderInt, canonInt, hneg, hne0, hd, hz]
        · simp [hm] at h
    · by_cases h2 : c = '+'
      · subst h2
        simp only [show ('+' == '-') = false by decide, if_false, beq_self_eq_true, if_true, Bool.false_eq_true] at h
        cases hp : parseUDigits rest with
        | none => simp [hp] at h
        | some m =>
          simp only [hp] at h
          by_cases hm : m < 9223372036854775808
          · simp only [hm, if_true, Option.some.injEq] at h
            obtain ⟨hne, hall, hv⟩ := parseUDigits_some hp
            have hd := toDigits_digitsVal rest hne hall
            rw [← hv] at hd
            subst h
            refine ⟨by unfold inI64; omega, ?_⟩
            have hnn : ¬ ((m : Int) < 0) := by omega
            simp [renderInt, canonInt, hnn, hd]
          · simp [hm] at h
      · have e1 : (c == '-') = false := by simp [h1]
        have e2 : (c == '+') = false := by simp [h2]
        simp only [e1, e2, if_false, Bool.false_eq_true] at h
        cases hp : parseUDigits (c :: rest) with
        | none => simp [hp] at h
        | some m =>
          simp only [hp] at h
          by_cases hm : m < 9223372036854775808
          · simp only [hm, if_true, Option.some.injEq] at h
            obtain ⟨hne, hall, hv⟩ := parseUDigits_some hp
            have hd := toDigits_digitsVal (c :: rest) hne hall
            rw [← hv] at hd
            subst h
            refine ⟨by unfold inI64; omega, ?_⟩
            have hnn : ¬ ((m : Int) < 0) := by omega
            simp [renderInt, canonInt, hnn, hd, e1, e2]
          · simp [hm] at h

example : parseInt "007".toList = some 7 ∧ parseInt "+5".toList = some 5 ∧ parseInt "-0".toList = some 0 ∧
    parseInt "9223372036854775808".toList = none ∧ parseInt "-9223372036854775808".toList = some (-9223372036854775808) ∧
    parseInt " 5".toList = none ∧ parseInt "1e3".toList = none := by decide

/-- INT columns are lossless (full strength): the column is typed int only when EVERY non-empty
cell is an int64 literal, the stored value is exactly that integer, and it renders back to the
cell's normal form. -/
theorem C31_infer_lossless_int (pf : Cell → Option Nat) (raw : List Cell) (vs : List Int) (v : Option (List Bool))
    (h : inferCol pf raw = (.int vs, v)) :
    vs = raw.map intCell ∧
    ∀ c ∈ raw, c ≠ [] → ∃ n, parseInt c = some n ∧ intCell c = n ∧ inI64 n ∧ renderInt n = canonInt c := by
  unfold inferCol at h
  by_cases h1 : raw.any (fun c => !c.isEmpty) = true
  · by_cases h2 : (raw.dropWhile intOK).isEmpty = true
    · simp only [h1, h2, Bool.not_true, Bool.false_eq_true, if_false, if_true, Prod.mk.injEq, Col.int.injEq] at h
      refine ⟨h.1.symm, ?_⟩
      intro c hc hne
      have hall : ∀ x ∈ raw, intOK x = true := by
        have := List.isEmpty_iff.mp h2
        exact dropWhile_nil_all intOK raw this
      have hok := hall c hc
      unfold intOK at hok
      have hce : c.isEmpty = false := by cases c with | nil => exact absurd rfl hne | cons _ _ => rfl
      simp only [hce, Bool.false_or] at hok
      obtain ⟨n, hn⟩ := Option.isSome_iff_exists.mp hok
      obtain ⟨hr, hcn⟩ := C31_parse_int_exact c n hn
      exact ⟨n, hn, by simp [intCell, hn], hr, hcn⟩
    · simp only [h1, h2, Bool.not_true, Bool.false_eq_true, if_false] at h
      split at h
      · simp at h
      · split at h <;> simp at h
  · simp [h1] at h

/-- STRING columns are stored verbatim (full strength), with no null bitmap. -/
theorem C31_infer_lossless_str (pf : Cell → Option Nat) (raw vs : List Cell) (v : Option (List Bool))
    (h : inferCol pf raw = (.str vs, v)) : vs = raw ∧ v = none := by
  unfold inferCol at h
  by_cases h1 : raw.any (fun c => !c.isEmpty) = true
  · simp only [h1, Bool.not_true, Bool.false_eq_true, if_false] at h
    split at h
    · simp at h
    · split at h
      · simp at h
      · split at h
        · simp at h
        · simp only [Prod.mk.injEq, Col.str.injEq] at h; exact ⟨h.1.symm, h.2.symm⟩
  · simp only [h1, Bool.not_false, if_true, Prod.mk.injEq, Col.str.injEq] at h
    exact ⟨h.1.symm, h.2.symm⟩

/-- BOOL columns (full strength): every non-empty cell is one of the accepted spellings
(`1`, `0`, or a case-folded `true`/`false`) and the stored bit is its meaning. -/
theorem C31_infer_lossless_bool (pf : Cell → Option Nat) (raw : List Cell) (vs : List Bool) (v : Option (List Bool))
    (h : inferCol pf raw = (.bool vs, v)) :
    vs = raw.map (fun c => !c.isEmpty && boolVal c) ∧ ∀ c ∈ raw, c ≠ [] → isBoolLiteral c = true := by
  unfold inferCol at h
  by_cases h1 : raw.any (fun c => !c.isEmpty) = true
  · simp only [h1, Bool.not_true, Bool.false_eq_true, if_false] at h
    split at h
    · simp at h
    · split at h
      · simp at h
      · split at h
        · rename_i hb
          simp only [Prod.mk.injEq, Col.bool.injEq] at h
          refine ⟨h.1.symm, ?_⟩
          intro c hc hne
          have := List.all_eq_true.mp hb c hc
          have hce : c.isEmpty = false := by cases c with | nil => exact absurd rfl hne | cons _ _ => rfl
          simpa [hce] using this
        · simp at h
  · simp [h1] at h

example : (inferCol (fun _ => none) ["TRUE".toList, [], "0".toList]).1 = .bool [true, false, false] := by decide

/-- FLOAT columns, what is stored: cells before the first non-integer cell are `float64(int64)`
of the parsed integer, the rest are `strconv.ParseFloat` (parameter `pf`). -/
theorem C31_infer_float_cells (pf : Cell → Option Nat) (raw : List Cell) (vs : List Nat) (v : Option (List Bool))
    (h : inferCol pf raw = (.float vs, v)) :
    vs = (raw.takeWhile intOK).map (fun c => f64BitsOfInt (intCell c)) ++
         (raw.dropWhile intOK).map (fun c => if c.isEmpty then 0 else (pf c).getD 0) := by
  unfold inferCol at h
  by_cases h1 : raw.any (fun c => !c.isEmpty) = true
  · simp only [h1, Bool.not_true, Bool.false_eq_true, if_false] at h
    split at h
    · simp at h
    · split at h
      · simp only [Prod.mk.injEq, Col.float.injEq] at h; exact h.1.symm
      · split at h <;> simp at h
  · simp [h1] at h

/-- carve-out of the float clause: `float64(n)` is exact for |n| ≤ 2^53 -/
theorem C31_infer_lossless_float_partial (n : Int) (h : -9007199254740992 ≤ n ∧ n ≤ 9007199254740992) :
    roundF64 n = n := by
  unfold roundF64 roundNat53
  by_cases hn : n < 0
  · by_cases hm : n.natAbs < 9007199254740992
    · simp only [hn, hm, if_true]; omega
    · have : n.natAbs = 9007199254740992 := by omega
      simp only [hn, if_true, this]
      have : n = -9007199254740992 := by omega
      subst this; decide
  · by_cases hm : n.natAbs < 9007199254740992
    · simp only [hn, hm, if_true, if_false]; omega
    · have : n.natAbs = 9007199254740992 := by omega
      simp only [hn, if_false, this]
      have : n = 9007199254740992 := by omega
      subst this; decide

/-- FLOAT columns are lossless for integer cells (full strength since /repo 83c5101): a column is
typed float only if every integer cell before the demotion point is within ±2^53 — so
`float64(n)` is exact — and no later integer literal parses to |f| ≥ 2^53.  (Decimal literals →
nearest float64 is the documented normal form; ParseFloat itself is a parameter.) -/
theorem C31_infer_lossless_float (pf : Cell → Option Nat) (raw : List Cell) (vs : List Nat) (v : Option (List Bool))
    (h : inferCol pf raw = (.float vs, v)) :
    (∀ c ∈ raw.takeWhile intOK, roundF64 (intCell c) = intCell c) ∧
    (∀ c ∈ raw.dropWhile intOK, c ≠ [] → intSyntax c = true → f64AbsGe2p53 ((pf c).getD 0) = false) := by
  unfold inferCol at h
  by_cases h1 : raw.any (fun c => !c.isEmpty) = true
  · simp only [h1, Bool.not_true, Bool.false_eq_true, if_false] at h
    split at h
    · simp at h
    · split at h
      · rename_i hcond
        simp only [Bool.and_eq_true] at hcond
        have hg := hcond.2
        simp only [exactGuards, C31_repairs_tied.2.2.2.1, Bool.not_true, Bool.false_or, Bool.and_eq_true,
          List.all_eq_true] at hg
        constructor
        · intro c hc
          have := hg.1 c hc
          simp only [smallInt, Bool.and_eq_true, decide_eq_true_eq] at this
          exact C31_infer_lossless_float_partial _ this
        · intro c hc hne hsyn
          have := hg.2 c hc
          have hce : c.isEmpty = false := by cases c with | nil => exact absurd rfl hne | cons _ _ => rfl
          simp only [hce, Bool.false_or, hsyn, Bool.and_true, Bool.not_eq_true'] at this
          exact this
      · split at h <;> simp at h
  · simp [h1] at h

/-- HISTORY (findings `value-lossy:int-demoted-to-float`, `value-lossy:int-beyond-int64-as-float`,
fixed in /repo 83c5101): these columns used to be stored as float64 with 2^53+1 ↦ 2^53 and
2^64-1 ↦ 2^64 (`roundF64`, `parseFloatDigits` below show the rounding); they now stay text. -/
theorem C31_infer_big_int_stays_text :
    (inferCol (fun c => if c = "0.5".toList then some 0x3fe0000000000000 else none)
        ["9007199254740993".toList, "9007199254740992".toList, "0.5".toList]).1
      = .str ["9007199254740993".toList, "9007199254740992".toList, "0.5".toList] ∧
    (inferCol (fun c => if c = "1.5".toList then some 0x3ff8000000000000
                        else if c = "18446744073709551615".toList then some 0x43f0000000000000 else none)
        ["1.5".toList, "18446744073709551615".toList]).1
      = .str ["1.5".toList, "18446744073709551615".toList] ∧
    roundF64 9007199254740993 = 9007199254740992 ∧
    parseInt "18446744073709551615".toList = none ∧
    parseFloatDigits "18446744073709551615".toList = some 0x43f0000000000000 ∧
    parseFloatDigits "18446744073709551614".toList = some 0x43f0000000000000 := by decide

/-! ## 3. rows: count, alignment, once-only storage -/

theorem timeCells_length (fb : Cell → Option Int) (fmt : String) :
    ∀ (cs : List Cell) (ts : List Int), timeCells fb fmt cs = some ts → ts.length = cs.length := by
  intro cs
  induction cs with
  | nil => intro ts h; simp [timeCells] at h; simp [← h]
  | cons c cs ih =>
    intro ts h
    unfold timeCells at h
    simp only [] at h
    split at h
    · rename_i t ts' _ h2
      simp only [Option.some.injEq] at h
      subst h
      simp [ih ts' h2]
    · simp at h

theorem count_eraseDups : ∀ (k : Nat) (l : List Int) (h : Int), l.length ≤ k →
    (l.eraseDups).count h = if h ∈ l then 1 else 0 := by
  intro k
  induction k with
  | zero => intro l h hl; have : l = [] := List.eq_nil_of_length_eq_zero (by omega); subst this; simp
  | succ k ih =>
    intro l h hl
    cases l with
    | nil => simp
    | cons a as =>
      rw [List.eraseDups_cons]
      have hlen : (as.filter (fun b => !b == a)).length ≤ k := by
        have := List.length_filter_le (fun b => !b == a) as
        simp only [List.length_cons] at hl; omega
      rw [List.count_cons, ih _ h hlen]
      by_cases hah : a = h
      · subst hah; simp
      · have h1 : (a == h) = false := by simp [hah]
        have h2 : ¬ h = a := fun e => hah e.symm
        simp [h1, hah, h2, List.mem_filter]

theorem count_hourFiles (rows : List Row) (r : Row) (hs : List Int) :
    ((hs.map (fun h => rows.filter (fun x => hourOf x.time == h))).flatten).count r
      = rows.count r * hs.count (hourOf r.time) := by
  induction hs with
  | nil => simp
  | cons h hs ih =>
    simp only [List.map_cons, List.flatten_cons, List.count_append, ih, List.count_cons]
    by_cases e : hourOf r.time = h
    · have : (fun x : Row => hourOf x.time == h) r = true := by simp [e]
      rw [List.count_filter (p := fun x : Row => hourOf x.time == h) (a := r) (l := rows) this]
      have e' : (h == hourOf r.time) = true := by simp [e]
      simp only [e', if_true]
      rw [Nat.mul_add, Nat.mul_one, Nat.add_comm]
    · have hnot : r ∉ rows.filter (fun x => hourOf x.time == h) := by
        simp [List.mem_filter, e]
      rw [List.count_eq_zero_of_not_mem hnot]
      have e' : (h == hourOf r.time) = false := by simp; exact fun x => e x.symm
      simp [e']

/-- EACH ROW IS STORED ONCE: the hour files written by a flush contain every buffered row exactly
as often as the batch does (count equality for every row = multiset equality), whatever the number
of hour partitions. -/
theorem C31_rows_once (rows : List Row) (r : Row) :
    (((hourFiles rows).map (·.2)).flatten).count r = rows.count r := by
  unfold hourFiles
  simp only [List.map_map]
  have hf : ((fun x : Int × List Row => x.2) ∘ fun h => (h, rows.filter (fun r => hourOf r.time == h)))
      = fun h => rows.filter (fun x => hourOf x.time == h) := rfl
  rw [hf, count_hourFiles]
  by_cases hr : r ∈ rows
  · have : hourOf r.time ∈ rows.map (fun r => hourOf r.time) := List.mem_map.mpr ⟨r, hr, rfl⟩
    rw [count_eraseDups _ _ _ (Nat.le_refl _)]
    simp [this]
  · simp [List.count_eq_zero_of_not_mem hr]

/-- every file holds rows of one hour only (rows land in their own hour partition) -/
theorem C31_rows_hour (rows : List Row) : ∀ f ∈ hourFiles rows, ∀ r ∈ f.2, hourOf r.time = f.1 := by
  intro f hf r hr
  unfold hourFiles at hf
  obtain ⟨h, _, rfl⟩ := List.mem_map.mp hf
  have := (List.mem_filter.mp hr).2
  simpa using this

/-- what an accepted CSV conversion looks like -/
theorem convertCSV_shape (pf : Cell → Option Nat) (fb : Cell → Option Int) (x : CsvIn) (b : Batch)
    (h : convertCSV pf fb x = some b) :
    ∃ h00 hr body ti, x.recs.drop x.skip.toNat = (h00 :: hr) :: body ∧
      validateHeader (stripBOM h00 :: hr) x.timeCol = some ti ∧ body ≠ [] ∧
      (∀ r ∈ body, r.length ≤ hr.length + 1) ∧
      timeCells fb x.fmt (column (body.map (padTo (hr.length + 1))) ti) = some b.time ∧
      (∀ c ∈ b.cols, c.name ∈ stripBOM h00 :: hr) := by
  unfold convertCSV at h
  by_cases hd : x.delimOk = true
  · by_cases hl : x.recs.length < x.skip.toNat
    · simp [hd, hl] at h
    · simp only [hd, hl, Bool.not_true, Bool.false_eq_true, if_false] at h
      cases hrest : x.recs.drop x.skip.toNat with
      | nil => simp [hrest] at h
      | cons h0 body =>
        simp only [hrest] at h
        cases h0 with
        | nil => simp at h
        | cons h00 hr =>
          simp only [] at h
          cases hv : validateHeader (stripBOM h00 :: hr) x.timeCol with
          | none => simp [hv] at h
          | some ti =>
            simp only [hv] at h
            by_cases he : body = []
            · subst he; simp at h
            · by_cases hlong : body.any (fun r => decide (r.length > hr.length + 1)) = true
              · simp [he, hlong, C31_repairs_tied.1] at h
              · cases ht : timeCells fb x.fmt (column (body.map (padTo (hr.length + 1))) ti) with
                | none => simp [he, ht] at h
                | some tm =>
                  have hlong' : ∀ r ∈ body, r.length ≤ hr.length + 1 := by
                    intro r hr'
                    have := hlong
                    simp only [List.any_eq_true, decide_eq_true_eq, not_exists, not_and] at this
                    have := this r hr'
                    omega
                  simp [he, ht, C31_repairs_tied.1] at h
                  obtain ⟨_, hb⟩ := h
                  subst hb
                  refine ⟨h00, hr, body, ti, rfl, hv, he, hlong', ht, ?_⟩
                  intro c hc
                  simp only [List.mem_filterMap, List.mem_range] at hc
                  obtain ⟨i, hi, hci⟩ := hc
                  split at hci
                  · simp at hci
                  · simp only [Option.some.injEq] at hci
                    subst hci
                    simp only []
                    have hlt : i < (stripBOM h00 :: hr).length := by simpa using hi
                    simp [List.getD, List.getElem?_eq_getElem hlt]
  · simp [hd] at h

/-- ACCEPTED ⇒ one stored row per data record: the header and exactly `skip_rows` leading records
are excluded, every other record of the file becomes one row. -/
theorem C31_rows (pf : Cell → Option Nat) (fb : Cell → Option Int) (x : CsvIn) (b : Batch)
    (h : convertCSV pf fb x = some b) :
    b.time.length = (x.recs.drop (x.skip.toNat + 1)).length ∧
    (batchRows b).length = (x.recs.drop (x.skip.toNat + 1)).length ∧
    0 < b.time.length := by
  obtain ⟨h00, hr, body, ti, hrest, _, he, _, ht, _⟩ := convertCSV_shape pf fb x b h
  have hl2 := timeCells_length fb x.fmt _ _ ht
  simp only [column, List.length_map] at hl2
  have hbody : (x.recs.drop (x.skip.toNat + 1)) = body := by
    rw [← List.drop_drop, hrest]; rfl
  have hpos : 0 < body.length := by
    cases body with
    | nil => exact absurd rfl he
    | cons _ _ => simp
  simp only [batchRows, List.length_map, List.length_range, hl2, hbody]
  exact ⟨trivial, trivial, hpos⟩

/-- NO CELL IS DROPPED (full strength since /repo 8033d9e; before it `C31_extra_fields_witness`
showed a surplus cell being discarded): in an accepted file no data record is longer than the
header, so padding to the header width keeps every cell. -/
theorem C31_no_cell_dropped (pf : Cell → Option Nat) (fb : Cell → Option Int) (x : CsvIn) (b : Batch)
    (h : convertCSV pf fb x = some b) :
    ∀ r ∈ x.recs.drop (x.skip.toNat + 1), r.length ≤ ((x.recs.drop x.skip.toNat).headD []).length ∧
      (padTo ((x.recs.drop x.skip.toNat).headD []).length r).take r.length = r := by
  obtain ⟨h00, hr, body, ti, hrest, _, _, hlong, _, _⟩ := convertCSV_shape pf fb x b h
  have hbody : (x.recs.drop (x.skip.toNat + 1)) = body := by
    rw [← List.drop_drop, hrest]; rfl
  intro r hrm
  rw [hbody] at hrm
  have hle := hlong r hrm
  rw [hrest]
  simp only [List.headD_cons, List.length_cons]
  refine ⟨hle, ?_⟩
  unfold padTo
  rw [List.take_take, Nat.min_eq_left hle, List.take_append_of_le_length (Nat.le_refl _)]
  simp

/-- NO COLUMN IS DROPPED (full strength since /repo 273e2e1; before it `C31_underscore_witness`
showed a `_`-column vanishing at the Parquet schema step): every converted column of an accepted
CSV file reaches the stored rows. -/
theorem C31_no_column_dropped (pf : Cell → Option Nat) (fb : Cell → Option Int) (x : CsvIn) (b : Batch)
    (h : convertCSV pf fb x = some b) : b.cols.filter storedCol = b.cols := by
  obtain ⟨h00, hr, body, ti, _, hv, _, _, _, hnames⟩ := convertCSV_shape pf fb x b h
  apply List.filter_eq_self.mpr
  intro c hc
  have hmem := hnames c hc
  unfold validateHeader at hv
  split at hv
  · simp at hv
  · rename_i hne
    split at hv
    · simp at hv
    · rename_i hus
      simp only [C31_repairs_tied.2.1, Bool.true_and, Bool.not_eq_true] at hus
      have h1 : c.name.isEmpty = false := by
        have := hne
        simp only [Bool.not_eq_true, List.any_eq_false] at this
        simpa using this c.name hmem
      have h2 : ¬ (c.name.head? = some '_') := by
        have := List.any_eq_false.mp hus c.name hmem
        simpa using this
      unfold storedCol
      cases hn : c.name with
      | nil => simp [hn] at h1
      | cons ch rest =>
        simp only [hn, List.head?_cons, Option.some.injEq] at h2
        simp [h2]

/-! ## 4. all-or-nothing -/

/-- the regenerated error policy: every error branch of the import control flow RETURNS an error
(no `continue` past a bad row / column / hour), except the end-of-file `break` of the CSV read
loop; each import function performs exactly ONE buffer write, placed after every conversion-error
return and followed by FlushAll. -/
theorem C31_policy_tied :
    Arc.Generated.C31.errBranches.filter (fun b => b.2.2 != "return-error") = [("importCSV", "err == io.EOF", "break")] ∧
    Arc.Generated.C31.writeSeq.all (fun s => s.2.1 == 1 && s.2.2.2.1 == 2 && s.2.2.2.2) = true ∧
    aborts "stringsToTimeMicros" 0 = true ∧ aborts "stringsToTimeMicros" 1 = true ∧ aborts "stringsToTimeMicros" 2 = true ∧
    Arc.Generated.C31.unknownFormatRejected = true := by decide

/-- one bad time cell (empty after trimming, or not convertible) rejects the whole column -/
theorem C31_bad_time_rejects (fb : Cell → Option Int) (fmt : String) (pre post : List Cell) (c : Cell)
    (hbad : trimSpace c = [] ∨ oneTime fb fmt (trimSpace c) = none) :
    timeCells fb fmt (pre ++ c :: post) = none := by
  induction pre with
  | nil =>
    have a0 := C31_policy_tied.2.2.1
    have a1 := C31_policy_tied.2.2.2.1
    have a2 := C31_policy_tied.2.2.2.2.1
    simp only [List.nil_append]
    unfold timeCells
    rcases hbad with he | hn
    · simp [he, a0]
    · by_cases he : (trimSpace c).isEmpty = true
      · simp [he, a0]
      · simp only [he, hn, a1, a2]
        by_cases hf : fmt != ""
        · simp [hf]
        · simp [hf]
  | cons p pre ih =>
    simp only [List.cons_append]
    unfold timeCells
    simp only [ih]
    split <;> simp_all

/-- ALL-OR-NOTHING for every input-caused failure (full strength over the model): an import that
is not accepted leaves the storage exactly as it was; an accepted one appends exactly the rows of
the converted batch. -/
theorem C31_all_or_nothing (pf : Cell → Option Nat) (fb : Cell → Option Int) (x : CsvIn) (st : List Row) :
    ((importCSV pf fb x st).1 = false → (importCSV pf fb x st).2 = st) ∧
    ((importCSV pf fb x st).1 = true → ∃ b, convertCSV pf fb x = some b ∧
        (importCSV pf fb x st).2 = st ++ ((hourFiles (batchRows b)).map (·.2)).flatten) := by
  unfold importCSV
  cases hc : convertCSV pf fb x with
  | none => simp
  | some b => simp

theorem C31_all_or_nothing_parquet (x : PqIn) (st : List Row) :
    ((importPQ x st).1 = false → (importPQ x st).2 = st) ∧
    ((importPQ x st).1 = true → ∃ b, convertPQ x = some b ∧
        (importPQ x st).2 = st ++ ((hourFiles (batchRows b)).map (·.2)).flatten) := by
  unfold importPQ
  cases hc : convertPQ x with
  | none => simp
  | some b => simp

def demoRecs : List (List Cell) :=
  [["time".toList, "v".toList], ["1609459200".toList, "5".toList], ["oops".toList, "6".toList]]

/-- non-vacuity: a file whose LAST row has a bad time is rejected as a whole and stores nothing;
without that row it is accepted with one row. -/
example : importCSV (fun _ => none) (fun _ => none) { delimOk := true, skip := 0, timeCol := timeLit, fmt := "epoch_s", recs := demoRecs } [] = (false, []) ∧
    (importCSV (fun _ => none) (fun _ => none) { delimOk := true, skip := 0, timeCol := timeLit, fmt := "epoch_s", recs := demoRecs.take 2 } []).1 = true := by
  decide

/-- WITNESS (finding `partial-import-after-error:csv:storage-write-fault`): when the write of the
second hour file fails, `flushPartitionedData` returns the error (→ HTTP 500) and the first hour
file stays in storage. -/
theorem C31_flush_fault_witness :
    let rows : List Row := [{ time := 0, vals := [] }, { time := 3600000000, vals := [] }]
    flushFiles (hourFiles rows) (some 1) = ([(0, [{ time := 0, vals := [] }])], false) := by decide

/-- partial: without a storage fault the flush keeps every file -/
theorem C31_flush_partial (files : List (Int × List Row)) : flushFiles files none = (files, true) := rfl

/-! ## 5. further witnesses of silent loss in ACCEPTED files -/

/-- HISTORY (finding `value-lossy:extra-fields-dropped`, fixed in /repo 8033d9e): a data record
with more fields than the header used to be accepted with the surplus cell discarded; it is now
rejected (see `C31_no_cell_dropped`). -/
theorem C31_long_row_rejected :
    (convertCSV (fun _ => none) (fun _ => none)
      { delimOk := true, skip := 0, timeCol := timeLit, fmt := "epoch_s",
        recs := [["time".toList, "v".toList], ["1".toList, "5".toList, "dropped".toList]] })
    = none := by decide +kernel

/-- HISTORY (finding `value-lossy:underscore-column-dropped`, fixed in /repo 273e2e1): the Parquet
writer still skips `_`-columns (first conjunct), which is why the header validation now rejects
such names for CSV and Parquet imports (second and third conjunct; see `C31_no_column_dropped`). -/
theorem C31_underscore_rejected :
    batchRows { time := [1000000], cols := [{ name := "_v".toList, col := .int [5], validity := none }] }
      = [{ time := 1000000, vals := [] }] ∧
    validateHeader [timeLit, "_v".toList] timeLit = none ∧
    convertPQ { timeCol := timeLit, fmt := "", cols := [
      { name := timeLit, kind := .i64, cells := [{ v := .i 1 }] },
      { name := "_v".toList, kind := .i64, cells := [{ v := .i 5 }] }] } = none := by decide

/-- UINT64 is exact or rejected (full strength since /repo 306d476): an accepted UINT64 column has
no value above MaxInt64, so the int64 reinterpretation never wraps. -/
theorem C31_uint64_exact (c : PCol) (tc : TCol) (hk : c.kind = .u64) (h : pqTyped c = some tc) :
    ∀ x ∈ c.cells, ∀ n, x.v = .i n → n ≤ maxI64 ∧ (0 ≤ n → wrap64 n = n) := by
  unfold pqTyped at h
  simp only [hk, C31_repairs_tied.2.2.1, Bool.true_and] at h
  split at h
  · simp at h
  · rename_i hany
    intro x hx n hn
    have := List.any_eq_false.mp (by simpa using hany) x hx
    simp only [hn, decide_eq_true_eq] at this
    have hle : n ≤ maxI64 := by simpa using this
    refine ⟨hle, fun h0 => wrap64_id ?_⟩
    unfold inI64; unfold maxI64 at hle; omega

/-- HISTORY (finding `value-lossy:uint64-wrapped`): 2^64-1 used to be stored as -1; now rejected. -/
theorem C31_uint64_rejected :
    (pqTyped { name := "u".toList, kind := .u64, cells := [{ v := .i 18446744073709551615 }] }) = none ∧
    (pqTyped { name := "u".toList, kind := .u64, cells := [{ v := .i 9223372036854775807 }] })
      = some { name := "u".toList, col := .int [9223372036854775807], validity := none } := by decide

end Arc.C31
