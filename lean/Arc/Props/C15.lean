import Arc.Model.C15
import Arc.Proofs.C15.Mask
import Arc.Proofs.C15.Round
import Arc.Proofs.C15.Tokens
import Arc.Generated.C15
/-!
# C15 — SQL normalisation agrees with DuckDB's lexer and is reversible

`mSegs` / `render` / `unmask` model `MaskStringLiterals` / `UnmaskStringLiterals`, `sSegs` / `strip`
model `stripSQLComments`, `lSegs` is SqlLex (the reference lexer; validated against DuckDB's own
parser by the harness). Helper lemmas live in `Arc/Proofs/C15/*`.

The property is FALSE of the code as written on several input classes (each confirmed on the real
functions with DuckDB as ground truth, see the harness monitors). Full statements that do NOT hold:

    theorem C15_agree_full (s) : mSegs s = (lSegs s).flatMap demote          -- false: witnesses 1–10
    theorem C15_strip_agree_full (t) (no literal in t) : sSegs t = lSegs t   -- false: witnesses 21–23
    theorem C15_roundtrip_full (s) : unmask (mask s true).1 (mask s true).2 = s   -- false: witness 30

They are proved on the explicit decidable classes `kClassM s = 0`, `kClassS t = 0`, `kClassP s = 0`
(`Arc/Model/C15.lean`), and one `_witness` theorem per excluded construct shows the exclusion is needed.
-/
namespace Arc.C15

/-! Concrete inputs below are written as explicit UTF-8 byte lists (so that `decide` can evaluate
them in the kernel); the doc comment of each theorem shows the text. -/

/-! ## spans partition the input (all inputs) -/

/-- **C15_mask_partition.** The tokens and raw bytes the masker delimits are a partition of the input
(nothing is dropped, duplicated or reordered before placeholders are substituted). -/
theorem C15_mask_partition (s : Bytes) : segBytes (mSegs s) = s :=
  mSegsF_bytes s.length 0 s (Nat.le_refl _)

/-- **C15_lex_partition.** Same for SqlLex. -/
theorem C15_lex_partition (s : Bytes) : segBytes (lSegs s) = s :=
  lSegsF_bytes s.length false s (Nat.le_refl _)

/-! ## comment stripping changes nothing outside (what it takes to be) a comment — all inputs -/

theorem sSegsF_kinds (f : Nat) : ∀ (t : Bytes), ∀ sg ∈ sSegsF f t,
    (∃ b, sg = .raw b) ∨ (∃ o, sg = .lcom o) ∨ (∃ o, sg = .bcom o) := by
  induction f with
  | zero => intro t sg h; simp [sSegsF] at h
  | succ f ih =>
    intro t sg h
    cases t with
    | nil => simp [sSegsF] at h
    | cons c t =>
      simp only [sSegsF, List.mem_cons] at h
      rcases h with h | h
      · subst h
        unfold sTok
        split
        · exact Or.inr (Or.inl ⟨_, rfl⟩)
        · split
          · exact Or.inr (Or.inr ⟨_, rfl⟩)
          · exact Or.inl ⟨_, rfl⟩
      · exact ih _ sg h

/-- **C15_strip_outside.** For every text `t`: the segments `stripSQLComments` delimits partition `t`;
each segment is a single byte or one of ITS comment spans; the output is the concatenation, in order,
of every non-comment byte unchanged, one space per block-comment span and nothing per line-comment span.
(Whether those spans are the comments DuckDB sees is `C15_strip_agree_partial`.) -/
theorem C15_strip_outside (t : Bytes) :
    segBytes (sSegs t) = t ∧
    (∀ sg ∈ sSegs t, (∃ b, sg = .raw b ∧ stripOut sg = [b]) ∨ (∃ o, sg = .lcom o ∧ stripOut sg = []) ∨
      (∃ o, sg = .bcom o ∧ stripOut sg = [32])) ∧
    strip t true = (sSegs t).flatMap stripOut := by
  refine ⟨sSegsF_bytes t.length t (Nat.le_refl _), ?_, by simp [strip]⟩
  intro sg h
  rcases sSegsF_kinds _ _ sg h with ⟨b, hb⟩ | ⟨o, ho⟩ | ⟨o, ho⟩
  · exact Or.inl ⟨b, hb, by simp [hb, stripOut]⟩
  · exact Or.inr (Or.inl ⟨o, ho, by simp [ho, stripOut]⟩)
  · exact Or.inr (Or.inr ⟨o, ho, by simp [ho, stripOut]⟩)

example : strip ([97, 32, 47, 42, 32, 120, 32, 42, 47, 32, 98, 32, 45, 45, 32, 121, 10, 99] : Bytes) true = ([97, 32, 32, 32, 98, 32, 10, 99] : Bytes) := by decide

/-! ## agreement with SqlLex on the class K -/

/-- **C15_agree_partial.** On `kClassM s = 0` (no backslash before a quote inside a quoted token, no
quote/dollar byte inside a comment, no `$`/`e'` glued to a non-ASCII identifier or a number, ASCII
dollar tags) the literal and quoted-identifier spans delimited by `MaskStringLiterals` are exactly
SqlLex's, and everything else (comments included) is passed through byte by byte. -/
theorem C15_agree_partial (s : Bytes) (hK : kClassM s = 0) :
    mSegs s = (lSegs s).flatMap demote :=
  mSegsF_eq_lSegsF s.length false 0 s (Nat.le_refl _) hK

example : kClassM ([83, 69, 76, 69, 67, 84, 32, 39, 105, 116, 39, 39, 115, 39, 44, 32, 69, 39, 97, 92, 110, 98, 39, 44, 32, 36, 116, 36, 120, 39, 121, 36, 116, 36, 32, 47, 42, 32, 99, 32, 42, 47, 32, 70, 82, 79, 77, 32, 34, 109, 121, 45, 45, 116, 34, 32, 45, 45, 32, 100, 111, 110, 101] : Bytes) = 0 := by decide

/-- **C15_strip_agree_partial.** On `kClassS t = 0` (text without literals — what the masker hands
over —, no nested block comment, no `--` comment ended by a carriage return, not exactly one byte
after a block comment) the comment spans of `stripSQLComments` are exactly SqlLex's. -/
theorem C15_strip_agree_partial (t : Bytes) (hK : kClassS t = 0) : sSegs t = lSegs t :=
  sSegsF_eq_lSegsF t.length false t (Nat.le_refl _) hK

example : kClassS ([83, 69, 76, 69, 67, 84, 32, 95, 95, 83, 84, 82, 95, 48, 95, 95, 32, 47, 42, 32, 99, 32, 42, 47, 32, 70, 82, 79, 77, 32, 95, 95, 73, 68, 69, 78, 84, 95, 49, 95, 95, 32, 45, 45, 32, 100, 111, 110, 101, 10, 59, 59] : Bytes) = 0 := by decide

/-! ## one witness per excluded construct (each also replayed on the real code by the harness) -/

/-- backslash before the closing quote of a plain literal: `'\' '` -/
theorem C15_agree_witness_plain_backslash :
    kClassM ([39, 92, 39, 32, 39] : Bytes) = kPlainBs ∧ mSegs ([39, 92, 39, 32, 39] : Bytes) ≠ (lSegs ([39, 92, 39, 32, 39] : Bytes)).flatMap demote := by decide
/-- the same inside a quoted identifier: `"\" "` -/
theorem C15_agree_witness_ident_backslash :
    kClassM ([34, 92, 34, 32, 34] : Bytes) = kIdentBs ∧ mSegs ([34, 92, 34, 32, 34] : Bytes) ≠ (lSegs ([34, 92, 34, 32, 34] : Bytes)).flatMap demote := by decide
/-- escaped backslash at the end of an escape string: `E'\\' '` -/
theorem C15_agree_witness_estring_backslash :
    kClassM ([69, 39, 92, 92, 39, 32, 39] : Bytes) = kEBs ∧ mSegs ([69, 39, 92, 92, 39, 32, 39] : Bytes) ≠ (lSegs ([69, 39, 92, 92, 39, 32, 39] : Bytes)).flatMap demote := by decide
/-- quote inside a line comment (masking runs before comment stripping) -/
theorem C15_agree_witness_quote_in_line_comment :
    kClassM ([45, 45, 39, 10, 39] : Bytes) = kQuoteInLine ∧ mSegs ([45, 45, 39, 10, 39] : Bytes) ≠ (lSegs ([45, 45, 39, 10, 39] : Bytes)).flatMap demote := by decide
/-- quote inside a block comment -/
theorem C15_agree_witness_quote_in_block_comment :
    kClassM ([47, 42, 39, 42, 47, 39] : Bytes) = kQuoteInBlock ∧ mSegs ([47, 42, 39, 42, 47, 39] : Bytes) ≠ (lSegs ([47, 42, 39, 42, 47, 39] : Bytes)).flatMap demote := by decide
/-- `$` is an identifier character: `a$$x$ b` is ONE identifier for DuckDB, the masker swallows `$x$ b` -/
theorem C15_agree_witness_dollar_in_identifier :
    kClassM ([97, 36, 36, 120, 36, 32, 98] : Bytes) = kDollarInIdent ∧ mSegs ([97, 36, 36, 120, 36, 32, 98] : Bytes) ≠ (lSegs ([97, 36, 36, 120, 36, 32, 98] : Bytes)).flatMap demote := by decide
/-- `éE'a'`: the `E` continues the identifier `éE` -/
theorem C15_agree_witness_e_in_identifier :
    kClassM ([195, 169, 69, 39, 97, 39] : Bytes) = kEInIdent ∧ mSegs ([195, 169, 69, 39, 97, 39] : Bytes) ≠ (lSegs ([195, 169, 69, 39, 97, 39] : Bytes)).flatMap demote := by decide
theorem C15_agree_witness_dollar_after_digit :
    kClassM ([49, 36, 36, 97, 36, 36] : Bytes) = kDollarAfterDigit ∧ mSegs ([49, 36, 36, 97, 36, 36] : Bytes) ≠ (lSegs ([49, 36, 36, 97, 36, 36] : Bytes)).flatMap demote := by decide
/-- non-ASCII dollar tag `$é$a$é$` -/
theorem C15_agree_witness_dollar_tag_nonascii :
    kClassM ([36, 195, 169, 36, 97, 36, 195, 169, 36] : Bytes) = kDollarTagHigh ∧ mSegs ([36, 195, 169, 36, 97, 36, 195, 169, 36] : Bytes) ≠ (lSegs ([36, 195, 169, 36, 97, 36, 195, 169, 36] : Bytes)).flatMap demote := by decide
theorem C15_agree_witness_estring_after_digit :
    kClassM ([49, 101, 39, 97, 39] : Bytes) = kEAfterDigit ∧ mSegs ([49, 101, 39, 97, 39] : Bytes) ≠ (lSegs ([49, 101, 39, 97, 39] : Bytes)).flatMap demote := by decide

/-- a carriage return ends a `--` comment for DuckDB, not for `stripSQLComments`: `b` is deleted -/
theorem C15_strip_witness_cr :
    kClassS ([45, 45, 97, 13, 98] : Bytes) = kCrEndsLine ∧ sSegs ([45, 45, 97, 13, 98] : Bytes) ≠ lSegs ([45, 45, 97, 13, 98] : Bytes) ∧
    strip ([45, 45, 97, 13, 98] : Bytes) true = [] := by decide
/-- block comments nest in DuckDB: `c*/` survives stripping although it is inside the comment -/
theorem C15_strip_witness_nested :
    kClassS ([47, 42, 97, 47, 42, 98, 42, 47, 99, 42, 47, 100, 101] : Bytes) = kNested ∧ sSegs ([47, 42, 97, 47, 42, 98, 42, 47, 99, 42, 47, 100, 101] : Bytes) ≠ lSegs ([47, 42, 97, 47, 42, 98, 42, 47, 99, 42, 47, 100, 101] : Bytes) ∧
    strip ([47, 42, 97, 47, 42, 98, 42, 47, 99, 42, 47, 100, 101] : Bytes) true = ([32, 99, 42, 47, 100, 101] : Bytes) := by decide
/-- exactly one byte after a block comment is swallowed: `/**/x` becomes a single space -/
theorem C15_strip_witness_byte_after_block :
    kClassS ([47, 42, 42, 47, 120] : Bytes) = kByteAfterBlock ∧ sSegs ([47, 42, 42, 47, 120] : Bytes) ≠ lSegs ([47, 42, 42, 47, 120] : Bytes) ∧
    strip ([47, 42, 42, 47, 120] : Bytes) true = ([32] : Bytes) := by decide

/-! ## round trip -/

/-- **C15_roundtrip_partial.** `UnmaskStringLiterals(MaskStringLiterals(s))` returns `s` whenever the
masker found no quoted identifier (no `__IDENT_n__` / `ReplaceAll` involved) and `s` has no two
consecutive underscores, for either value of the `hasQuotes` flag. (The harness checks the round
trip on the much larger class `kClassP s = 0` — no `STR_`/`IDENT_` fragment — where it never failed;
that larger class is validated, not proved.) -/
theorem C15_roundtrip_partial (s : Bytes) (hq : Bool)
    (hNoIdent : (mSegs s).all noIdentSeg = true) (hNoDunder : hasPair 95 95 s = false) :
    unmask (mask s hq).1 (mask s hq).2 = s := by
  unfold mask
  cases hq with
  | false => simp [unmask]
  | true =>
    have := roundtrip_gen (mSegs s) 0 [] [] hNoIdent (by simpa [C15_mask_partition] using hNoDunder)
    simpa [C15_mask_partition] using this

/-- **C15_roundtrip_tokens.** For EVERY input (quoted identifiers and their de-duplication
included): the masked text is the token list `renderT` with each placeholder token spelled out, the
masks are `renderT`'s, and restoring the placeholder TOKENS (first occurrence for `__STR_n__`, every
occurrence for `__IDENT_n__`) returns the input. Identifiers share a placeholder exactly when their
token text is byte-for-byte equal (`renderT` looks the text up; tied to the source by
`C15_ident_dedup_key_tied`), so case variants such as `"Host"` / `"host"` keep separate masks. What the
byte-level `C15_roundtrip_partial` adds is only that placeholder TEXT cannot be confused with user text. -/
theorem C15_roundtrip_tokens (s : Bytes) :
    -- the current source restores first-to-last, once per string mask, everywhere per identifier
    -- mask, de-duplicating identifiers by their exact text: what `unmaskT` / `renderT` model
    (Arc.Generated.C15.unmaskFirstToLast = true ∧ Arc.Generated.C15.unmaskStrCount = 1 ∧
      Arc.Generated.C15.unmaskIdentAll = true ∧ Arc.Generated.C15.identDedupKeyIsTokenText = true) ∧
    (mask s true).1 = flatT (renderT 0 [] (mSegs s)).1 ∧
    (mask s true).2 = (renderT 0 [] (mSegs s)).2.map maskOfT ∧
    unmaskT (renderT 0 [] (mSegs s)).1 (renderT 0 [] (mSegs s)).2 = bytesT s := by
  have h := render_eq_renderT (mSegs s) 0 []
  have r := roundtripT_gen (mSegs s) 0 [] [] (by intro e he; simp at he)
  refine ⟨by decide, by simpa [mask, imBytes, imTok] using h.1, by simpa [mask, imBytes, imTok] using h.2, ?_⟩
  simpa [bytesT, C15_mask_partition] using r

/-- `"Host" "host" "Host"`: two masks (`"Host"` shared by the 1st and 3rd occurrence, `"host"` its own) -/
example : (renderT 0 [] (mSegs ([34, 72, 111, 115, 116, 34, 32, 34, 104, 111, 115, 116, 34, 32, 34, 72, 111, 115, 116, 34] : Bytes))).2 = [(true, 0, [34, 72, 111, 115, 116, 34]), (true, 1, [34, 104, 111, 115, 116, 34])] ∧
    unmask (mask ([34, 72, 111, 115, 116, 34, 32, 34, 104, 111, 115, 116, 34, 32, 34, 72, 111, 115, 116, 34] : Bytes) true).1 (mask ([34, 72, 111, 115, 116, 34, 32, 34, 104, 111, 115, 116, 34, 32, 34, 72, 111, 115, 116, 34] : Bytes) true).2 = ([34, 72, 111, 115, 116, 34, 32, 34, 104, 111, 115, 116, 34, 32, 34, 72, 111, 115, 116, 34] : Bytes) := by decide

/-- the hypotheses hold for `SELECT 'it''s' FROM t_1 WHERE a = $$x$$ -- c` (two masks) -/
example : (mSegs ([83, 69, 76, 69, 67, 84, 32, 39, 105, 116, 39, 39, 115, 39, 32, 70, 82, 79, 77, 32, 116, 95, 49, 32, 87, 72, 69, 82, 69, 32, 97, 32, 61, 32, 36, 36, 120, 36, 36, 32, 45, 45, 32, 99] : Bytes)).all noIdentSeg = true ∧ hasPair 95 95 ([83, 69, 76, 69, 67, 84, 32, 39, 105, 116, 39, 39, 115, 39, 32, 70, 82, 79, 77, 32, 116, 95, 49, 32, 87, 72, 69, 82, 69, 32, 97, 32, 61, 32, 36, 36, 120, 36, 36, 32, 45, 45, 32, 99] : Bytes) = false ∧
    (mask ([83, 69, 76, 69, 67, 84, 32, 39, 105, 116, 39, 39, 115, 39, 32, 70, 82, 79, 77, 32, 116, 95, 49, 32, 87, 72, 69, 82, 69, 32, 97, 32, 61, 32, 36, 36, 120, 36, 36, 32, 45, 45, 32, 99] : Bytes) true).2.length = 2 := by decide

/-- `__STR_0__ 'a'`: the user's text `__STR_0__` is replaced instead of the placeholder; the result is
`'a' __STR_0__` -/
theorem C15_roundtrip_witness_lookalike :
    kClassP ([95, 95, 83, 84, 82, 95, 48, 95, 95, 32, 39, 97, 39] : Bytes) = kLookalike ∧
    unmask (mask ([95, 95, 83, 84, 82, 95, 48, 95, 95, 32, 39, 97, 39] : Bytes) true).1 (mask ([95, 95, 83, 84, 82, 95, 48, 95, 95, 32, 39, 97, 39] : Bytes) true).2 ≠ ([95, 95, 83, 84, 82, 95, 48, 95, 95, 32, 39, 97, 39] : Bytes) := by decide
/-- `__STR_0'a'`: a look-alike PREFIX glued to a literal is enough (so excluding only complete
`__STR_n__` tokens would not do) -/
theorem C15_roundtrip_witness_prefix :
    (mSegs ([95, 95, 83, 84, 82, 95, 48, 39, 97, 39] : Bytes)).all noIdentSeg = true ∧ hasPair 95 95 ([95, 95, 83, 84, 82, 95, 48, 39, 97, 39] : Bytes) = true ∧
    unmask (mask ([95, 95, 83, 84, 82, 95, 48, 39, 97, 39] : Bytes) true).1 (mask ([95, 95, 83, 84, 82, 95, 48, 39, 97, 39] : Bytes) true).2 ≠ ([95, 95, 83, 84, 82, 95, 48, 39, 97, 39] : Bytes) := by decide
/-- `"x" 'a'IDENT_0'b'`: no `__` in the input, yet the `ReplaceAll` used for identifier placeholders
hits `__IDENT_0__` formed by the tail of `__STR_1__` and the user's `IDENT_0` + head of `__STR_2__` -/
theorem C15_roundtrip_witness_ident_replaceall :
    hasPair 95 95 ([34, 120, 34, 32, 39, 97, 39, 73, 68, 69, 78, 84, 95, 48, 39, 98, 39] : Bytes) = false ∧ (mSegs ([34, 120, 34, 32, 39, 97, 39, 73, 68, 69, 78, 84, 95, 48, 39, 98, 39] : Bytes)).all noIdentSeg = false ∧
    unmask (mask ([34, 120, 34, 32, 39, 97, 39, 73, 68, 69, 78, 84, 95, 48, 39, 98, 39] : Bytes) true).1 (mask ([34, 120, 34, 32, 39, 97, 39, 73, 68, 69, 78, 84, 95, 48, 39, 98, 39] : Bytes) true).2 ≠ ([34, 120, 34, 32, 39, 97, 39, 73, 68, 69, 78, 84, 95, 48, 39, 98, 39] : Bytes) := by decide

/-! ## tie to the current source (regenerated facts) -/

/-- **C15_placeholder_formats_tied.** Every `Sprintf` format used for a placeholder in the current
`MaskStringLiterals` is the model's `__STR_%d__` / `__IDENT_%d__`. -/
theorem C15_placeholder_formats_tied :
    (∀ f ∈ Arc.Generated.C15.strFormats, f = (pfxStr, [95, 95])) ∧
    (∀ f ∈ Arc.Generated.C15.identFormats, f = (pfxIdent, [95, 95])) := by decide

/-- **C15_unmask_mode_tied.** String masks are restored with `strings.Replace(…, 1)`, identifier
masks with `strings.ReplaceAll`, as `unmaskStep` models. -/
theorem C15_unmask_mode_tied :
    Arc.Generated.C15.unmaskStrCount = 1 ∧ Arc.Generated.C15.unmaskIdentAll = true := by decide

/-- **C15_ident_dedup_key_tied.** Quoted identifiers share a placeholder only when their token text is
byte-for-byte identical (`render` looks the whole token up): the key of the `identPlaceholders` map in
the current source is the token text itself, not a normalised form. -/
theorem C15_ident_dedup_key_tied : Arc.Generated.C15.identDedupKeyIsTokenText = true := by decide

/-- **C15_unmask_order_tied.** Masks are restored first-to-last in the current source. -/
theorem C15_unmask_order_tied : Arc.Generated.C15.unmaskFirstToLast = true := by decide

/-- `"a" '__IDENT_0__'` (an identifier placeholder spelled inside a LATER literal) round-trips because
the identifier mask is restored BEFORE the literal comes back … -/
theorem C15_roundtrip_later_literal_ok :
    unmask (mask ([34, 97, 34, 32, 39, 95, 95, 73, 68, 69, 78, 84, 95, 48, 95, 95, 39] : Bytes) true).1 (mask ([34, 97, 34, 32, 39, 95, 95, 73, 68, 69, 78, 84, 95, 48, 95, 95, 39] : Bytes) true).2 = ([34, 97, 34, 32, 39, 95, 95, 73, 68, 69, 78, 84, 95, 48, 95, 95, 39] : Bytes) := by decide
/-- … and would not if the same masks were restored last-to-first: the result is `"a" '"a"'`. -/
theorem C15_roundtrip_order_witness :
    unmask (mask ([34, 97, 34, 32, 39, 95, 95, 73, 68, 69, 78, 84, 95, 48, 95, 95, 39] : Bytes) true).1 (mask ([34, 97, 34, 32, 39, 95, 95, 73, 68, 69, 78, 84, 95, 48, 95, 95, 39] : Bytes) true).2.reverse ≠ ([34, 97, 34, 32, 39, 95, 95, 73, 68, 69, 78, 84, 95, 48, 95, 95, 39] : Bytes) := by decide

/-- **C15_sites_mask_before_strip.** Every function of `internal/api/query.go` that strips comments
masks first — the order `normalize` models (and the reason a quote inside a comment is a finding). -/
theorem C15_sites_mask_before_strip :
    ∀ s ∈ Arc.Generated.C15.callSites, s.2 = true := by decide

end Arc.C15
