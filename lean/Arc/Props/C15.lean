import Arc.Model.C15
import Arc.Proofs.C15.Mask
import Arc.Proofs.C15.Round2
import Arc.Generated.C15
/-!
# C15 — SQL normalisation agrees with DuckDB's lexer and is reversible   (tree at 73763cd)

`mSegs` / `render` / `unmask` model `MaskStringLiterals` / `UnmaskStringLiterals` (single-pass
`strings.NewReplacer`), `sSegs` / `strip` model `stripSQLComments`, `lSegs` is SqlLex (the reference
lexer; validated against DuckDB's own parser by the harness). Helper lemmas: `Arc/Proofs/C15/*`.

After the repairs 8f4fe38 / abf5a7e / 942e7b2 / 64dff5c / 17363b5 / 168cceb the masker's quote bodies, escape strings,
dollar tags and comments ARE SqlLex's, and restored text is never rescanned. Full statements that
still do NOT hold of the code (one `_witness` each, each also a harness monitor):

    theorem C15_agree_full (s) : mSegs s = lSegs s                     -- false: `$`/`e'` decided by the previous BYTE
    theorem C15_strip_agree_full (t) (no literal in t) : sSegs t = lSegs t   -- false: `--` ended by CR, nested block comments
    theorem C15_roundtrip_full (s) : unmask (mask s true).1 (mask s true).2 = s   -- false: look-alike text OUTSIDE literals

They are proved on the explicit decidable classes `kClassM s = 0`, `kClassS t = 0`, `kClassP s = 0`
(`Arc/Model/C15.lean`). Concrete inputs are explicit UTF-8 byte lists (so that `decide` can evaluate
them in the kernel); the doc comment of each theorem shows the text.
-/
namespace Arc.C15

/-! ## spans partition the input (all inputs) -/

/-- **C15_mask_partition.** The tokens, comments and raw bytes the masker delimits are a partition of
the input (nothing is dropped, duplicated or reordered before placeholders are substituted). -/
theorem C15_mask_partition (s : Bytes) : segBytes (mSegs s) = s :=
  mSegsF_bytes s.length 0 s (Nat.le_refl _)

/-- **C15_lex_partition.** Same for SqlLex. -/
theorem C15_lex_partition (s : Bytes) : segBytes (lSegs s) = s :=
  lSegsF_bytes s.length false s (Nat.le_refl _)

/-! ## comment stripping changes nothing outside (what it takes to be) a comment — all inputs -/

theorem sSegsF_kinds (f : Nat) : ∀ (t : Bytes), ∀ sg ∈ sSegsF f t,
    (∃ b, sg = .raw b) ∨ (∃ o, sg = .lcom o) ∨ (∃ o, sg = .bcom o) := by
  induction f with
  | zero => intro t sg h; simp [sSegsF] at h
  | succ f ih =>
    intro t sg h
    cases t with
    | nil => simp [sSegsF] at h
    | cons c t =>
      simp only [sSegsF, List.mem_cons] at h
      rcases h with h | h
      · subst h
        unfold sTok
        split
        · exact Or.inr (Or.inl ⟨_, rfl⟩)
        · split
          · exact Or.inr (Or.inr ⟨_, rfl⟩)
          · exact Or.inl ⟨_, rfl⟩
      · exact ih _ sg h

/-- **C15_strip_outside.** For every text `t`: the segments `stripSQLComments` delimits partition `t`;
each segment is a single byte or one of ITS comment spans; the output is the concatenation, in order,
of every non-comment byte unchanged, one space per block-comment span and nothing per line-comment span.
(Whether those spans are the comments DuckDB sees is `C15_strip_agree_partial`.) -/
theorem C15_strip_outside (t : Bytes) :
    segBytes (sSegs t) = t ∧
    (∀ sg ∈ sSegs t, (∃ b, sg = .raw b ∧ stripOut sg = [b]) ∨ (∃ o, sg = .lcom o ∧ stripOut sg = []) ∨
      (∃ o, sg = .bcom o ∧ stripOut sg = [32])) ∧
    strip t true = (sSegs t).flatMap stripOut := by
  refine ⟨sSegsF_bytes t.length t (Nat.le_refl _), ?_, by simp [strip]⟩
  intro sg h
  rcases sSegsF_kinds _ _ sg h with ⟨b, hb⟩ | ⟨o, ho⟩ | ⟨o, ho⟩
  · exact Or.inl ⟨b, hb, by simp [hb, stripOut]⟩
  · exact Or.inr (Or.inl ⟨o, ho, by simp [ho, stripOut]⟩)
  · exact Or.inr (Or.inr ⟨o, ho, by simp [ho, stripOut]⟩)

/-- `a /* x */ b -- y⏎c` ↦ `a   b ⏎c` -/
example : strip ([97, 32, 47, 42, 32, 120, 32, 42, 47, 32, 98, 32, 45, 45, 32, 121, 10, 99] : Bytes) true = ([97, 32, 32, 32, 98, 32, 10, 99] : Bytes) := by decide

/-! ## agreement with SqlLex on the class K -/

/-- **C15_agree_partial.** On `kClassM s = 0` — no `$` / `e'` that continues an identifier after `$` or
a non-ASCII byte, none glued to a number — the segmentation
of `MaskStringLiterals` (literals, quoted identifiers, AND the comments it copies through) is exactly
SqlLex's. Backslashes, quotes inside comments, non-ASCII dollar tags and `--` comments ended by a carriage
return are inside the class since the repairs. -/
theorem C15_agree_partial (s : Bytes) (hK : kClassM s = 0) : mSegs s = lSegs s :=
  mSegsF_eq_lSegsF s.length false 0 s (Nat.le_refl _) hK

/-- formerly excluded constructs are now inside the class:
`SELECT 'a\' AS x, E'\\' AS y, $é$q$é$ /* ' */ FROM "t\" -- ' "⏎` -/
example : kClassM ([83, 69, 76, 69, 67, 84, 32, 39, 97, 92, 39, 32, 65, 83, 32, 120, 44, 32, 69, 39, 92, 92, 39, 32, 65, 83, 32, 121, 44, 32, 36, 195, 169, 36, 113, 36, 195, 169, 36, 32, 47, 42, 32, 39, 32, 42, 47, 32, 70, 82, 79, 77, 32, 34, 116, 92, 34, 32, 45, 45, 32, 39, 32, 34, 10] : Bytes) = 0 := by decide

/-- **C15_strip_agree_partial.** On `kClassS t = 0` (text without literals — what the masker hands
over —, no nested block comment, no `--` comment ended by a carriage return) the comment spans of `stripSQLComments` are exactly SqlLex's. -/
theorem C15_strip_agree_partial (t : Bytes) (hK : kClassS t = 0) : sSegs t = lSegs t :=
  sSegsF_eq_lSegsF t.length false t (Nat.le_refl _) hK

example : kClassS ([83, 69, 76, 69, 67, 84, 32, 95, 95, 83, 84, 82, 95, 48, 95, 95, 32, 47, 42, 32, 99, 32, 42, 47, 32, 70, 82, 79, 77, 32, 95, 95, 73, 68, 69, 78, 84, 95, 49, 95, 95, 32, 45, 45, 32, 100, 111, 110, 101, 10, 59, 59] : Bytes) = 0 := by decide

/-! ## one witness per excluded construct (each also replayed on the real code by the harness) -/

/-- `$` is an identifier character: `a$$x$ b` is ONE identifier for DuckDB, the masker swallows `$x$ b` -/
theorem C15_agree_witness_dollar_in_identifier :
    kClassM ([97, 36, 36, 120, 36, 32, 98] : Bytes) = kDollarInIdent ∧ mSegs ([97, 36, 36, 120, 36, 32, 98] : Bytes) ≠ lSegs ([97, 36, 36, 120, 36, 32, 98] : Bytes) := by decide
/-- `éE'a'`: the `E` continues the identifier `éE` -/
theorem C15_agree_witness_e_in_identifier :
    kClassM ([195, 169, 69, 39, 97, 39] : Bytes) = kEInIdent ∧ mSegs ([195, 169, 69, 39, 97, 39] : Bytes) ≠ lSegs ([195, 169, 69, 39, 97, 39] : Bytes) := by decide
/-- `1$$a$$` -/
theorem C15_agree_witness_dollar_after_digit :
    kClassM ([49, 36, 36, 97, 36, 36] : Bytes) = kDollarAfterDigit ∧ mSegs ([49, 36, 36, 97, 36, 36] : Bytes) ≠ lSegs ([49, 36, 36, 97, 36, 36] : Bytes) := by decide
/-- `1e'a'` -/
theorem C15_agree_witness_estring_after_digit :
    kClassM ([49, 101, 39, 97, 39] : Bytes) = kEAfterDigit ∧ mSegs ([49, 101, 39, 97, 39] : Bytes) ≠ lSegs ([49, 101, 39, 97, 39] : Bytes) := by decide
/-- a carriage return ends a `--` comment for DuckDB, not for `stripSQLComments`: `b` is deleted -/
theorem C15_strip_witness_cr :
    kClassS ([45, 45, 97, 13, 98] : Bytes) = kCrEndsLine ∧ sSegs ([45, 45, 97, 13, 98] : Bytes) ≠ lSegs ([45, 45, 97, 13, 98] : Bytes) ∧ strip ([45, 45, 97, 13, 98] : Bytes) true = [] := by decide
/-- block comments nest in DuckDB: `c*/` survives stripping although it is inside the comment -/
theorem C15_strip_witness_nested :
    kClassS ([47, 42, 97, 47, 42, 98, 42, 47, 99, 42, 47, 100, 101] : Bytes) = kNested ∧ sSegs ([47, 42, 97, 47, 42, 98, 42, 47, 99, 42, 47, 100, 101] : Bytes) ≠ lSegs ([47, 42, 97, 47, 42, 98, 42, 47, 99, 42, 47, 100, 101] : Bytes) ∧ strip ([47, 42, 97, 47, 42, 98, 42, 47, 99, 42, 47, 100, 101] : Bytes) true = ([32, 99, 42, 47, 100, 101] : Bytes) := by decide
/-- `/**/x` (one byte after a block comment — swallowed before 168cceb) is inside the class now and
keeps its `x` -/
example : kClassS ([47, 42, 42, 47, 120] : Bytes) = 0 ∧ strip ([47, 42, 42, 47, 120] : Bytes) true = ([32, 120] : Bytes) := by decide
/-- `--c␍'a'` (comment ended by a carriage return — not masked before 17363b5) is inside `kClassM` now -/
example : kClassM ([45, 45, 99, 13, 39, 97, 39] : Bytes) = 0 := by decide

/-! ## round trip -/

theorem unmaskF_nil (f : Nat) : ∀ (t : Bytes), unmaskF [] f t = t := by
  induction f with
  | zero => intro t; rfl
  | succ f ih => intro t; cases t with
    | nil => rfl
    | cons c t => simp [unmaskF, findMask, ih]

/-- **C15_roundtrip_partial.** `UnmaskStringLiterals(MaskStringLiterals(s, hasQuotes)) = s` whenever no
`STR_` / `IDENT_` fragment occurs in the text OUTSIDE string literals and quoted identifiers
(`kClassP s = 0`), for either value of the flag. Quoted identifiers (shared placeholders for
byte-identical tokens), any number of masks, and literals whose CONTENT spells a placeholder
(`'__STR_1__'`, `'__IDENT_0__'`) are all covered: the single pass never rescans restored text, no
placeholder is a prefix of another, and no placeholder text can start inside clean un-masked text. -/
theorem C15_roundtrip_partial (s : Bytes) (hq : Bool) (hK : kClassP s = 0) :
    unmask (mask s hq).1 (mask s hq).2 = s := by
  unfold mask
  cases hq with
  | false => simp [unmask, unmaskF_nil]
  | true =>
    have hc : runsClean [] (mSegs s) = true := by
      unfold kClassP at hK
      by_cases h : runsClean [] (mSegs s) = true
      · exact h
      · simp [h, kLookalike] at hK
    have := roundtrip_segs (mSegs s) hc
    simpa [C15_mask_partition] using this

/-- the hypothesis holds for
`SELECT "Host", "host", "Host", '__IDENT_0__', '__STR_9__' FROM t__1 -- $$` (4 masks: `"Host"` shared) -/
example : kClassP ([83, 69, 76, 69, 67, 84, 32, 34, 72, 111, 115, 116, 34, 44, 32, 34, 104, 111, 115, 116, 34, 44, 32, 34, 72, 111, 115, 116, 34, 44, 32, 39, 95, 95, 73, 68, 69, 78, 84, 95, 48, 95, 95, 39, 44, 32, 39, 95, 95, 83, 84, 82, 95, 57, 95, 95, 39, 32, 70, 82, 79, 77, 32, 116, 95, 95, 49, 32, 45, 45, 32, 36, 36] : Bytes) = 0 ∧ (mask ([83, 69, 76, 69, 67, 84, 32, 34, 72, 111, 115, 116, 34, 44, 32, 34, 104, 111, 115, 116, 34, 44, 32, 34, 72, 111, 115, 116, 34, 44, 32, 39, 95, 95, 73, 68, 69, 78, 84, 95, 48, 95, 95, 39, 44, 32, 39, 95, 95, 83, 84, 82, 95, 57, 95, 95, 39, 32, 70, 82, 79, 77, 32, 116, 95, 95, 49, 32, 45, 45, 32, 36, 36] : Bytes) true).2.length = 4 := by decide

/-- `__STR_0__ 'a'`: the user's own text `__STR_0__` outside any literal is replaced too; result `'a' 'a'` -/
theorem C15_roundtrip_witness_lookalike :
    kClassP ([95, 95, 83, 84, 82, 95, 48, 95, 95, 32, 39, 97, 39] : Bytes) = kLookalike ∧
    unmask (mask ([95, 95, 83, 84, 82, 95, 48, 95, 95, 32, 39, 97, 39] : Bytes) true).1 (mask ([95, 95, 83, 84, 82, 95, 48, 95, 95, 32, 39, 97, 39] : Bytes) true).2 = ([39, 97, 39, 32, 39, 97, 39] : Bytes) := by decide
/-- `__STR_0'a'`: a look-alike PREFIX glued to a literal is enough -/
theorem C15_roundtrip_witness_prefix :
    kClassP ([95, 95, 83, 84, 82, 95, 48, 39, 97, 39] : Bytes) = kLookalike ∧
    unmask (mask ([95, 95, 83, 84, 82, 95, 48, 39, 97, 39] : Bytes) true).1 (mask ([95, 95, 83, 84, 82, 95, 48, 39, 97, 39] : Bytes) true).2 ≠ ([95, 95, 83, 84, 82, 95, 48, 39, 97, 39] : Bytes) := by decide

/-! ## tie to the current source (regenerated facts) -/

/-- **C15_placeholder_formats_tied.** Every `Sprintf` format used for a placeholder in the current
`MaskStringLiterals` is the model's `__STR_%d__` / `__IDENT_%d__`. -/
theorem C15_placeholder_formats_tied :
    (∀ f ∈ Arc.Generated.C15.strFormats, f = (pfxStr, [95, 95])) ∧
    (∀ f ∈ Arc.Generated.C15.identFormats, f = (pfxIdent, [95, 95])) := by decide

/-- **C15_unmask_single_pass_tied.** `UnmaskStringLiterals` is one `strings.NewReplacer(pairs...)
.Replace(sql)` with the pairs in mask order and no per-mask Replace / ReplaceAll loop — what `unmaskF`
models and `C15_roundtrip_partial` relies on. -/
theorem C15_unmask_single_pass_tied : Arc.Generated.C15.unmaskSinglePass = true := by decide

/-- **C15_ident_dedup_key_tied.** Quoted identifiers share a placeholder only when their token text is
byte-for-byte identical (`render` looks the whole token up): the key of the `identPlaceholders` map in
the current source is the token text itself, not a normalised form. -/
theorem C15_ident_dedup_key_tied : Arc.Generated.C15.identDedupKeyIsTokenText = true := by decide

/-- **C15_sites_mask_before_strip.** Every function of `internal/api/query.go` that strips comments
masks first — the order `normalize` models. -/
theorem C15_sites_mask_before_strip :
    ∀ s ∈ Arc.Generated.C15.callSites, s.2 = true := by decide

end Arc.C15
