import Arc.Model.C03
import Arc.Generated.C03
import Arc.Proofs.C03.Step
/-!
# C03 — accepted rows are flushed exactly once into their hour partition

Property theorems (`C03_*`). Helper lemmas live in `Arc/Proofs/C03/*.lean`.

Layer 1 (pure functions, unbounded sizes): `HourBucketID` is floor division (Int, wrap-aware int64,
BitVec 64); `groupByHour` partitions the row indices by hour; every path of `permuteByTime` yields a
sorted permutation and the 8-pass LSD radix path is stable; slice/applyPermutation move whole rows
(validity included); `mergeBatches` concatenates rows (sparse column = NULL); one flush writes files
that partition the task's rows by hour, each time-sorted.

Layer 2 (ArrowBuffer LTS): conservation invariant for every reachable state and `C03_full` for
quiescent states, for any number of writers/workers and any interleaving of critical sections,
under the explicit hypothesis `freshRun` (FreshNames: no two `storage.Write`s use the same path).
-/
namespace Arc.C03

/-! ## constants tied to the current source -/

/-- the model's constants are the ones factgen read from `arrow_writer.go` (and the body of
`HourBucketID`, the bias mask and the 8×8-bit pass structure have the shape the model encodes —
factgen fails otherwise) -/
theorem C03_constants_tied :
    Arc.Generated.C03.microPerHour = microPerHour ∧
    Arc.Generated.C03.radixSkipThreshold = radixSkipThreshold ∧
    Arc.Generated.C03.radixBiasMask = 2 ^ 63 ∧
    Arc.Generated.C03.radixKeyBits = 8 * Arc.Generated.C03.radixDigitBits ∧
    2 ^ Arc.Generated.C03.radixDigitBits = Arc.Generated.C03.radixBuckets ∧
    Arc.Generated.C03.radixBuckets = 256 := by decide

/-! ## hour bucketing -/

/-- **floor division, all integers** (negative = pre-1970 included). -/
theorem C03_hour_floor (t : Int) : hourBucketID t = t / 3600000000 := hourBucketID_floor t

/-- the row's timestamp lies inside the hour its bucket denotes -/
theorem C03_hour_contains (t : Int) :
    hourBucketID t * 3600000000 ≤ t ∧ t < (hourBucketID t + 1) * 3600000000 := by
  rw [hourBucketID_floor]; omega

/-- **wrap-aware**: on every int64 input the machine computation (each intermediate result wrapped
to 64 bits) equals floor division — nothing overflows inside `HourBucketID`. -/
theorem C03_hour_floor_int64 (t : Int) (h : inI64 t) : hourBucketID64 t = t / 3600000000 := by
  rw [hourBucketID64_eq t h, hourBucketID_floor]

/-- **BitVec 64** statement: `sdiv`/`srem`/`slt`/`-` on machine words. -/
theorem C03_hour_floor_bitvec (t : BitVec 64) : (hourBucketBV t).toInt = t.toInt / 3600000000 :=
  hourBucketBV_floor t

/-- `hourIDToTime` (`hourID * microPerHour` in int64) is exact unless the timestamp is in the lowest,
partial hour of the int64 range … -/
theorem C03_hour_start_no_wrap (t : Int) (h : inI64 t) (hlo : -(2 ^ 63) + 3600000000 ≤ t) :
    hourStartMicro64 (hourBucketID t) = hourBucketID t * 3600000000 :=
  (hourStart_no_wrap t h hlo).1

/-- … where it wraps (year −290308; outside any calendar the path format can print). -/
theorem C03_hour_start_wrap_witness :
    hourStartMicro64 (hourBucketID (-(2 ^ 63))) ≠ hourBucketID (-(2 ^ 63)) * 3600000000 := by decide

example : hourBucketID (-1) = -1 ∧ hourBucketID (-3600000000) = -1 ∧ hourBucketID (-3600000001) = -2 ∧
    hourBucketID 3599999999 = 0 := by decide

/-! ## groupByHour -/

/-- **partition**: the buckets' index lists are a permutation of `0..n-1` (every row in exactly one
bucket), every index sits in the bucket of its own timestamp's hour, bucket keys are distinct and
each bucket lists its rows in arrival order. -/
theorem C03_group_partition (times : List Int) :
    ((groupByHour times).flatMap (·.2)).Perm (List.range times.length) ∧
    (∀ p ∈ groupByHour times, ∀ j ∈ p.2, ∃ t, times[j]? = some t ∧ t / 3600000000 = p.1) ∧
    ((groupByHour times).map (·.1)).Nodup ∧
    (∀ p ∈ groupByHour times, p.2.Pairwise (· < ·)) := by
  have inv := groupByHour_inv times
  refine ⟨inv.perm, ?_, inv.keys, inv.asc⟩
  intro p hp j hj
  obtain ⟨t, h1, h2⟩ := inv.hour p hp j hj
  exact ⟨t, h1, by rw [← hourBucketID_floor]; exact h2⟩

example : groupByHour [5, -1, 3600000000, -3600000001, 7] = [(0, [0, 4]), (-1, [1]), (1, [2]), (-2, [3])] := by
  decide

/-! ## time sort -/

/-- **radix path: sorted, a permutation, and stable** — 8 stable counting passes over the sign-biased
key, by induction on passes; any length, any int64 timestamps. `StableSorted` = strictly increasing
in (timestamp, arrival position). -/
theorem C03_radix_sorted_perm_stable (times : List Int) (hr : ∀ t ∈ times, inI64 t) :
    StableSorted times (radixPermuteByTime times) ∧
    TimeSorted times (radixPermuteByTime times) ∧
    (radixPermuteByTime times).Perm (List.range times.length) :=
  ⟨(radix_stable times hr).1, (radix_stable times hr).1.timeSorted, (radix_stable times hr).2⟩

/-- the bias is what makes negatives sort first: it is strictly monotone from int64 to uint64 -/
theorem C03_bias_monotone (a b : Int) (ha : inI64 a) (hb : inI64 b) : bias a < bias b ↔ a < b :=
  bias_lt_iff a b ha hb

/-- without the bias the order is wrong (what the mutant "drop the sign flip" does) -/
theorem C03_bias_needed_witness :
    ¬ (((-1 : Int) % 2 ^ 64).toNat < ((0 : Int) % 2 ^ 64).toNat) ∧ bias (-1) < bias 0 := by decide

/-- **every path of `permuteByTime`** (already sorted → identity, comparison sort below
`radixSkipThreshold`, radix above): the permutation applied to the batch is a permutation of the
rows and puts the timestamps in non-decreasing order. -/
theorem C03_sort_sorted_perm (times : List Int) (hr : ∀ t ∈ times, inI64 t) :
    TimeSorted times (effPerm times) ∧ (effPerm times).Perm (List.range times.length) :=
  effPerm_sorted times hr

example : permuteByTime [1, 2, 2] = none ∧ radixPermuteByTime [5, -1, 5, -7] = [3, 1, 0, 2] := by
  decide +kernel

/-- **slice / applyPermutation preserve rows, validity included**: row `j` of the gathered batch is
row `ix[j]` of the source, cell by cell (value or NULL). -/
theorem C03_gather_rows (b : Batch) (ix : List Nat) (ht : HasTime b) :
    (b.gather ix).rows = ix.map b.rowAt := gather_rows b ix ht

/-- `sortTypedColumnBatchByKeys` under the default keys: same multiset of rows, time-sorted. -/
theorem C03_sort_preserves_rows (b : Batch) (ht : HasTime b) (hr : ∀ t ∈ b.times, inI64 t) :
    (sortBatch b).rows.Perm b.rows ∧ ((sortBatch b).rows.map (·.time)).Pairwise (· ≤ ·) :=
  sortBatch_spec b ht hr

/-! ## mergeBatches and one flush -/

/-- **merge preserves every value and every NULL**: the merged batch's rows are the concatenation,
in arrival order, of the buffered batches' rows; a column missing from a batch reads as NULL there.
(`WFB`: unique names, int64 `time` without NULLs, equal column lengths; `typeConflict = false` is
implied by equal column signatures, `goodGroup_noConflict`.) -/
theorem C03_merge_rows (bs : List Batch) (hwf : ∀ b ∈ bs, WFB b) (hnc : typeConflict bs = false)
    (m : Batch) (hm : mergeBatches bs = .ok m) : m.rows = bs.flatMap Batch.rows :=
  (merge_rows bs hwf hnc m hm).1

/-- a type change under one name inside a single merge makes `mergeBatches` fail (an error since
d29da22, a type-assertion panic before): the task's rows are not written — the
reason the column signature must be type-aware; reachable only through `_`-prefixed internal columns,
which the signature ignores -/
theorem C03_merge_type_conflict_witness :
    (match mergeBatches [⟨[("time", ⟨.i64, [.i 1], none⟩), ("_x", ⟨.i64, [.i 1], none⟩)]⟩,
                  ⟨[("time", ⟨.i64, [.i 2], none⟩), ("_x", ⟨.f64, [.f 0], none⟩)]⟩] with
      | .error .typeConflict => true | _ => false) = true ∧
    signature ⟨[("time", ⟨.i64, [.i 1], none⟩), ("_x", ⟨.i64, [.i 1], none⟩)]⟩ =
      signature ⟨[("time", ⟨.i64, [.i 2], none⟩), ("_x", ⟨.f64, [.f 0], none⟩)]⟩ := by decide

/-- **flush_files**: for a task (batches of one buffer: well-formed, one column signature) the files
written partition the task's rows by hour — multiset equality, so every value and NULL is kept and
nothing is duplicated — every row of a file lies in the file's hour, every file is in non-decreasing
time order, and no two files of the flush share an hour directory. If nothing is written the task
had no rows. -/
theorem C03_flush_files (l : List TBatch) (h : GoodGroup l) :
    (∀ fs, flushTask (l.map TBatch.b) = .ok fs →
        (fs.flatMap (fun f => f.batch.rows)).Perm ((l.map TBatch.b).flatMap Batch.rows) ∧
        (∀ f ∈ fs, (∀ r ∈ f.batch.rows, r.time / 3600000000 = f.hour) ∧
                   (f.batch.rows.map (·.time)).Pairwise (· ≤ ·)) ∧
        (fs.map (·.hour)).Nodup) ∧
    (∀ e, flushTask (l.map TBatch.b) = .error e → (l.map TBatch.b).flatMap Batch.rows = []) := by
  obtain ⟨h1, h2⟩ := flushTask_spec l h
  refine ⟨?_, h2⟩
  intro fs hfs
  obtain ⟨a, b, c⟩ := h1 fs hfs
  refine ⟨a, ?_, c⟩
  intro f hf
  exact ⟨fun r hr => by rw [← hourBucketID_floor]; exact (b f hf).inHour r hr, (b f hf).sorted⟩

/-! ## outside the model: the Parquet writer's schema cache (finding, fixed in /repo 7029960) -/

/-- The LTS treats `WriteParquetColumnar` + reader as faithful (trusted base). Before 7029960 that
assumption was **false** for some column-name pools: `ArrowWriter.getSchema` keyed its schema cache
with `%v` of the name list (`schemaCacheKey` below is that old format), which is not injective — two
different column sets of one measurement got the same key, the second flush was encoded against the
first schema and failed (`column a b not found in data`), and its accepted rows were not stored
(harness monitor `rows-lost:schema-cache-key-collision:getSchema`, kept as a regression probe). The
fix renders the lists with `%q`. This witness records why `%v` cannot be used. -/
theorem C03_schema_cache_collision_witness :
    schemaCacheKey "m" ["a b", "c", "time"] ["int64", "int64", "timestamp"] [] false =
      schemaCacheKey "m" ["a", "b c", "time"] ["int64", "int64", "timestamp"] [] false ∧
    (["a b", "c", "time"] : List String) ≠ ["a", "b c", "time"] := by decide

/-! ## the buffer LTS -/

theorem inv_init : Inv ({} : St) := by
  refine ⟨by simp [acceptedRows, allRows, bufRows, heldRows, queueRows, inflightRows, storedRows, droppedRows, failedRows],
    by simp, by simp, by simp, by simp, by simp, by simp, rfl⟩

theorem run_inv (maxBuf : Nat) (es : List Ev) : ∀ (s s' : St), Inv s → run maxBuf s es = some s' →
    freshRun maxBuf s es = true → Inv s' := by
  induction es with
  | nil => intro s s' hI hr _; simp [run] at hr; subst hr; exact hI
  | cons e es ih =>
    intro s s' hI hr hf
    simp only [run] at hr
    simp only [freshRun, Bool.and_eq_true] at hf
    cases hs : step maxBuf s e with
    | none => simp [hs] at hr
    | some s1 =>
      simp only [hs] at hr hf
      exact ih s1 s' (step_inv maxBuf s s1 e hI hs hf.1) hr hf.2

/-- **conservation, every reachable state**: for every sequence of events (= every interleaving of
the critical sections of any number of writers, workers, the age timer, FlushAll and Close) with
fresh file names, the accepted rows are exactly (as a multiset) the rows still buffered ⊎ extracted
⊎ queued ⊎ in flight ⊎ stored ⊎ given up (`dropped`: enqueue failed / queued at close — C07);
nothing is in `failed`. -/
theorem C03_invariant (maxBuf : Nat) (es : List Ev) (s : St)
    (hrun : run maxBuf {} es = some s) (hfresh : freshRun maxBuf {} es = true) :
    (acceptedRows s).Perm
      (bufRows s ++ heldRows s ++ queueRows s ++ inflightRows s ++ storedRows s ++ droppedRows s) ∧
    failedRows s = [] := by
  have hI := run_inv maxBuf es {} s inv_init hrun hfresh
  refine ⟨?_, hI.failedE⟩
  have := hI.cons
  unfold allRows at this
  rw [hI.failedE, List.append_nil] at this
  exact this

/-- **C03_full**: in a quiescent state (nothing buffered, extracted, queued or being written — i.e.
after FlushAll/Close once the workers are idle) in which no task was given up (`dropped = []`: no
queue overflow, no task still queued at Close — C07's cases), every accepted row is stored exactly
once (multiset equality of (key, row) with every value and NULL), every stored file sits in the
directory of its own key and of the hour that contains **all** its rows' timestamps (floor division,
pre-1970 included), and every file is in non-decreasing time order. Any number of writers, any
interleaving. Hypothesis `freshRun` = FreshNames. -/
theorem C03_full (maxBuf : Nat) (es : List Ev) (s : St)
    (hrun : run maxBuf {} es = some s) (hfresh : freshRun maxBuf {} es = true)
    (hq : quiescent s = true) (hd : s.dropped = []) :
    (storedRows s).Perm (acceptedRows s) ∧
    ∀ q ∈ s.files, q.1.key = q.2.key ∧ q.1.hour = q.2.hour ∧
      (∀ r ∈ q.2.batch.rows, r.time / 3600000000 = q.1.hour) ∧
      (q.2.batch.rows.map (·.time)).Pairwise (· ≤ ·) := by
  have hI := run_inv maxBuf es {} s inv_init hrun hfresh
  unfold quiescent at hq
  simp only [Bool.and_eq_true, List.isEmpty_iff] at hq
  obtain ⟨⟨⟨q1, q2⟩, q3⟩, q4⟩ := hq
  constructor
  · have := hI.cons
    unfold allRows bufRows heldRows queueRows inflightRows droppedRows at this
    rw [q1, q2, q3, q4, hd, hI.failedE] at this
    simpa using this.symm
  · intro q hq
    obtain ⟨h1, h2, h3⟩ := hI.filesOK q hq
    refine ⟨h2, h3, ?_, h1.sorted⟩
    intro r hr
    rw [← hourBucketID_floor, h3]
    exact h1.inHour r hr

/-! ## non-vacuity and what happens outside the hypotheses -/

def ex_b1 : Batch := ⟨[("time", ⟨.i64, [.i 7200000001, .i (-1), .i 5], none⟩),
                        ("v", ⟨.f64, [.f 1, .f 0, .f 3], some [true, false, true]⟩)]⟩
def ex_b2 : Batch := ⟨[("time", ⟨.i64, [.i 3], none⟩), ("v", ⟨.f64, [.f 9], none⟩)]⟩
def ex_b3 : Batch := ⟨[("time", ⟨.i64, [.i 4], none⟩), ("v", ⟨.i64, [.i 9], none⟩)]⟩

/-- two writers on one key, a size-triggered async flush spanning three hours (one pre-1970), a
type change forcing a schema flush, FlushAll — ends quiescent with nothing dropped. -/
def ex_trace_ok : List Ev :=
  [.write "db/m" ⟨0, ex_b1⟩, .write "db/m" ⟨1, ex_b2⟩, .extract "db/m", .enqueue 0, .take 0,
   .write "db/m" ⟨2, ex_b2⟩, .syncFlush .schema "db/m", .write "db/m" ⟨3, ex_b3⟩,
   .store 0 "a", .store 0 "b", .store 0 "c", .store 0 "d", .syncFlush .flushAll "db/m", .store 0 "e", .close]

example : ∃ s, run 4 {} ex_trace_ok = some s ∧ freshRun 4 {} ex_trace_ok = true ∧
    quiescent s = true ∧ s.dropped = [] ∧ s.files.length = 5 ∧ s.accepted.length = 4 := by
  refine ⟨_, rfl, ?_⟩
  decide

/-- **FreshNames is needed**: if two flushes of one partition get the same file name (same
`time.Now()` nanosecond), the second `storage.Write` overwrites the first file and its rows are gone:
the run below is quiescent with nothing dropped, yet fewer rows are stored than were accepted. -/
theorem C03_name_clash_witness :
    let es : List Ev := [.write "db/m" ⟨0, ex_b2⟩, .syncFlush .flushAll "db/m", .store 0 "same",
                         .write "db/m" ⟨1, ex_b2⟩, .syncFlush .flushAll "db/m", .store 0 "same"]
    ∃ s, run 100 {} es = some s ∧ freshRun 100 {} es = false ∧ quiescent s = true ∧ s.dropped = [] ∧
      (storedRows s).length = 1 ∧ (acceptedRows s).length = 2 := by
  refine ⟨_, rfl, ?_⟩
  decide

/-- Close with a task still queued: the LTS (like the code: workers exit on ctx cancellation, queued
tasks are never flushed) ends quiescent with the rows in `dropped` — excluded from `C03_full` by
`dropped = []`; this is C07's case. -/
theorem C03_close_drops_witness :
    let es : List Ev := [.write "db/m" ⟨0, ex_b2⟩, .extract "db/m", .enqueue 0, .close, .dropQueued 0]
    ∃ s, run 1 {} es = some s ∧ freshRun 1 {} es = true ∧ quiescent s = true ∧
      (storedRows s).length = 0 ∧ (acceptedRows s).length = 1 ∧ (droppedRows s).length = 1 := by
  refine ⟨_, rfl, ?_⟩
  decide

end Arc.C03
