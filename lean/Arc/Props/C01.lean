import Arc.Proofs.C01.Main
import Arc.Model.C01.Float
import Arc.Generated.C01
/-!
# C01 — line-protocol points are stored exactly as written

Model: `Arc/Model/C01*.lean` (byte-level transcription of the parser, of BatchToColumnar and of
convertColumnsToTyped).  Spec: `Arc/Spec/C01.lean` (`Point`, `render` = InfluxDB escaping rules,
`denote`, `WF`).  Helper lemmas: `Arc/Proofs/C01/*.lean`.

FULL statement (false of the current source — kept here for reference):

    theorem C01_full : WFgen pf p = true → WFSpacing sp = true →
        parseLine pf now pr valid (render sp p) = some (denote pf now pr p)

where `WFgen` (below) only has the generator's exclusions of the property text (non-empty names, no
newline, no reserved `time`, no field named like a tag, unique keys).  It is refuted by
`C01_keyeq_witness` (escaped `=` inside a tag/field key) and `C01_quote_witness` (a `"` inside a
measurement / tag / key), both inside `WFgen` (`C01_witnesses_in_class`).  `C01_line_carved` proves it
under the explicit decidable carve-outs `CarveQuote`, `CarveKeyEq`, `CarveBackslash`;
`C01_line_partial` is the same statement with the carve-outs folded into `WF` (`nameOK`, `keyOK`).
-/
namespace Arc.C01

/-! ## 0. the generator's class and the explicit carve-outs -/

/-- the generator's exclusions of the property text only: non-empty names, no newline, no reserved
`time`, unique keys, no field named like a tag, representable numbers -/
def nameGen (s : Bytes) : Bool := !s.isEmpty && noNL s

def WFgen (pf : Bytes → Option UInt64) (p : Point) : Bool :=
  nameGen p.meas && measHeadOK p.meas &&
  p.tags.all (fun t => nameGen t.1 && nameGen t.2 && !reserved t.1) &&
  p.fields.all (fun f => nameGen f.1 && WFVal pf f.2 && !reserved f.1) &&
  !p.fields.isEmpty &&
  decide (p.tags.map (·.1)).Nodup && decide (p.fields.map (·.1)).Nodup &&
  p.fields.all (fun f => !(p.tags.map (·.1)).contains f.1) &&
  WFTs p.ts

/-- measurement, tag keys, tag values, field keys -/
def names (p : Point) : List Bytes := p.meas :: (p.tags.flatMap (fun t => [t.1, t.2]) ++ p.fields.map (·.1))
def keys (p : Point) : List Bytes := p.tags.map (·.1) ++ p.fields.map (·.1)

/-- carve-out of finding quote-in-name -/
def CarveQuote (p : Point) : Bool := (names p).all (fun s => !s.contains cDQ)
/-- carve-out of finding key-escaped-equals; void once the source cuts escape-aware (regenerated fact) -/
def CarveKeyEq (p : Point) : Bool :=
  (keys p).all (fun s => Arc.Generated.C01.kvCutEscapeAware || !s.contains cEQ)
/-- line protocol has no escape for a backslash outside string field values -/
def CarveBackslash (p : Point) : Bool := (names p).all (fun s => !s.contains cBS)

theorem WF_of_carved (pf : Bytes → Option UInt64) (p : Point) (hg : WFgen pf p = true)
    (hq : CarveQuote p = true) (he : CarveKeyEq p = true) (hb : CarveBackslash p = true) : WF pf p = true := by
  simp only [WFgen, Bool.and_eq_true, List.all_eq_true, Bool.not_eq_true', decide_eq_true_eq] at hg
  obtain ⟨⟨⟨⟨⟨⟨⟨⟨g1, g2⟩, g3⟩, g4⟩, g5⟩, g6⟩, g7⟩, g8⟩, g9⟩ := hg
  simp only [CarveQuote, CarveBackslash, names, List.all_eq_true, Bool.not_eq_true'] at hq hb
  simp only [CarveKeyEq, keys, List.all_eq_true] at he
  have mT1 : ∀ t ∈ p.tags, t.1 ∈ p.meas :: (p.tags.flatMap (fun t => [t.1, t.2]) ++ p.fields.map (·.1)) :=
    fun t ht => List.mem_cons_of_mem _ (List.mem_append_left _ (List.mem_flatMap.mpr ⟨t, ht, by simp⟩))
  have mT2 : ∀ t ∈ p.tags, t.2 ∈ p.meas :: (p.tags.flatMap (fun t => [t.1, t.2]) ++ p.fields.map (·.1)) :=
    fun t ht => List.mem_cons_of_mem _ (List.mem_append_left _ (List.mem_flatMap.mpr ⟨t, ht, by simp⟩))
  have mF : ∀ f ∈ p.fields, f.1 ∈ p.meas :: (p.tags.flatMap (fun t => [t.1, t.2]) ++ p.fields.map (·.1)) :=
    fun f hf => List.mem_cons_of_mem _ (List.mem_append_right _ (List.mem_map.mpr ⟨f, hf, rfl⟩))
  have nm : ∀ s, nameGen s = true →
      s ∈ p.meas :: (p.tags.flatMap (fun t => [t.1, t.2]) ++ p.fields.map (·.1)) → nameOK s = true := by
    intro s hs hm
    simp only [nameGen, Bool.and_eq_true, Bool.not_eq_true'] at hs
    simp only [nameOK, Bool.and_eq_true, Bool.not_eq_true']
    exact ⟨⟨⟨hs.1, hs.2⟩, hq s hm⟩, hb s hm⟩
  simp only [WF, Bool.and_eq_true, List.all_eq_true, Bool.not_eq_true', decide_eq_true_eq]
  refine ⟨⟨⟨⟨⟨⟨⟨⟨nm _ g1 (by simp), g2⟩, ?_⟩, ?_⟩, g5⟩, g6⟩, g7⟩, g8⟩, g9⟩
  · intro t ht
    have := g3 t ht
    refine ⟨⟨?_, nm _ this.1.2 (mT2 t ht)⟩, this.2⟩
    simp only [keyOK, Bool.and_eq_true]
    exact ⟨nm _ this.1.1 (mT1 t ht), he t.1 (List.mem_append_left _ (List.mem_map.mpr ⟨t, ht, rfl⟩))⟩
  · intro f hf
    have := g4 f hf
    refine ⟨⟨?_, this.1.2⟩, this.2⟩
    simp only [keyOK, Bool.and_eq_true]
    exact ⟨nm _ this.1.1 (mF f hf), he f.1 (List.mem_append_right _ (List.mem_map.mpr ⟨f, hf, rfl⟩))⟩


/-! ## 1. one point, one line -/

/-- **C01_line_partial.**  Every well-formed point (all escapable characters allowed: `,` ` ` `=` in
names and tag values, `"` `\` `,` ` ` `=` in string values, UTF-8 everywhere; all five field types;
optional timestamp over the whole int64 range; any legal spacing) is parsed by arc's
`parseLineWithPrecision` to exactly its denotation — for every precision, every value of the
`validUTF8` flag, every `ParseFloat` (`pf`).  Carve-outs (in `WF`): no `"`/`\` in names, no `=` in keys. -/
theorem C01_line_partial (pf : Bytes → Option UInt64) (now : Int) (pr : Prec) (valid : Bool)
    (sp : Spacing) (p : Point) (hw : WF pf p = true) (hs : WFSpacing sp = true) :
    parseLine pf now pr valid (render sp p) = some (denote pf now pr p) :=
  parseLine_render pf now pr valid sp p hw hs

/-- **C01_line_carved.**  The same with the carve-outs spelled out: the generator's class `WFgen`
(exclusions of the property text only) minus the three decidable input classes `CarveQuote`
(finding quote-in-name), `CarveKeyEq` (finding key-escaped-equals), `CarveBackslash`. -/
theorem C01_line_carved (pf : Bytes → Option UInt64) (now : Int) (pr : Prec) (valid : Bool)
    (sp : Spacing) (p : Point) (hg : WFgen pf p = true) (hq : CarveQuote p = true) (he : CarveKeyEq p = true)
    (hb : CarveBackslash p = true) (hs : WFSpacing sp = true) :
    parseLine pf now pr valid (render sp p) = some (denote pf now pr p) :=
  parseLine_render pf now pr valid sp p (WF_of_carved pf p hg hq he hb) hs

/-! ## 2. batches: no drop, no merge, no split, order preserved -/

/-- a line of a request: a rendered point, or a comment / blank line -/
inductive Item
  | point (sp : Spacing) (p : Point)
  | other (l : Bytes)

def Item.text : Item → Bytes
  | .point sp p => render sp p
  | .other l => l

def Item.ok (pf : Bytes → Option UInt64) : Item → Prop
  | .point sp p => WF pf p = true ∧ WFSpacing sp = true
  | .other l => NoNL l ∧ (trimSpace l = [] ∨ (trimSpace l).head? = some cHash)

def Item.den (pf : Bytes → Option UInt64) (now : Int) (pr : Prec) : Item → Option Record
  | .point _ p => some (denote pf now pr p)
  | .other _ => none

theorem parseLine_other (pf : Bytes → Option UInt64) (now : Int) (pr : Prec) (valid : Bool) (l : Bytes)
    (h : trimSpace l = [] ∨ (trimSpace l).head? = some cHash) : parseLine pf now pr valid l = none := by
  unfold parseLine
  rcases h with h | h
  · simp [h]
  · simp only [h]
    split <;> simp

theorem filterMap_congr' {α β : Type} (f g : α → Option β) (xs : List α) (h : ∀ x ∈ xs, f x = g x) :
    xs.filterMap f = xs.filterMap g := by
  induction xs with
  | nil => rfl
  | cons a r ih =>
    simp only [List.filterMap_cons, h a (by simp), ih (fun x hx => h x (by simp [hx]))]

/-- **C01_batch_partial.**  A request body made of well-formed points interleaved with comment and
blank lines, joined by `\n`, yields exactly the denotations of its points, in order: nothing is
dropped, merged or split (`ParseBatchWithPrecision`, whatever the UTF-8 pre-validation says). -/
theorem C01_batch_partial (pf : Bytes → Option UInt64) (now : Int) (pr : Prec) (valid : Bool)
    (items : List Item) (hok : ∀ it ∈ items, it.ok pf) :
    parseBatchInternal pf now pr valid (joinNL (items.map Item.text)) = items.filterMap (Item.den pf now pr) := by
  unfold parseBatchInternal
  cases hi : items with
  | nil => simp [joinNL, splitNL, parseLine, trimSpace, trimLeft, trimRightR, trimLeftN, trimRightRN]
  | cons it rest =>
    rw [← hi]
    have hne : items.map Item.text ≠ [] := by rw [hi]; simp
    have hnl : ∀ l ∈ items.map Item.text, ∀ b ∈ l, b ≠ cNL := by
      intro l hl
      simp only [List.mem_map] at hl
      obtain ⟨x, hx, rfl⟩ := hl
      have := hok x hx
      cases x with
      | point sp p => exact mem_render_noNL pf sp p this.1 this.2
      | other l' => exact this.1
    rw [splitNL_joinNL _ hne hnl, List.filterMap_map]
    apply filterMap_congr'
    intro x hx
    have := hok x hx
    cases x with
    | point sp p => exact parseLine_render pf now pr valid sp p this.1 this.2
    | other l' => exact parseLine_other pf now pr valid l' this.2

/-- the same for the exported entry point -/
theorem C01_batch_entry (pf : Bytes → Option UInt64) (now : Int) (pr : Prec)
    (items : List Item) (hok : ∀ it ∈ items, it.ok pf) :
    parseBatch pf now pr (joinNL (items.map Item.text)) = items.filterMap (Item.den pf now pr) :=
  C01_batch_partial pf now pr _ items hok

/-- the number of stored records is the number of points -/
theorem C01_batch_count (pf : Bytes → Option UInt64) (now : Int) (pr : Prec)
    (ps : List (Spacing × Point)) (hok : ∀ x ∈ ps, WF pf x.2 = true ∧ WFSpacing x.1 = true) :
    (parseBatch pf now pr (joinNL (ps.map fun x => render x.1 x.2))).length = ps.length := by
  have := C01_batch_entry pf now pr (ps.map fun x => Item.point x.1 x.2)
    (by intro it hit; simp only [List.mem_map] at hit; obtain ⟨x, hx, rfl⟩ := hit; exact hok x hx)
  simp only [List.map_map] at this
  rw [show (Item.text ∘ fun x : Spacing × Point => Item.point x.1 x.2) = fun x => render x.1 x.2 from rfl] at this
  rw [this, List.filterMap_map]
  simp [Item.den, Function.comp_def]

/-! ## 3. witnesses of the confirmed deviations (concrete inputs, evaluated by the kernel) -/

def pf0 : Bytes → Option UInt64 := fun _ => none

/-- `m,a\=b=c f=1i` : tag key `a=b`, value `c` -/
def pKeyEq : Point :=
  { meas := [109], tags := [([97, 61, 98], [99])], fields := [([102], .int false [49])], ts := none }

/-- **C01_keyeq_witness** (finding key-escaped-equals).  While the source cuts at the first `=`
escape-unaware (`kvCutEscapeAware = false`, regenerated), the tag is stored as key `a\` value `b=c`. -/
theorem C01_keyeq_witness :
    render {} pKeyEq = [109, 44, 97, 92, 61, 98, 61, 99, 32, 102, 61, 49, 105] ∧
    (Arc.Generated.C01.kvCutEscapeAware = false →
      parseLine pf0 7 .ns true (render {} pKeyEq) =
        some { meas := [109], tags := [([97, 92], [98, 61, 99])], fields := [([102], .i64 1)], ts := 7 } ∧
      parseLine pf0 7 .ns true (render {} pKeyEq) ≠ some (denote pf0 7 .ns pKeyEq)) := by
  decide

/-- … and once the cut is escape-aware the same inputs are parsed to their denotation (then `WF`
no longer excludes `=` in keys and `C01_line_partial` covers them in general) -/
theorem C01_keyeq_fixed :
    Arc.Generated.C01.kvCutEscapeAware = true →
      parseLine pf0 7 .ns true (render {} pKeyEq) = some (denote pf0 7 .ns pKeyEq) ∧
      WF pf0 pKeyEq = true := by
  decide

/-- `m f\=g=1i` : field key `f=g` -/
def pKeyEqField : Point :=
  { meas := [109], tags := [], fields := [([102, 61, 103], .int false [49])], ts := none }

theorem C01_keyeq_field_witness :
    Arc.Generated.C01.kvCutEscapeAware = false →
      parseLine pf0 7 .ns true (render {} pKeyEqField) ≠ some (denote pf0 7 .ns pKeyEqField) := by
  decide

/-- `m,k=a"b f=1i 5` : tag value `a"b` -/
def pQuote : Point :=
  { meas := [109], tags := [([107], [97, 34, 98])], fields := [([102], .int false [49])],
    ts := some ⟨false, [53]⟩ }

/-- **C01_quote_witness** (finding quote-in-name).  The point is dropped. -/
theorem C01_quote_witness :
    render {} pQuote = [109, 44, 107, 61, 97, 34, 98, 32, 102, 61, 49, 105, 32, 53] ∧
    parseLine pf0 7 .ns true (render {} pQuote) = none := by
  decide

/-- the two refuting inputs are in the generator's class: only the carve-outs exclude them -/
theorem C01_witnesses_in_class :
    WFgen pf0 pKeyEq = true ∧ (Arc.Generated.C01.kvCutEscapeAware = false → CarveKeyEq pKeyEq = false) ∧
    WFgen pf0 pQuote = true ∧ CarveQuote pQuote = false := by decide

/-- **C01_strbs_witness** (finding string-value-backslash-unescaped).  `m f="a\,b"` — in line
protocol a backslash inside a string value escapes only `"` and `\`, so the value is the four bytes
`a\,b`; arc stores `a,b`.  (`render` always writes `\\`, so this input is outside its image.) -/
theorem C01_strbs_witness :
    Arc.Generated.C01.stringUnescapeSet = Arc.Generated.C01.unescapeSet →
    parseLine pf0 7 .ns true [109, 32, 102, 61, 34, 97, 92, 44, 98, 34] =
      some { meas := [109], tags := [], fields := [([102], .str [97, 44, 98])], ts := 7 } := by
  decide

/-- … and with the string-only escape set (`\"`, `\\`) the backslash stays: `a\,b` -/
theorem C01_strbs_fixed :
    Arc.Generated.C01.stringUnescapeSet = [34, 92] →
    parseLine pf0 7 .ns true [109, 32, 102, 61, 34, 97, 92, 44, 98, 34] =
      some { meas := [109], tags := [], fields := [([102], .str [97, 92, 44, 98])], ts := 7 } := by
  decide

/-- **C01_mixed_witness** (finding mixed-type-coerced-lossy).  A field that is `1i` in the first
point and `1.5` in the second of the same batch becomes an int64 column holding 1 and 1. -/
theorem C01_mixed_witness :
    convertCol Float.toInt64 Float.ofInt [102]
        [some (.i64 1), some (.f64 0x3FF8000000000000)] =
      some (some { data := .i64 [1, 1], validity := none }) := by
  decide

/-- (observation, not flagged) doubled backslashes and `\"` in a tag value are collapsed -/
theorem C01_bs_collapse_witness :
    parseLine pf0 7 .ns true [109, 44, 107, 61, 97, 92, 92, 98, 32, 102, 61, 49, 105] =
      some { meas := [109], tags := [([107], [97, 92, 98])], fields := [([102], .i64 1)], ts := 7 } := by
  decide

/-! ## 4. timestamps: exactly what the code computes, over all of int64 -/

/-- us: stored as written -/
theorem C01_ts_us (now raw : Int) : convTs now .us raw = raw := rfl

/-- ms: exact product whenever the product is an int64; otherwise (and only then) *now* -/
theorem C01_ts_ms (now raw : Int) :
    (minI64 ≤ raw * 1000 ∧ raw * 1000 ≤ maxI64 → convTs now .ms raw = raw * 1000) ∧
    (¬(minI64 ≤ raw * 1000 ∧ raw * 1000 ≤ maxI64) → convTs now .ms raw = now) := by
  unfold convTs minI64 maxI64
  simp only [show Int.tdiv 9223372036854775807 1000 = 9223372036854775 by decide,
    show Int.tdiv (-9223372036854775808) 1000 = -9223372036854775 by decide]
  constructor
  · intro h; rw [if_pos (by omega)]
  · intro h; rw [if_neg (by omega)]

/-- s: likewise with 10^6 -/
theorem C01_ts_s (now raw : Int) :
    (minI64 ≤ raw * 1000000 ∧ raw * 1000000 ≤ maxI64 → convTs now .s raw = raw * 1000000) ∧
    (¬(minI64 ≤ raw * 1000000 ∧ raw * 1000000 ≤ maxI64) → convTs now .s raw = now) := by
  unfold convTs minI64 maxI64
  simp only [show Int.tdiv 9223372036854775807 1000000 = 9223372036854 by decide,
    show Int.tdiv (-9223372036854775808) 1000000 = -9223372036854 by decide]
  constructor
  · intro h; rw [if_pos (by omega)]
  · intro h; rw [if_neg (by omega)]

/-- ns: Go's `/` truncates toward zero.  The result is within one microsecond of the instant, it is the
floor for every non-negative and every whole-microsecond value, and floor + 1 otherwise (negative
values are moved toward the epoch); it never overflows. -/
theorem C01_ts_ns (now raw : Int) :
    convTs now .ns raw = Int.tdiv raw 1000 ∧
    (0 ≤ raw ∨ raw % 1000 = 0 → convTs now .ns raw = raw / 1000) ∧
    (raw < 0 ∧ raw % 1000 ≠ 0 → convTs now .ns raw = raw / 1000 + 1) ∧
    (raw - 1000 < 1000 * convTs now .ns raw ∧ 1000 * convTs now .ns raw < raw + 1000) ∧
    (minI64 ≤ raw → raw ≤ maxI64 → minI64 ≤ convTs now .ns raw ∧ convTs now .ns raw ≤ maxI64) := by
  unfold convTs minI64 maxI64
  have hs : Int.sign (1000 : Int) = 1 := rfl
  refine ⟨rfl, ?_, ?_, ?_, ?_⟩ <;> simp only [Int.tdiv_eq_ediv, hs] <;> split <;> omega

/-- −1 ns is stored as 0 µs (floor would be −1 µs) -/
theorem C01_ts_ns_negative_witness : convTs 0 .ns (-1) = 0 ∧ (-1 : Int) / 1000 = -1 := by decide

/-! ## 5. columnar grouping -/

/-- records whose flat row has no colliding column names (what `denote` of a `WF` point is) -/
def Flat (r : Record) : Prop :=
  ((timeCol :: (r.tags.map (·.1) ++ r.fields.map (·.1)))).Nodup

def flat (r : Record) : List (Bytes × GoVal) :=
  (timeCol, GoVal.i64 r.ts) :: (r.tags.map (fun p => (p.1, GoVal.str p.2)) ++ r.fields)

theorem has_false_of_not_mem {V : Type} (m : AMap V) (k : Bytes) (h : k ∉ m.map (·.1)) : m.has k = false := by
  unfold AMap.has
  cases hh : m.any (fun p => p.1 == k) with
  | false => rfl
  | true =>
    simp only [List.any_eq_true, beq_iff_eq] at hh
    obtain ⟨p, hp, hpk⟩ := hh
    exact absurd (by simp only [List.mem_map]; exact ⟨p, hp, hpk⟩) h

/-- no `_value` renaming happens for a collision-free record -/
theorem rowAssigns_flat (r : Record) (h : Flat r) : rowAssigns r = flat r := by
  unfold rowAssigns flat
  have hmap : r.fields.map (fun p => (colName r p.1, p.2)) = r.fields.map id := by
    apply List.map_congr_left
    intro p hp
    have hk : p.1 ∉ r.tags.map (·.1) := by
      intro hmem
      unfold Flat at h
      have h2 := (List.nodup_cons.mp h).2
      rw [List.nodup_append] at h2
      exact h2.2.2 _ hmem _ (by simp only [List.mem_map]; exact ⟨p, hp, rfl⟩) rfl
    simp [colName, has_false_of_not_mem r.tags p.1 hk]
  rw [hmap, List.map_id]

theorem foldl_assign_skip (r : List (Bytes × GoVal)) (c : Bytes) (acc : Option GoVal)
    (hne : ∀ p ∈ r, p.1 ≠ c) :
    r.foldl (fun acc p => if p.1 == c then some p.2 else acc) acc = acc := by
  induction r generalizing acc with
  | nil => rfl
  | cons b t ih =>
    have hb : (b.1 == c) = false := by simpa using hne b (by simp)
    simp only [List.foldl_cons, hb, Bool.false_eq_true, if_false]
    exact ih acc (fun p hp => hne p (by simp [hp]))

theorem lastAssign_nodup (as : List (Bytes × GoVal)) (h : (as.map (·.1)).Nodup) (c : Bytes) (v : GoVal)
    (hm : (c, v) ∈ as) : lastAssign as c = some v := by
  unfold lastAssign
  suffices H : ∀ (acc : Option GoVal), as.foldl (fun acc p => if p.1 == c then some p.2 else acc) acc = some v by
    exact H none
  induction as with
  | nil => simp at hm
  | cons a r ih =>
    intro acc
    simp only [List.map_cons, List.nodup_cons] at h
    simp only [List.foldl_cons]
    rcases List.mem_cons.mp hm with hm | hm
    · subst hm
      simp only [beq_self_eq_true, if_true]
      exact foldl_assign_skip r c _
        (fun p hp hpc => h.1 (by simp only [List.mem_map]; exact ⟨p, hp, hpc⟩))
    · exact ih h.2 hm _

/-- **C01_columnar_cell.**  In the column `c` the row of a collision-free record holds exactly the
record's own value for `c` (tag value as string, typed field value, timestamp under `time`). -/
theorem C01_columnar_cell (r : Record) (h : Flat r) (c : Bytes) (v : GoVal) (hm : (c, v) ∈ flat r) :
    cellOf r c = some v := by
  unfold cellOf
  rw [rowAssigns_flat r h]
  apply lastAssign_nodup _ _ c v hm
  unfold Flat at h
  simpa [flat, List.map_append, Function.comp_def] using h

theorem lastAssign_none (as : List (Bytes × GoVal)) (c : Bytes) (h : c ∉ as.map (·.1)) :
    lastAssign as c = none := by
  unfold lastAssign
  exact foldl_assign_skip as c none (fun p hp hpc => h (by simp only [List.mem_map]; exact ⟨p, hp, hpc⟩))

/-- … and null in every column the record has no value for -/
theorem C01_columnar_null (r : Record) (h : Flat r) (c : Bytes) (hc : c ∉ (flat r).map (·.1)) :
    cellOf r c = none := by
  unfold cellOf
  rw [rowAssigns_flat r h]
  exact lastAssign_none _ c hc

/-- **C01_columnar_rows.**  The ColumnarRecord of a measurement has one row per record of that
measurement, in request order, and every column is the list of those records' cells: rows are neither
dropped, duplicated nor moved to another measurement. -/
theorem C01_columnar_rows (rs : List Record) (cr : ColRec) (h : cr ∈ batchToColumnar rs) :
    cr.n = (rs.filter (fun r => r.meas == cr.meas)).length ∧
    ∀ col ∈ cr.cols, col.2 = (rs.filter (fun r => r.meas == cr.meas)).map (fun r => cellOf r col.1) := by
  unfold batchToColumnar at h
  simp only [List.mem_map] at h
  obtain ⟨m, _, rfl⟩ := h
  refine ⟨rfl, ?_⟩
  intro col hcol
  simp only [toColRec, List.mem_map] at hcol
  obtain ⟨c, _, rfl⟩ := hcol
  rfl

theorem dedup_spec (xs : List Bytes) : (dedup xs).Nodup ∧ ∀ x, x ∈ dedup xs ↔ x ∈ xs := by
  unfold dedup
  suffices H : ∀ (acc : List Bytes), acc.Nodup →
      (xs.foldl (fun acc x => if acc.contains x then acc else acc ++ [x]) acc).Nodup ∧
      ∀ x, x ∈ xs.foldl (fun acc x => if acc.contains x then acc else acc ++ [x]) acc ↔ x ∈ acc ∨ x ∈ xs by
    have := H [] List.nodup_nil
    exact ⟨this.1, fun x => by simpa using this.2 x⟩
  induction xs with
  | nil => intro acc h; exact ⟨h, fun x => by simp⟩
  | cons a r ih =>
    intro acc hacc
    simp only [List.foldl_cons]
    by_cases ha : acc.contains a = true
    · simp only [ha, if_true]
      have := ih acc hacc
      refine ⟨this.1, fun x => ?_⟩
      rw [this.2 x]
      constructor
      · rintro (h | h)
        · exact Or.inl h
        · exact Or.inr (by simp [h])
      · rintro (h | h)
        · exact Or.inl h
        · rcases List.mem_cons.mp h with h | h
          · subst h; exact Or.inl (by simpa using ha)
          · exact Or.inr h
    · simp only [ha, Bool.false_eq_true, if_false]
      have hna : a ∉ acc := by simpa using ha
      have hnd : (acc ++ [a]).Nodup := by
        rw [List.nodup_append]
        exact ⟨hacc, by simp, fun x hx y hy hxy => by simp at hy; subst hy; subst hxy; exact hna hx⟩
      have := ih (acc ++ [a]) hnd
      refine ⟨this.1, fun x => ?_⟩
      rw [this.2 x]
      simp only [List.mem_append, List.mem_cons, List.mem_nil_iff, or_false]
      constructor
      · rintro ((h | h) | h)
        · exact Or.inl h
        · exact Or.inr (Or.inl h)
        · exact Or.inr (Or.inr h)
      · rintro (h | h | h)
        · exact Or.inl (Or.inl h)
        · exact Or.inl (Or.inr h)
        · exact Or.inr h

/-- **C01_columnar_groups.**  Exactly one ColumnarRecord per measurement that occurs, none else. -/
theorem C01_columnar_groups (rs : List Record) :
    ((batchToColumnar rs).map (·.meas)).Nodup ∧
    ∀ m, m ∈ (batchToColumnar rs).map (·.meas) ↔ m ∈ rs.map (·.meas) := by
  have h := dedup_spec (rs.map (·.meas))
  have hm : (batchToColumnar rs).map (·.meas) = dedup (rs.map (·.meas)) := by
    unfold batchToColumnar
    simp [List.map_map, Function.comp_def, toColRec]
  rw [hm]; exact h

theorem countP_split (rs : List Record) (k : Bytes) (ks : List Bytes) (hk : k ∉ ks) :
    rs.countP (fun r => r.meas == k) + rs.countP (fun r => ks.contains r.meas) =
      rs.countP (fun r => (k :: ks).contains r.meas) := by
  induction rs with
  | nil => simp
  | cons r t ih =>
    by_cases h1 : r.meas = k
    · have e1 : (r.meas == k) = true := by simp [h1]
      have e2 : ks.contains r.meas = false := by rw [h1]; simpa using hk
      have e3 : (k :: ks).contains r.meas = true := by rw [h1]; simp
      simp only [List.countP_cons, e1, e2, e3, if_true, Bool.false_eq_true, if_false]
      omega
    · have e1 : (r.meas == k) = false := by simpa using h1
      cases e2 : ks.contains r.meas with
      | true =>
        have e3 : (k :: ks).contains r.meas = true := by
          rw [List.contains_cons, e2]; simp
        simp only [List.countP_cons, e1, e2, e3, if_true, Bool.false_eq_true, if_false]
        omega
      | false =>
        have e3 : (k :: ks).contains r.meas = false := by
          rw [List.contains_cons, e2, e1]; rfl
        simp only [List.countP_cons, e1, e2, e3, Bool.false_eq_true, if_false]
        omega

theorem sum_counts (rs : List Record) (ks : List Bytes) (hnd : ks.Nodup) :
    (ks.map (fun k => (rs.filter (fun r => r.meas == k)).length)).sum =
      rs.countP (fun r => ks.contains r.meas) := by
  induction ks with
  | nil => simp
  | cons k t ih =>
    simp only [List.nodup_cons] at hnd
    simp only [List.map_cons, List.sum_cons, ih hnd.2]
    rw [← List.countP_eq_length_filter]
    exact countP_split rs k t hnd.1

/-- **C01_columnar_total.**  The row counts of all ColumnarRecords add up to the number of records:
as multisets, the rows of the request are partitioned by measurement. -/
theorem C01_columnar_total (rs : List Record) :
    ((batchToColumnar rs).map (·.n)).sum = rs.length := by
  have h := dedup_spec (rs.map (·.meas))
  have hm : (batchToColumnar rs).map (·.n) =
      (dedup (rs.map (·.meas))).map (fun k => (rs.filter (fun r => r.meas == k)).length) := by
    unfold batchToColumnar
    simp [List.map_map, Function.comp_def, toColRec]
  rw [hm, sum_counts rs _ h.1]
  rw [List.countP_eq_length_filter, List.filter_eq_self.mpr]
  intro r hr
  have : r.meas ∈ dedup (rs.map (·.meas)) := (h.2 _).mpr (by simp only [List.mem_map]; exact ⟨r, hr, rfl⟩)
  simpa using this

/-- the denotation of a well-formed point is collision-free, so the theorems above apply to it -/
theorem C01_denote_flat (pf : Bytes → Option UInt64) (now : Int) (pr : Prec) (p : Point) (hw : WF pf p = true) :
    Flat (denote pf now pr p) := by
  simp only [WF, Bool.and_eq_true, List.all_eq_true, Bool.not_eq_true', decide_eq_true_eq] at hw
  obtain ⟨⟨⟨⟨⟨⟨⟨⟨_, _⟩, h3⟩, h4⟩, _⟩, h6⟩, h7⟩, h8⟩, _⟩ := hw
  unfold Flat denote
  simp only [List.map_map, Function.comp_def]
  rw [List.nodup_cons, List.nodup_append]
  refine ⟨?_, h6, h7, ?_⟩
  · intro hmem
    rcases List.mem_append.mp hmem with hmem | hmem
    · simp only [List.mem_map] at hmem
      obtain ⟨t, ht, htk⟩ := hmem
      have := (h3 t ht).2
      simp [reserved, htk] at this
    · simp only [List.mem_map] at hmem
      obtain ⟨f, hf, hfk⟩ := hmem
      have := (h4 f hf).2
      simp [reserved, hfk] at this
  · intro a ha b hb hab
    simp only [List.mem_map] at hb
    obtain ⟨f, hf, rfl⟩ := hb
    have := h8 f hf
    subst hab
    have hc : (p.tags.map (·.1)).contains f.1 = true := by simpa using ha
    rw [hc] at this; exact absurd this (by simp)

/-! ## 6. typing chokepoint: values and null positions are preserved for type-consistent columns -/

/-- all present cells are float64 -/
def allF64 (col : List (Option GoVal)) : Prop := ∀ c ∈ col, c = none ∨ ∃ b, c = some (.f64 b)
def allStr (col : List (Option GoVal)) : Prop := ∀ c ∈ col, c = none ∨ ∃ b, c = some (.str b)
def allBool (col : List (Option GoVal)) : Prop := ∀ c ∈ col, c = none ∨ ∃ b, c = some (.bool b)
def allI64 (col : List (Option GoVal)) : Prop := ∀ c ∈ col, c = none ∨ ∃ b, c = some (.i64 b)

def cellF64 : Option GoVal → UInt64 | some (.f64 b) => b | _ => 0
def cellStr : Option GoVal → Bytes | some (.str b) => b | _ => []
def cellBool : Option GoVal → Bool | some (.bool b) => b | _ => false
def cellI64 : Option GoVal → Int | some (.i64 b) => b | _ => 0

def validityOf (col : List (Option GoVal)) : Option (List Bool) :=
  if (col.map Option.isSome).all id then none else some (col.map Option.isSome)

theorem optAll_total {α β : Type} (f : α → Option β) (g : α → β) (xs : List α)
    (h : ∀ x ∈ xs, f x = some (g x)) : optAll f xs = some (xs.map g) := by
  induction xs with
  | nil => rfl
  | cons a r ih =>
    simp [optAll, h a (by simp), ih (fun x hx => h x (by simp [hx]))]

theorem convSlow_total {β : Type} (zero : β) (conv : GoVal → Option β) (get : Option GoVal → β)
    (col : List (Option GoVal))
    (h : ∀ c ∈ col, cellConv zero conv c = some (get c)) :
    convSlow zero conv col = some (col.map get, validityOf col) := by
  unfold convSlow
  rw [optAll_total _ get col h]
  rfl

/-- **C01_typed_f64 / str / bool / i64.**  A column (other than `time`) whose present cells all have
one type is stored with exactly those values, null exactly where the record had no value. -/
theorem C01_typed_f64 (f2i : UInt64 → Option Int) (i2f : Int → UInt64) (name : Bytes) (col : List (Option GoVal))
    (hn : (name == timeCol) = false) (b0 : UInt64) (hf : col.findSome? id = some (.f64 b0)) (h : allF64 col) :
    convertCol f2i i2f name col = some (some { data := .f64 (col.map cellF64), validity := validityOf col }) := by
  have hne : col.isEmpty = false := by cases col <;> simp_all
  unfold convertCol
  simp only [hne, Bool.false_eq_true, if_false, hf, hn]
  rw [convSlow_total 0 (toFloat64 i2f) cellF64 col]
  intro c hc
  rcases h c hc with rfl | ⟨b, rfl⟩ <;> simp [cellConv, toFloat64, cellF64]

theorem C01_typed_str (f2i : UInt64 → Option Int) (i2f : Int → UInt64) (name : Bytes) (col : List (Option GoVal))
    (hn : (name == timeCol) = false) (b0 : Bytes) (hf : col.findSome? id = some (.str b0)) (h : allStr col) :
    convertCol f2i i2f name col = some (some { data := .str (col.map cellStr), validity := validityOf col }) := by
  have hne : col.isEmpty = false := by cases col <;> simp_all
  unfold convertCol
  simp only [hne, Bool.false_eq_true, if_false, hf, hn]
  rw [convSlow_total [] _ cellStr col]
  intro c hc
  rcases h c hc with rfl | ⟨b, rfl⟩ <;> simp [cellConv, cellStr]

theorem C01_typed_bool (f2i : UInt64 → Option Int) (i2f : Int → UInt64) (name : Bytes) (col : List (Option GoVal))
    (hn : (name == timeCol) = false) (b0 : Bool) (hf : col.findSome? id = some (.bool b0)) (h : allBool col) :
    convertCol f2i i2f name col = some (some { data := .bool (col.map cellBool), validity := validityOf col }) := by
  have hne : col.isEmpty = false := by cases col <;> simp_all
  unfold convertCol
  simp only [hne, Bool.false_eq_true, if_false, hf, hn]
  rw [convSlow_total false _ cellBool col]
  intro c hc
  rcases h c hc with rfl | ⟨b, rfl⟩ <;> simp [cellConv, cellBool]

theorem C01_typed_i64 (f2i : UInt64 → Option Int) (i2f : Int → UInt64) (name : Bytes) (col : List (Option GoVal))
    (hn : (name == timeCol) = false) (b0 : Int) (hf : col.findSome? id = some (.i64 b0)) (h : allI64 col) :
    convertCol f2i i2f name col = some (some { data := .i64 (col.map cellI64), validity := validityOf col }) := by
  have hne : col.isEmpty = false := by cases col <;> simp_all
  unfold convertCol
  simp only [hne, Bool.false_eq_true, if_false, hf, hn]
  rw [convSlow_total 0 (toInt64 f2i) cellI64 col]
  intro c hc
  rcases h c hc with rfl | ⟨b, rfl⟩ <;> simp [cellConv, toInt64, cellI64]

/-! ## 7. facts regenerated from the current source -/

/-- what the proofs need from the regenerated escape sets of the current source: every character
`render` escapes is un-escaped again (`,` ` ` `=` in names; `"` `\` in string values), and nothing that
`render` leaves bare inside a name is treated as an escape target other than the five known ones -/
theorem C01_facts_escape :
    (isEsc cCM ∧ isEsc cSP ∧ isEsc cEQ ∧ isEsc cDQ ∧ isEsc cBS) ∧ (isEscStr cDQ ∧ isEscStr cBS) ∧
    Arc.Generated.C01.unescapeSet.all (fun n => [44, 32, 61, 34, 92].contains n) = true ∧
    Arc.Generated.C01.stringUnescapeSet.all (fun n => Arc.Generated.C01.unescapeSet.contains n) = true := by
  decide

theorem C01_facts_bytes :
    Arc.Generated.C01.escapeByte = cBS.toNat ∧ Arc.Generated.C01.quoteByte = cDQ.toNat ∧
    Arc.Generated.C01.lineDelim = cSP.toNat ∧ Arc.Generated.C01.commaDelim = cCM.toNat ∧
    Arc.Generated.C01.kvSeparator = cEQ.toNat ∧ Arc.Generated.C01.stringQuote = cDQ.toNat ∧
    Arc.Generated.C01.intSuffix = 105 ∧ Arc.Generated.C01.uintSuffix = 117 ∧
    Arc.Generated.C01.valueSuffix = Arc.C01.valueSuffix.map (·.toNat) ∧
    Arc.Generated.C01.timeColumn = Arc.C01.timeCol.map (·.toNat) := by decide

open Arc.Generated.C01 in
/-- the model's boolean spellings are those of `parseFieldValue` -/
theorem C01_facts_bool :
    (List.range 256).all (fun n => boolOf [UInt8.ofNat n] == boolBytes.lookup n) = true ∧
    boolWords = [(4, wTrue.map (·.toNat), true), (5, wFalse.map (·.toNat), false)] := by
  decide +kernel

/-- **C01_parser_stateless.**  The model describes `ParseBatchWithPrecision` as a function of its
arguments only.  That is a faithful description of a parser instance shared by concurrently served
requests (as `LineProtocolHandler.parser` is) only if the instance has nothing to carry from one call
to another: in the CURRENT source `LineProtocolParser` has no fields and no method assigns through
its receiver.  (A reusable scratch buffer on the parser would make concurrently parsed requests
overwrite each other's unescaped names — this obligation then fails, and the harness monitor
`concurrent-parse-differs:shared-parser` produces the failing interleaving.) -/
theorem C01_parser_stateless :
    Arc.Generated.C01.parserFields = [] ∧ Arc.Generated.C01.parserReceiverWrites = [] := ⟨rfl, rfl⟩

/-- consequently every request of a set of concurrently served requests is parsed as if alone:
the result for request `i` is `parseBatch` of its own bytes, whatever the other requests are -/
theorem C01_concurrent_independent (pf : Bytes → Option UInt64) (now : Int) (pr : Prec)
    (reqs : List Bytes) (i : Nat) (h : i < reqs.length) :
    (reqs.map (parseBatch pf now pr))[i]'(by simpa using h) = parseBatch pf now pr reqs[i] := by
  simp

/-- interpretation of the generated precision table -/
def convTsGen (arms : List (String × String × Int)) (dflt : Int) (now : Int) (label : String) (raw : Int) : Int :=
  match arms.find? (fun a => a.1 == label) with
  | some (_, kind, k) =>
    if kind == "id" then raw
    else if raw ≤ Int.tdiv maxI64 k ∧ raw ≥ Int.tdiv minI64 k then raw * k else now
  | none => Int.tdiv raw dflt

def Prec.label : Prec → String | .ns => "ns" | .us => "us" | .ms => "ms" | .s => "s"

open Arc.Generated.C01 in
/-- the model's `convTs` is the `switch precision` of the current source; the handler admits exactly
the four labels -/
theorem C01_facts_precision (now raw : Int) (p : Prec) :
    convTs now p raw = convTsGen precisionArms defaultDiv now p.label raw ∧
    handlerPrecisions = [Prec.ns, .us, .ms, .s].map Prec.label := by
  refine ⟨?_, by decide⟩
  cases p <;> simp [convTs, convTsGen, precisionArms, defaultDiv, Prec.label]

/-! ## 8. non-vacuity -/

def pfOne : Bytes → Option UInt64 := fun _ => some 0x3FF8000000000000

/-- a point using every escapable character: measurement `m ,x`, tag `k ,`=`v= ,é`, fields
`f ,`="a\"\\ ,=b", `g`=1.5, `h`=-42i, `u`=7u, `b`=TRUE, timestamp -1500 -/
def pAll : Point :=
  { meas := [109, 32, 44, 120],
    tags := [([107, 32, 44], [118, 61, 32, 44, 0xC3, 0xA9])],
    fields := [([102, 32, 44], .str [97, 34, 92, 32, 44, 61, 98]), ([103], .float [49, 46, 53]),
               ([104], .int true [52, 50]), ([117], .uint [55]), ([98], .bool true 4)],
    ts := some ⟨true, [49, 53, 48, 48]⟩ }

example : WF pfOne pAll = true ∧ WFSpacing { lead := [32, 9], sp1 := 2, sp2 := 1, trail := [13] } = true := by
  decide

example : parseLine pfOne 0 .ns true (render { lead := [32, 9], sp1 := 2, sp2 := 1, trail := [13] } pAll) =
    some { meas := [109, 32, 44, 120], tags := [([107, 32, 44], [118, 61, 32, 44, 0xC3, 0xA9])],
           fields := [([102, 32, 44], .str [97, 34, 92, 32, 44, 61, 98]), ([103], .f64 0x3FF8000000000000),
                      ([104], .i64 (-42)), ([117], .u64 7), ([98], .bool true)],
           ts := -1 } :=
  C01_line_partial pfOne 0 .ns true _ pAll (by decide) (by decide)

example : Item.ok pfOne (.other [32, 35, 32, 99]) ∧ Item.ok pfOne (.other []) ∧ Item.ok pfOne (.point {} pAll) := by
  refine ⟨⟨?_, Or.inr (by decide)⟩, ⟨?_, Or.inl (by decide)⟩, by decide, by decide⟩
  · intro b hb; simp at hb; rcases hb with h | h | h | h <;> subst h <;> decide
  · intro b hb; simp at hb

example : Flat (denote pfOne 0 .ns pAll) := C01_denote_flat pfOne 0 .ns pAll (by decide)

example : allF64 [some (.f64 1), none, some (.f64 2)] := by
  intro c hc; simp at hc; rcases hc with h | h | h <;> simp [h]

end Arc.C01
