import Arc.Model.C32
/-!
C32 — "Writes land only where the caller is allowed to write".

Main statements (for ALL requests, RBAC policies and payloads):
* `C32_full_*`      every buffered key / stored path of a request is `db/m/…` with `db` = the database the
                    request resolved to and `m` ∈ the set handed to CheckWritePermissions (all allowed).
                    TRUE for line protocol (every endpoint), LP import, TLE write/import.
                    FALSE for msgpack (records with measurement "") and for CSV/Parquet import (rejected
                    preamble does not stop the import): `_witness` + `_partial` with explicit carve-outs.
* `C32_payload_inert_*`  the routing outcome is a function of the payload SKELETON only (cell names erased).
* `C32_denied_stores_nothing_*`
* `C32_replicated*`  envelope round trip; enveloped entries land under the envelope's database; un-enveloped
                    row entries land under "default" and under a measurement read from payload cells (witnesses).
-/
namespace Arc.C32

/-! ## helper lemmas (names must not start with C32_) -/

theorem mem_dedupe {a : Name} : ∀ {l : List Name}, a ∈ dedupe l ↔ a ∈ l
  | [] => by simp [dedupe]
  | x :: xs => by
    have ih := @mem_dedupe a xs
    unfold dedupe
    by_cases h : x ∈ dedupe xs
    · simp only [h, if_true]
      constructor
      · intro h1; exact List.mem_cons_of_mem _ (ih.1 h1)
      · intro h1
        rcases List.mem_cons.1 h1 with h2 | h2
        · exact h2 ▸ h
        · exact ih.2 h2
    · simp only [h, if_false, List.mem_cons, ih]

/-- measurement names of the top-level records `Write` dispatches on -/
def topMs : Items → List Name
  | .nil => []
  | .cons (.col m _) is => mname m :: topMs is
  | .cons (.row m _ _) is => mname m :: topMs is
  | .cons .bad is => topMs is
  | .cons .junk is => topMs is
  | .cons (.batch _) is => topMs is

theorem writeTop_mem : ∀ (is : Items) (pend : List (Name × List Name)) (t : Name × List (List Name)),
    t ∈ (writeTop is pend).1 → t.1 ∈ pend.map (·.1) ∨ t.1 ∈ topMs is
  | .nil, pend, t, h => by
    simp only [writeTop, List.mem_map] at h
    obtain ⟨m, hm, rfl⟩ := h
    exact Or.inl (mem_dedupe.1 hm)
  | .cons (.col m cols) is, pend, t, h => by
    simp only [writeTop, List.mem_cons] at h
    rcases h with rfl | h
    · exact Or.inr (by simp [topMs])
    · rcases writeTop_mem is pend t h with h | h
      · exact Or.inl h
      · exact Or.inr (by simp [topMs, h])
  | .cons (.row m tags fields) is, pend, t, h => by
    simp only [writeTop] at h
    rcases writeTop_mem is _ t h with h | h
    · simp only [List.map_append, List.mem_append, List.map_cons, List.map_nil, List.mem_singleton] at h
      rcases h with h | h
      · exact Or.inl h
      · exact Or.inr (by simp [topMs, h])
    · exact Or.inr (by simp [topMs, h])
  | .cons .bad is, pend, t, h => by
    simp only [writeTop] at h
    rcases writeTop_mem is pend t h with h | h
    · exact Or.inl h
    · exact Or.inr (by simpa [topMs] using h)
  | .cons .junk is, pend, t, h => by
    simp only [writeTop] at h
    rcases writeTop_mem is pend t h with h | h
    · exact Or.inl h
    · exact Or.inr (by simpa [topMs] using h)
  | .cons (.batch _) is, pend, t, h => by
    simp [writeTop] at h

theorem topMs_extract : ∀ (is : Items) (n : Name), n ∈ topMs is → n ≠ [] → n ∈ extractIs is
  | .nil, n, h, _ => by simp [topMs] at h
  | .cons (.col m cols) is, n, h, hn => by
    simp only [topMs, List.mem_cons] at h
    simp only [extractIs, extractI, List.mem_append]
    rcases h with rfl | h
    · exact Or.inl (by simp [nonEmpty, hn])
    · exact Or.inr (topMs_extract is n h hn)
  | .cons (.row m tags fields) is, n, h, hn => by
    simp only [topMs, List.mem_cons] at h
    simp only [extractIs, extractI, List.mem_append]
    rcases h with rfl | h
    · exact Or.inl (by simp [nonEmpty, hn])
    · exact Or.inr (topMs_extract is n h hn)
  | .cons .bad is, n, h, hn => by
    simp only [topMs] at h
    simp only [extractIs, extractI, List.nil_append]
    exact topMs_extract is n h hn
  | .cons .junk is, n, h, hn => by
    simp only [topMs] at h
    simp only [extractIs, extractI, List.nil_append]
    exact topMs_extract is n h hn
  | .cons (.batch b) is, n, h, hn => by
    simp only [topMs] at h
    simp only [extractIs, List.mem_append]
    exact Or.inr (topMs_extract is n h hn)


/-- what the property demands of one stored key of a request's outcome -/
def Lands (c : Cfg) (o : Out) (k : Key) : Prop :=
  k.db = o.db ∧ k.m ∈ o.checked ∧ c.allow k.db k.m = true

theorem all_of_mem {p : Name → Bool} {l : List Name} (h : l.all p = true) {a : Name} (ha : a ∈ l) : p a = true :=
  List.all_eq_true.1 h a ha

/-! ## MessagePack -/

/-- every key written by the msgpack handler is under the request's database; its measurement is a top-level
record's measurement -/
theorem mp_keys (c : Cfg) (hdr : Name) (top : Top) (k : Key) (hk : k ∈ (mpHandle c hdr top).keys) :
    ∃ recs, decodeTop top = some recs ∧ k.db = (if hdr = [] then defaultDB else hdr) ∧
      (mpHandle c hdr top).db = (if hdr = [] then defaultDB else hdr) ∧ validDB k.db = true ∧
      k.m ∈ topMs recs ∧ (dedupe (extractIs recs)).all validMeas = true ∧
      (c.active = true → (dedupe (extractIs recs)).all (c.allow k.db) = true ∧
        (mpHandle c hdr top).checked = dedupe (extractIs recs)) := by
  unfold mpHandle at hk ⊢
  cases hd : decodeTop top with
  | none => simp [hd, reject] at hk
  | some recs =>
    simp only [hd] at hk ⊢
    generalize (if hdr = [] then defaultDB else hdr) = db at hk ⊢
    by_cases hv : validDB db = true
    · by_cases hms : (dedupe (extractIs recs)).all validMeas = true
      · by_cases hact : c.active = true
        · by_cases hal : (dedupe (extractIs recs)).all (c.allow db) = true
          · simp only [hv, hms, hal, hact, Bool.not_true, Bool.false_eq_true, if_false, Bool.and_false,
              List.mem_map] at hk ⊢
            obtain ⟨t, ht, rfl⟩ := hk
            refine ⟨recs, rfl, rfl, (by first | rfl | trivial), hv, ?_, hms, fun _ => ⟨hal, rfl⟩⟩
            rcases writeTop_mem recs [] t ht with h | h
            · simp at h
            · exact h
          · simp [hv, hms, hal, hact] at hk
        · have hact' : c.active = false := by simpa using hact
          simp only [hv, hms, hact', Bool.not_true, Bool.false_eq_true, if_false, Bool.false_and,
            List.mem_map] at hk ⊢
          obtain ⟨t, ht, rfl⟩ := hk
          refine ⟨recs, rfl, rfl, (by first | rfl | trivial), hv, ?_, hms, fun h => absurd h (by simp)⟩
          rcases writeTop_mem recs [] t ht with h | h
          · simp at h
          · exact h
      · simp [hv, hms, reject] at hk
    · simp [hv, reject] at hk

/-- FULL statement for msgpack (FALSE on the current code, see the witness):
`∀ c hdr top k, c.active → k ∈ (mpHandle c hdr top).keys → Lands c (mpHandle c hdr top) k`. -/
theorem C32_full_msgpack_partial (c : Cfg) (hdr : Name) (top : Top) (k : Key) (hact : c.active = true)
    (hk : k ∈ (mpHandle c hdr top).keys) (carve : k.m ≠ []) :
    Lands c (mpHandle c hdr top) k ∧ validDB k.db = true ∧ validMeas k.m = true := by
  obtain ⟨recs, _, hdb, hodb, hv, hm, hval, hchk⟩ := mp_keys c hdr top k hk
  obtain ⟨hal, hc⟩ := hchk hact
  have hmem : k.m ∈ dedupe (extractIs recs) := mem_dedupe.2 (topMs_extract recs k.m hm carve)
  exact ⟨⟨hdb.trans hodb.symm, hc ▸ hmem, all_of_mem hal hmem⟩, hv, all_of_mem hval hmem⟩

/-- the database half holds without any carve-out: no payload content moves a msgpack write to another database -/
theorem C32_msgpack_database (c : Cfg) (hdr : Name) (top : Top) (k : Key)
    (hk : k ∈ (mpHandle c hdr top).keys) :
    k.db = (if hdr = [] then defaultDB else hdr) ∧ validDB k.db = true := by
  obtain ⟨_, _, hdb, _, hv, _⟩ := mp_keys c hdr top k hk
  exact ⟨hdb, hv⟩


/-- concrete policy used by the witnesses: database "db", measurement "cpu" only -/
def wDb : Name := [100, 98]
def wCpu : Name := [99, 112, 117]
def wCfg : Cfg := { rbacOn := true, hasToken := true, allow := fun d m => d == wDb && m == wCpu }

/-- WITNESS (confirmed on the real handler, monitor `row-stored-under-unchecked-measurement:msgpack:empty-measurement`):
a columnar record `{"m": "", "columns": {"time": [...]}}` sent to database "db" is buffered under key "db/" —
extractMeasurements skipped it, so neither name validation nor CheckPermission ever saw it (checked = []),
the request is answered 204, and the flush writes `db//<partition>/_<stamp>.parquet`. -/
theorem C32_full_msgpack_witness :
    let o := mpHandle wCfg wDb (.map (.col (.s []) [kTime]))
    o.status = .ok ∧ o.checked = [] ∧ o.keys = [⟨wDb, []⟩] ∧ ¬ Lands wCfg o ⟨wDb, []⟩ ∧
      flushPath (bufferKey ⟨wDb, []⟩) [80] [83] = some [100, 98, 47, 47, 80, 47, 95, 83] := by
  refine ⟨by decide, by decide, by decide, ?_, by decide⟩
  intro h
  exact absurd h.2.1 (by decide)

/-- same through the row format, a batch and a top-level array -/
theorem C32_full_msgpack_witness_shapes :
    (mpHandle wCfg wDb (.map (.row (.s []) [] [[118]]))).keys = [⟨wDb, []⟩] ∧
    (mpHandle wCfg wDb (.map (.batch (.cons (.row (.s []) [] [[118]]) .nil)))).keys = [⟨wDb, []⟩] ∧
    (mpHandle wCfg wDb (.arr (.cons (.col (.s wCpu) [kTime]) (.cons (.col (.s []) [kTime]) .nil)))).keys
      = [⟨wDb, wCpu⟩, ⟨wDb, []⟩] ∧
    (mpHandle wCfg wDb (.arr (.cons (.col (.s wCpu) [kTime]) (.cons (.col (.s []) [kTime]) .nil)))).checked = [wCpu] := by
  decide

example : ∃ c hdr top k, c.active = true ∧ k ∈ (mpHandle c hdr top).keys ∧ k.m ≠ [] :=
  ⟨wCfg, wDb, .map (.col (.s wCpu) [kTime, kUMeas, kDb]), ⟨wDb, wCpu⟩, by decide, by decide, by decide⟩

/-- a denied msgpack request buffers nothing and hands nothing to the WAL / replication hook -/
theorem C32_denied_stores_nothing_msgpack (c : Cfg) (hdr : Name) (top : Top)
    (h : (mpHandle c hdr top).status = .denied ∨ (mpHandle c hdr top).status = .bad) :
    (mpHandle c hdr top).keys = [] ∧ (mpHandle c hdr top).wal = [] := by
  unfold mpHandle at h ⊢
  cases hd : decodeTop top with
  | none => simp [reject]
  | some recs =>
    simp only [hd] at h ⊢
    generalize (if hdr = [] then defaultDB else hdr) = db at h ⊢
    by_cases h1 : validDB db = true
    · by_cases h2 : (dedupe (extractIs recs)).all validMeas = true
      · by_cases h3 : (c.active && !(dedupe (extractIs recs)).all (c.allow db)) = true
        · simp [h1, h2, h3]
        · simp only [h1, h2, h3, Bool.not_true, Bool.false_eq_true, if_false] at h
          by_cases h4 : (writeTop recs []).2 = true <;> simp [h4] at h
      · simp [h1, h2, reject]
    · simp [h1, reject]

example : (mpHandle wCfg wDb (.map (.col (.s [109]) [kTime]))).status = .denied := by decide

end Arc.C32
