import Arc.Model.C32
import Arc.Generated.C32
/-!
C32 — "Writes land only where the caller is allowed to write".

Main statements (for ALL requests, RBAC policies and payloads), all at full strength on the current source:
* `C32_full_*`      every buffered key / stored path of a request is `db/m/…` with `db` = the database the
                    request resolved to and `m` ∈ the set handed to CheckWritePermissions (all allowed):
                    msgpack (columnar / row / batch / array), line protocol (every endpoint), LP import,
                    CSV / Parquet import, TLE write / import.
* `C32_payload_inert_*`  the routing outcome is a function of the payload SKELETON only (cell names erased).
* `C32_denied_stores_nothing_*`  a request that is not answered ok buffers nothing and emits no WAL entry.
* `C32_replicated*`  envelope round trip; every key of the replicated copy is a key the writer stored
                    (`C32_replicated_full_*`): row entries are routed by the `_database`/`_measurement` the
                    writer stamps LAST on every WAL row, raw entries by the envelope.
History: before fixes 24f8156, 4889dd9, c684d79, 55fc210 three clauses failed (empty msgpack measurement,
rejected CSV/Parquet import continuing, un-enveloped WAL rows replicated under "default"); the regression
examples below pin the repaired behaviour.
-/
namespace Arc.C32

/-! ## helper lemmas (names must not start with C32_) -/

theorem mem_dedupe {a : Name} : ∀ {l : List Name}, a ∈ dedupe l ↔ a ∈ l
  | [] => by simp [dedupe]
  | x :: xs => by
    have ih := @mem_dedupe a xs
    unfold dedupe
    by_cases h : x ∈ dedupe xs
    · simp only [h, if_true]
      constructor
      · intro h1; exact List.mem_cons_of_mem _ (ih.1 h1)
      · intro h1
        rcases List.mem_cons.1 h1 with h2 | h2
        · exact h2 ▸ h
        · exact ih.2 h2
    · simp only [h, if_false, List.mem_cons, ih]

/-- measurement names of the top-level records `Write` dispatches on -/
def topMs : Items → List Name
  | .nil => []
  | .cons (.col m _) is => mname m :: topMs is
  | .cons (.row m _ _) is => mname m :: topMs is
  | .cons .bad is => topMs is
  | .cons .junk is => topMs is
  | .cons (.batch _) is => topMs is

theorem writeTop_mem : ∀ (is : Items) (pend : List (Name × List Name)) (t : Name × List (List Name)),
    t ∈ (writeTop is pend).1 → t.1 ∈ pend.map (·.1) ∨ t.1 ∈ topMs is
  | .nil, pend, t, h => by
    simp only [writeTop, List.mem_map] at h
    obtain ⟨m, hm, rfl⟩ := h
    exact Or.inl (mem_dedupe.1 hm)
  | .cons (.col m cols) is, pend, t, h => by
    simp only [writeTop, List.mem_cons] at h
    rcases h with rfl | h
    · exact Or.inr (by simp [topMs])
    · rcases writeTop_mem is pend t h with h | h
      · exact Or.inl h
      · exact Or.inr (by simp [topMs, h])
  | .cons (.row m tags fields) is, pend, t, h => by
    simp only [writeTop] at h
    rcases writeTop_mem is _ t h with h | h
    · simp only [List.map_append, List.mem_append, List.map_cons, List.map_nil, List.mem_singleton] at h
      rcases h with h | h
      · exact Or.inl h
      · exact Or.inr (by simp [topMs, h])
    · exact Or.inr (by simp [topMs, h])
  | .cons .bad is, pend, t, h => by
    simp only [writeTop] at h
    rcases writeTop_mem is pend t h with h | h
    · exact Or.inl h
    · exact Or.inr (by simpa [topMs] using h)
  | .cons .junk is, pend, t, h => by
    simp only [writeTop] at h
    rcases writeTop_mem is pend t h with h | h
    · exact Or.inl h
    · exact Or.inr (by simpa [topMs] using h)
  | .cons (.batch _) is, pend, t, h => by
    simp [writeTop] at h

theorem topMs_extract : ∀ (is : Items) (n : Name), n ∈ topMs is → n ∈ extractIs is
  | .nil, n, h => by simp [topMs] at h
  | .cons (.col m cols) is, n, h => by
    simp only [topMs, List.mem_cons] at h
    simp only [extractIs, extractI, List.mem_append, List.mem_singleton]
    rcases h with h | h
    · exact Or.inl h
    · exact Or.inr (topMs_extract is n h)
  | .cons (.row m tags fields) is, n, h => by
    simp only [topMs, List.mem_cons] at h
    simp only [extractIs, extractI, List.mem_append, List.mem_singleton]
    rcases h with h | h
    · exact Or.inl h
    · exact Or.inr (topMs_extract is n h)
  | .cons .bad is, n, h => by
    simp only [topMs] at h
    simp only [extractIs, extractI, List.nil_append]
    exact topMs_extract is n h
  | .cons .junk is, n, h => by
    simp only [topMs] at h
    simp only [extractIs, extractI, List.nil_append]
    exact topMs_extract is n h
  | .cons (.batch b) is, n, h => by
    simp only [topMs] at h
    simp only [extractIs, List.mem_append]
    exact Or.inr (topMs_extract is n h)

/-- what the property demands of one stored key of a request's outcome -/
def Lands (c : Cfg) (o : Out) (k : Key) : Prop :=
  k.db = o.db ∧ k.m ∈ o.checked ∧ c.allow k.db k.m = true

theorem all_of_mem {p : Name → Bool} {l : List Name} (h : l.all p = true) {a : Name} (ha : a ∈ l) : p a = true :=
  List.all_eq_true.1 h a ha

/-! ## MessagePack -/

/-- every key written by the msgpack handler is under the request's database; its measurement is a top-level
record's measurement -/
theorem mp_keys (c : Cfg) (hdr : Name) (top : Top) (k : Key) (hk : k ∈ (mpHandle c hdr top).keys) :
    ∃ recs, decodeTop top = some recs ∧ k.db = (if hdr = [] then defaultDB else hdr) ∧
      (mpHandle c hdr top).db = (if hdr = [] then defaultDB else hdr) ∧ validDB k.db = true ∧
      k.m ∈ topMs recs ∧ (dedupe (extractIs recs)).all validMeas = true ∧
      (c.active = true → (dedupe (extractIs recs)).all (c.allow k.db) = true ∧
        (mpHandle c hdr top).checked = dedupe (extractIs recs)) := by
  unfold mpHandle at hk ⊢
  cases hd : decodeTop top with
  | none => simp [hd, reject] at hk
  | some recs =>
    simp only [hd] at hk ⊢
    generalize (if hdr = [] then defaultDB else hdr) = db at hk ⊢
    by_cases hv : validDB db = true
    · by_cases hms : (dedupe (extractIs recs)).all validMeas = true
      · by_cases hact : c.active = true
        · by_cases hal : (dedupe (extractIs recs)).all (c.allow db) = true
          · simp only [hv, hms, hal, hact, Bool.not_true, Bool.false_eq_true, if_false, Bool.and_false,
              List.mem_map] at hk ⊢
            obtain ⟨t, ht, rfl⟩ := hk
            refine ⟨recs, rfl, rfl, (by first | rfl | trivial), hv, ?_, hms, fun _ => ⟨hal, rfl⟩⟩
            rcases writeTop_mem recs [] t ht with h | h
            · simp at h
            · exact h
          · simp [hv, hms, hal, hact] at hk
        · have hact' : c.active = false := by simpa using hact
          simp only [hv, hms, hact', Bool.not_true, Bool.false_eq_true, if_false, Bool.false_and,
            List.mem_map] at hk ⊢
          obtain ⟨t, ht, rfl⟩ := hk
          refine ⟨recs, rfl, rfl, (by first | rfl | trivial), hv, ?_, hms, fun h => absurd h (by simp)⟩
          rcases writeTop_mem recs [] t ht with h | h
          · simp at h
          · exact h
      · simp [hv, hms, reject] at hk
    · simp [hv, reject] at hk

/-- C32_full for msgpack (columnar, row, batch, top-level array; any nesting, any failing elements): every
buffered key is under the request's database and under a measurement that was name-validated, handed to
CheckWritePermissions and allowed. -/
theorem C32_full_msgpack (c : Cfg) (hdr : Name) (top : Top) (k : Key) (hact : c.active = true)
    (hk : k ∈ (mpHandle c hdr top).keys) :
    Lands c (mpHandle c hdr top) k ∧ validDB k.db = true ∧ validMeas k.m = true := by
  obtain ⟨recs, _, hdb, hodb, hv, hm, hval, hchk⟩ := mp_keys c hdr top k hk
  obtain ⟨hal, hc⟩ := hchk hact
  have hmem : k.m ∈ dedupe (extractIs recs) := mem_dedupe.2 (topMs_extract recs k.m hm)
  exact ⟨⟨hdb.trans hodb.symm, hc ▸ hmem, all_of_mem hal hmem⟩, hv, all_of_mem hval hmem⟩

/-- the database half, also with RBAC off: no payload content moves a msgpack write to another database -/
theorem C32_msgpack_database (c : Cfg) (hdr : Name) (top : Top) (k : Key)
    (hk : k ∈ (mpHandle c hdr top).keys) :
    k.db = (if hdr = [] then defaultDB else hdr) ∧ validDB k.db = true := by
  obtain ⟨_, _, hdb, _, hv, _⟩ := mp_keys c hdr top k hk
  exact ⟨hdb, hv⟩


/-- concrete policy used by the witnesses: database "db", measurement "cpu" only -/
def wDb : Name := [100, 98]
def wCpu : Name := [99, 112, 117]
def wCfg : Cfg := { rbacOn := true, hasToken := true, allow := fun d m => d == wDb && m == wCpu }

/-- regression (fix 4889dd9; before it these requests were buffered under key "db/" unchecked): a record
with measurement "" — columnar, row, inside a batch, inside an array next to a good record — is a 400 that
buffers nothing -/
theorem C32_empty_measurement_rejected :
    (mpHandle wCfg wDb (.map (.col (.s []) [kTime]))).status = .bad ∧
    (mpHandle wCfg wDb (.map (.row (.s []) [] [[118]]))).status = .bad ∧
    (mpHandle wCfg wDb (.map (.batch (.cons (.row (.s []) [] [[118]]) .nil)))).status = .bad ∧
    (mpHandle wCfg wDb (.arr (.cons (.col (.s wCpu) [kTime]) (.cons (.col (.s []) [kTime]) .nil)))).status = .bad ∧
    (mpHandle wCfg wDb (.arr (.cons (.col (.s wCpu) [kTime]) (.cons (.col (.s []) [kTime]) .nil)))).keys = [] := by
  decide

example : ∃ c hdr top k, c.active = true ∧ k ∈ (mpHandle c hdr top).keys :=
  ⟨wCfg, wDb, .map (.col (.s wCpu) [kTime, kUMeas, kDb]), ⟨wDb, wCpu⟩, by decide, by decide⟩

/-- a denied msgpack request buffers nothing and hands nothing to the WAL / replication hook -/
theorem C32_denied_stores_nothing_msgpack (c : Cfg) (hdr : Name) (top : Top)
    (h : (mpHandle c hdr top).status = .denied ∨ (mpHandle c hdr top).status = .bad) :
    (mpHandle c hdr top).keys = [] ∧ (mpHandle c hdr top).wal = [] := by
  unfold mpHandle at h ⊢
  cases hd : decodeTop top with
  | none => simp [reject]
  | some recs =>
    simp only [hd] at h ⊢
    generalize (if hdr = [] then defaultDB else hdr) = db at h ⊢
    by_cases h1 : validDB db = true
    · by_cases h2 : (dedupe (extractIs recs)).all validMeas = true
      · by_cases h3 : (c.active && !(dedupe (extractIs recs)).all (c.allow db)) = true
        · simp [h1, h2, h3]
        · simp only [h1, h2, h3, Bool.not_true, Bool.false_eq_true, if_false] at h
          by_cases h4 : (writeTop recs []).2 = true <;> simp [h4] at h
      · simp [h1, h2, reject]
    · simp [h1, reject]

example : (mpHandle wCfg wDb (.map (.col (.s [109]) [kTime]))).status = .denied := by decide

/-! ## line protocol -/

theorem lpCore_keys (c : Cfg) (db : Name) (fl : Bool) (recs : List (Name × List Name)) (k : Key)
    (hk : k ∈ (lpCore c db fl recs).keys) :
    k.db = db ∧ (lpCore c db fl recs).db = db ∧ validMeas k.m = true ∧
      (c.active = true → k.m ∈ (lpCore c db fl recs).checked ∧ c.allow db k.m = true) := by
  unfold lpCore at hk ⊢
  generalize dedupe (recs.map (·.1)) = ms at hk ⊢
  by_cases h0 : recs = []
  · simp [h0, reject] at hk
  · by_cases h1 : (c.active && !ms.all (c.allow db)) = true
    · simp [h0, h1] at hk
    · by_cases h2 : ms.all validMeas = true
      · simp only [h0, h1, h2, Bool.not_true, Bool.false_eq_true, if_false, List.mem_map] at hk ⊢
        obtain ⟨m, hm, rfl⟩ := hk
        refine ⟨rfl, (by first | rfl | trivial), all_of_mem h2 hm, fun hact => ?_⟩
        simp only [hact, Bool.true_and, Bool.not_eq_true', Bool.not_eq_false] at h1
        simp only [hact, if_true]
        exact ⟨hm, all_of_mem (by simpa using h1) hm⟩
      · simp [h0, h1, h2] at hk

/-- C32_full for line protocol — every endpoint (/write, /api/v2/write, /api/v1/write/line-protocol) and the LP
import: FULL strength, no carve-out. -/
theorem C32_full_lineprotocol (c : Cfg) (ep : LpEp) (hdr qdb qb qm : Name) (pts : List Point) (k : Key)
    (hact : c.active = true) (hk : k ∈ (lpHandle c ep hdr qdb qb qm pts).keys) :
    Lands c (lpHandle c ep hdr qdb qb qm pts) k ∧ lpDb ep hdr qdb qb = some k.db ∧
      validDB k.db = true ∧ validMeas k.m = true := by
  unfold lpHandle at hk ⊢
  cases hdb : lpDb ep hdr qdb qb with
  | none => simp [hdb, reject] at hk
  | some db =>
    simp only [hdb] at hk ⊢
    by_cases h1 : validDB db = true
    · by_cases h2 : (decide (ep = LpEp.imp) && decide (qm ≠ []) && !validMeas qm) = true
      · simp only [h1, h2, Bool.not_true, Bool.false_eq_true, if_true, if_false] at hk
        simp [reject] at hk
      · by_cases h3 : parsePoints pts = []
        · simp only [h1, h2, h3, Bool.not_true, Bool.false_eq_true, if_true, if_false] at hk
          simp [reject] at hk
        · simp only [h1, h2, h3, Bool.not_true, Bool.false_eq_true, if_false] at hk ⊢
          obtain ⟨hkd, hod, hvm, hchk⟩ := lpCore_keys _ _ _ _ k hk
          obtain ⟨hmem, hal⟩ := hchk hact
          exact ⟨⟨hkd.trans hod.symm, hmem, hkd ▸ hal⟩, by rw [hkd], hkd ▸ h1, hvm⟩
    · simp [h1, reject] at hk

example : ∃ c ep hdr qdb qb qm pts k, c.active = true ∧ k ∈ (lpHandle c ep hdr qdb qb qm pts).keys :=
  ⟨wCfg, .v1, [], wDb, [], [], [.p wCpu [kUMeas, kDb] [[118], kM]], ⟨wDb, wCpu⟩, by decide, by decide⟩

theorem C32_denied_stores_nothing_lineprotocol (c : Cfg) (ep : LpEp) (hdr qdb qb qm : Name) (pts : List Point)
    (h : (lpHandle c ep hdr qdb qb qm pts).status ≠ .ok) :
    (lpHandle c ep hdr qdb qb qm pts).keys = [] ∧ (lpHandle c ep hdr qdb qb qm pts).wal = [] := by
  unfold lpHandle at h ⊢
  cases hdb : lpDb ep hdr qdb qb with
  | none => simp [reject]
  | some db =>
    simp only [hdb] at h ⊢
    by_cases h1 : validDB db = true
    · by_cases h2 : (decide (ep = LpEp.imp) && decide (qm ≠ []) && !validMeas qm) = true
      · simp only [h1, h2, Bool.not_true, Bool.false_eq_true, if_true, if_false]
        simp [reject]
      · by_cases h3 : parsePoints pts = []
        · simp only [h1, h2, h3, Bool.not_true, Bool.false_eq_true, if_true, if_false]
          simp [reject]
        · simp only [h1, h2, h3, Bool.not_true, Bool.false_eq_true, if_false] at h ⊢
          unfold lpCore at h ⊢
          generalize (if (decide (ep = LpEp.imp) && decide (qm ≠ [])) = true then _ else _) = recs at h ⊢
          by_cases g0 : recs = []
          · simp [g0, reject]
          · by_cases g1 : (c.active && !(dedupe (recs.map (·.1))).all (c.allow db)) = true
            · simp [g0, g1]
            · by_cases g2 : (dedupe (recs.map (·.1))).all validMeas = true
              · simp [g0, g1, g2] at h
              · simp [g0, g1, g2]
    · simp [h1, reject]
/-! ## TLE write / TLE import -/
theorem C32_full_tle (c : Cfg) (ep : OneEp) (hep : ep = .tle ∨ ep = .itle) (hdr qdb mp : Name) (fok : Bool)
    (cols : List Name) (k : Key) (hact : c.active = true) (hk : k ∈ (oneHandle c ep hdr qdb mp fok cols).keys) :
    Lands c (oneHandle c ep hdr qdb mp fok cols) k ∧ oneDb ep hdr qdb = some k.db ∧
      validDB k.db = true ∧ validMeas k.m = true ∧ k.m = (if mp = [] then satelliteTle else mp) := by
  have hne : (decide (ep = OneEp.csv) || decide (ep = OneEp.parquet)) = false := by
    rcases hep with rfl | rfl <;> decide
  unfold oneHandle at hk ⊢
  simp only [hne, Bool.false_eq_true, if_false] at hk ⊢
  cases hdb : oneDb ep hdr qdb with
  | none => simp [hdb, reject] at hk
  | some db =>
    simp only [hdb] at hk ⊢
    generalize (if mp = [] then satelliteTle else mp) = m at hk ⊢
    by_cases h1 : validDB db = true
    · by_cases h2 : validMeas m = true
      · by_cases h3 : fok = true
        · by_cases h4 : c.allow db m = true
          · simp only [h1, h2, h3, h4, hact, Bool.not_true, Bool.false_eq_true, if_false, Bool.and_false,
              List.mem_singleton, if_true] at hk ⊢
            subst hk
            exact ⟨⟨rfl, by simp, h4⟩, rfl, h1, h2, rfl⟩
          · simp [h1, h2, h3, h4, hact] at hk
        · simp [h1, h2, h3, reject] at hk
      · simp [h1, h2, reject] at hk
    · simp [h1, reject] at hk

example : (oneHandle wCfg .tle wDb [] wCpu true []).keys = [⟨wDb, wCpu⟩] := by decide

/-! ## CSV / Parquet import -/
theorem importPreamble_ok (c : Cfg) (hdr qdb mp : Name) (h : (importPreamble c hdr qdb mp).status = .ok) :
    (importPreamble c hdr qdb mp).db = (if hdr = [] then qdb else hdr) ∧ (importPreamble c hdr qdb mp).m = mp ∧
      validDB (if hdr = [] then qdb else hdr) = true ∧ validMeas mp = true ∧
      (c.active = true → (importPreamble c hdr qdb mp).checked = [mp] ∧ c.allow (if hdr = [] then qdb else hdr) mp = true) := by
  unfold importPreamble at h ⊢
  generalize (if hdr = [] then qdb else hdr) = d at h ⊢
  by_cases h0 : d = []
  · simp [h0] at h
  · by_cases h1 : validDB d = true
    · by_cases h2 : mp = []
      · simp [h0, h1, h2] at h
      · by_cases h3 : validMeas mp = true
        · by_cases h4 : (c.active && !c.allow d mp) = true
          · simp [h0, h1, h2, h3, h4] at h
          · simp only [h0, h1, h2, h3, h4, Bool.not_true, Bool.false_eq_true, if_false]
            refine ⟨(by first | rfl | trivial), (by first | rfl | trivial), (by first | rfl | trivial), (by first | rfl | trivial), fun hact => ?_⟩
            simp only [hact, Bool.true_and, Bool.not_eq_true', Bool.not_eq_false] at h4
            simp [hact, h4]
        · simp [h0, h1, h2, h3] at h
    · simp [h0, h1] at h

/-- C32_full for CSV / Parquet import -/
theorem C32_full_import (c : Cfg) (hdr qdb mp : Name) (fok : Bool) (cols : List Name) (k : Key)
    (hact : c.active = true) (hk : k ∈ (importCore c hdr qdb mp fok cols).keys) :
    Lands c (importCore c hdr qdb mp fok cols) k ∧ validDB k.db = true ∧ validMeas k.m = true := by
  by_cases carve : (importPreamble c hdr qdb mp).status = .ok
  · obtain ⟨hd, hm, hv, hvm, hchk⟩ := importPreamble_ok c hdr qdb mp carve
    obtain ⟨hc, hal⟩ := hchk hact
    unfold importCore at hk ⊢
    by_cases hf : fok = true
    · simp only [carve, ne_eq, not_true_eq_false, if_false, hf, Bool.not_true, Bool.false_eq_true,
        List.mem_singleton] at hk ⊢
      subst hk
      simp only [hd, hm, hc]
      exact ⟨⟨rfl, by simp, hal⟩, hv, hvm⟩
    · simp [carve, hf] at hk
  · simp [importCore, carve] at hk

/-- regression (fix 24f8156; before it the import continued under ""/""): a denied import (403) and an import
naming no database (400) store nothing -/
theorem C32_rejected_import_stops :
    (importCore wCfg [120, 120] [] wCpu true [[118]]).status = .denied ∧
    (importCore wCfg [120, 120] [] wCpu true [[118]]).keys = [] ∧
    (importCore wCfg [] [] wCpu true [[118]]).status = .bad ∧ (importCore wCfg [] [] wCpu true [[118]]).keys = [] := by
  decide

/-- a TLE request that is not answered ok stores nothing -/
theorem C32_denied_stores_nothing_tle (c : Cfg) (ep : OneEp) (hep : ep = .tle ∨ ep = .itle) (hdr qdb mp : Name)
    (fok : Bool) (cols : List Name) (h : (oneHandle c ep hdr qdb mp fok cols).status ≠ .ok) :
    (oneHandle c ep hdr qdb mp fok cols).keys = [] ∧ (oneHandle c ep hdr qdb mp fok cols).wal = [] := by
  have hne : (decide (ep = OneEp.csv) || decide (ep = OneEp.parquet)) = false := by
    rcases hep with rfl | rfl <;> decide
  unfold oneHandle at h ⊢
  simp only [hne, Bool.false_eq_true, if_false] at h ⊢
  cases hdb : oneDb ep hdr qdb with
  | none => simp [reject]
  | some db =>
    simp only [hdb] at h ⊢
    generalize (if mp = [] then satelliteTle else mp) = m at h ⊢
    by_cases h1 : validDB db = true
    · by_cases h2 : validMeas m = true
      · by_cases h3 : fok = true
        · by_cases h4 : (c.active && !c.allow db m) = true
          · simp [h1, h2, h3, h4]
          · simp [h1, h2, h3, h4] at h
        · simp [h1, h2, h3, reject]
      · simp [h1, h2, reject]
    · simp [h1, reject]

/-- a CSV/Parquet import that is not answered ok stores nothing -/
theorem C32_denied_stores_nothing_import (c : Cfg) (hdr qdb mp : Name) (fok : Bool) (cols : List Name)
    (h : (importCore c hdr qdb mp fok cols).status ≠ .ok) :
    (importCore c hdr qdb mp fok cols).keys = [] ∧ (importCore c hdr qdb mp fok cols).wal = [] := by
  unfold importCore at h ⊢
  by_cases h1 : (importPreamble c hdr qdb mp).status = .ok
  · by_cases hf : fok = true
    · simp [h1, hf] at h
    · simp [h1, hf]
  · simp [h1]

/-! ## payload inertness (live path) -/

/-- the routing-relevant projection of an outcome -/
structure Route where
  status : Status
  db : Name
  checked : List Name
  keys : List Key
  flushed : Bool
deriving DecidableEq

def Out.route (o : Out) : Route := ⟨o.status, o.db, o.checked, o.keys, o.flushed⟩

mutual
  /-- the payload skeleton: every column / tag / field NAME (hence every cell) erased -/
  def eraseI : Item → Item
    | .col m _ => .col m []
    | .row m _ _ => .row m [] []
    | .bad => .bad
    | .junk => .junk
    | .batch is => .batch (eraseIs is)
  def eraseIs : Items → Items
    | .nil => .nil
    | .cons i is => .cons (eraseI i) (eraseIs is)
end

def eraseTop : Top → Top
  | .empty => .empty
  | .scalar => .scalar
  | .map i => .map (eraseI i)
  | .arr is => .arr (eraseIs is)

mutual
  theorem extractI_erase : ∀ i, extractI (eraseI i) = extractI i
    | .col _ _ => rfl
    | .row _ _ _ => rfl
    | .bad => rfl
    | .junk => rfl
    | .batch is => by simp only [eraseI, extractI]; exact extractIs_erase is
  theorem extractIs_erase : ∀ is, extractIs (eraseIs is) = extractIs is
    | .nil => rfl
    | .cons i is => by simp only [eraseIs, extractIs, extractI_erase i, extractIs_erase is]
end

theorem writeTop_erase : ∀ (is : Items) (p q : List (Name × List Name)), p.map (·.1) = q.map (·.1) →
    ((writeTop (eraseIs is) p).1.map (·.1) = (writeTop is q).1.map (·.1)) ∧
      (writeTop (eraseIs is) p).2 = (writeTop is q).2
  | .nil, p, q, h => by simp [eraseIs, writeTop, h, Function.comp_def]
  | .cons (.col m cols) is, p, q, h => by
    have ih := writeTop_erase is p q h
    simp [eraseIs, eraseI, writeTop, ih.1, ih.2]
  | .cons (.row m t f) is, p, q, h => by
    have ih := writeTop_erase is (p ++ [(mname m, [] ++ [])]) (q ++ [(mname m, t ++ f)]) (by simp [h])
    simpa [eraseIs, eraseI, writeTop] using ih
  | .cons .bad is, p, q, h => by simpa [eraseIs, eraseI, writeTop] using writeTop_erase is p q h
  | .cons .junk is, p, q, h => by simpa [eraseIs, eraseI, writeTop] using writeTop_erase is p q h
  | .cons (.batch b) is, p, q, h => by simp [eraseIs, eraseI, writeTop]

theorem decodeTop_erase (top : Top) : decodeTop (eraseTop top) = (decodeTop top).map eraseIs := by
  cases top with
  | empty => rfl
  | scalar => rfl
  | arr is => rfl
  | map i => cases i <;> rfl

/-- C32_payload_inert (msgpack): status, database, permission-checked set, buffer keys depend on the payload only
through its skeleton — no column, tag or field (whatever its NAME: database, _database, measurement,
_measurement, m, …, and whatever its value) takes part in routing. -/
theorem C32_payload_inert_msgpack (c : Cfg) (hdr : Name) (top : Top) :
    (mpHandle c hdr (eraseTop top)).route = (mpHandle c hdr top).route := by
  unfold mpHandle
  rw [decodeTop_erase]
  cases hd : decodeTop top with
  | none => rfl
  | some recs =>
    simp only [Option.map_some, extractIs_erase]
    generalize (if hdr = [] then defaultDB else hdr) = db
    by_cases h1 : validDB db = true
    · by_cases h2 : (dedupe (extractIs recs)).all validMeas = true
      · by_cases h3 : (c.active && !(dedupe (extractIs recs)).all (c.allow db)) = true
        · simp [h1, h2, h3, Out.route]
        · have hw := writeTop_erase recs [] [] rfl
          simp only [h1, h2, h3, Bool.not_true, Bool.false_eq_true, if_false, Out.route, hw.2]
          have : List.map (fun t : Name × List (List Name) => (⟨db, t.1⟩ : Key)) (writeTop (eraseIs recs) []).1 =
              List.map (fun t : Name × List (List Name) => (⟨db, t.1⟩ : Key)) (writeTop recs []).1 := by
            have := congrArg (List.map (fun m => (⟨db, m⟩ : Key))) hw.1
            simpa [List.map_map, Function.comp_def] using this
          rw [this]
      · simp [h1, h2, reject, Out.route]
    · simp [h1, reject, Out.route]

/-- two msgpack payloads with the same skeleton are routed identically -/
theorem C32_payload_inert (c : Cfg) (hdr : Name) (t1 t2 : Top) (h : eraseTop t1 = eraseTop t2) :
    (mpHandle c hdr t1).route = (mpHandle c hdr t2).route := by
  rw [← C32_payload_inert_msgpack c hdr t1, ← C32_payload_inert_msgpack c hdr t2, h]

example : eraseTop (.map (.col (.s wCpu) [kTime, kDb, kUDb, kMeas, kUMeas, kM])) = eraseTop (.map (.col (.s wCpu) [kTime])) := rfl

/-- line protocol: the parsed records' tag/field names never reach the routing decision — only the measurement
of each point and whether it has any field at all -/
def pointSkel : Point → Point
  | .p m _ f => .p m [] (if f = [] then [] else [[]])
  | .junk => .junk

theorem parsePoints_skel : ∀ pts : List Point,
    (parsePoints (pts.map pointSkel)).map (·.1) = (parsePoints pts).map (·.1)
  | [] => rfl
  | .junk :: ps => by simpa [pointSkel, parsePoints] using parsePoints_skel ps
  | .p m t f :: ps => by
    have ih := parsePoints_skel ps
    by_cases hm : m = [] <;> by_cases hf : f = [] <;> simp [pointSkel, parsePoints, hm, hf, ih]

/-- the single-target endpoints (CSV / Parquet / TLE): the file's column names decide at most whether the file is
ACCEPTED (a name starting with '_' is refused by validateImportHeader); they are not an argument of the routing -/
theorem C32_payload_inert_single (c : Cfg) (ep : OneEp) (hdr qdb mp : Name) (fok : Bool) (cols1 cols2 : List Name)
    (hacc : underscoreCol cols1 = underscoreCol cols2) :
    (oneHandle c ep hdr qdb mp fok cols1).route = (oneHandle c ep hdr qdb mp fok cols2).route := by
  unfold oneHandle importOne importCore
  rw [hacc]
  generalize (fok && !underscoreCol cols2) = fok'
  by_cases he : (decide (ep = OneEp.csv) || decide (ep = OneEp.parquet)) = true
  · simp only [he, if_true]
    by_cases hf : fok' = true <;> by_cases hp : (importPreamble c hdr qdb mp).status = .ok <;>
      simp [hf, hp, Out.route]
  · simp only [he, Bool.false_eq_true, if_false]
    cases oneDb ep hdr qdb with
    | none => rfl
    | some db =>
      simp only []
      generalize (if mp = [] then satelliteTle else mp) = m
      by_cases h1 : validDB db = true <;> by_cases h2 : validMeas m = true <;> by_cases h3 : fok = true <;>
        by_cases h4 : (c.active && !c.allow db m) = true <;> simp [h1, h2, h3, h4, reject, Out.route]

/-- … and whatever the column names (accepted or refused), two files sent with the same request can only be stored
under the same key: no column name moves rows elsewhere -/
theorem C32_payload_no_redirect_single (c : Cfg) (ep : OneEp) (hdr qdb mp : Name) (f1 f2 : Bool)
    (cols1 cols2 : List Name) (k1 k2 : Key) (h1 : k1 ∈ (oneHandle c ep hdr qdb mp f1 cols1).keys)
    (h2 : k2 ∈ (oneHandle c ep hdr qdb mp f2 cols2).keys) : k1 = k2 := by
  unfold oneHandle importOne importCore at h1 h2
  generalize (f1 && !underscoreCol cols1) = g1 at h1
  generalize (f2 && !underscoreCol cols2) = g2 at h2
  by_cases he : (decide (ep = OneEp.csv) || decide (ep = OneEp.parquet)) = true
  · simp only [he, if_true] at h1 h2
    by_cases hp : (importPreamble c hdr qdb mp).status = .ok
    · by_cases hg1 : g1 = true <;> by_cases hg2 : g2 = true <;> simp_all
    · simp [hp] at h1
  · simp only [he, Bool.false_eq_true, if_false] at h1 h2
    cases hdb : oneDb ep hdr qdb with
    | none => simp [hdb, reject] at h1
    | some db =>
      simp only [hdb] at h1 h2
      generalize (if mp = [] then satelliteTle else mp) = m at h1 h2
      by_cases a1 : validDB db = true <;> by_cases a2 : validMeas m = true <;>
        by_cases a4 : (c.active && !c.allow db m) = true <;> by_cases b1 : f1 = true <;> by_cases b2 : f2 = true <;>
        simp_all [reject]

example : underscoreCol [kUMeas, [118]] = true ∧ underscoreCol [kMeas, kDb, [118]] = false ∧
    (importOne wCfg wDb [] wCpu true [kUMeas, [118]]).status = .bad ∧
    (importOne wCfg wDb [] wCpu true [kUMeas, [118]]).keys = [] := by decide

theorem filter_fst_congr (q : Name) : ∀ (l1 l2 : List (Name × List Name)), l1.map (·.1) = l2.map (·.1) →
    (l1.filter (·.1 = q)).map (·.1) = (l2.filter (·.1 = q)).map (·.1)
  | [], [], _ => rfl
  | [], _ :: _, h => by simp at h
  | _ :: _, [], h => by simp at h
  | a :: l1, b :: l2, h => by
    simp only [List.map_cons, List.cons.injEq] at h
    have ih := filter_fst_congr q l1 l2 h.2
    by_cases ha : a.1 = q
    · have hb : b.1 = q := h.1 ▸ ha
      simp [ha, hb, ih]
    · have hb : ¬ b.1 = q := h.1 ▸ ha
      simp [ha, hb, ih]

theorem lpCore_route_congr (c : Cfg) (db : Name) (fl : Bool) (r1 r2 : List (Name × List Name))
    (h : r1.map (·.1) = r2.map (·.1)) : (lpCore c db fl r1).route = (lpCore c db fl r2).route := by
  have he : (r1 = []) ↔ (r2 = []) := by
    constructor
    · intro h1; subst h1; simpa using h.symm
    · intro h2; subst h2; simpa using h
  unfold lpCore
  rw [h]
  by_cases h0 : r2 = []
  · simp [h0, he.2 h0, reject, Out.route]
  · have h0' : ¬ r1 = [] := fun x => h0 (he.1 x)
    generalize dedupe (r2.map (·.1)) = ms
    by_cases h1 : (c.active && !ms.all (c.allow db)) = true <;> by_cases h2 : ms.all validMeas = true <;>
      simp [h0, h0', h1, h2, Out.route]

/-- C32_payload_inert (line protocol, every endpoint and the LP import): tag and field names (and values) of
the points are not an input of the routing -/
theorem C32_payload_inert_lineprotocol (c : Cfg) (ep : LpEp) (hdr qdb qb qm : Name) (pts : List Point) :
    (lpHandle c ep hdr qdb qb qm (pts.map pointSkel)).route = (lpHandle c ep hdr qdb qb qm pts).route := by
  have hp := parsePoints_skel pts
  have he : (parsePoints (pts.map pointSkel) = []) ↔ (parsePoints pts = []) := by
    constructor
    · intro h1; rw [h1] at hp; simpa using hp.symm
    · intro h2; rw [h2] at hp; simpa using hp
  unfold lpHandle
  cases lpDb ep hdr qdb qb with
  | none => rfl
  | some db =>
    simp only []
    by_cases h1 : validDB db = true
    · by_cases h2 : (decide (ep = LpEp.imp) && decide (qm ≠ []) && !validMeas qm) = true
      · simp only [h1, h2, Bool.not_true, Bool.false_eq_true, if_true, if_false]
      · by_cases h3 : parsePoints pts = []
        · simp only [h1, h2, h3, he.2 h3, Bool.not_true, Bool.false_eq_true, if_true, if_false]
        · have h3' : ¬ parsePoints (pts.map pointSkel) = [] := fun x => h3 (he.1 x)
          simp only [h1, h2, h3, h3', Bool.not_true, Bool.false_eq_true, if_false]
          apply lpCore_route_congr
          by_cases h4 : (decide (ep = LpEp.imp) && decide (qm ≠ [])) = true
          · simp only [h4, if_true]
            exact filter_fst_congr qm _ _ hp
          · simp only [h4, Bool.false_eq_true, if_false]
            exact hp
    · simp only [h1, Bool.not_false, if_true]

example : pointSkel (.p wCpu [kDb, kUMeas] [kM, [118]]) = pointSkel (.p wCpu [] [[118]]) := rfl
/-! ## buffer key → flush → storage path -/

theorem splitKey_bufferKey : ∀ (db m : Name), slash ∉ db → splitKey (db ++ slash :: m) = (db, some m)
  | [], m, _ => by simp [splitKey]
  | c :: cs, m, h => by
    have hc : c ≠ slash := fun e => h (by simp [e])
    have ht : slash ∉ cs := fun e => h (List.mem_cons_of_mem _ e)
    simp [splitKey, hc, splitKey_bufferKey cs m ht]

theorem isNameChar_ne_slash (c : UInt8) (h : isNameChar c = true) : c ≠ slash := by
  intro e; subst e; revert h; decide

theorem validName_no_slash (n : Nat) : ∀ s : Name, validName n s = true → slash ∉ s
  | [], h => by simp [validName] at h
  | c :: cs, h => by
    simp only [validName, Bool.and_eq_true, List.all_eq_true, decide_eq_true_eq] at h
    intro hm
    rcases List.mem_cons.1 hm with e | e
    · have : isNameChar c = true := by simp [isNameChar, h.1.1]
      exact isNameChar_ne_slash c this e.symm
    · exact isNameChar_ne_slash _ (h.1.2 _ e) rfl

/-- the flush of a buffer key written for (db, m) produces exactly generateStoragePath(db, m, …) whenever the
database contains no '/': FlushAll's split at the first slash is the inverse of the key concatenation -/
theorem C32_flush_path (k : Key) (part stamp : Name) (h : slash ∉ k.db) :
    flushPath (bufferKey k) part stamp = some (storagePath k.db k.m part stamp) := by
  simp [flushPath, bufferKey, splitKey_bufferKey k.db k.m h]

/-- C32_full at the storage level, line protocol: every file a request makes the flush write is
`db/m/<partition>/m_<stamp>` with db = the request's database (slash-free) and m permission-checked -/
theorem C32_full_lineprotocol_paths (c : Cfg) (ep : LpEp) (hdr qdb qb qm : Name) (pts : List Point) (k : Key)
    (part stamp : Name) (hact : c.active = true) (hk : k ∈ (lpHandle c ep hdr qdb qb qm pts).keys) :
    flushPath (bufferKey k) part stamp =
        some (storagePath (lpHandle c ep hdr qdb qb qm pts).db k.m part stamp) ∧
      k.m ∈ (lpHandle c ep hdr qdb qb qm pts).checked ∧ slash ∉ k.m := by
  obtain ⟨hl, _, hv, hvm⟩ := C32_full_lineprotocol c ep hdr qdb qb qm pts k hact hk
  refine ⟨?_, hl.2.1, validName_no_slash _ _ hvm⟩
  rw [← hl.1]
  exact C32_flush_path k part stamp (validName_no_slash _ _ hv)

theorem C32_full_msgpack_paths (c : Cfg) (hdr : Name) (top : Top) (k : Key) (part stamp : Name)
    (hact : c.active = true) (hk : k ∈ (mpHandle c hdr top).keys) :
    flushPath (bufferKey k) part stamp = some (storagePath (mpHandle c hdr top).db k.m part stamp) ∧
      k.m ∈ (mpHandle c hdr top).checked ∧ slash ∉ k.m := by
  obtain ⟨hl, hv, hvm⟩ := C32_full_msgpack c hdr top k hact hk
  refine ⟨?_, hl.2.1, validName_no_slash _ _ hvm⟩
  rw [← hl.1]
  exact C32_flush_path k part stamp (validName_no_slash _ _ hv)

example : flushPath (bufferKey ⟨wDb, wCpu⟩) [80] [83] = some [100, 98, 47, 99, 112, 117, 47, 80, 47, 99, 112, 117, 95, 83] := by
  decide

/-! ## replication -/

theorem C32_envelope_roundtrip (db : Name) (inner : List UInt8) (hlen : db.length < 65536) (hin : db ++ inner ≠ []) :
    parseEnvelope (envelope db inner) = (db, inner) := by
  have h1 : (UInt8.ofNat (db.length / 256)).toNat = db.length / 256 := by
    simp; omega
  have h2 : (UInt8.ofNat (db.length % 256)).toNat = db.length % 256 := by
    simp
  have h3 : db.length / 256 * 256 + db.length % 256 = db.length := by omega
  simp only [parseEnvelope, envelope, h1, h2, h3]
  simp [hin, List.take_left', List.drop_left']
  intro h; omega

theorem mem_dedupeK {a : Key} : ∀ {l : List Key}, a ∈ dedupeK l ↔ a ∈ l
  | [] => by simp [dedupeK]
  | x :: xs => by
    have ih := @mem_dedupeK a xs
    unfold dedupeK
    by_cases h : x ∈ dedupeK xs
    · simp only [h, if_true]
      constructor
      · intro h1; exact List.mem_cons_of_mem _ (ih.1 h1)
      · intro h1
        rcases List.mem_cons.1 h1 with h2 | h2
        · exact h2 ▸ h
        · exact ih.2 h2
    · simp only [h, if_false, List.mem_cons, ih]

/-- every key a row entry writes is the target of one of its rows -/
theorem applyRows_mem (db : Name) (rs : List Row) (k : Key) (hk : k ∈ applyInner db (.rows rs)) :
    ∃ r ∈ rs, rowTarget db r = some k := by
  simp only [applyInner, List.mem_filter] at hk
  have := mem_dedupeK.1 hk.1
  simpa [List.mem_filterMap] using this

/-- C32_replicated: every key a replicated entry writes is under the database the entry names — the one
ParseEnvelope extracted (the envelope's, else "default") or, for a row entry, the non-empty `_database` string
of one of its rows together with that row's `_measurement`.  Cells named `database`, `measurement`, `m` play no
part. -/
theorem C32_replicated (db : Name) (i : Inner) (k : Key) (hk : k ∈ applyInner db i) :
    k.db = db ∨ ∃ rs, i = .rows rs ∧ ∃ r ∈ rs, rowStr r kUDb = k.db ∧ k.db ≠ [] ∧ rowStr r kUMeas = k.m := by
  cases i with
  | colmap m n =>
    cases m with
    | none => simp [applyInner] at hk
    | some m =>
      by_cases h : (decide (m ≠ []) && decide (n ≠ 0)) = true
      · simp only [applyInner, h, if_true, List.mem_singleton] at hk; exact Or.inl (by rw [hk])
      · simp only [applyInner, h, Bool.false_eq_true, if_false, List.not_mem_nil] at hk
  | rows rs =>
    obtain ⟨r, hr, ht⟩ := applyRows_mem db rs k hk
    unfold rowTarget at ht
    by_cases h1 : rowStr r kUMeas = []
    · simp [h1] at ht
    · by_cases h2 : rowStr r kUDb = []
      · simp only [h1, h2, if_false, if_true, Option.some.injEq] at ht
        exact Or.inl (by rw [← ht])
      · simp only [h1, h2, if_false, Option.some.injEq] at ht
        refine Or.inr ⟨rs, rfl, r, hr, ?_, ?_, ?_⟩ <;> simp [← ht, h2]
  | garbage => simp [applyInner] at hk

/-- an enveloped (raw columnar) WAL entry is applied under the WRITER's database and the record's own measurement -/
theorem C32_replicated_enveloped (db : Name) (m : Option Name) (n : Nat) (k : Key)
    (hk : k ∈ applyWal (.raw db m n)) : k.db = db ∧ m = some k.m ∧ k.m ≠ [] := by
  cases m with
  | none => simp [applyWal, applyInner] at hk
  | some m =>
    by_cases h : (decide (m ≠ []) && decide (n ≠ 0)) = true
    · simp only [applyWal, applyInner, h, if_true, List.mem_singleton] at hk
      subst hk
      simp at h
      exact ⟨rfl, rfl, h.1⟩
    · simp only [applyWal, applyInner, h, Bool.false_eq_true, if_false, List.not_mem_nil] at hk

theorem kUMeas_ne_kUDb : kUMeas ≠ kUDb := by decide

/-- the routing entries the writer stamps on a WAL row win over any column of the same name -/
theorem walRow_target (dflt db m : Name) (cols row : List Name) (hdb : db ≠ []) :
    rowTarget dflt (walRow db m cols row) = if m = [] then none else some ⟨db, m⟩ := by
  have h1 : rowStr (walRow db m cols row) kUMeas = m := by simp [walRow, rowStr]
  have h2 : rowStr (walRow db m cols row) kUDb = db := by
    simp [walRow, rowStr, List.find?, kUMeas_ne_kUDb]
  simp [rowTarget, h1, h2, hdb]

/-- a plain-rows WAL entry written for (db, m) is applied by the reader under (db, m) and nowhere else -/
theorem walRows_apply (db m : Name) (rows : List (List Name)) (hdb : db ≠ []) (k : Key)
    (hk : k ∈ applyWal (walRows db m rows)) : k = ⟨db, m⟩ := by
  simp only [applyWal, walRows] at hk
  obtain ⟨r, hr, ht⟩ := applyRows_mem _ _ k hk
  obtain ⟨row, _, rfl⟩ := List.mem_map.1 hr
  rw [walRow_target _ db m _ row hdb] at ht
  by_cases hm : m = []
  · simp [hm] at ht
  · simp only [hm, if_false, Option.some.injEq] at ht
    exact ht.symm

theorem validDB_ne_nil {db : Name} (h : validDB db = true) : db ≠ [] := by
  intro e; subst e; simp [validDB, validName] at h

theorem mpWal_apply (db : Name) (hdb : db ≠ []) (top : Top) (recs : Items) (hd : decodeTop top = some recs)
    (t : Name × List (List Name)) (ht : t ∈ (writeTop recs []).1) (k : Key)
    (hk : k ∈ applyWal (mpWal db top t)) : k = ⟨db, t.1⟩ := by
  cases top with
  | empty => simp [decodeTop] at hd
  | scalar => simp [decodeTop] at hd
  | arr is => exact walRows_apply db t.1 t.2 hdb k (by simpa [mpWal] using hk)
  | map i =>
    cases i with
    | col m cols =>
      simp only [decodeTop, Option.some.injEq] at hd
      subst hd
      simp only [writeTop, dedupe, List.map_nil, List.mem_singleton] at ht
      subst ht
      simp only [mpWal] at hk
      obtain ⟨h1, h2, _⟩ := C32_replicated_enveloped db _ _ k hk
      cases m with
      | s v =>
        simp only [MVal.strOnly, Option.some.injEq] at h2
        cases k with
        | mk kd km => simp only at h1 h2; subst h1; subst h2; rfl
      | i v => simp [MVal.strOnly] at h2
    | row m tg f => exact walRows_apply db t.1 t.2 hdb k (by simpa [mpWal] using hk)
    | bad => simp [decodeTop] at hd
    | junk => simp [decodeTop] at hd
    | batch is => exact walRows_apply db t.1 t.2 hdb k (by simpa [mpWal] using hk)

/-- C32_replicated_full (msgpack): every key the reader stores for a replicated msgpack write is a key the
writer stored for it — same database, same measurement; no payload cell can redirect the copy -/
theorem C32_replicated_full_msgpack (c : Cfg) (hdr : Name) (top : Top) (k : Key)
    (hk : k ∈ replicate (mpHandle c hdr top)) : k ∈ (mpHandle c hdr top).keys := by
  unfold replicate at hk
  unfold mpHandle at hk ⊢
  cases hd : decodeTop top with
  | none => simp [hd, reject] at hk
  | some recs =>
    simp only [hd] at hk ⊢
    generalize (if hdr = [] then defaultDB else hdr) = db at hk ⊢
    by_cases h1 : validDB db = true
    · by_cases h2 : (dedupe (extractIs recs)).all validMeas = true
      · by_cases h3 : (c.active && !(dedupe (extractIs recs)).all (c.allow db)) = true
        · simp [h1, h2, h3] at hk
        · simp only [h1, h2, h3, Bool.not_true, Bool.false_eq_true, if_false, List.mem_flatMap,
            List.mem_map] at hk ⊢
          obtain ⟨e, ⟨t, ht, rfl⟩, hke⟩ := hk
          exact ⟨t, ht, (mpWal_apply db (validDB_ne_nil h1) top recs hd t ht k hke).symm⟩
      · simp [h1, h2, reject] at hk
    · simp [h1, reject] at hk

theorem lpCore_replicated (c : Cfg) (db : Name) (hdb : db ≠ []) (fl : Bool) (recs : List (Name × List Name))
    (k : Key) (hk : k ∈ replicate (lpCore c db fl recs)) : k ∈ (lpCore c db fl recs).keys := by
  unfold replicate at hk
  unfold lpCore at hk ⊢
  by_cases h0 : recs = []
  · simp [h0, reject] at hk
  · by_cases h1 : (c.active && !(dedupe (recs.map (·.1))).all (c.allow db)) = true
    · simp [h0, h1] at hk
    · by_cases h2 : (dedupe (recs.map (·.1))).all validMeas = true
      · simp only [h0, h1, h2, Bool.not_true, Bool.false_eq_true, if_false, List.mem_flatMap,
          List.mem_map] at hk ⊢
        obtain ⟨e, ⟨m, hm, rfl⟩, hke⟩ := hk
        exact ⟨m, hm, (walRows_apply db m _ hdb k hke).symm⟩
      · simp [h0, h1, h2] at hk

/-- C32_replicated_full (line protocol, every endpoint, and LP import) -/
theorem C32_replicated_full_lineprotocol (c : Cfg) (ep : LpEp) (hdr qdb qb qm : Name) (pts : List Point) (k : Key)
    (hk : k ∈ replicate (lpHandle c ep hdr qdb qb qm pts)) : k ∈ (lpHandle c ep hdr qdb qb qm pts).keys := by
  unfold lpHandle at hk ⊢
  cases hdb : lpDb ep hdr qdb qb with
  | none => simp [hdb, reject, replicate] at hk
  | some db =>
    simp only [hdb] at hk ⊢
    by_cases h1 : validDB db = true
    · by_cases h2 : (decide (ep = LpEp.imp) && decide (qm ≠ []) && !validMeas qm) = true
      · simp only [h1, h2, Bool.not_true, Bool.false_eq_true, if_true, if_false] at hk
        simp [reject, replicate] at hk
      · by_cases h3 : parsePoints pts = []
        · simp only [h1, h2, h3, Bool.not_true, Bool.false_eq_true, if_true, if_false] at hk
          simp [reject, replicate] at hk
        · simp only [h1, h2, h3, Bool.not_true, Bool.false_eq_true, if_false] at hk ⊢
          exact lpCore_replicated c db (validDB_ne_nil h1) _ _ k hk
    · simp [h1, reject, replicate] at hk

/-- C32_replicated_full (CSV / Parquet import, TLE write / import) -/
theorem C32_replicated_full_single (c : Cfg) (ep : OneEp) (hdr qdb mp : Name) (fok : Bool) (cols : List Name)
    (k : Key) (hk : k ∈ replicate (oneHandle c ep hdr qdb mp fok cols)) :
    k ∈ (oneHandle c ep hdr qdb mp fok cols).keys := by
  unfold replicate at hk
  unfold oneHandle at hk ⊢
  by_cases he : (decide (ep = OneEp.csv) || decide (ep = OneEp.parquet)) = true
  · simp only [he, if_true] at hk ⊢
    unfold importOne importCore at hk ⊢
    generalize (fok && !underscoreCol cols) = fok at hk ⊢
    by_cases h1 : (importPreamble c hdr qdb mp).status = .ok
    · by_cases hf : fok = true
      · obtain ⟨hd, _, hv, _, _⟩ := importPreamble_ok c hdr qdb mp h1
        simp only [h1, ne_eq, not_true_eq_false, if_false, hf, Bool.not_true, Bool.false_eq_true,
          List.flatMap_cons, List.flatMap_nil, List.append_nil, List.mem_singleton] at hk ⊢
        exact walRows_apply _ _ _ (hd ▸ validDB_ne_nil hv) k hk
      · simp [h1, hf] at hk
    · simp [h1] at hk
  · simp only [he, Bool.false_eq_true, if_false] at hk ⊢
    cases hdb : oneDb ep hdr qdb with
    | none => simp [hdb, reject] at hk
    | some db =>
      simp only [hdb] at hk ⊢
      generalize (if mp = [] then satelliteTle else mp) = m at hk ⊢
      by_cases h1 : validDB db = true
      · by_cases h2 : validMeas m = true
        · by_cases h3 : fok = true
          · by_cases h4 : (c.active && !c.allow db m) = true
            · simp [h1, h2, h3, h4] at hk
            · simp only [h1, h2, h3, h4, Bool.not_true, Bool.false_eq_true, if_false, List.flatMap_cons,
                List.flatMap_nil, List.append_nil, List.mem_singleton] at hk ⊢
              exact walRows_apply _ _ _ (validDB_ne_nil h1) k hk
          · simp [h1, h2, h3, reject] at hk
        · simp [h1, h2, reject] at hk
      · simp [h1, reject] at hk

/-- regression (fixes c684d79, 55fc210; before them the copies landed under default/cpu and default/evil_m):
`cpu v=1` and `cpu,_measurement=evil_m v=1` written to database "db" are replicated to db/cpu -/
theorem C32_replicated_rows_follow_writer :
    replicate (lpHandle wCfg .simple wDb [] [] [] [.p wCpu [] [[118]]]) = [⟨wDb, wCpu⟩] ∧
    replicate (lpHandle wCfg .simple wDb [] [] [] [.p wCpu [kUMeas, kUDb, kMeas, kM] [[118]]]) = [⟨wDb, wCpu⟩] := by
  decide

/-! ## tie to the current source (facts regenerated by go/factgen/cmd/c32 on every run) -/

/-- the tables and orders the model hard-wires are the ones the source has NOW: no record case of
extractMeasurements drops the empty name and lists are walked (model: `extractI`); msgpack validates names
before the permission check, line protocol after it, both before the write; the buffer key is
`database + "/" + measurement`, split at '/', path format of generateStoragePath; rowsToColumns' filter list;
the replicated-row path reads only `_measurement` (no `measurement`/`m` fallback) and `_database`;
ParseEnvelope's default; the WAL row builders assign the routing entries after copying the columns;
importPreamble's failures end the request.  Editing any of these in /repo regenerates `Arc.Generated.C32` and
this proof stops checking (by design: the model must follow). -/
theorem C32_facts_tied :
    Generated.C32.extractCases.all (fun c => !c.2) = true ∧ Generated.C32.extractCases.length = 3 ∧
    Generated.C32.extractRecursesIntoLists = true ∧
    Generated.C32.msgpackOrder = ["Decode", "isValidDatabaseName", "extractMeasurements", "isValidMeasurementName",
      "checkWritePermissions", "Write"] ∧
    Generated.C32.lpOrder = ["isValidDatabaseName", "ParseBatchWithPrecision", "checkWritePermissions",
      "isValidMeasurementName", "WriteColumnarRecord"] ∧
    Generated.C32.bufferKeyExprs = ["database+\"/\"+record.Measurement", "database+\"/\"+measurement"] ∧
    Generated.C32.splitSeparator = [slash] ∧
    Generated.C32.storagePathFormat = "%s/%s/%s/%s/%s/%s/%s_%s_%09d.parquet" ∧
    Generated.C32.routingKeys = routingKeys ∧
    Generated.C32.measurementFallback = [kUMeas] ∧
    Generated.C32.envelopeDefaultDB = defaultDB ∧
    Generated.C32.replicationUsesRowDatabase = true ∧
    Generated.C32.walRoutingKeysLast = true ∧
    Generated.C32.importPreambleSwallowsErrors = false ∧
    Generated.C32.importPreambleFailuresStop = true ∧
    -- every request-derived string that outlives the handler (it becomes a buffer key / flush-task field) is
    -- copied out of the fasthttp buffer; the only guarded copies are the else-branches of "header absent"
    Generated.C32.cloneSites.all (fun c => c.2.2 = "" || c.2.2 = "database==\"\":else" ||
      c.2.2 = "measurement==\"\":else") = true ∧
    (Generated.C32.cloneSites.map (·.1)).eraseDups.length = 6 := by
  decide

end Arc.C32
