import Arc.Model.C09
import Arc.Generated.C09
import Arc.Proofs.C09.Cycle
/-!
# C09 — compaction never loses or duplicates rows, even across crashes

Property theorems (`C09_*`). Helper lemmas live in `Arc/Proofs/C09/*` (invariant `Inv`, its
preservation by every prefix of a job's mutation program, by manifest recovery, by the adaptive
retry and by whole cycles).

What the theorems are about: the executable model `Arc.C09` (the same functions the driver runs
against the real Manager/Job), instantiated with the facts regenerated from the source
(`Arc.Generated.C09`: order of the storage mutations of `Job.Run`, branches of `recoverManifest`,
recovery-before-candidates, retry-consults-manifests, batch constants).

DuckDB is a hypothesis, never an axiom: `DedupSpec d` says the dedup query at level `L` returns a
sub-multiset of its input containing exactly one row of every (tags,time) key.

Status. The retry path was repaired in /repo (a5dca86: `CompactPartition` settles a failed job's
manifest before the batch is retried); the regenerated fact `retryConsultsManifests` is now `true`
and `C09_full` — the statement for ALL kill/crash/torn-upload positions — is the theorem in force
for the current source (a regression flips the fact and breaks `C09_full`). `C09_full_witness`
shows that the fact is necessary (the same configuration without it duplicates rows).
One clause is still FALSE of the current tree (known finding, reproduced on the real code by the
harness): partitions whose files declare DIFFERENT tag sets (or none) lose rows that differ only in
an undeclared tag — `C09_level_witness`; `FullStatement` therefore carries the explicit carve-out
`UniformLevel`.
-/
namespace Arc.C09
open Arc.Generated.C09

/-! ## the DuckDB hypothesis -/

/-- `QUALIFY ROW_NUMBER() OVER (PARTITION BY key ORDER BY time DESC) = 1` -/
def DedupSpec (d : Nat → List Row → List Row) : Prop :=
  ∀ L rows, MLe (d L rows) rows ∧ Covers L (d L rows) rows ∧ ((d L rows).map (keyAt L)).Nodup

theorem joinLevel_uniform (L a b : Nat) (ha : a = 0 ∨ a = L) (hb : b = 0 ∨ b = L) :
    joinLevel a b = 0 ∨ joinLevel a b = L := by
  rcases ha with ha | ha <;> rcases hb with hb | hb <;> rw [ha, hb]
  · left; simp [joinLevel]
  · right; simp [joinLevel]
  · by_cases h : L = 0
    · left; simp [joinLevel, h]
    · right; simp [joinLevel, h]
  · by_cases h : L = 0
    · left; simp [joinLevel, h]
    · right; simp [joinLevel, h]

theorem jobLevel_cases (cfg : Cfg) (L : Nat) (fs : List File) (h : ∀ f ∈ fs, f.level = 0 ∨ f.level = L) :
    jobLevel cfg fs = 0 ∨ jobLevel cfg fs = L := by
  have key : ∀ (fs : List File) (acc : Nat), (∀ f ∈ fs, f.level = 0 ∨ f.level = L) → (acc = 0 ∨ acc = L) →
      (fs.foldl (fun acc f => joinLevel acc f.level) acc = 0 ∨ fs.foldl (fun acc f => joinLevel acc f.level) acc = L) := by
    intro fs
    induction fs with
    | nil => intro acc _ ha; exact ha
    | cons f fs ih =>
      intro acc hf ha
      simp only [List.foldl]
      exact ih _ (fun g hg => hf g (List.mem_cons_of_mem _ hg)) (joinLevel_uniform L _ _ ha (hf f List.mem_cons_self))
  simp only [jobLevel]
  by_cases hu : cfg.tagUnion = true
  · simp only [hu, if_true]; exact key fs 0 h (Or.inl rfl)
  · simp only [hu, Bool.false_eq_true, if_false]
    cases hfind : fs.find? (fun f => decide (f.level ≥ 2)) with
    | some f => exact h f (List.mem_of_find?_eq_some hfind)
    | none =>
      simp only
      by_cases hany : fs.any (fun f => f.level == 1) = true
      · simp only [hany, if_true]
        obtain ⟨f, hf, h1⟩ := List.any_eq_true.mp hany
        have h1' : f.level = 1 := by simpa using h1
        rcases h f hf with h0 | hL
        · rw [h0] at h1'; cases h1'
        · exact Or.inr (h1'.symm.trans hL)
      · simp [hany]

theorem compactOk_coll (L : Nat) (cfg : Cfg) (hd : DedupSpec cfg.dedupFn) : CompactOk (collRel L) cfg := by
  intro fs hok
  simp only [compactRows]
  by_cases hz : (jobLevel cfg fs == 0) = true
  · simp only [hz, if_true]; exact Coll.of_meq (MEq.refl _)
  · simp only [hz, Bool.false_eq_true, if_false]
    rcases jobLevel_cases cfg L fs hok with h | h
    · simp [h] at hz
    · rw [h]; exact ⟨(hd L _).1, (hd L _).2.1⟩

theorem compactOk_meq (cfg : Cfg) : CompactOk meqRel cfg := by
  intro fs hok
  have : jobLevel cfg fs = 0 := by
    rcases jobLevel_cases cfg 0 fs (fun f hf => Or.inl (hok f hf)) with h | h <;> exact h
  simp [compactRows, this]; exact MEq.refl _

/-! ## regenerated facts the proofs consume (a source edit re-checks them) -/

/-- `Job.Run`: manifest written before the upload, inputs deleted after it, manifest deleted last. -/
theorem C09_job_order : jobSteps = canonSteps := by decide

/-- `recoverManifest`: output missing ⇒ only the manifest goes; size mismatch ⇒ output then
manifest; output valid ⇒ inputs then manifest. -/
theorem C09_recovery_branches (a b : Nat) (d : Nat → List Row → List Row) : RecCanon (genCfg a b d) :=
  ⟨rfl, rfl, rfl⟩

/-- `runCycleInternal` recovers orphaned manifests before it looks for candidates, and
`GetFilesInManifests` tracks inputs AND outputs. -/
theorem C09_cycle_facts : cycleRecoversBeforeCandidates = true ∧ filterExcludesManifestInputs = true ∧
    filterExcludesManifestOutputs = true := by decide

/-- behaviours the model hard-codes rather than interprets; if one flips in the source, this
obligation fails and the model has to be revisited: compaction outputs carry no `arc:tags` /
`arc:dedup_time` (no `KV_METADATA` in the COPY), dedup is switched on when ANY input is tagged,
the download phase skips inputs that no longer exist, recovery keeps the manifest when an input
delete fails. -/
theorem C09_model_assumptions : outputKeepsDedupMetadata = false ∧ dedupWhenAnyInputTagged = true ∧
    downloadSkipsMissing = true ∧ recKeepsManifestOnDeleteError = true ∧
    minFilesPerBatch = adaptiveMinBatch := by decide

/-! ## C09_no_early_delete -/

/-- No input is removed by a job before its rows are in a complete output: whenever the k-th
storage mutation of a job (started with no manifest pending) deletes input `p`, the state it is
applied to holds the job's manifest listing `p` and the complete output, and that output contains a
row with the (tags,time) of every row of `p`. For ALL states, input lists, k. -/
theorem C09_no_early_delete (rel : RowRel) (R0 : List Row) (a b : Nat) (d : Nat → List Row → List Row)
    (hC : CompactOk rel (genCfg a b d)) (s : St) (hs : Inv rel R0 s) (h0 : s.mans = []) (ins : List Path)
    (k : Nat) (p : Path) (hk : (jobProgram (genCfg a b d) s ins)[k]? = some (.delInput p)) :
    let t := applyMuts (bump s) ((jobProgram (genCfg a b d) s ins).take k)
    t.mans = [jobManifest s ins] ∧ p ∈ (jobManifest s ins).inputs ∧
    ∃ f, t.get (jobManifest s ins).out = some f ∧ f.complete = true ∧
      ∀ g, t.get p = some g → Covers rel.lvl f.rows g.rows := by
  have hsteps : (genCfg a b d).steps = canonSteps := C09_job_order
  rw [jobProgram_canon hsteps] at hk ⊢
  by_cases he : (validInputs s ins).isEmpty = true
  · simp [he] at hk
  · simp only [he, Bool.false_eq_true, if_false] at hk ⊢
    match k with
    | 0 => simp at hk
    | 1 => simp at hk
    | j + 2 =>
      simp only [List.getElem?_cons_succ] at hk
      have hj : j < (jobManifest s ins).inputs.length := by
        rcases Nat.lt_or_ge j (jobManifest s ins).inputs.length with hlt | hge
        · exact hlt
        exfalso
        rw [List.getElem?_append_right (by simpa using hge)] at hk
        simp only [List.length_map] at hk
        cases hx : j - (jobManifest s ins).inputs.length with
        | zero => simp [hx] at hk
        | succ n => simp [hx] at hk
      rw [List.getElem?_append_left (by simpa using hj)] at hk
      have hp : p ∈ (jobManifest s ins).inputs := by
        simp only [List.getElem?_map, Option.map_eq_some_iff] at hk
        obtain ⟨q, hq, hqe⟩ := hk
        cases hqe
        exact List.mem_of_getElem? hq
      simp only [List.take_succ_cons]
      rw [List.take_append_of_le_length (by simpa using Nat.le_of_lt hj), after_two hC hsteps s hs h0 ins,
        ← List.map_take, applyMuts_delInputs]
      have hB := (js_deleted hC s hs h0 ins ((jobManifest s ins).inputs.take j)
        (fun q hq => by simpa using List.mem_of_mem_take hq)).2
      obtain ⟨f, hlk, hc, _, hcov⟩ := hB
      refine ⟨rfl, hp, f, hlk, hc, ?_⟩
      intro g hg
      exact hcov (p, g) (mem_of_lookup hg) (by simpa using hp)

/-- Manifest recovery removes an input only while the manifest's output is complete on storage
and contains its rows (invariant states with the manifest pending; deletes succeed). -/
theorem C09_no_early_delete_recovery (rel : RowRel) (R0 : List Row) (a b : Nat) (d : Nat → List Row → List Row)
    (s : St) (m : Manifest) (hs : Inv rel R0 s) (hm : s.mans = [m])
    (k : Nat) (p : Path) (hk : (recMuts (genCfg a b d) s m [])[k]? = some (.delInput p)) :
    let t := applyMuts s ((recMuts (genCfg a b d) s m []).take k)
    p ∈ m.inputs ∧ ∃ f, t.get m.out = some f ∧ f.complete = true ∧
      ∀ g, t.get p = some g → Covers rel.lvl f.rows g.rows := by
  have hM : InvM rel R0 s.files m := by
    rcases hs.2 with ⟨h, _⟩ | ⟨m', hm', hM⟩
    · rw [hm] at h; cases h
    · rw [hm] at hm'; cases hm'; exact hM
  rw [recMuts_nofail (C09_recovery_branches a b d)] at hk ⊢
  cases hg : s.get m.out with
  | none =>
    simp only [hg] at hk
    match k with
    | 0 => simp at hk
    | k + 1 => simp at hk
  | some f =>
    by_cases hc : f.complete = true
    · simp only [hg, hc, if_true] at hk ⊢
      have hj : k < m.inputs.length := by
        rcases Nat.lt_or_ge k m.inputs.length with hlt | hge
        · exact hlt
        exfalso
        rw [List.getElem?_append_right (by simpa using hge)] at hk
        simp only [List.length_map] at hk
        cases hx : k - m.inputs.length with
        | zero => simp [hx] at hk
        | succ n => simp [hx] at hk
      rw [List.getElem?_append_left (by simpa using hj)] at hk
      have hp : p ∈ m.inputs := by
        simp only [List.getElem?_map, Option.map_eq_some_iff] at hk
        obtain ⟨q, hq, hqe⟩ := hk
        cases hqe
        exact List.mem_of_getElem? hq
      rw [List.take_append_of_le_length (by simpa using Nat.le_of_lt hj), ← List.map_take, applyMuts_delInputs]
      have hB := caseB_delKeys rel R0 hM.1 (m.inputs.take k) s.files
        (fun q hq => by simpa using List.mem_of_mem_take hq) (caseB_of_complete rel R0 hM hg hc)
      obtain ⟨f', hlk, hc', _, hcov⟩ := hB
      refine ⟨hp, f', hlk, hc', ?_⟩
      intro g hgp
      exact hcov (p, g) (mem_of_lookup hgp) (by simpa using hp)
    · have hc' : f.complete = false := by simpa using hc
      simp only [hg, hc', Bool.false_eq_true, if_false] at hk
      match k with
      | 0 => simp at hk
      | 1 => simp at hk
      | k + 2 => simp at hk

/-- Where manifests may be dropped (regenerated facts): `Job.Run`'s upload-failure branch deletes the
manifest, so `uploadFile` must fail ONLY with the error of the storage write itself (never after a
write that succeeded, e.g. a late `ctx.Err()`); and the stale-age check of `recoverManifest` only
warns — recovery does not depend on the manifest's age. -/
theorem C09_manifest_drop_sites : uploadErrorOnlyFromStorageWrite = true ∧ staleManifestWarnOnly = true := by
  decide

/-- A job deletes its manifest only in a state where the complete output is on storage and every
input the manifest lists is gone (all k, all states with no manifest pending). -/
theorem C09_manifest_deleted_last (rel : RowRel) (R0 : List Row) (a b : Nat) (d : Nat → List Row → List Row)
    (hC : CompactOk rel (genCfg a b d)) (s : St) (hs : Inv rel R0 s) (h0 : s.mans = []) (ins : List Path)
    (k mid : Nat) (hk : (jobProgram (genCfg a b d) s ins)[k]? = some (.delManifest mid)) :
    let t := applyMuts (bump s) ((jobProgram (genCfg a b d) s ins).take k)
    (∃ f, t.get (jobManifest s ins).out = some f ∧ f.complete = true) ∧
      ∀ p ∈ (jobManifest s ins).inputs, t.get p = none := by
  have hsteps : (genCfg a b d).steps = canonSteps := C09_job_order
  rw [jobProgram_canon hsteps] at hk ⊢
  by_cases he : (validInputs s ins).isEmpty = true
  · simp [he] at hk
  · simp only [he, Bool.false_eq_true, if_false] at hk ⊢
    match k with
    | 0 => simp at hk
    | 1 => simp at hk
    | j + 2 =>
      simp only [List.getElem?_cons_succ] at hk
      have hj : j = (jobManifest s ins).inputs.length := by
        rcases Nat.lt_trichotomy j (jobManifest s ins).inputs.length with hlt | heq | hgt
        · exfalso
          rw [List.getElem?_append_left (by simpa using hlt)] at hk
          simp only [List.getElem?_map, Option.map_eq_some_iff] at hk
          obtain ⟨q, _, hqe⟩ := hk
          cases hqe
        · exact heq
        · exfalso
          rw [List.getElem?_append_right (by simpa using Nat.le_of_lt hgt)] at hk
          simp only [List.length_map] at hk
          cases hx : j - (jobManifest s ins).inputs.length with
          | zero => omega
          | succ n => simp [hx] at hk
      simp only [List.take_succ_cons]
      rw [List.take_append_of_le_length (by simp [hj]), after_two hC hsteps s hs h0 ins,
        List.take_of_length_le (by simp [hj]), applyMuts_delInputs]
      have hB := (js_deleted hC s hs h0 ins (jobManifest s ins).inputs (fun q hq => by simpa using hq)).2
      obtain ⟨f, hlk, hc, _, _⟩ := hB
      refine ⟨⟨f, hlk, hc⟩, ?_⟩
      intro p hp
      apply lookup_none_of_not_mem
      intro hm
      obtain ⟨g, hg⟩ := mem_keysOf.mp hm
      exact (mem_delKeys.mp hg).2 hp

/-! ## C09_full -/

/-- a partition as found: distinct input paths below `outBase`, all files complete -/
structure InitOk (fs : Files) : Prop where
  nodup : (keysOf fs).Nodup
  small : ∀ p ∈ keysOf fs, p < outBase
  complete : ∀ x ∈ fs, x.2.complete = true

/-- all files that carry dedup metadata declare the same tag set (level `L`) -/
def UniformLevel (L : Nat) (fs : Files) : Prop := ∀ x ∈ fs, x.2.level = 0 ∨ x.2.level = L

/-- The property at full strength, for a configuration `cfg`: for every partition, every history
of cycles with arbitrary kill/crash/torn-upload faults, after one more (fault-free) cycle no
manifest is pending, the visible rows are a collapse of the original rows at the partition's dedup
level (nothing new, nothing more often, every (tags,time) still there) and — when no file carries
dedup metadata — exactly the original multiset. -/
def FullStatement (cfg : Cfg) : Prop :=
  ∀ (fs : Files) (L : Nat) (plans : List (List Fault)), InitOk fs → UniformLevel L fs →
    let s' := (cycle cfg [] [] (runCycles cfg plans (initSt fs))).st
    s'.mans = [] ∧ Coll L (visible s') (rowsOf fs) ∧
    ((∀ x ∈ fs, x.2.level = 0) → (visible s').Perm (rowsOf fs))

theorem inv_init (rel : RowRel) (fs : Files) (h : InitOk fs) (hok : ∀ x ∈ fs, rel.okLevel x.2.level) :
    Inv rel (rowsOf fs) (initSt fs) :=
  ⟨⟨h.nodup, fun p hp => by simpa [initSt] using h.small p hp, hok⟩, Or.inl ⟨rfl, h.complete, rel.refl _⟩⟩

/-- the generic form: any configuration with the canonical job order and recovery branches, whose
retry path either recovers the dead job's manifest first or is never taken after a manifest write -/
theorem full_of (cfg : Cfg) (hd : DedupSpec cfg.dedupFn) (hsteps : cfg.steps = canonSteps) (hrec : RecCanon cfg)
    (hfirst : cfg.recoverFirst = true) (fs : Files) (L : Nat) (plans : List (List Fault))
    (hsafe : cfg.retryRecovers = true ∨ ∀ p ∈ plans, PlanSafe p) (hi : InitOk fs) (hu : UniformLevel L fs) :
    let s' := (cycle cfg [] [] (runCycles cfg plans (initSt fs))).st
    s'.mans = [] ∧ Coll L (visible s') (rowsOf fs) ∧
    ((∀ x ∈ fs, x.2.level = 0) → (visible s').Perm (rowsOf fs)) := by
  have h1 := quiesce_inv0 (rel := collRel L) (compactOk_coll L cfg hd) hsteps hrec hfirst plans hsafe
    (initSt fs) (inv_init (collRel L) fs hi hu)
  refine ⟨h1.1, h1.2, fun hz => ?_⟩
  have h2 := quiesce_inv0 (rel := meqRel) (compactOk_meq cfg) hsteps hrec hfirst plans hsafe
    (initSt fs) (inv_init meqRel fs hi hz)
  exact MEq.perm h2.2

/-- C09_full for the REPAIRED retry path (a failed job's own manifest is recovered before the
half-batch retry): holds for all partitions of uniform dedup level and ALL fault histories. -/
theorem C09_full_fixed (a b : Nat) (d : Nat → List Row → List Row) (hd : DedupSpec d) :
    FullStatement { genCfg a b d with retryRecovers := true } := by
  intro fs L plans hi hu
  exact full_of _ hd C09_job_order ⟨rfl, rfl, rfl⟩ rfl fs L plans (Or.inl rfl) hi hu

/-- The same for the configuration read off the CURRENT source, as soon as the regenerated fact says
that the retry path consults the manifests (after the proposed patch this is the full theorem). -/
theorem C09_full_generated (h : retryConsultsManifests = true) (a b : Nat) (d : Nat → List Row → List Row)
    (hd : DedupSpec d) : FullStatement (genCfg a b d) := by
  intro fs L plans hi hu
  exact full_of _ hd C09_job_order (C09_recovery_branches a b d) rfl fs L plans (Or.inl h) hi hu

/-- C09_full for the current source under the carve-out `PlanSafe`: crashes and torn uploads at
EVERY storage mutation of every job, kills before a job's first mutation or after its last one —
i.e. everything except "job killed between its manifest write and its manifest delete, then
retried by `compactFilesAdaptively`". -/
theorem C09_full_partial (a b : Nat) (d : Nat → List Row → List Row) (hd : DedupSpec d)
    (fs : Files) (L : Nat) (plans : List (List Fault)) (hsafe : ∀ p ∈ plans, PlanSafe p)
    (hi : InitOk fs) (hu : UniformLevel L fs) :
    let s' := (cycle (genCfg a b d) [] [] (runCycles (genCfg a b d) plans (initSt fs))).st
    s'.mans = [] ∧ Coll L (visible s') (rowsOf fs) ∧
    ((∀ x ∈ fs, x.2.level = 0) → (visible s').Perm (rowsOf fs)) :=
  full_of _ hd C09_job_order (C09_recovery_branches a b d) rfl fs L plans (Or.inr hsafe) hi hu

/-- **C09_full** for the CURRENT source: every partition of uniform dedup level, every history of
cycles with kills, crashes and torn uploads at every storage mutation of every job, then one
fault-free cycle: no manifest pending, visible rows = collapse of the original rows (exactly the
original multiset without dedup metadata). Consumes the regenerated facts: job order, recovery
branches, recovery-before-candidates and `retryConsultsManifests = true`. -/
theorem C09_full (a b : Nat) (d : Nat → List Row → List Row) (hd : DedupSpec d) :
    FullStatement (genCfg a b d) :=
  C09_full_generated (by decide) a b d hd

/-! ### witnesses -/

def wrow (i : Nat) : Row := { rid := i, k1 := i, k2 := i, k3 := i, k4 := i }
def wfile (i : Nat) : Path × File := (i, { rows := [wrow i], level := 0, isOut := false, complete := true })
/-- four one-row files without dedup metadata -/
def wfiles : Files := [wfile 0, wfile 1, wfile 2, wfile 3]

/-- the source's configuration WITHOUT the retry repair (the tree before a5dca86) -/
def unrepaired : Cfg := { genCfg 2 30 dedupFirst with retryRecovers := false }

/-- Necessity of the repaired retry path (fixed finding 1): without it, a job killed after the
upload (2 mutations done) is re-compacted in halves by `compactFilesAdaptively` while its first
output stays: after the quiescing cycle row 0 is visible twice. -/
theorem C09_full_witness :
    (visible (cycle unrepaired [] []
      (runCycles unrepaired [[{ job := 0, pos := 2, kind := .kill }]] (initSt wfiles))).st).count (wrow 0) = 2
    ∧ (rowsOf wfiles).count (wrow 0) = 1 := by decide

/-- a legacy file (no metadata) whose two rows differ only in `region`, next to a file tagged `host` -/
def lfiles : Files :=
  [(0, { rows := [{ rid := 0, k1 := 0, k2 := 0, k3 := 0, k4 := 0 }, { rid := 1, k1 := 0, k2 := 0, k3 := 1, k4 := 1 }],
         level := 0, isOut := false, complete := true }),
   (1, { rows := [{ rid := 2, k1 := 1, k2 := 1, k3 := 2, k4 := 2 }], level := 2, isOut := false, complete := true })]

/-- Known finding (loss, no fault needed): the job dedups at the union level `host` although one input
declares no tags (and compaction outputs never do): rows differing in an undeclared tag collapse. -/
theorem C09_level_witness :
    (visible (cycle (genCfg 2 30 dedupFirst) [] [] (initSt lfiles)).st).count { rid := 1, k1 := 0, k2 := 0, k3 := 1, k4 := 1 } = 0 ∧
    (rowsOf lfiles).count { rid := 1, k1 := 0, k2 := 0, k3 := 1, k4 := 1 } = 1 ∧
    ((visible (cycle (genCfg 2 30 dedupFirst) [] [] (initSt lfiles)).st).filter (fun r => r.k3 == 1)).length = 0 := by
  decide

/-! ## the dedup key is the union of the declared tags -/

/-- keys are nested like the tag sets they are built from: equal on a finer key ⇒ equal on a coarser one
(a fact about how the harness abstracts rows; hypothesis of `C09_dedup_union`) -/
def KeyMono (rows : List Row) : Prop :=
  ∀ a b, levelLe a b → a ≠ 0 → ∀ r ∈ rows, ∀ r' ∈ rows, keyAt b r' = keyAt b r → keyAt a r' = keyAt a r

theorem join_facts : ∀ a, a < 5 → ∀ b, b < 5 →
    joinLevel a b < 5 ∧ levelLe a (joinLevel a b) ∧ levelLe b (joinLevel a b) := by decide
theorem levelLe_trans5 : ∀ a, a < 5 → ∀ b, b < 5 → ∀ c, c < 5 → levelLe a b → levelLe b c → levelLe a c := by decide
theorem levelLe_refl5 : ∀ a, a < 5 → levelLe a a := by decide

/-- valid level codes -/
def LevelsOk (fs : List File) : Prop := ∀ f ∈ fs, f.level < 5

/-- With the regenerated fact `dedupKeyIsUnionOfInputTags = true` the job's dedup level contains the
tag set of EVERY input. -/
theorem C09_dedup_key_is_union (a b : Nat) (d : Nat → List Row → List Row) (fs : List File) (hok : LevelsOk fs) :
    ∀ f ∈ fs, levelLe f.level (jobLevel (genCfg a b d) fs) := by
  have hu : (genCfg a b d).tagUnion = true := rfl
  simp only [jobLevel, hu, if_true, unionLevel]
  have key : ∀ (fs : List File) (acc : Nat), acc < 5 → (∀ f ∈ fs, f.level < 5) →
      levelLe acc (fs.foldl (fun acc f => joinLevel acc f.level) acc) ∧
      (fs.foldl (fun acc f => joinLevel acc f.level) acc) < 5 ∧
      ∀ f ∈ fs, levelLe f.level (fs.foldl (fun acc f => joinLevel acc f.level) acc) := by
    intro fs
    induction fs with
    | nil => intro acc hacc _; exact ⟨levelLe_refl5 acc hacc, hacc, fun f hf => by cases hf⟩
    | cons g fs ih =>
      intro acc hacc hfs
      have hg := hfs g List.mem_cons_self
      obtain ⟨hj, hl, hr⟩ := join_facts acc hacc g.level hg
      obtain ⟨h1, h2, h3⟩ := ih (joinLevel acc g.level) hj (fun f hf => hfs f (List.mem_cons_of_mem _ hf))
      simp only [List.foldl]
      refine ⟨levelLe_trans5 _ hacc _ hj _ h2 hl h1, h2, ?_⟩
      intro f hf
      rcases List.mem_cons.mp hf with e | e
      · subst e; exact levelLe_trans5 _ hg _ hj _ h2 hr h1
      · exact h3 f e
  exact (key fs 0 (by decide) hok).2.2

/-- Consequence for rows (consumes the same fact): every row of every input that declares tags keeps,
in the job's output, a row with the same (tags,time) at the input's OWN level — no row of a tagged
file is collapsed under a key coarser than the one its file declares. (For inputs WITHOUT tags this
is false: `C09_level_witness`.) -/
theorem C09_dedup_union (a b : Nat) (d : Nat → List Row → List Row) (hd : DedupSpec d) (fs : List File)
    (hok : LevelsOk fs) (hmono : KeyMono (fs.flatMap (fun f => f.rows))) :
    ∀ f ∈ fs, f.level ≠ 0 → Covers f.level (compactRows (genCfg a b d) fs) f.rows := by
  intro f hf hne r hr
  have hle := C09_dedup_key_is_union a b d fs hok f hf
  have hmem : r ∈ fs.flatMap (fun f => f.rows) := List.mem_flatMap.mpr ⟨f, hf, hr⟩
  simp only [compactRows]
  by_cases hz : (jobLevel (genCfg a b d) fs == 0) = true
  · simp only [hz, if_true]; exact ⟨r, hmem, rfl⟩
  · simp only [hz, Bool.false_eq_true, if_false]
    obtain ⟨r', h1, h2⟩ := (hd (jobLevel (genCfg a b d) fs) _).2.1 r hmem
    have hsub := (hd (jobLevel (genCfg a b d) fs) (fs.flatMap (fun f => f.rows))).1 r'
    have hr' : r' ∈ fs.flatMap (fun f => f.rows) := by
      have : 0 < List.count r' ((genCfg a b d).dedupFn (jobLevel (genCfg a b d) fs) (fs.flatMap fun f => f.rows)) :=
        List.count_pos_iff.mpr h1
      exact List.count_pos_iff.mp (Nat.lt_of_lt_of_le this hsub)
    exact ⟨r', h1, hmono _ _ hle hne r hmem r' hr' h2⟩

/-! ## C09_batches -/

theorem chunks_flatten (n : Nat) : ∀ (k : Nat) (l : List Path), 1 ≤ k → (chunks n k l).flatten = l
  | 0, _, h => absurd h (by decide)
  | 1, l, _ => by simp [chunks]
  | k + 2, l, _ => by
    simp only [chunks, List.flatten_cons]
    rw [chunks_flatten n (k + 1) (l.drop n) (by omega), List.take_append_drop]

/-- `SplitCandidateIntoBatches` partitions the candidate's file list, in order (no file lost, none
in two batches), whatever the configured batch size. -/
theorem C09_batches (a b : Nat) (d : Nat → List Row → List Row) (files : List Path) :
    (splitBatches (genCfg a b d) files).flatten = files := by
  simp only [splitBatches]
  split
  · simp
  · rename_i hgt
    apply chunks_flatten
    have hn : 2 ≤ clampBatch (genCfg a b d) (genCfg a b d).maxBatch := by
      show 2 ≤ (if b < 2 then 30 else if b > 500 then 500 else b)
      by_cases h1 : b < 2
      · simp [h1]
      · by_cases h2 : b > 500
        · simp [h1, h2]
        · simp only [h1, h2, if_false]; omega
    simp only [numBatches]
    generalize clampBatch (genCfg a b d) (genCfg a b d).maxBatch = n at *
    have hlen : n < files.length := Nat.lt_of_not_le hgt
    have h2 : 2 ≤ (files.length + n - 1) / n := by
      apply (Nat.le_div_iff_mul_le (by omega)).mpr
      omega
    split <;> omega

/-- Output names are unique: the output of a job is named after the job counter, which every job
increments (real code: `_b{BatchNumber}` + nanosecond clock). -/
theorem C09_output_names (s : St) (ins : List Path) :
    (jobManifest s ins).out = outBase + s.njobs ∧ (jobManifest s ins).mid = s.njobs := ⟨rfl, rfl⟩

/-! ## non-vacuity: the hypotheses are satisfiable -/

theorem dedupFirstAux_sublist (L : Nat) : ∀ (rs : List Row) (seen : List Nat), (dedupFirstAux L seen rs).Sublist rs
  | [], _ => by simp [dedupFirstAux]
  | r :: rs, seen => by
    simp only [dedupFirstAux]
    split
    · exact (dedupFirstAux_sublist L rs seen).cons _
    · exact (dedupFirstAux_sublist L rs _).cons_cons _

theorem dedupFirstAux_covers (L : Nat) : ∀ (rs : List Row) (seen : List Nat), ∀ r ∈ rs,
    keyAt L r ∈ seen ∨ ∃ r' ∈ dedupFirstAux L seen rs, keyAt L r' = keyAt L r
  | [], _, r, h => by cases h
  | x :: rs, seen, r, h => by
    simp only [dedupFirstAux]
    by_cases hx : seen.contains (keyAt L x) = true
    · simp only [hx, if_true]
      rcases List.mem_cons.mp h with e | e
      · subst e; exact Or.inl (by simpa using hx)
      · exact dedupFirstAux_covers L rs seen r e
    · simp only [hx, Bool.false_eq_true, if_false]
      rcases List.mem_cons.mp h with e | e
      · subst e; exact Or.inr ⟨r, List.mem_cons_self, rfl⟩
      · rcases dedupFirstAux_covers L rs (keyAt L x :: seen) r e with h1 | ⟨r', h1, h2⟩
        · rcases List.mem_cons.mp h1 with e1 | e1
          · exact Or.inr ⟨x, List.mem_cons_self, e1.symm⟩
          · exact Or.inl e1
        · exact Or.inr ⟨r', List.mem_cons_of_mem _ h1, h2⟩

theorem dedupFirstAux_nodup (L : Nat) : ∀ (rs : List Row) (seen : List Nat),
    ((dedupFirstAux L seen rs).map (keyAt L)).Nodup ∧ ∀ r' ∈ dedupFirstAux L seen rs, keyAt L r' ∉ seen
  | [], _ => by simp [dedupFirstAux]
  | x :: rs, seen => by
    simp only [dedupFirstAux]
    by_cases hx : seen.contains (keyAt L x) = true
    · simp only [hx, if_true]; exact dedupFirstAux_nodup L rs seen
    · simp only [hx, Bool.false_eq_true, if_false]
      have ih := dedupFirstAux_nodup L rs (keyAt L x :: seen)
      refine ⟨?_, ?_⟩
      · simp only [List.map_cons, List.nodup_cons]
        refine ⟨?_, ih.1⟩
        intro hm
        obtain ⟨r', h1, h2⟩ := List.mem_map.mp hm
        exact ih.2 r' h1 (by rw [h2]; exact List.mem_cons_self)
      · intro r' hr'
        rcases List.mem_cons.mp hr' with e | e
        · subst e; simpa using hx
        · exact fun hm => ih.2 r' e (List.mem_cons_of_mem _ hm)

/-- the model's own dedup function is one admissible DuckDB behaviour -/
theorem dedupFirst_spec : DedupSpec dedupFirst := by
  intro L rows
  refine ⟨fun r => (dedupFirstAux_sublist L rows []).count_le r, ?_, (dedupFirstAux_nodup L rows []).1⟩
  intro r hr
  rcases dedupFirstAux_covers L rows [] r hr with h | h
  · cases h
  · exact h

/-- the full theorem instantiated: the current source's configuration with the model's dedup -/
example : FullStatement (genCfg 2 30 dedupFirst) := C09_full 2 30 dedupFirst dedupFirst_spec

example : InitOk wfiles ∧ UniformLevel 0 wfiles := by
  refine ⟨⟨by decide, by decide, by decide⟩, by unfold UniformLevel; decide⟩

example : PlanSafe [{ job := 0, pos := 3, kind := .crash }, { job := 1, pos := 0, kind := .kill }] := by
  intro f hf hk
  simp at hf
  rcases hf with rfl | rfl
  · cases hk
  · exact Or.inl rfl

/-- a state in which a job deletes an input: third mutation of the job over `wfiles` -/
example : (jobProgram (genCfg 2 30 dedupFirst) (initSt wfiles) [0, 1, 2, 3])[2]? = some (.delInput 0) := by decide

end Arc.C09
