/-
Line-protocol helpers shared by all model drivers (core-only; no Mathlib).
One op per input line, fields separated by single spaces; byte payloads are lower-case hex.
-/
namespace Arc.Proto

def hexVal (c : Char) : Option Nat :=
  if '0' ≤ c ∧ c ≤ '9' then some (c.toNat - '0'.toNat)
  else if 'a' ≤ c ∧ c ≤ 'f' then some (c.toNat - 'a'.toNat + 10)
  else if 'A' ≤ c ∧ c ≤ 'F' then some (c.toNat - 'A'.toNat + 10)
  else none

def unhexAux : List Char → List UInt8 → Option (List UInt8)
  | [], acc => some acc.reverse
  | [_], _ => none
  | a :: b :: rest, acc =>
    match hexVal a, hexVal b with
    | some x, some y => unhexAux rest (UInt8.ofNat (x * 16 + y) :: acc)
    | _, _ => none

/-- "-" denotes the empty byte string. -/
def unhex (s : String) : Option (List UInt8) :=
  if s == "-" then some [] else unhexAux s.toList []

def hexDigit (n : Nat) : Char :=
  if n < 10 then Char.ofNat ('0'.toNat + n) else Char.ofNat ('a'.toNat + (n - 10))

def hex (bs : List UInt8) : String :=
  if bs.isEmpty then "-" else
  String.ofList (bs.flatMap fun b => [hexDigit (b.toNat / 16), hexDigit (b.toNat % 16)])

def fields (line : String) : List String :=
  (line.trimAscii.toString.splitOn " ").filter (· ≠ "")

def int? (s : String) : Option Int := s.toInt?
def nat? (s : String) : Option Nat := s.toNat?

/-- Generic stdin loop: fold `step` over the lines, printing one output line per input line. -/
partial def loop {σ : Type} (h : IO.FS.Stream) (out : IO.FS.Stream)
    (step : σ → List String → σ × String) (s : σ) : IO Unit := do
  let line ← h.getLine
  if line.isEmpty then
    out.flush
    return ()
  let fs := fields line
  if fs.isEmpty then loop h out step s else
  let (s', o) := step s fs
  out.putStrLn o
  loop h out step s'

def run {σ : Type} (step : σ → List String → σ × String) (init : σ) : IO Unit := do
  let i ← IO.getStdin
  let o ← IO.getStdout
  loop i o step init

end Arc.Proto
