import Arc.Generated.C30
/-!
C30 — model of the cluster request-routing path.

* `internal/api/routing.go`   : `decideForward` (three-way decision), `BuildHTTPRequest` header filter
* `internal/cluster/router.go`: `CanRouteLocally`, `RouteWrite`, `RouteQuery` (target choice over the
  registry), `doForward` (header copy + the three `Header.Set` calls)
* `internal/cluster/registry.go`: `GetPrimaryWriter`, `GetWriters`, `GetReaders`
* the routing prologue shared by `writeMsgPack`, `handleWrite` (line protocol, TLE), `executeQuery`

Roles, the capability table, the role each registry getter compares against, the marker name, the
strip lists and the list of headers `doForward` sets are NOT written here: they come from
`Arc.Generated.C30`, regenerated from the current source on every run.

The registry is a Go map, so iteration order — and therefore which primary / which round-robin slot is
picked — is not a function of the configuration.  The model returns the *set of admissible targets*
(`Route.forward cands`); the choice among them is an arbitrary oracle (`World.pick`).

Header lists are in fasthttp-normalised form (what `Header.VisitAll` / `Peek` show).
Core-only, executable.
-/
namespace Arc.C30
open Arc.Generated.C30

/-! ## headers -/

abbrev Headers := List (String × String)

/-- `validHeaderFieldByte` of net/textproto (RFC 7230 token characters). -/
def isTokenChar (c : Char) : Bool :=
  c.isAlphanum || "!#$%&'*+-.^_`|~".toList.contains c

def canonAux : Bool → List Char → List Char
  | _, [] => []
  | up, c :: cs =>
    let c' := if up then c.toUpper else c.toLower
    c' :: canonAux (c' == '-') cs

/-- `http.CanonicalHeaderKey`: keys with a non-token byte are returned unchanged. -/
def canon (k : String) : String :=
  if k.toList.all isTokenChar then String.ofList (canonAux true k.toList) else k

/-- values of header `k` in order. -/
def valuesOf (hs : Headers) (k : String) : List String :=
  (hs.filter (fun p => p.1 == k)).map (·.2)

/-- `c.Get(k)` / `RequestHeader.Peek`: first value, `""` when absent. -/
def getHeader (hs : Headers) (k : String) : String :=
  match hs.filter (fun p => p.1 == k) with
  | [] => ""
  | p :: _ => p.2

/-- the keys `BuildHTTPRequest` drops. -/
def stripped (k : String) : Bool :=
  hopByHop.contains k || inlineFiltered.contains k || clientForwarding.contains k

/-- header map of the request `BuildHTTPRequest` returns (per-key value order preserved). -/
def buildHeaders (hs : Headers) : Headers :=
  (hs.map (fun p => (canon p.1, p.2))).filter (fun p => !stripped p.1)

/-- `http.Header.Set` for a key that is already canonical (factgen rejects a non-canonical literal
in `doForward`). -/
def setHeader (hs : Headers) (k v : String) : Headers :=
  hs.filter (fun p => !(p.1 == k)) ++ [(k, v)]

def srcValue (remoteAddr localID host src : String) : String :=
  if src == "remoteAddr" then remoteAddr
  else if src == "localID" then localID
  else if src == "host" then host
  else ""

def setStep (remoteAddr localID host : String) (hs : Headers) (ks : String × String) : Headers :=
  setHeader hs ks.1 (srcValue remoteAddr localID host ks.2)

/-- header map of the request `doForward` sends: copy loop (`Add` re-canonicalises keys that
`BuildHTTPRequest` already canonicalised — the identity), then the `Set`s in source order. -/
def forwardHeaders (built : Headers) (remoteAddr localID host : String) : Headers :=
  forwardSets.foldl (setStep remoteAddr localID host) built

/-- what leaves a forwarding node for inbound headers `hs`. -/
def outbound (hs : Headers) (remoteAddr localID host : String) : Headers :=
  forwardHeaders (buildHeaders hs) remoteAddr localID host

/-! ## capability and the three-way decision -/

def canServe (r : Role) (isWrite : Bool) : Bool :=
  if isWrite then (caps r).canIngest else (caps r).canQuery

/-- `Router.CanRouteLocally`; `none` = `cfg.LocalNode == nil`. -/
def canRouteLocally (loc : Option Role) (isWrite : Bool) : Bool :=
  match loc with
  | none => false
  | some r => canServe r isWrite

inductive Decision | local | toPeer | alreadyForwarded
deriving DecidableEq, Repr

/-- `decideForward`. `router = none`: handler has no router; `some loc`: router with that LocalNode. -/
def decideForward (router : Option (Option Role)) (isWrite : Bool) (marker : String) : Decision :=
  match router with
  | none => .local
  | some loc =>
    if canRouteLocally loc isWrite then .local
    else if marker != "" then .alreadyForwarded
    else .toPeer

/-! ## registry and target choice -/

inductive WState | primary | standby | none
deriving DecidableEq, Repr

structure Node where
  id        : String
  role      : Role
  wstate    : WState
  healthy   : Bool      -- `State == StateHealthy` in the registry that holds this record
  hasRouter : Bool      -- the handlers of this node have a router wired
deriving DecidableEq, Repr

def isWriter (n : Node) : Bool := n.role == writersRole && n.healthy
def isReader (n : Node) : Bool := n.role == readersRole && n.healthy
def isPrimary (n : Node) : Bool := n.role == primaryRole && n.wstate == .primary && n.healthy

inductive Route
  | localCanHandle
  | noWriter
  | noReader
  | forward (cands : List Node)
deriving DecidableEq, Repr

def routeWrite (loc : Option Role) (reg : List Node) : Route :=
  if canRouteLocally loc true then .localCanHandle
  else
    match reg.filter isPrimary with
    | p :: ps => .forward (p :: ps)          -- GetPrimaryWriter: any healthy primary (map order)
    | [] =>
      match reg.filter isWriter with
      | [] => .noWriter
      | x :: xs => .forward (x :: xs)        -- selectWriter over GetWriters()

def routeQuery (loc : Option Role) (reg : List Node) : Route :=
  if canRouteLocally loc false then .localCanHandle
  else
    match reg.filter isReader with
    | p :: ps => .forward (p :: ps)          -- selectNode over GetReaders()
    | [] =>
      match reg.filter isWriter with
      | [] => .noReader
      | x :: xs => .forward (x :: xs)        -- fall back to writers

def route (isWrite : Bool) (loc : Option Role) (reg : List Node) : Route :=
  if isWrite then routeWrite loc reg else routeQuery loc reg

/-! ## the handler prologue -/

structure Req where
  isWrite    : Bool
  headers    : Headers
  remoteAddr : String
  host       : String
deriving Repr

inductive Step
  | serveLocal
  | reject508
  | unavailable (noWriter : Bool)
  | forwardTo (cands : List Node) (out : Headers)
deriving DecidableEq, Repr

def routerOf (n : Node) : Option (Option Role) :=
  if n.hasRouter then some (some n.role) else none

/-- `switch XForwardDecision(h.router, c) { … }` followed by `localProcessing:`. -/
def handle (n : Node) (reg : List Node) (rq : Req) : Step :=
  match decideForward (routerOf n) rq.isWrite (getHeader rq.headers forwardedByHeader) with
  | .local => .serveLocal
  | .alreadyForwarded => .reject508
  | .toPeer =>
    match route rq.isWrite (some n.role) reg with
    | .localCanHandle => .serveLocal            -- `goto localProcessing`
    | .noWriter => .unavailable true
    | .noReader => .unavailable false
    | .forward cands => .forwardTo cands (outbound rq.headers rq.remoteAddr n.id rq.host)

/-- A registered route of one of the data handlers. `routed = true`: its handler starts with the
routing prologue (`handle`); `routed = false`: the handler never consults the router and always runs
its own local path (factgen lists which routes are of which kind, `Arc.Generated.C30.routes`). -/
def handleRoute (routed : Bool) (n : Node) (reg : List Node) (rq : Req) : Step :=
  if routed then handle n reg rq else .serveLocal

/-! ## composition over a cluster of any size -/

structure World where
  /-- registry content of each node (membership, roles, writer states and health as that node sees them) -/
  view     : Node → List Node
  /-- the process that answers at the address of a registry record -/
  actual   : Node → Node
  /-- map-iteration / load-balancer choice among the admissible targets -/
  pick     : Node → Req → List Node → Node
  /-- socket peer address the target sees for a request forwarded by the given node -/
  peerAddr : Node → String

inductive Outcome
  | served (by_ : Node) (hops : Nat)
  | loop508 (at_ : Node) (hops : Nat)
  | unavailable (at_ : Node) (hops : Nat)
  | outOfFuel (hops : Nat)
deriving DecidableEq, Repr

def Outcome.hops : Outcome → Nat
  | .served _ h | .loop508 _ h | .unavailable _ h | .outOfFuel h => h

def run (w : World) : Nat → Node → Req → Nat → Outcome
  | 0, _, _, hops => .outOfFuel hops
  | fuel + 1, n, rq, hops =>
    match handle n (w.view n) rq with
    | .serveLocal => .served n hops
    | .reject508 => .loop508 n hops
    | .unavailable _ => .unavailable n hops
    | .forwardTo cands out =>
      run w fuel (w.actual (w.pick n rq cands))
        { rq with headers := out, remoteAddr := w.peerAddr n } (hops + 1)

end Arc.C30
