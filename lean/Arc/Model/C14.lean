import Arc.Generated.C14
/-!
# C14 — model, part 1: the two consumers of the FROM/JOIN reference regexes

`internal/api/query.go`: `extractTableReferences` + header substitution in `checkQueryPermissions`
(the PERMISSION side) and `convertSQLToStoragePaths` / `convertSQLToStoragePathsWithHeaderDB` /
`convertSingleTableQuery` behind `getTransformedSQL[ForParallel]` (the REWRITE side), written as
maps / filters over regex match lists exactly as the code structures them.  The regex engine is a
PARAMETER (`Matcher.findAll`), so are the normaliser (`normP` = MaskStringLiterals →
MaskFromKeywordsInFunctionBodies → stripSQLComments), the four text pre-passes (`prepass`), the
splice of a replacement into the text (`splice`) and the case folding (`lower`).  Part 2
(`Arc/Model/C14/Str.lean`) instantiates all of them with executable byte-level transcriptions; the
driver runs that instance.

Core Lean only.
-/
namespace Arc.C14

abbrev Str := List Char

/-- a (database, measurement) reference -/
structure Ref where
  db : Str
  m : Str
deriving DecidableEq, Repr

/-- the five regexes both sides use (`patternDBTable`, `patternJoinDBTable`, `patternSimpleTable`,
`patternJoinSimpleTable`, `patternCTENames`) -/
inductive Pat | dbTable | joinDbTable | simple | joinSimple | cte
deriving DecidableEq, Repr

/-- what the consumers read off one regex match: the captured names (for `cte`: group 1 / group 2 of
the alternation) and the text following the match (for the `.` / `(` look-ahead). -/
structure Match where
  g1 : Str
  g2 : Str
  rest : Str
deriving DecidableEq, Repr

abbrev Idents := List (Str × Str)   -- `__IDENT_n__` placeholder ↦ unquoted name (sqlutil.IdentifierNames)

structure Norm where
  text : Str
  idents : Idents

/-- everything the two consumers take from their environment -/
structure World where
  findAll : Pat → Str → List Match
  /-- `ReplaceAllStringFunc` / `replaceTableRefs`: text after one pass, given the per-match decision -/
  splice : Pat → Str → (Match → Bool) → Str
  normP : Str → Norm
  prepass : Str → Str
  lower : Str → Str
  /-- `patternReadParquetCall.MatchString(ioDenylistNormalise(sql))` (56228b9) -/
  rpCall : Str → Bool
  /-- start offsets of the patternSimpleTable matches (`FindAllStringIndex`), for the fast-path guard -/
  simpleStarts : Str → List Nat

def dot : Char := '.'
def defaultDB : Str := "default".toList
def sentinel : Str := Arc.Generated.C14.sentinel.toList

def resolveRaw (I : Idents) (n : Str) : Str :=
  match I.lookup n with
  | some o => o
  | none => n

/-- `validateIdentifier`: `^[a-zA-Z_][a-zA-Z0-9_-]*$`, 1..128 bytes -/
def identStart (c : Char) : Bool := c.isAlpha || c == '_'
def identChar (c : Char) : Bool := c.isAlphanum || c == '_' || c == '-'
def validName : Str → Bool
  | [] => false
  | c :: cs => identStart c && cs.all identChar && decide ((c :: cs).length ≤ 128)

/-- `makeIdentResolver`: bare tokens pass, placeholders resolve to the validated name or the sentinel -/
def resolveV (I : Idents) (n : Str) : Str :=
  match I.lookup n with
  | some o => if validName o then o else sentinel
  | none => n

def skipPrefixes : List Str := Arc.Generated.C14.skipPrefixes.map String.toList
/-- `shouldSkipTableConversion` -/
def skipConv (t : Str) : Bool := skipPrefixes.any (fun p => p.isPrefixOf t)

/-- blanks `isFunctionCallAt` skips (`isWhitespace`) and blanks `isDotOrCallAt` trims -/
def extractBlanks : Str := Arc.Generated.C14.extractBlanks.toList
def rewriteBlanks : Str := Arc.Generated.C14.rewriteBlanks.toList

def headIs (c : Char) (s : Str) : Bool := s.head? == some c
/-- permission side: `sql[end] == '.'` -/
def dotAt (rest : Str) : Bool := headIs dot rest
/-- permission side: `isFunctionCallAt` -/
def callAtX (rest : Str) : Bool := headIs '(' (rest.dropWhile (fun c => extractBlanks.contains c))
/-- rewrite side: `isDotOrCallAt` with an explicit trim set -/
def dotOrCallAtRP (blanks : Str) (rest : Str) : Bool :=
  let r := rest.dropWhile (fun c => blanks.contains c)
  headIs dot r || headIs '(' r

/-- rewrite side: `isDotOrCallAt` (regenerated trim set; since 00bd721 it contains the line breaks too) -/
def dotOrCallAtR (rest : Str) : Bool := dotOrCallAtRP rewriteBlanks rest

/-- `extractCTENames`: lower-cased group 1 / group 2 of every match -/
def cteNames (W : World) (t : Str) : List Str :=
  (W.findAll .cte t).flatMap (fun m => ([m.g1, m.g2].filter (· ≠ [])).map W.lower)

/-- rewrite side since 73763cd: a CTE defined with a quoted name (its placeholder is in `ctes`) is also
registered under its unquoted name -/
def withUnquoted (W : World) (I : Idents) (ctes : List Str) : List Str :=
  ctes ++ (I.filter (fun x => ctes.contains (W.lower x.1))).map (fun x => W.lower x.2)

/-! ## permission side -/

/-- a candidate reference together with the de-duplication key the code builds for it -/
structure Cand where
  key : Str
  ref : Ref

def dottedCand (I : Idents) (m : Match) : Cand :=
  let d := resolveRaw I m.g1
  let t := resolveRaw I m.g2
  { key := d ++ dot :: t, ref := ⟨d, t⟩ }

/-- the skip conditions of the two simple-table loops of `extractTableReferences` -/
def extractSkips (W : World) (ctes : List Str) (I : Idents) (m : Match) : Bool :=
  let name := resolveRaw I m.g1
  let t := W.lower name
  skipConv t || ctes.contains t || ctes.contains (W.lower m.g1) || dotAt m.rest || callAtX m.rest

/-- `fold` = the pre-02701ef code, which lower-cased the table in the `seen` key of bare references -/
def simpleCandP (fold : Bool) (W : World) (I : Idents) (m : Match) : Cand :=
  let name := resolveRaw I m.g1
  { key := defaultDB ++ dot :: (if fold then W.lower name else name), ref := ⟨defaultDB, name⟩ }

def simpleCand (W : World) (I : Idents) (m : Match) : Cand :=
  simpleCandP Arc.Generated.C14.seenKeyFoldsCase W I m

def candidates (W : World) (n : Norm) : List Cand :=
  let ctes := cteNames W n.text
  (W.findAll .dbTable n.text).map (dottedCand n.idents)
  ++ (W.findAll .joinDbTable n.text).map (dottedCand n.idents)
  ++ ((W.findAll .simple n.text).filter (fun m => !extractSkips W ctes n.idents m)).map (simpleCand W n.idents)
  ++ ((W.findAll .joinSimple n.text).filter (fun m => !extractSkips W ctes n.idents m)).map (simpleCand W n.idents)

/-- the `seen` map: the first candidate of every key survives -/
def dedup : List Cand → List Str → List Ref
  | [], _ => []
  | c :: cs, seen => if seen.contains c.key then dedup cs seen else c.ref :: dedup cs (c.key :: seen)

def refsExtracted (W : World) (n : Norm) : List Ref := dedup (candidates W n) []

/-- `if headerDB != "" { for … if Database == "default" { Database = headerDB } }` -/
def applyHeader (hdr : Str) (rs : List Ref) : List Ref :=
  if hdr = [] then rs else rs.map (fun r => if r.db = defaultDB then { r with db := hdr } else r)

/-- the pairs handed to `CheckPermissionsBatch` -/
def refsChecked (W : World) (s hdr : Str) : List Ref := applyHeader hdr (refsExtracted W (W.normP s))

/-! ## rewrite side -/

def containsSub (needle : Str) : Str → Bool
  | [] => needle.isEmpty
  | c :: cs => needle.isPrefixOf (c :: cs) || containsSub needle cs

def shortCircuitLit : Str := Arc.Generated.C14.shortCircuitLiteral.toList
/-- `getTransformedSQL`: text mentioning `read_parquet`, or neither `from` nor `join`, is executed as is -/
def shortCircuit (W : World) (s : Str) : Bool :=
  (containsSub shortCircuitLit (W.lower s) && W.rpCall s)
  || !(Arc.Generated.C14.rewriteNeeds.any (fun w => containsSub w.toList (W.lower s)))

/-- the keep conditions of the two `replaceTableRefs` closures (look-ahead on the CURRENT text) -/
def rewriteKeeps (W : World) (ctes : List Str) (I : Idents) (m : Match) : Bool :=
  let r := resolveV I m.g1
  !(ctes.contains (W.lower m.g1)) && !(ctes.contains (W.lower r)) && !(skipConv (W.lower r)) && !(dotOrCallAtR m.rest)

def dottedRef (I : Idents) (m : Match) : Ref := ⟨resolveV I m.g1, resolveV I m.g2⟩

/-- the four texts of `convertSQLToStoragePaths`: each pass runs on the text the previous one produced -/
structure Texts where
  t0 : Str
  t1 : Str
  t2 : Str
  t3 : Str

def textsNoHdr (W : World) (n : Norm) : Texts :=
  let ctes := withUnquoted W n.idents (cteNames W n.text)
  let t1 := W.splice .dbTable n.text (fun _ => true)
  let t2 := W.splice .joinDbTable t1 (fun _ => true)
  let t3 := W.splice .simple t2 (rewriteKeeps W ctes n.idents)
  { t0 := n.text, t1 := t1, t2 := t2, t3 := t3 }

/-- references `convertSQLToStoragePaths` turns into read_parquet paths -/
def rewNoHdr (W : World) (n : Norm) : List Ref :=
  let ctes := withUnquoted W n.idents (cteNames W n.text)
  let T := textsNoHdr W n
  (W.findAll .dbTable T.t0).map (dottedRef n.idents)
  ++ (W.findAll .joinDbTable T.t1).map (dottedRef n.idents)
  ++ ((W.findAll .simple T.t2).filter (rewriteKeeps W ctes n.idents)).map (fun m => ⟨defaultDB, resolveV n.idents m.g1⟩)
  ++ ((W.findAll .joinSimple T.t3).filter (rewriteKeeps W ctes n.idents)).map (fun m => ⟨defaultDB, resolveV n.idents m.g1⟩)

def gateLit : Str := "with ".toList
/-- header path; `gated` = the pre-04fa395 code `if strings.Contains(sqlLower, "with ") { cteNames = extractCTENames(sql) }` -/
def cteNamesHdrP (gated : Bool) (W : World) (t : Str) : List Str :=
  if gated && !(containsSub gateLit (W.lower t)) then [] else cteNames W t

def cteNamesHdr (W : World) (t : Str) : List Str := cteNamesHdrP Arc.Generated.C14.headerCteGated W t

def textsHdr (W : World) (n : Norm) : Texts :=
  let ctes := withUnquoted W n.idents (cteNamesHdr W n.text)
  { t0 := n.text, t1 := n.text, t2 := n.text, t3 := W.splice .simple n.text (rewriteKeeps W ctes n.idents) }

/-- slow path of `convertSQLToStoragePathsWithHeaderDB` -/
def rewHdrSlow (W : World) (n : Norm) (hdr : Str) : List Ref :=
  let ctes := withUnquoted W n.idents (cteNamesHdr W n.text)
  let T := textsHdr W n
  ((W.findAll .simple T.t2).filter (rewriteKeeps W ctes n.idents)).map (fun m => ⟨hdr, resolveV n.idents m.g1⟩)
  ++ ((W.findAll .joinSimple T.t3).filter (rewriteKeeps W ctes n.idents)).map (fun m => ⟨hdr, resolveV n.idents m.g1⟩)

/-! ### single-table fast path (`isSingleTableQuery` + `convertSingleTableQuery`): no regex at all -/

def isWordC (c : Char) : Bool := c.isAlphanum || c == '_'

def countSub (needle : Str) : Str → Nat
  | [] => 0
  | c :: cs => (if needle.isPrefixOf (c :: cs) then 1 else 0) + countSub needle cs

def afterFirst (needle : Str) : Str → Option Str
  | [] => none
  | c :: cs => if needle.isPrefixOf (c :: cs) then some ((c :: cs).drop needle.length) else afterFirst needle cs

def fastNeedle : Str := Arc.Generated.C14.fastPathNeedle.toList

/-- `patternJoinWord` = `\bjoin\b` on the lower-cased text (d4e5686) -/
def hasJoinWord : Char → Str → Bool
  | _, [] => false
  | prev, c :: cs =>
    (!(isWordC prev) && "join".toList.isPrefixOf (c :: cs) &&
      (match (c :: cs).drop 4 with
       | [] => true
       | d :: _ => !(isWordC d)))
    || hasJoinWord c cs

/-- `isSingleTableQuery(sqlLower)`; `guarded` = the 53c9b19 guard: the extractor's own regex sees exactly one
reference, at the offset of the substring `from `, and nothing looks like a CTE name -/
def isSingleTableP (guarded : Bool) (W : World) (l : Str) : Bool :=
  countSub fastNeedle l == 1 &&
  (!guarded ||
    (match afterFirst fastNeedle l with
     | some r => W.simpleStarts l == [l.length - r.length - fastNeedle.length] && (W.findAll .cte l).all (fun m => m.g1.isEmpty && m.g2.isEmpty)
     | none => false)) &&
  !(hasJoinWord '\x00' l) &&
  (match afterFirst fastNeedle l with
   | some r => !(headIs '(' (r.dropWhile (fun c => c == ' ' || c == '\t' || c == '\r' || c == '\n')))
   | none => true)

/-- the byte-level guards in front of the fast path: no quote / `$` / comment marker, no
EXTRACT/SUBSTRING/TRIM/OVERLAY call (over-approximated by the bare names), no `with ` -/
def fastGuards (l : Str) : Bool :=
  !(containsSub gateLit l) && !(l.any (fun c => c == '\'' || c == '"' || c == '$')) &&
  !(containsSub "--".toList l) && !(containsSub "/*".toList l) &&
  !(["extract", "substring", "trim", "overlay"].any (fun w => containsSub w.toList l))

def fastPathTakenP (guarded : Bool) (W : World) (s : Str) : Bool :=
  Arc.Generated.C14.headerFastPath && isSingleTableP guarded W (W.lower s) && fastGuards (W.lower s)

def fastPathTaken (W : World) (s : Str) : Bool := fastPathTakenP Arc.Generated.C14.fastPathGuarded W s

/-- the table `convertSingleTableQuery` splices: identifier bytes after the first `from ` -/
def fastTable (W : World) (s : Str) : Option Str :=
  match afterFirst fastNeedle (W.lower s) with
  | none => none
  | some r =>
    -- same offset in the original-case text
    let off := s.length - r.length
    let r' := (s.drop off).dropWhile (fun c => extractBlanks.contains c)   -- isWhitespace (002a8ca)
    let t := r'.takeWhile isWordC
    -- 7134395: table functions / qualified names are left alone, as on the regex path
    if t.isEmpty || dotOrCallAtR (r'.dropWhile isWordC) || skipConv (W.lower t) then none else some t

def rewHdr (W : World) (s hdr : Str) : List Ref :=
  if fastPathTaken W s then
    match fastTable W s with
    | some t => [⟨hdr, t⟩]
    | none => []
  else rewHdrSlow W (W.normP (W.prepass s)) hdr

/-- the (database, measurement) pairs `getTransformedSQL` turns into read_parquet paths -/
def refsRewritten (W : World) (s hdr : Str) : List Ref :=
  if shortCircuit W s then []
  else if hdr = [] then rewNoHdr W (W.normP (W.prepass s))
  else rewHdr W s hdr

/-! ## part (B): the validated statement over DuckDB's token list -/

/-- DuckDB's tokens as far as validation is concerned -/
inductive Tok
  | word (s : Str)        -- unquoted identifier / keyword
  | qident (s : Str)      -- "…" identifier (unquoted text)
  | str (s : Str)         -- any string literal ('…', E'…', $t$…$t$)
  | lparen | rparen | comma | semi
  | other (c : Char)
deriving DecidableEq, Repr

def denylist : List Str := Arc.Generated.C14.denylist.map String.toList
def lowerAscii (s : Str) : Str := s.map Char.toLower

/-- a file-reading table function name (bare or quoted) directly followed by `(` -/
def hasDeniedCall : List Tok → Bool
  | .word w :: .lparen :: rest => denylist.contains (lowerAscii w) || hasDeniedCall (.lparen :: rest)
  | .qident w :: .lparen :: rest => denylist.contains (lowerAscii w) || hasDeniedCall (.lparen :: rest)
  | _ :: rest => hasDeniedCall rest
  | [] => false

def terminators : List Str := Arc.Generated.C14.fromClauseTerminators.map String.toList

/-- scanner state of `maskedTokenInTablePosition`: armed flags per paren depth (head = current depth),
and "the previous token was FROM / JOIN / an arming comma" -/
structure TP where
  armed : List Bool := [false]
  after : Bool := false
  prev : Str := []     -- the previous token of the scanner, lower-cased ("" at the start)

/-- statement kinds that take a table reference without FROM, where a statement can start (dc0b275) -/
def stmtKinds : List Str := Arc.Generated.C14.tableRefStatementKind.map String.toList
def stmtStartsAfter : List Str := Arc.Generated.C14.statementStartsAfter.map String.toList
def armsLikeFrom (prev l : Str) : Bool :=
  l == "from".toList || l == "join".toList || (stmtStartsAfter.contains prev && stmtKinds.contains l)

def TP.cur (s : TP) : Bool := s.armed.headD false
def TP.setCur (s : TP) (b : Bool) : TP := { s with armed := b :: s.armed.tail }

/-- a string literal, or a quoted identifier that is not a valid name, in table position -/
def badInTablePos : TP → List Tok → Bool
  | _, [] => false
  | s, .lparen :: r => badInTablePos { armed := false :: s.armed, after := false, prev := ['('] } r
  | s, .rparen :: r =>
      badInTablePos { armed := (match s.armed with | _ :: b :: bs => b :: bs | a => a), after := false, prev := [')'] } r
  | s, .comma :: r => badInTablePos { s with after := s.cur, prev := [','] } r
  | s, .str _ :: r => s.after || badInTablePos { s with after := false, prev := ['\''] } r
  | s, .qident q :: r => (s.after && !validName q) || badInTablePos { s with after := false, prev := ['"'] } r
  | s, .word w :: r =>
      let l := lowerAscii w
      if armsLikeFrom s.prev l then badInTablePos { (s.setCur true) with after := true, prev := l } r
      else if terminators.contains l then badInTablePos { (s.setCur false) with after := false, prev := l } r
      else badInTablePos { s with after := false, prev := l } r
  | s, .semi :: r => badInTablePos s r
  | s, .other _ :: r => badInTablePos s r

/-- at most one trailing `;` -/
def singleStatement (ts : List Tok) : Bool :=
  !((ts.reverse.dropWhile (· == .semi)).contains .semi)

/-- acceptance of `ValidateSQLRequest` over an (ideal) token list -/
def acceptedTok (ts : List Tok) : Bool :=
  singleStatement ts && !(hasDeniedCall ts) && !(badInTablePos {} ts)

end Arc.C14
