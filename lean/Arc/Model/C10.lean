import Arc.Generated.C10
/-
C10 — model of `internal/api/delete.go`: SQL three-valued logic over typed nullable cells, the
affected-file search (`WHERE p`, `HAVING COUNT(*) > 0`), the per-file count
(`COUNT(*)`, `COUNT(*) FILTER (WHERE <keep>)`), the whole-file branch (`rowsAfter == 0`), the
rewrite (`SELECT * … WHERE <keep>`), both counters (dry run: Σ matchCount; real: Σ before − after)
and the request gates of `handleDelete`.

`<keep>` is NOT written here: `Arc.Generated.C10.{countKeep, rewriteKeepLocal, rewriteKeepRemote}`
are regenerated from the SQL templates of the current source; `keepFn` gives each kind its meaning.

Core-only, executable. Strings are `List Char`.
-/
namespace Arc.C10
open Arc.Generated.C10 (Keep)

/-! ## cells, rows -/

/-- A nullable typed cell. `flt q` is the DOUBLE `q/4` (the harness only uses quarter values, which
are exact in binary floating point); `ts` is a TIMESTAMP in µs. -/
inductive Cell
  | null
  | int (v : Int)
  | flt (q : Int)
  | str (s : List Char)
  | bool (b : Bool)
  | ts (us : Int)
deriving DecidableEq, Repr

abbrev Row := List Cell

def col (r : Row) (c : Nat) : Cell := r.getD c .null

/-! ## three-valued logic (`none` = SQL NULL) -/

def kNot : Option Bool → Option Bool
  | some b => some (!b)
  | none => none

def kAnd : Option Bool → Option Bool → Option Bool
  | some false, _ => some false
  | _, some false => some false
  | some true, some true => some true
  | _, _ => none

def kOr : Option Bool → Option Bool → Option Bool
  | some true, _ => some true
  | _, some true => some true
  | some false, some false => some false
  | _, _ => none

inductive Cmp | eq | ne | lt | le | gt | ge
deriving DecidableEq, Repr

/-- binary (code-point) string order, DuckDB's default collation on ASCII data -/
def strCmp : List Char → List Char → Ordering
  | [], [] => .eq
  | [], _ :: _ => .lt
  | _ :: _, [] => .gt
  | a :: as, b :: bs =>
    if a.toNat < b.toNat then .lt else if b.toNat < a.toNat then .gt else strCmp as bs

def intCmp (a b : Int) : Ordering := if a < b then .lt else if b < a then .gt else .eq

/-- Order of two cells of the same type; `none` when either is NULL (or the types differ — outside
the validated grammar, where DuckDB would raise a binder/conversion error). -/
def cellCmp : Cell → Cell → Option Ordering
  | .int a, .int b => some (intCmp a b)
  | .flt a, .flt b => some (intCmp a b)
  | .ts a, .ts b => some (intCmp a b)
  | .bool a, .bool b => some (intCmp (if a then 1 else 0) (if b then 1 else 0))
  | .str a, .str b => some (strCmp a b)
  | _, _ => none

def cmpOrd : Cmp → Ordering → Bool
  | .eq, o => o == .eq
  | .ne, o => o != .eq
  | .lt, o => o == .lt
  | .le, o => o != .gt
  | .gt, o => o == .gt
  | .ge, o => o != .lt

def evalCmp (op : Cmp) (a b : Cell) : Option Bool := (cellCmp a b).map (cmpOrd op)

def suffixes : List Char → List (List Char)
  | [] => [[]]
  | c :: s => (c :: s) :: suffixes s

/-- SQL `LIKE` without an escape character: `%` any sequence, `_` any single character. -/
def likeMatch : List Char → List Char → Bool
  | [], s => s.isEmpty
  | c :: p, s =>
    if c = '%' then (suffixes s).any (likeMatch p)
    else match s with
      | [] => false
      | d :: s' => (c = '_' || c = d) && likeMatch p s'

inductive Pred
  | cmp (op : Cmp) (c : Nat) (lit : Cell)
  | and (a b : Pred)
  | or (a b : Pred)
  | not (a : Pred)
  | inList (c : Nat) (lits : List Cell)
  | like (c : Nat) (pat : List Char)
  | isNull (c : Nat)
  | notNull (c : Nat)
  | lit (v : Option Bool)
deriving Repr

def isNullCell : Cell → Bool
  | .null => true
  | _ => false

/-- DuckDB evaluation of a WHERE expression on one row. -/
def eval : Pred → Row → Option Bool
  | .cmp op c l, r => evalCmp op (col r c) l
  | .and a b, r => kAnd (eval a r) (eval b r)
  | .or a b, r => kOr (eval a r) (eval b r)
  | .not a, r => kNot (eval a r)
  | .inList c ls, r => ls.foldl (fun acc l => kOr acc (evalCmp .eq (col r c) l)) (some false)
  | .like c pat, r =>
    match col r c with
    | .str s => some (likeMatch pat s)
    | _ => none
  | .isNull c, r => some (isNullCell (col r c))
  | .notNull c, r => some (!isNullCell (col r c))
  | .lit v, _ => v

def isTrue (v : Option Bool) : Bool := v == some true

/-- Meaning of the generated keep-filter kinds on the predicate's three-valued result:
`NOT (p)` passes a `WHERE`/`FILTER` iff it is TRUE; `(p) IS NOT TRUE` is two-valued. -/
def keepFn : Keep → Option Bool → Bool
  | .notP, v => isTrue (kNot v)
  | .isNotTrue, v => !isTrue v

/-! ## files and the delete itself -/

structure File where
  path : String
  rows : List Row
deriving Repr

abbrev Dataset := List File

def rowsOf (ds : Dataset) : List Row := ds.flatMap (·.rows)

/-- `COUNT(*) … WHERE p` of one file. -/
def matchCount (p : Pred) (f : File) : Nat := (f.rows.filter (fun r => isTrue (eval p r))).length

/-- `HAVING COUNT(*) > 0` / `if count > 0`. -/
def affected (p : Pred) (f : File) : Bool := decide (0 < matchCount p f)

/-- `COUNT(*) FILTER (WHERE <keep>)` -/
def remaining (kc : Keep) (p : Pred) (f : File) : Nat :=
  (f.rows.filter (fun r => keepFn kc (eval p r))).length

/-- `rewriteFileWithoutDeletedRows`: (deleted, what is at the path afterwards). -/
def rewriteFile (kc kr : Keep) (p : Pred) (f : File) : Nat × Option File :=
  if remaining kc p f = 0 then (f.rows.length - remaining kc p f, none)
  else (f.rows.length - remaining kc p f,
        some { f with rows := f.rows.filter (fun r => keepFn kr (eval p r)) })

/-- What happens to one listed file during a confirmed delete. -/
def stepFile (kc kr : Keep) (p : Pred) (f : File) : Option File :=
  if affected p f then (rewriteFile kc kr p f).2 else some f

def rowsAfter : Option File → List Row
  | some f => f.rows
  | none => []

def deleteFiles (kc kr : Keep) (p : Pred) (ds : Dataset) : Dataset := ds.filterMap (stepFile kc kr p)

def affectedFiles (p : Pred) (ds : Dataset) : List File := ds.filter (affected p)

/-- `totalToDelete` = Σ matchCount over the affected files (what a dry run reports). -/
def dryCount (p : Pred) (ds : Dataset) : Nat := ((affectedFiles p ds).map (matchCount p)).sum

/-- `totalDeleted` = Σ (rowsBefore − rowsAfter) over the affected files. -/
def realCount (kc kr : Keep) (p : Pred) (ds : Dataset) : Nat :=
  ((affectedFiles p ds).map (fun f => (rewriteFile kc kr p f).1)).sum

/-! ## request level (`handleDelete`) -/

structure Req where
  dry : Bool
  confirm : Bool
  maxRows : Int
  threshold : Int
  p : Pred
deriving Repr

inductive Reject | fullTableConfirm | confirmRequired | maxRows | threshold
deriving DecidableEq, Repr

structure Resp where
  deleted : Nat
  affected : Nat
  rewritten : Nat
  dry : Bool
  files : List String
deriving Repr

inductive Outcome
  | rejected (why : Reject)
  | ok (r : Resp)
deriving Repr

/-- `validateWhereClause` full-table patterns: the grammar renders only the bare literal TRUE as
one of them ("TRUE"). -/
def isFullTable : Pred → Bool
  | .lit (some true) => true
  | _ => false

def handle (kc kr : Keep) (ds : Dataset) (q : Req) : Dataset × Outcome :=
  if isFullTable q.p && !q.confirm then (ds, .rejected .fullTableConfirm)
  else if !q.dry && !q.confirm then (ds, .rejected .confirmRequired)
  else if (affectedFiles q.p ds).isEmpty then
    (ds, .ok { deleted := 0, affected := 0, rewritten := 0, dry := q.dry, files := [] })
  else if (dryCount q.p ds : Int) > q.maxRows then (ds, .rejected .maxRows)
  else if (dryCount q.p ds : Int) > q.threshold && !q.confirm then (ds, .rejected .threshold)
  else if q.dry then
    (ds, .ok { deleted := dryCount q.p ds, affected := (affectedFiles q.p ds).length, rewritten := 0,
               dry := true, files := (affectedFiles q.p ds).map (·.path) })
  else
    (deleteFiles kc kr q.p ds,
     .ok { deleted := realCount kc kr q.p ds, affected := (affectedFiles q.p ds).length,
           rewritten := (affectedFiles q.p ds).length, dry := false,
           files := (affectedFiles q.p ds).map (·.path) })

/-- The finding's carve-out: no row of an affected file makes the predicate NULL. -/
def carve (p : Pred) (ds : Dataset) : Bool :=
  ds.all (fun f => !affected p f || f.rows.all (fun r => (eval p r).isSome))

end Arc.C10
