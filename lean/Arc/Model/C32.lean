/-
C32 — executable model of "where does a write land".

Modelled code (quirks included):
  internal/api/msgpack.go        writeMsgPack, extractMeasurements
  internal/ingest/msgpack.go     Decode / decodeMapPayload (batch handling, failing items skipped)
  internal/api/lineprotocol.go   WriteV1 / WriteInfluxDB / WriteSimple / handleWrite
  internal/api/import.go, import_inprocess.go, tle.go   (LP import, CSV/Parquet import preamble, TLE write/import)
  internal/api/permissions.go    CheckWritePermissions
  internal/ingest/arrow_writer.go Write (dispatch), writeColumnarInternal / writeTypedColumnarRaw (buffer key,
                                 WAL emission), splitBufferKey, generateStoragePath
  internal/wal/wal.go            ParseEnvelope, AppendRawWithMeta (envelope), Append (no envelope)
  internal/cluster/coordinator.go buildReplicationIngestHandler, rowsToColumns
Names are byte strings (`List UInt8`), exactly what Go's `len`/indexing see.  Core Lean only.
-/
namespace Arc.C32

abbrev Name := List UInt8

def str (s : String) : Name := s.toUTF8.toList

/-! ## names -/
def isLetter (c : UInt8) : Bool := (97 ≤ c && c ≤ 122) || (65 ≤ c && c ≤ 90)
def isNameChar (c : UInt8) : Bool := isLetter c || (48 ≤ c && c ≤ 57) || c == 95 || c == 45

/-- isValidDatabaseName / isValidMeasurementName: `^[a-zA-Z][a-zA-Z0-9_-]*$`, 1..maxLen bytes. -/
def validName (maxLen : Nat) : Name → Bool
  | [] => false
  | c :: cs => isLetter c && cs.all isNameChar && decide ((c :: cs).length ≤ maxLen)

def validDB (s : Name) : Bool := validName 64 s
def validMeas (s : Name) : Bool := validName 128 s

def slash : UInt8 := 47
def underscore : UInt8 := 95
def defaultDB : Name := [100, 101, 102, 97, 117, 108, 116]            -- "default"
def satelliteTle : Name := [115, 97, 116, 101, 108, 108, 105, 116, 101, 95, 116, 108, 101] -- "satellite_tle"

/-- the routing-like payload names of the property's quantifier -/
def kUMeas : Name := [95, 109, 101, 97, 115, 117, 114, 101, 109, 101, 110, 116]   -- "_measurement"
def kMeas : Name := [109, 101, 97, 115, 117, 114, 101, 109, 101, 110, 116]        -- "measurement"
def kM : Name := [109]                                                            -- "m"
def kUDb : Name := [95, 100, 97, 116, 97, 98, 97, 115, 101]                       -- "_database"
def kDb : Name := [100, 97, 116, 97, 98, 97, 115, 101]                            -- "database"
/-- keys dropped by coordinator.go:rowsToColumns -/
def routingKeys : List Name := [kMeas, kM, kUMeas, kDb, kUDb]

def dedupe : List Name → List Name
  | [] => []
  | x :: xs => if x ∈ dedupe xs then dedupe xs else x :: dedupe xs

/-! ## RBAC configuration -/
structure Cfg where
  rbacOn : Bool                      -- rbacManager != nil && IsRBACEnabled()
  hasToken : Bool                    -- auth.GetTokenInfo(c) != nil
  allow : Name → Name → Bool         -- CheckPermission(db, measurement, "write").Allowed

def Cfg.active (c : Cfg) : Bool := c.rbacOn && c.hasToken

inductive Status | ok | bad | denied | err
deriving DecidableEq, Repr

structure Key where
  db : Name
  m : Name
deriving DecidableEq, Repr

/-- value of a payload cell as far as routing can see it -/
inductive Val | s (v : Name) | n | z
deriving DecidableEq, Repr

abbrev Row := List (Name × Val)

/-- what the writer hands to the WAL (and thereby to the replication hook) for one buffered record -/
inductive WalEntry
  | raw (db : Name) (mStr : Option Name) (ncols : Nat)   -- AppendRawWithMeta: envelope(db) ++ original {m, columns}
  | rows (rs : List Row)                                  -- Append: msgpack array of row maps, NO envelope
deriving Repr

structure Out where
  status : Status
  db : Name := []               -- database the request resolved to
  checked : List Name := []     -- measurements for which CheckPermission(db, ·, write) was consulted (all allowed unless status = denied)
  keys : List Key := []         -- ArrowBuffer keys written, in order
  flushed : Bool := false       -- handler called FlushAll itself
  wal : List WalEntry := []
deriving Repr

def reject (s : Status) : Out := { status := s }

/-- the value the harness (and the witnesses) put into a payload cell named `k` -/
def payloadVal (k : Name) : Val :=
  if k = kUMeas then .s [101, 118, 105, 108, 95, 109] else            -- "evil_m"
  if k = kMeas then .s [101, 118, 105, 108, 95, 109, 50] else         -- "evil_m2"
  if k = kM then .s [101, 118, 105, 108, 95, 109, 51] else            -- "evil_m3"
  if k = kUDb then .s [101, 118, 105, 108, 95, 100, 98] else          -- "evil_db"
  if k = kDb then .s [101, 118, 105, 108, 95, 100, 98, 50] else .n    -- "evil_db2"

/-- columnarToWALRecords / typedBatchToWALRecords for one row: every column under its own name, then the
routing entries `_database`, `_measurement` written LAST (they win over a column of the same name; in this
association list the first binding wins, so they come first). -/
def kTime : Name := [116, 105, 109, 101]   -- "time"
/-- `rows`: for every row the names of the cells that row actually has; the column set is their union and a
row lacking a column carries nil there. -/
def walRow (db m : Name) (cols row : List Name) : Row :=
  (kUMeas, Val.s m) :: (kUDb, Val.s db) ::
    (cols.map (fun c => (c, if c ∈ row then payloadVal c else Val.z)) ++ [(kTime, Val.n)])

def walRows (db m : Name) (rows : List (List Name)) : WalEntry :=
  .rows (rows.map (walRow db m rows.flatten))

/-! ## MessagePack payloads -/
inductive MVal | s (v : Name) | i (v : Int)
deriving DecidableEq, Repr

/-- decoder.extractMeasurement -/
def mname : MVal → Name
  | .s v => v
  | .i v => str ("measurement_" ++ toString v)

def MVal.strOnly : MVal → Option Name
  | .s v => some v
  | .i _ => none

mutual
  /-- one element of a msgpack payload as the decoder sees it -/
  inductive Item where
    | col (m : MVal) (cols : List Name)              -- {m, columns:{…}} that decodes
    | row (m : MVal) (tags fields : List Name)       -- {m, t, fields, tags} that decodes
    | bad                                            -- a map whose decode returns an error
    | junk                                           -- not a map
    | batch (items : Items)                          -- {batch: [...]}
  inductive Items where
    | nil
    | cons (i : Item) (is : Items)
end

inductive Top where
  | empty                      -- empty body
  | scalar                     -- neither map nor array
  | map (i : Item)
  | arr (is : Items)

mutual
  /-- api.MsgPackHandler.extractMeasurements on the decoded value (every record's measurement, "" included;
  nested lists are walked) -/
  def extractI : Item → List Name
    | .col m _ => [mname m]
    | .row m _ _ => [mname m]
    | .bad => []
    | .junk => []
    | .batch is => extractIs is
  def extractIs : Items → List Name
    | .nil => []
    | .cons i is => extractI i ++ extractIs is
end

/-- Decode: `none` = 400. A top-level batch is flattened one level; failing elements are skipped; a nested
batch stays a nested list. -/
def decodeTop : Top → Option Items
  | .empty => none
  | .scalar => none
  | .map (.batch is) => some is
  | .map .bad => none
  | .map .junk => none
  | .map i => some (.cons i .nil)
  | .arr is => some is

/-- ArrowBuffer.Write: columnar records are buffered in order, row records are grouped by measurement and
buffered at the end, a nested list aborts with an error (what was buffered stays). Returns the
(measurement, rows) pairs written (a row = the cell names it carries) and whether Write returned nil. -/
def writeTop : Items → List (Name × List Name) → List (Name × List (List Name)) × Bool
  | .nil, pend =>
      ((dedupe (pend.map (·.1))).map (fun m => (m, (pend.filter (·.1 = m)).map (·.2))), true)
  | .cons (.col m cols) is, pend =>
      let r := writeTop is pend
      ((mname m, [cols]) :: r.1, r.2)
  | .cons (.row m tags fields) is, pend => writeTop is (pend ++ [(mname m, tags ++ fields)])
  | .cons .bad is, pend => writeTop is pend
  | .cons .junk is, pend => writeTop is pend
  | .cons (.batch _) _, _ => ([], false)

def mpWal (db : Name) (top : Top) (w : Name × List (List Name)) : WalEntry :=
  match top with
  | .map (.col m cols) => .raw db m.strOnly cols.length
  | _ => walRows db w.1 w.2

/-- POST /api/v1/write/msgpack -/
def mpHandle (c : Cfg) (hdr : Name) (top : Top) : Out :=
  match decodeTop top with
  | none => reject .bad
  | some recs =>
    let db := if hdr = [] then defaultDB else hdr
    if !validDB db then reject .bad else
    let ms := dedupe (extractIs recs)
    if !ms.all validMeas then reject .bad else
    let chk := if c.active then ms else []
    if c.active && !ms.all (c.allow db) then { status := .denied, db := db, checked := chk } else
    let w := writeTop recs []
    { status := if w.2 then .ok else .err, db := db, checked := chk,
      keys := w.1.map (fun t => ⟨db, t.1⟩), wal := w.1.map (mpWal db top) }

/-- extractMeasurements as exposed to the harness: `none` when Decode fails -/
def mpExtract (top : Top) : Option (List Name) := (decodeTop top).map (fun r => dedupe (extractIs r))

/-! ## line protocol -/
inductive Point
  | p (m : Name) (tags fields : List Name)
  | junk                                   -- comment / no field set: parser returns nil
deriving Repr

inductive LpEp | v1 | v2 | simple | imp
deriving DecidableEq, Repr

def orDefault (s : Name) : Name := if s = [] then defaultDB else s

/-- database resolution per endpoint (`none`: "database is required") -/
def lpDb : LpEp → (hdr qdb qbucket : Name) → Option Name
  | .v1, hdr, qdb, _ => some (if hdr = [] then orDefault qdb else hdr)
  | .v2, hdr, _, qb => some (if hdr = [] then orDefault qb else hdr)
  | .simple, hdr, _, _ => some (orDefault hdr)
  | .imp, hdr, qdb, _ => let d := if hdr = [] then qdb else hdr; if d = [] then none else some d

/-- parser: lines without measurement or without fields are dropped -/
def parsePoints : List Point → List (Name × List Name)
  | [] => []
  | .junk :: ps => parsePoints ps
  | .p m tags fields :: ps =>
      if m = [] || fields = [] then parsePoints ps else (m, tags ++ fields) :: parsePoints ps

def groupOf (recs : List (Name × List Name)) (m : Name) : Name × List (List Name) :=
  (m, (recs.filter (·.1 = m)).map (·.2))

/-- handleWrite / handleLineProtocolImport after parsing: RBAC over the distinct measurements, THEN name
validation, then one buffer write per measurement -/
def lpCore (c : Cfg) (db : Name) (flush : Bool) (recs : List (Name × List Name)) : Out :=
  if recs = [] then reject .bad else
  if c.active && !(dedupe (recs.map (·.1))).all (c.allow db) then
    { status := .denied, db := db, checked := if c.active then dedupe (recs.map (·.1)) else [] } else
  if !(dedupe (recs.map (·.1))).all validMeas then
    { status := .bad, db := db, checked := if c.active then dedupe (recs.map (·.1)) else [] } else
  { status := .ok, db := db, checked := if c.active then dedupe (recs.map (·.1)) else [],
    keys := (dedupe (recs.map (·.1))).map (fun m => ⟨db, m⟩), flushed := flush,
    wal := (dedupe (recs.map (·.1))).map (fun m => walRows db m (groupOf recs m).2) }

def lpHandle (c : Cfg) (ep : LpEp) (hdr qdb qbucket qmeas : Name) (pts : List Point) : Out :=
  match lpDb ep hdr qdb qbucket with
  | none => reject .bad
  | some db =>
    if !validDB db then reject .bad else
    if ep = .imp && qmeas ≠ [] && !validMeas qmeas then reject .bad else
    if parsePoints pts = [] then reject .bad else
    lpCore c db (ep = .imp)
      (if ep = .imp && qmeas ≠ [] then (parsePoints pts).filter (·.1 = qmeas) else parsePoints pts)

/-! ## single-target endpoints: CSV / Parquet import, TLE write, TLE import -/
inductive OneEp | csv | parquet | tle | itle
deriving DecidableEq, Repr

def oneDb : OneEp → (hdr qdb : Name) → Option Name
  | .tle, hdr, _ => some (orDefault hdr)
  | _, hdr, qdb => let d := if hdr = [] then qdb else hdr; if d = [] then none else some d

/-- importPreamble (CSV / Parquet): database, measurement, RBAC. -/
structure Pre where
  status : Status
  db : Name
  m : Name
  checked : List Name

def importPreamble (c : Cfg) (hdr qdb mparam : Name) : Pre :=
  let d := if hdr = [] then qdb else hdr
  if d = [] then ⟨.bad, [], [], []⟩ else
  if !validDB d then ⟨.bad, [], [], []⟩ else
  if mparam = [] then ⟨.bad, [], [], []⟩ else
  if !validMeas mparam then ⟨.bad, [], [], []⟩ else
  if c.active && !c.allow d mparam then ⟨.denied, [], [], [mparam]⟩ else
  ⟨.ok, d, mparam, if c.active then [mparam] else []⟩

/-- handleCSVImport / handleParquetImport: a rejected preamble (sentinel error) ends the request; `fileOk` = the
file is accepted by the in-process reader (parses AND passes validateImportHeader). -/
def importCore (c : Cfg) (hdr qdb mparam : Name) (fileOk : Bool) (cols : List Name) : Out :=
  let p := importPreamble c hdr qdb mparam
  let rdb := if hdr = [] then qdb else hdr
  if p.status ≠ .ok then { status := p.status, db := rdb, checked := p.checked } else
  if !fileOk then { status := .bad, db := rdb, checked := p.checked } else
  { status := .ok, db := rdb, checked := p.checked, keys := [⟨p.db, p.m⟩], flushed := true,
    wal := [walRows p.db p.m [cols]] }

/-- validateImportHeader: a column whose name starts with '_' is refused (400) — such names are reserved for
internal columns and the Parquet writer would not store them -/
def underscoreCol (cols : List Name) : Bool := cols.any (fun c => c.head? = some underscore)

/-- `parses`: the uploaded bytes are a readable CSV / Parquet file with a time column -/
def importOne (c : Cfg) (hdr qdb mparam : Name) (parses : Bool) (cols : List Name) : Out :=
  importCore c hdr qdb mparam (parses && !underscoreCol cols) cols

/-- `mparam`: `measurement` query parameter (csv, parquet) / `x-arc-measurement` header (tle, itle);
`fileOk`: the uploaded body parses; `cols`: the column names found in the file. -/
def oneHandle (c : Cfg) (ep : OneEp) (hdr qdb mparam : Name) (fileOk : Bool) (cols : List Name) : Out :=
  if ep = .csv || ep = .parquet then importOne c hdr qdb mparam fileOk cols else
  match oneDb ep hdr qdb with
  | none => reject .bad
  | some db =>
    if !validDB db then reject .bad else
    let m := if mparam = [] then satelliteTle else mparam
    if !validMeas m then reject .bad else
    if !fileOk then reject .bad else
    let chk := if c.active then [m] else []
    if c.active && !c.allow db m then { status := .denied, db := db, checked := chk } else
    { status := .ok, db := db, checked := chk, keys := [⟨db, m⟩], flushed := ep ≠ .tle,
      wal := [walRows db m [cols]] }

/-! ## buffer key, flush split, storage path -/
/-- writeColumnarInternal / writeTypedColumnarRaw: `database + "/" + measurement` -/
def bufferKey (k : Key) : Name := k.db ++ slash :: k.m

/-- splitBufferKey: split at the FIRST slash -/
def splitKey : Name → Name × Option Name
  | [] => ([], none)
  | c :: cs => if c = slash then ([], some cs) else
      let r := splitKey cs
      (c :: r.1, r.2)

/-- generateStoragePath(database, measurement, t): `db/m/YYYY/MM/DD/HH/m_<stamp>.parquet`; `part` stands for
the four partition segments joined by '/', `stamp` for `YYYYMMDD_HHMMSS_nnnnnnnnn.parquet`. -/
def storagePath (db m part stamp : Name) : Name :=
  db ++ slash :: m ++ slash :: part ++ slash :: m ++ underscore :: stamp

/-- FlushAll on one buffer key: split, then path. `none`: "Invalid buffer key format", nothing written. -/
def flushPath (key part stamp : Name) : Option Name :=
  match splitKey key with
  | (d, some m) => some (storagePath d m part stamp)
  | (_, none) => none

/-- path segments -/
def splitSlash : Name → List Name
  | [] => [[]]
  | c :: cs => if c = slash then [] :: splitSlash cs else
      match splitSlash cs with
      | [] => [[c]]
      | s :: ss => (c :: s) :: ss

/-! ## replication: envelope and apply -/
/-- wal.ParseEnvelope(payload, "default"): `[0x01][len hi][len lo][db name][inner]`, recognised when the
payload is longer than 3 bytes and `3 + dbLen ≤ len(payload)` (computed in `int`, no wrap-around); anything
else is "no envelope": database "default", payload unchanged. -/
def parseEnvelope (p : List UInt8) : Name × List UInt8 :=
  match p with
  | mk :: hi :: lo :: rest =>
    if mk = 1 && rest ≠ [] then
      let dbLen := hi.toNat * 256 + lo.toNat
      if 3 + dbLen ≤ p.length then (rest.take dbLen, rest.drop dbLen) else (defaultDB, p)
    else (defaultDB, p)
  | _ => (defaultDB, p)

/-- envelope header written by AppendRawWithMeta (db names ≤ 255 bytes) -/
def envelope (db : Name) (inner : List UInt8) : List UInt8 :=
  1 :: UInt8.ofNat (db.length / 256) :: UInt8.ofNat (db.length % 256) :: (db ++ inner)

/-- decoded inner payload of a replicated entry -/
inductive Inner
  | colmap (m : Option Name) (ncols : Nat)   -- a map; `m` = its "m" when that is a string; ncols = usable columns
  | rows (rs : List Row)                     -- an array of maps
  | garbage
deriving Repr

def rowStr (r : Row) (k : Name) : Name :=
  match r.find? (fun kv => kv.1 = k) with
  | some (_, .s v) => v
  | _ => []

def dedupeK : List Key → List Key
  | [] => []
  | x :: xs => if x ∈ dedupeK xs then dedupeK xs else x :: dedupeK xs

/-- where a replicated row goes: `_measurement` (rows without it are skipped) under `_database`, else the
database ParseEnvelope reported -/
def rowTarget (db : Name) (r : Row) : Option Key :=
  if rowStr r kUMeas = [] then none else
    some ⟨if rowStr r kUDb = [] then db else rowStr r kUDb, rowStr r kUMeas⟩

def rowHasData (r : Row) : Bool := r.any (fun kv => !(kv.1 ∈ routingKeys))

/-- buildReplicationIngestHandler after ParseEnvelope: the keys written to the reader's ArrowBuffer -/
def applyInner (db : Name) : Inner → List Key
  | .colmap (some m) n => if m ≠ [] && n ≠ 0 then [⟨db, m⟩] else []
  | .colmap none _ => []
  | .rows rs =>
      (dedupeK (rs.filterMap (rowTarget db))).filter
        (fun t => (rs.filter (fun r => rowTarget db r = some t)).any rowHasData)
  | .garbage => []

/-- what the reader decodes from a writer-side WAL entry, and under which database -/
def applyWal : WalEntry → List Key
  | .raw db m n => applyInner db (.colmap m n)                 -- envelope carries the writer's database
  | .rows rs => applyInner defaultDB (.rows rs)               -- no envelope: the rows' own `_database` routes

def replicate (o : Out) : List Key := o.wal.flatMap applyWal

end Arc.C32
