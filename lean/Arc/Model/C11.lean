import Arc.Generated.C11
/-
C11 — model of `internal/api/retention.go`: cutoff computation (`now.UTC().AddDate(0,0,-(ret+buf))`),
measurement discovery (`getMeasurementsToProcess`), per-file `MAX(time)` decision of
`deleteOldFiles` with the comparator GENERATED from the source, listing by key prefix
(`db/` and `db/m/`, trailing slash generated from the source), dry run.

The object store is a list of files keyed by path; listing is by *string prefix* on the key (what
S3/Azure do; for the LocalBackend a directory walk of `db/m/` returns exactly the keys with that
string prefix — validated by the correspondence). A file carries the `time` column of its rows
(µs, `none` = NULL). `MAX(time)` over no non-NULL value is NULL, which the Go code cannot scan into
`time.Time`: the file is skipped (kept).

Core-only, executable. Strings are `List Char`.
-/
namespace Arc.C11
open Arc.Generated.C11 (TimeCmp)

abbrev Str := List Char

structure PFile where
  path : Str
  times : List (Option Int)
deriving Repr, DecidableEq

abbrev Store := List PFile

def nsPerDay : Int := 86400 * 1000000000

/-- `time.Now().UTC().AddDate(0, 0, -(ret+buf))` in unix ns (UTC days are 86400 s in Go). -/
def cutoffNs (nowNs ret buf : Int) : Int := nowNs - (ret + buf) * nsPerDay

/-- `MAX(time)`; `none` = SQL NULL -/
def maxTime : List (Option Int) → Option Int
  | [] => none
  | none :: ts => maxTime ts
  | some t :: ts =>
    match maxTime ts with
    | none => some t
    | some m => some (if t < m then m else t)

def cmpFn : TimeCmp → Int → Int → Bool
  | .before, a, b => decide (a < b)
  | .notAfter, a, b => decide (a ≤ b)

/-- `maxTime.Before(cutoffDate)` (MAX(time) is µs, the cutoff ns); a NULL maximum is a scan error ⇒ skipped. -/
def eligible (k : TimeCmp) (cutoff : Int) (f : PFile) : Bool :=
  match maxTime f.times with
  | some m => cmpFn k (m * 1000) cutoff
  | none => false

def lowerAscii (c : Char) : Char :=
  if 'A' ≤ c ∧ c ≤ 'Z' then Char.ofNat (c.toNat + 32) else c

/-- `strings.HasSuffix(strings.ToLower(f), ".parquet")` -/
def isParquet (p : Str) : Bool := (".parquet".toList).isSuffixOf (p.map lowerAscii)

def slash (b : Bool) : Str := if b then ['/'] else []

/-- `database + "/" + measurement + "/"` -/
def measPrefix (ts : Bool) (db m : Str) : Str := db ++ '/' :: (m ++ slash ts)

/-- `policy.Database + "/"` -/
def dbPrefix (ts : Bool) (db : Str) : Str := db ++ slash ts

def listed (store : Store) (pre : Str) : Store := store.filter (fun f => pre.isPrefixOf f.path)

def firstComp (s : Str) : Str := s.takeWhile (· != '/')

def startsWithDot : Str → Bool
  | '.' :: _ => true
  | _ => false

def dedup : List Str → List Str
  | [] => []
  | x :: xs => if xs.contains x then dedup xs else x :: dedup xs

/-- measurement discovery: first path component under `db/` of every listed key -/
def discovered (dts : Bool) (store : Store) (db : Str) : List Str :=
  dedup (((listed store (dbPrefix dts db)).map
      (fun f => firstComp (f.path.drop (dbPrefix dts db).length))).filter
        (fun m => !m.isEmpty && !startsWithDot m))

structure Policy where
  db : Str
  meas : Option Str
  ret : Int
  buf : Int
deriving Repr

def measurements (dts : Bool) (store : Store) (pol : Policy) : List Str :=
  match pol.meas with
  | some m => if m.isEmpty then discovered dts store pol.db else [m]
  | none => discovered dts store pol.db

structure Cfg where
  cmp : TimeCmp
  mts : Bool   -- trailing slash of the measurement prefix
  dts : Bool   -- trailing slash of the database prefix

/-- is `f` listed for one of the policy's measurements? -/
def covered (c : Cfg) (store : Store) (pol : Policy) (f : PFile) : Bool :=
  (measurements c.dts store pol).any (fun m => (measPrefix c.mts pol.db m).isPrefixOf f.path)

/-- the files a run of the policy deletes -/
def selected (c : Cfg) (store : Store) (pol : Policy) (cutoff : Int) (f : PFile) : Bool :=
  covered c store pol f && isParquet f.path && eligible c.cmp cutoff f

structure Report where
  cutoff : Int
  rows : Nat
  files : Nat
  meas : List Str
deriving Repr, DecidableEq

def rowCount (fs : Store) : Nat := (fs.map (·.times.length)).sum

def run (c : Cfg) (dry : Bool) (store : Store) (pol : Policy) (nowNs : Int) : Store × Report :=
  let cutoff := cutoffNs nowNs pol.ret pol.buf
  let sel := store.filter (selected c store pol cutoff)
  (if dry then store else store.filter (fun f => !selected c store pol cutoff f),
   { cutoff := cutoff, rows := rowCount sel, files := sel.length, meas := measurements c.dts store pol })

/-- `handleExecute` (HTTP): the body's `dry_run` / `confirm` flags (absent = false). Which field
decides "dry run" is GENERATED from the source (`DryGate`). `none` = 400 "confirmation required". -/
def execHttp (g : Arc.Generated.C11.DryGate) (c : Cfg) (dryFlag confirm : Bool)
    (store : Store) (pol : Policy) (nowNs : Int) : Store × Option Report :=
  match g with
  | .reqDryRun =>
    if !dryFlag && !confirm then (store, none)
    else ((run c dryFlag store pol nowNs).1, some (run c dryFlag store pol nowNs).2)
  | .notConfirm =>
    if !confirm && !dryFlag then (store, none)
    else ((run c (!confirm) store pol nowNs).1, some (run c (!confirm) store pol nowNs).2)

/-! ### execution records and crashes

`retention_executions` rows (`running` at start, `completed`/`failed` at the end). A killed run
leaves its row `running` forever. The code that exists never reads these rows when it runs a policy
(generated fact `runIgnoresExecutionRecords`), so in the model a run is a function of the store
only; the rows are carried along to state exactly that. -/

inductive ExecStatus | running | completed | failed
deriving DecidableEq, Repr

structure Sys where
  store : Store
  execs : List (Nat × ExecStatus)   -- (policy id, status), newest first

/-- a scheduled / confirmed run of policy `pid` -/
def Sys.exec (c : Cfg) (s : Sys) (pid : Nat) (pol : Policy) (nowNs : Int) : Sys × Report :=
  ({ store := (run c false s.store pol nowNs).1, execs := (pid, .completed) :: s.execs },
   (run c false s.store pol nowNs).2)

/-- a run of policy `pid` killed after it removed the files `gone` (any subset of the store) and
before `recordExecutionComplete` -/
def Sys.crash (s : Sys) (pid : Nat) (gone : PFile → Bool) : Sys :=
  { store := s.store.filter (fun f => !gone f), execs := (pid, .running) :: s.execs }

/-- `handleCreate` validation -/
def policyValid (pol : Policy) : Bool := decide (0 < pol.ret) && decide (pol.buf < pol.ret)

/-- the configuration read from the current source -/
def srcCfg : Cfg :=
  { cmp := Arc.Generated.C11.comparator,
    mts := Arc.Generated.C11.measPrefixTrailingSlash,
    dts := Arc.Generated.C11.dbPrefixTrailingSlash }

end Arc.C11
