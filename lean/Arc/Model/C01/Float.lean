import Arc.Model.C01.Bytes
/-
C01 — executable transcription of Go `strconv.ParseFloat(s, 64)` (internal/strconv/atof.go:
`special`, `readFloat`, `underscoreOK`) with the numeric conversion done *exactly* on rationals
(round to nearest, ties to even), which is what Go's exact/Eisel-Lemire/`decimal` paths and `atofHex`
all implement.  Result: IEEE-754 bit pattern, or `none` for a syntax or range error.
Used by the correspondence driver only; the theorems take `parseFloat` as a parameter.
Known modelling limit: mantissas with > 800 significant digits / exponents saturating at 10000
(never produced by the harness).
-/
namespace Arc.C01.Float
open Arc.C01

def lowerOr (b : UInt8) : UInt8 := b ||| 0x20

def commonPrefixLenIC : Bytes → Bytes → Nat
  | c :: s, p :: ps =>
    let c' := if 65 ≤ c && c ≤ 90 then c + 32 else c
    if c' == p then 1 + commonPrefixLenIC s ps else 0
  | _, _ => 0

/-- `special`: (bits, consumed) -/
def special (s : Bytes) : Option (UInt64 × Nat) :=
  let infPart (neg : Bool) (nsign : Nat) (t : Bytes) : Option (UInt64 × Nat) :=
    let n := commonPrefixLenIC t (str "infinity")
    let n := if 3 < n && n < 8 then 3 else n
    if n == 3 || n == 8 then
      some (if neg then 0xFFF0000000000000 else 0x7FF0000000000000, nsign + n)
    else none
  match s with
  | [] => none
  | c :: r =>
    if c == 43 then infPart false 1 r
    else if c == 45 then infPart true 1 r
    else if c == 105 || c == 73 then infPart false 0 s
    else if c == 110 || c == 78 then
      if commonPrefixLenIC s (str "nan") == 3 then some (0x7FF8000000000001, 3) else none
    else none

/-- `underscoreOK` -/
def underscoreOK (s : Bytes) : Bool :=
  let s := match s with
    | c :: r => if c == 45 || c == 43 then r else s
    | [] => s
  let (hex, body, saw0) : Bool × Bytes × UInt8 := match s with
    | a :: b :: r =>
      if a == 48 && (lowerOr b == 98 || lowerOr b == 111 || lowerOr b == 120) then
        (lowerOr b == 120, r, 48) else (false, s, 94)
    | _ => (false, s, 94)
  let rec go : Bytes → UInt8 → Bool
    | [], saw => saw != 95
    | c :: r, saw =>
      if isDigit c || (hex && 97 ≤ lowerOr c && lowerOr c ≤ 102) then go r 48
      else if c == 95 then (if saw != 48 then false else go r 95)
      else if saw == 95 then false
      else go r 33
  go body saw0

structure MantSt where
  sawdot : Bool := false
  sawdigits : Bool := false
  underscores : Bool := false
  nd : Nat := 0
  dp : Int := 0
  mant : Nat := 0

/-- the digit loop of `readFloat` (mantissa kept exactly, never truncated) -/
def readMant (hex : Bool) : Bytes → MantSt → MantSt × Bytes
  | [], st => (st, [])
  | c :: r, st =>
    if c == 95 then readMant hex r { st with underscores := true }
    else if c == 46 then
      if st.sawdot then (st, c :: r) else readMant hex r { st with sawdot := true, dp := st.nd }
    else if isDigit c then
      if c == 48 && st.nd == 0 then readMant hex r { st with sawdigits := true, dp := st.dp - 1 }
      else readMant hex r { st with sawdigits := true, nd := st.nd + 1,
                                    mant := st.mant * (if hex then 16 else 10) + (c.toNat - 48) }
    else if hex && 97 ≤ lowerOr c && lowerOr c ≤ 102 then
      readMant hex r { st with sawdigits := true, nd := st.nd + 1,
                               mant := st.mant * 16 + ((lowerOr c).toNat - 97 + 10) }
    else (st, c :: r)

/-- exponent digits: returns (e saturating as in Go, sawUnderscore, rest) -/
def readExp : Bytes → Nat → Bool → Nat × Bool × Bytes
  | [], e, u => (e, u, [])
  | c :: r, e, u =>
    if c == 95 then readExp r e true
    else if isDigit c then readExp r (if e < 10000 then e * 10 + (c.toNat - 48) else e) u
    else (e, u, c :: r)

/-- Round the positive rational n/m to the nearest double (ties to even).
`some bits` without sign, `none` on overflow. -/
def roundRat (n m : Nat) : Option Nat :=
  if n == 0 then some 0 else
  let l : Int := (Nat.log2 n : Int) - (Nat.log2 m : Int)
  let ge : Bool := if l ≥ 0 then decide (n ≥ m * 2 ^ l.toNat) else decide (n * 2 ^ (-l).toNat ≥ m)
  let ex : Int := if ge then l else l - 1
  let ulp : Int := if ex - 52 < -1074 then -1074 else ex - 52
  let num : Nat := if ulp ≥ 0 then n else n * 2 ^ (-ulp).toNat
  let den : Nat := if ulp ≥ 0 then m * 2 ^ ulp.toNat else m
  let q := num / den
  let r := num % den
  let q := if 2 * r > den || (2 * r == den && q % 2 == 1) then q + 1 else q
  let ulp := if q == 2 ^ 53 then ulp + 1 else ulp
  let q := if q == 2 ^ 53 then 2 ^ 52 else q
  if q < 2 ^ 52 then some q
  else
    let biased := ulp + 1075
    if biased ≥ 2047 then none else some (biased.toNat * 2 ^ 52 + (q - 2 ^ 52))

def signBit (neg : Bool) (b : Nat) : UInt64 :=
  UInt64.ofNat (if neg then b + 2 ^ 63 else b)

/-- `readFloat` + conversion; requires the whole string to be consumed (as `ParseFloat` does). -/
def parseNumber (s : Bytes) : Option UInt64 :=
  match s with
  | [] => none
  | c0 :: r0 =>
    let neg := c0 == 45
    let body := if c0 == 43 || c0 == 45 then r0 else s
    -- hex prefix needs at least one more byte after "0x"
    let (hex, body) : Bool × Bytes := match body with
      | a :: b :: c :: r => if a == 48 && lowerOr b == 120 then (true, c :: r) else (false, body)
      | _ => (false, body)
    let (st, rest) := readMant hex body {}
    if !st.sawdigits then none else
    let dp : Int := if st.sawdot then st.dp else st.nd
    let dp : Int := if hex then dp * 4 else dp
    let ndBits : Int := if hex then st.nd * 4 else st.nd
    let expChar : UInt8 := if hex then 112 else 101
    -- optional exponent
    let ex? : Option (Int × Bool × Bytes) :=
      match rest with
      | c :: r =>
        if lowerOr c == expChar then
          match r with
          | [] => none
          | d :: r' =>
            let esign : Int := if d == 45 then -1 else 1
            let r2 := if d == 43 || d == 45 then r' else r
            match r2 with
            | [] => none
            | d2 :: _ =>
              if !isDigit d2 then none else
              let (e, u, rest') := readExp r2 0 false
              some ((e : Int) * esign, u, rest')
        else if hex then none else some (0, false, rest)
      | [] => if hex then none else some (0, false, [])
    match ex? with
    | none => none
    | some (e, u, rest') =>
      if !rest'.isEmpty then none else
      if (st.underscores || u) && !underscoreOK s then none else
      if st.mant == 0 then some (signBit neg 0) else
      let E : Int := dp + e - ndBits        -- value = mant * base^E  (base 2 for hex)
      let bits? : Option Nat :=
        if hex then
          if E > 3000 then none
          else if ndBits + E < -3000 then some 0
          else if E ≥ 0 then roundRat (st.mant * 2 ^ E.toNat) 1 else roundRat st.mant (2 ^ (-E).toNat)
        else
          if E > 400 then none
          else if (st.nd : Int) + E < -400 then some 0
          else if E ≥ 0 then roundRat (st.mant * 10 ^ E.toNat) 1 else roundRat st.mant (10 ^ (-E).toNat)
      bits?.map (signBit neg)

/-- `strconv.ParseFloat(s, 64)`: `some bits` iff err == nil. -/
def parseFloat (s : Bytes) : Option UInt64 :=
  match special s with
  | some (bits, n) => if n == s.length then some bits else none
  | none => parseNumber s

/-- Go `float64(v)` for an integer (round to nearest even). -/
def ofInt (v : Int) : UInt64 :=
  match roundRat v.natAbs 1 with
  | some b => signBit (decide (v < 0)) b
  | none => 0

/-- Go `int64(f)` on amd64 for a float64 that passed arc's `toInt64` range guard
(NaN and 2^63 give the "integer indefinite" value MinInt64).  `none` = guard rejects. -/
def toInt64 (bits : UInt64) : Option Int :=
  let b := bits.toNat
  let neg := b ≥ 2 ^ 63
  let e := (b / 2 ^ 52) % 2048
  let m := b % 2 ^ 52
  if e == 2047 then
    if m != 0 then some (-9223372036854775808)     -- NaN passes both comparisons
    else none                                       -- ±Inf rejected
  else
    let mag : Nat :=
      if e == 0 then 0
      else
        let full := m + 2 ^ 52
        if e ≥ 1075 then full * 2 ^ (e - 1075) else full / 2 ^ (1075 - e)
    if neg then (if mag > 2 ^ 63 then none else some (-(mag : Int)))
    else (if mag > 2 ^ 63 then none else if mag == 2 ^ 63 then some (-9223372036854775808) else some mag)

end Arc.C01.Float
