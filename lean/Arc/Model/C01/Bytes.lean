/-
C01 — byte-level helpers that transcribe the Go standard-library functions the line-protocol
parser relies on: `bytes.TrimSpace` (Unicode-aware, Go's rune decoding at both ends),
`utf8.Valid`, `sanitizeUTF8SlowPath`, `bytes.IndexByte`-style cut, `strconv.ParseInt/ParseUint`
(base 10, 64 bit).  Core Lean only, executable.
-/
namespace Arc.C01

abbrev Bytes := List UInt8

abbrev cBS : UInt8 := 92   -- '\\'
abbrev cDQ : UInt8 := 34   -- '"'
abbrev cSP : UInt8 := 32   -- ' '
abbrev cCM : UInt8 := 44   -- ','
abbrev cEQ : UInt8 := 61   -- '='
abbrev cNL : UInt8 := 10   -- '\n'
abbrev cHash : UInt8 := 35 -- '#'

def str (s : String) : Bytes := s.toUTF8.toList

/-- Go `asciiSpace` table = `unicode.IsSpace` restricted to ASCII. -/
def isAsciiSpace (b : UInt8) : Bool :=
  b == 9 || b == 10 || b == 11 || b == 12 || b == 13 || b == 32

/-- `unicode.IsSpace` beyond ASCII as 2-byte UTF-8: U+0085, U+00A0. -/
def uniSpace2 (a b : UInt8) : Bool := a == 0xC2 && (b == 0x85 || b == 0xA0)

/-- … as 3-byte UTF-8: U+1680, U+2000–U+200A, U+2028, U+2029, U+202F, U+205F, U+3000. -/
def uniSpace3 (a b c : UInt8) : Bool :=
  (a == 0xE1 && b == 0x9A && c == 0x80) ||
  (a == 0xE2 && b == 0x80 && ((0x80 ≤ c && c ≤ 0x8A) || c == 0xA8 || c == 0xA9 || c == 0xAF)) ||
  (a == 0xE2 && b == 0x81 && c == 0x9F) ||
  (a == 0xE3 && b == 0x80 && c == 0x80)

/-- Number of leading bytes forming one rune that `bytes.TrimSpace` strips (0 = none).
`utf8.DecodeRune` yields one of the space runes only for exactly these byte sequences. -/
def spacePrefixLen : Bytes → Nat
  | [] => 0
  | [a] => if isAsciiSpace a then 1 else 0
  | [a, b] => if isAsciiSpace a then 1 else if uniSpace2 a b then 2 else 0
  | a :: b :: c :: _ =>
    if isAsciiSpace a then 1 else if uniSpace2 a b then 2 else if uniSpace3 a b c then 3 else 0

/-- Same for the *reversed* string (argument = `s.reverse`): `utf8.DecodeLastRune` walks back to the
nearest rune-start byte; for the sequences above that is their lead byte. -/
def spaceSuffixLenR : Bytes → Nat
  | [] => 0
  | [a] => if isAsciiSpace a then 1 else 0
  | [b, a] => if isAsciiSpace b then 1 else if uniSpace2 a b then 2 else 0
  | c :: b :: a :: _ =>
    if isAsciiSpace c then 1 else if uniSpace2 b c then 2 else if uniSpace3 a b c then 3 else 0

theorem spacePrefixLen_le (s : Bytes) : spacePrefixLen s ≤ s.length := by
  unfold spacePrefixLen
  split <;> (try split) <;> (try split) <;> (try split) <;> simp <;> omega

theorem spaceSuffixLenR_le (s : Bytes) : spaceSuffixLenR s ≤ s.length := by
  unfold spaceSuffixLenR
  split <;> (try split) <;> (try split) <;> (try split) <;> simp <;> omega

/-- strip leading space runes; `fuel` bounds the number of stripped runes (each is ≥ 1 byte, so
`s.length` always suffices) — structural recursion keeps the definition kernel-reducible. -/
def trimLeftN : Nat → Bytes → Bytes
  | 0, s => s
  | n + 1, s => if spacePrefixLen s = 0 then s else trimLeftN n (s.drop (spacePrefixLen s))

def trimRightRN : Nat → Bytes → Bytes
  | 0, s => s
  | n + 1, s => if spaceSuffixLenR s = 0 then s else trimRightRN n (s.drop (spaceSuffixLenR s))

def trimLeft (s : Bytes) : Bytes := trimLeftN s.length s

def trimRightR (s : Bytes) : Bytes := trimRightRN s.length s

/-- `bytes.TrimSpace`. -/
def trimSpace (s : Bytes) : Bytes := (trimRightR (trimLeft s).reverse).reverse

/-! ### UTF-8 (Go `utf8.DecodeRune` acceptance) -/

def isCont (b : UInt8) : Bool := 0x80 ≤ b && b ≤ 0xBF

def ok3 (a b c : UInt8) : Bool :=
  (if a == 0xE0 then (0xA0 : UInt8) else 0x80) ≤ b && b ≤ (if a == 0xED then (0x9F : UInt8) else 0xBF) && isCont c

def ok4 (a b c d : UInt8) : Bool :=
  (if a == 0xF0 then (0x90 : UInt8) else 0x80) ≤ b && b ≤ (if a == 0xF4 then (0x8F : UInt8) else 0xBF) &&
    isCont c && isCont d

/-- Size (1..4) of the valid encoding at the head, or 0 when `DecodeRune` returns (RuneError, 1)
(also 0 on empty input). -/
def runeLen : Bytes → Nat
  | [] => 0
  | a :: rest =>
    if a < 0x80 then 1
    else if 0xC2 ≤ a && a ≤ 0xDF then
      match rest with
      | b :: _ => if isCont b then 2 else 0
      | _ => 0
    else if 0xE0 ≤ a && a ≤ 0xEF then
      match rest with
      | b :: c :: _ => if ok3 a b c then 3 else 0
      | _ => 0
    else if 0xF0 ≤ a && a ≤ 0xF4 then
      match rest with
      | b :: c :: d :: _ => if ok4 a b c d then 4 else 0
      | _ => 0
    else 0

theorem runeLen_le (s : Bytes) : runeLen s ≤ s.length := by
  unfold runeLen
  repeat' split
  all_goals first | omega | (simp only [List.length_cons]; omega)

/-- `utf8.Valid` (fuel = length: every step consumes ≥ 1 byte; structural, kernel-reducible). -/
def validUTF8N : Nat → Bytes → Bool
  | 0, s => s.isEmpty
  | n + 1, s =>
    match s with
    | [] => true
    | a :: rest =>
      if runeLen (a :: rest) = 0 then false else validUTF8N n ((a :: rest).drop (runeLen (a :: rest)))

def validUTF8 (s : Bytes) : Bool := validUTF8N s.length s

/-- `sanitizeUTF8SlowPath`: every byte at which `DecodeRune` reports (RuneError,1) becomes U+FFFD. -/
def sanitize (s : Bytes) : Bytes :=
  match s with
  | [] => []
  | a :: rest =>
    if _h : runeLen (a :: rest) = 0 then 0xEF :: 0xBF :: 0xBD :: sanitize rest
    else (a :: rest).take (runeLen (a :: rest)) ++ sanitize ((a :: rest).drop (runeLen (a :: rest)))
termination_by s.length
decreasing_by
  · simp
  · have := runeLen_le (a :: rest)
    simp [List.length_drop] at *; omega

/-- `SanitizeUTF8` (fast path: valid ⇒ unchanged). -/
def sanitizeUTF8 (s : Bytes) : Bytes := if validUTF8 s then s else sanitize s

/-! ### cutting at the first occurrence of a byte (`bytes.IndexByte` + slicing) -/

def cutAt (d : UInt8) : Bytes → Option (Bytes × Bytes)
  | [] => none
  | b :: r =>
    if b = d then some ([], r)
    else match cutAt d r with
      | some (k, v) => some (b :: k, v)
      | none => none

/-! ### integers -/

def isDigit (b : UInt8) : Bool := 48 ≤ b && b ≤ 57

/-- Horner value of a string of ASCII digits; `none` if a non-digit occurs. -/
def digitsVal : Nat → Bytes → Option Nat
  | acc, [] => some acc
  | acc, b :: r => if isDigit b then digitsVal (acc * 10 + (b.toNat - 48)) r else none

/-- `strconv.ParseUint(s, 10, 64)` → `none` on syntax or range error. -/
def parseUint64 (s : Bytes) : Option Nat :=
  if s.isEmpty then none else
  match digitsVal 0 s with
  | some n => if n < 18446744073709551616 then some n else none
  | none => none

/-- `strconv.ParseInt(s, 10, 64)` → `none` on syntax or range error. -/
def parseInt64 (s : Bytes) : Option Int :=
  match s with
  | [] => none
  | c :: r =>
    let neg := c == 45
    let body := if c == 43 || c == 45 then r else s
    match parseUint64 body with
    | none => none
    | some n =>
      if neg then (if n ≤ 9223372036854775808 then some (-(n : Int)) else none)
      else (if n < 9223372036854775808 then some (n : Int) else none)

/-- `if ca >= 'A' && ca <= 'Z' { ca += 32 }` -/
def lowerAZ (a : UInt8) : UInt8 := if 65 ≤ a && a ≤ 90 then a + 32 else a

/-- ASCII case-insensitive equality with a lower-case constant (`bytesEqualFold`). -/
def eqFold : Bytes → Bytes → Bool
  | [], [] => true
  | a :: as, b :: bs => lowerAZ a == b && eqFold as bs
  | _, _ => false

end Arc.C01
