import Arc.Generated.C20
/-
C20 — executable model of the RBAC permission check of `internal/auth/rbac_manager.go`
(`CheckPermission`, `CheckPermissionsBatch`, `getTokenRBACData`, `checkRBACPermissionCached`,
`checkOSSPermission`, `matchPattern`, `containsPermission`), of its two caches (permission-result
cache and per-token RBAC-data cache, both TTL'd), and of every mutation of the RBAC / token tables in
the direct-database mode (`RBACManager.Create*/Update*/Delete*/AddTokenToTeam/RemoveTokenFromTeam`,
`AuthManager.CreateToken/UpdateToken/RevokeToken/DeleteToken/RotateToken`) and in the cluster-apply
mode (the same entry points with a Raft proposer: proposer-side pre-checks, FSM validation, then
`Apply*` of `cluster_rbac_apply.go` / `cluster_apply.go`).

Which cache invalidation a successful mutation performs is NOT written here: it is read from
`Arc.Generated.C20.invalidation`, regenerated from the current source by factgen on every run.

The request path is the production one: `VerifyToken` (yields the token's *current* row, or nothing
for a missing / disabled token — the token cache of `AuthManager` is property C21) and then
`CheckPermission{TokenInfo, db, measurement, permission}`.

Strings are `List Char`; time is an `Int` of nanoseconds. New row ids are inputs of the create ops
(chosen by SQLite AUTOINCREMENT / the Raft log index in the real system); the model only requires
them to be fresh (token ids: never used before). Core-only, executable.
-/
namespace Arc.C20

abbrev Str := List Char

inductive Mode | direct | cluster
deriving DecidableEq, Repr

/-! ## tables -/

structure Token where
  id : Nat
  name : Str
  perms : List Str      -- `strings.Split(permissions, ",")`, `[]` for the empty string
  enabled : Bool
deriving Repr, DecidableEq

structure Org where
  id : Nat
  name : Str
  enabled : Bool
deriving Repr, DecidableEq

structure Team where
  id : Nat
  org : Nat
  name : Str
  enabled : Bool
deriving Repr, DecidableEq

structure Role where
  id : Nat
  team : Nat
  pattern : Str
  perms : List Str
deriving Repr, DecidableEq

structure MP where
  id : Nat
  role : Nat
  pattern : Str
  perms : List Str
deriving Repr, DecidableEq

structure Mem where
  id : Nat
  tok : Nat
  team : Nat
deriving Repr, DecidableEq

structure Tables where
  tokens : List Token := []
  orgs : List Org := []
  teams : List Team := []
  roles : List Role := []
  mps : List MP := []
  mems : List Mem := []
  /-- strict upper bound of every token id ever issued (AUTOINCREMENT / log index never reuse ids) -/
  tokBound : Nat := 0
  /-- cluster mode: tokens with id ≥ this are known to the Raft FSM. 0 in a history that starts in
  cluster mode; set to `tokBound` by the direct→cluster switch (tokens created before the switch
  live in local SQLite only — the upgrade seed replicates organizations, nothing else). -/
  fsmTokFrom : Nat := 0
deriving Repr

/-! ## the policy (cache-free evaluator) -/

/-- `matchPattern(pattern, value)`. -/
def matchPattern (p v : Str) : Bool :=
  if p == ['*'] then true
  else if ['_', '*'].isSuffixOf p then (p.dropLast).isPrefixOf v          -- "x_*": HasPrefix(v, "x_")
  else if ['*', '_'].isPrefixOf p then (p.drop 1).isSuffixOf v           -- "*_x": HasSuffix(v, "_x")
  else if ['*'].isSuffixOf p then (p.dropLast).isPrefixOf v              -- "x*": HasPrefix(v, "x")
  else p == v

def adminStr : Str := "admin".toList

/-- `containsPermission` / the loop of `checkOSSPermission`. -/
def containsPerm (perms : List Str) (target : Str) : Bool :=
  perms.any fun p => p == adminStr || p == target

/-- What `loadTokenRBACData` reads for one token: its teams, their roles, their measurement perms. -/
structure TokData where
  teams : List Team
  roles : List Role
  mps : List MP
deriving Repr, DecidableEq

def memberTeams (tb : Tables) (tid : Nat) : List Team :=
  tb.teams.filter fun t => tb.mems.any fun m => m.tok == tid && m.team == t.id

def loadData (tb : Tables) (tid : Nat) : TokData :=
  let ts := memberTeams tb tid
  let rs := tb.roles.filter fun r => ts.any fun t => t.id == r.team
  let ms := tb.mps.filter fun p => rs.any fun r => r.id == p.role
  { teams := ts, roles := rs, mps := ms }

/-- one role of `checkRBACPermissionCached`'s inner loop -/
def roleGrants (d : TokData) (r : Role) (db meas perm : Str) : Bool :=
  matchPattern r.pattern db &&
    (let ms := d.mps.filter fun p => p.role == r.id
     if !meas.isEmpty && !ms.isEmpty then
       ms.any fun p => matchPattern p.pattern meas && containsPerm p.perms perm
     else containsPerm r.perms perm)

/-- `checkRBACPermissionCached` (TokenInfo.Enabled is always true on the VerifyToken path). -/
def rbacAllows (d : TokData) (db meas perm : Str) : Bool :=
  d.teams.any fun t => t.enabled &&
    (d.roles.filter fun r => r.team == t.id).any fun r => roleGrants d r db meas perm

inductive Src | rbac | token | denied | unauth
deriving DecidableEq, Repr

structure Dec where
  allowed : Bool
  src : Src
deriving DecidableEq, Repr

structure Key where
  tid : Nat
  db : Str
  meas : Str
  perm : Str
deriving DecidableEq, Repr

/-- `checkPermissionUncached` given the token's own permissions and its RBAC data. -/
def evalData (perms : List Str) (d : TokData) (k : Key) : Dec :=
  if d.teams.isEmpty then
    (if containsPerm perms k.perm then ⟨true, .token⟩ else ⟨false, .denied⟩)
  else if rbacAllows d k.db k.meas k.perm then ⟨true, .rbac⟩
  else if containsPerm perms k.perm then ⟨true, .token⟩
  else ⟨false, .denied⟩

/-- `VerifyToken` on the current row: the permissions of an existing, enabled token. -/
def tokenInfo (tb : Tables) (tid : Nat) : Option (List Str) :=
  match tb.tokens.find? (fun t => t.id == tid) with
  | some t => if t.enabled then some t.perms else none
  | none => none

/-- **The specification**: the decision the RBAC policy gives on the stored state. -/
def policy (tb : Tables) (k : Key) : Dec :=
  match tokenInfo tb k.tid with
  | none => ⟨false, .unauth⟩
  | some perms => evalData perms (loadData tb k.tid) k

/-! ## state with both caches -/

/-- the entry a capacity eviction removes (`for k := range cache { delete(cache, k); break }` — Go map
iteration order, i.e. arbitrary). It is an INPUT of the check ops (recorded from the real run). -/
inductive Victim
  | perm (k : Key)
  | tok (tid : Nat)
deriving DecidableEq, Repr

structure State where
  mode : Mode
  ttl : Int
  now : Int
  /-- `maxCacheSize` of BOTH caches (each is bounded separately) -/
  cap : Nat
  tb : Tables
  /-- permission-result cache: key ↦ (result, expiresAt); one binding per key -/
  permCache : List (Key × Dec × Int)
  /-- per-token RBAC data cache: token id ↦ (data, loadedAt); one binding per token -/
  tokCache : List (Nat × TokData × Int)
  /-- eviction oracle of the op being executed, and whether it has been consistent so far -/
  orc : List Victim := []
  orcOk : Bool := true
deriving Repr

def init (mode : Mode) (ttl now : Int) (cap : Nat := 10000) : State :=
  { mode := mode, ttl := ttl, now := now, cap := cap, tb := {}, permCache := [], tokCache := [] }

/-- `permCache[key]` if present and `now.Before(expiresAt)`. -/
def permLookup (s : State) (k : Key) : Option Dec :=
  match s.permCache.lookup k with
  | some (d, e) => if s.now < e then some d else none
  | none => none

/-- `evictPermCacheIfFull`: at capacity, one arbitrary entry (named by the oracle) goes. -/
def evictPerm (s : State) : State :=
  if s.permCache.length < s.cap then s
  else match s.orc with
    | .perm v :: rest =>
      { s with permCache := s.permCache.filter (fun e => !(e.1 == v)), orc := rest,
               orcOk := s.orcOk && s.permCache.any (fun e => e.1 == v) }
    | _ => { s with orcOk := false }

/-- `evictTokenCacheIfFull` — independent of the permission cache. -/
def evictTok (s : State) : State :=
  if s.tokCache.length < s.cap then s
  else match s.orc with
    | .tok v :: rest =>
      { s with tokCache := s.tokCache.filter (fun e => !(e.1 == v)), orc := rest,
               orcOk := s.orcOk && s.tokCache.any (fun e => e.1 == v) }
    | _ => { s with orcOk := false }

/-- load the token's data and store it (evicting first if the data cache is full) -/
def loadTok (s : State) (tid : Nat) : State × TokData :=
  let d := loadData s.tb tid
  let s1 := evictTok s
  ({ s1 with tokCache := (tid, d, s1.now) :: s1.tokCache.filter (fun e => !(e.1 == tid)) }, d)

/-- `getTokenRBACData`: cached if `now.Sub(loadedAt) < ttl`, else load and store. -/
def getData (s : State) (tid : Nat) : State × TokData :=
  match s.tokCache.lookup tid with
  | some (d, at_) => if s.now - at_ < s.ttl then (s, d) else loadTok s tid
  | none => loadTok s tid

def storePerm (s : State) (k : Key) (d : Dec) : State :=
  let s1 := evictPerm s
  { s1 with permCache := (k, d, s1.now + s1.ttl) :: s1.permCache.filter (fun e => !(e.1 == k)) }

/-- `cleanupExpiredCache` (the per-minute sweep): token data older than the TTL and decisions past
their expiry go — each cache by its own clock. -/
def cleanup (s : State) : State :=
  { s with tokCache := s.tokCache.filter (fun e => !(decide (s.now - e.2.2 > s.ttl))),
           permCache := s.permCache.filter (fun e => !(decide (s.now > e.2.2))) }

/-- `CheckPermission` for a verified token with own permissions `perms`; third component: cache hit. -/
def checkLive (s : State) (perms : List Str) (k : Key) : State × Dec × Bool :=
  match permLookup s k with
  | some d => (s, d, true)
  | none =>
    let r := getData s k.tid
    let d := evalData perms r.2 k
    (storePerm r.1 k d, d, false)

/-- request path: `VerifyToken`, then `CheckPermission`. -/
def checkSingle (s : State) (k : Key) : State × Dec × Bool :=
  match tokenInfo s.tb k.tid with
  | none => (s, ⟨false, .unauth⟩, false)
  | some perms => checkLive s perms k

/-- one element of `CheckPermissionsBatch`: the token's data is (re)loaded first, then the
permission cache is consulted. -/
def batchLive (s : State) (perms : List Str) (k : Key) : State × Dec × Bool :=
  let r := getData s k.tid
  match permLookup r.1 k with
  | some d => (r.1, d, true)
  | none =>
    let d := evalData perms r.2 k
    (storePerm r.1 k d, d, false)

def batchOne (s : State) (k : Key) : State × Dec × Bool :=
  match tokenInfo s.tb k.tid with
  | none => (s, ⟨false, .unauth⟩, false)
  | some perms => batchLive s perms k

def checkBatch (s : State) : List Key → State × List (Dec × Bool)
  | [] => (s, [])
  | k :: ks =>
    let r := batchOne s k
    let rest := checkBatch r.1 ks
    (rest.1, (r.2.1, r.2.2) :: rest.2)

/-! ## invalidation -/

inductive Inv | none | token | all
deriving DecidableEq, Repr

inductive Scan | always | ifData | never
deriving DecidableEq, Repr

/-- structure of `InvalidateTokenCache` in the CURRENT SOURCE (regenerated): does it drop the token's
data entry, and when does it scan the permission cache for the token's decisions -/
def tokDropsData : Bool := Arc.Generated.C20.tokenInvDropsData
def tokPermScan : Scan :=
  if Arc.Generated.C20.tokenInvPermScan == "always" then .always
  else if Arc.Generated.C20.tokenInvPermScan == "if-data-cached" then .ifData
  else .never
def allClearsData : Bool := Arc.Generated.C20.allInvClearsData
def allClearsPerm : Bool := Arc.Generated.C20.allInvClearsPerm

def dropTokData (tid : Nat) (s : State) : State :=
  { s with tokCache := s.tokCache.filter (fun e => !(e.1 == tid)) }
def dropTokPerm (tid : Nat) (s : State) : State :=
  { s with permCache := s.permCache.filter (fun e => !(e.1.tid == tid)) }

/-- `InvalidateTokenCache`, parametrised by its per-cache structure -/
def invalidateTokenWith (drops : Bool) (scan : Scan) (tid : Nat) (s : State) : State :=
  let had := s.tokCache.any (fun e => e.1 == tid)
  let s1 := if drops then dropTokData tid s else s
  match scan with
  | .always => dropTokPerm tid s1
  | .ifData => if had then dropTokPerm tid s1 else s1
  | .never => s1

def invalidateAllWith (data perm : Bool) (s : State) : State :=
  { s with tokCache := if data then [] else s.tokCache, permCache := if perm then [] else s.permCache }

def invalidate (i : Inv) (tid : Nat) (s : State) : State :=
  match i with
  | .none => s
  | .all => invalidateAllWith allClearsData allClearsPerm s
  | .token => invalidateTokenWith tokDropsData tokPermScan tid s

/-- does the invalidator of the current source do what its name says, on BOTH caches, always -/
def strong : Inv → Bool
  | .none => true
  | .token => tokDropsData && tokPermScan == .always
  | .all => allClearsData && allClearsPerm

/-- the 18 mutating entry points -/
inductive Method
  | createOrg | updateOrg | deleteOrg | createTeam | updateTeam | deleteTeam
  | createRole | updateRole | deleteRole | createMP | deleteMP | addMem | removeMem
  | createToken | updateToken | revokeToken | deleteToken | rotateToken
  /-- the two non-insert success paths of `ApplyCreateOrganization` (cluster-apply only): the same
  (id, name) is already there (log replay); the name is there under ANOTHER id (upgrade seed / re-align:
  delete the local row — cascading — and insert under the FSM's id) -/
  | applyOrgReplay | applyOrgRealign
deriving DecidableEq, Repr

/-- the 18 API mutations -/
def Method.all : List Method :=
  [.createOrg, .updateOrg, .deleteOrg, .createTeam, .updateTeam, .deleteTeam, .createRole, .updateRole,
   .deleteRole, .createMP, .deleteMP, .addMem, .removeMem, .createToken, .updateToken, .revokeToken,
   .deleteToken, .rotateToken]

def Method.goName : Method → String
  | .createOrg => "CreateOrganization" | .updateOrg => "UpdateOrganization" | .deleteOrg => "DeleteOrganization"
  | .createTeam => "CreateTeam" | .updateTeam => "UpdateTeam" | .deleteTeam => "DeleteTeam"
  | .createRole => "CreateRole" | .updateRole => "UpdateRole" | .deleteRole => "DeleteRole"
  | .createMP => "CreateMeasurementPermission" | .deleteMP => "DeleteMeasurementPermission"
  | .addMem => "AddTokenToTeam" | .removeMem => "RemoveTokenFromTeam"
  | .createToken => "CreateToken" | .updateToken => "UpdateToken" | .revokeToken => "RevokeToken"
  | .deleteToken => "DeleteToken" | .rotateToken => "RotateToken"
  | .applyOrgReplay => "CreateOrganization:replay" | .applyOrgRealign => "CreateOrganization:realign"

def Mode.goName : Mode → String
  | .direct => "direct" | .cluster => "cluster"

def parseInv (s : String) : Option Inv :=
  if s == "all" then some .all else if s == "token" then some .token else if s == "none" then some .none else none

/-- raw lookup in the regenerated table -/
def invRow (tbl : List (String × String × String)) (mode : Mode) (m : Method) : Option Inv :=
  match tbl.find? (fun r => r.1 == mode.goName && r.2.1 == m.goName) with
  | some r => parseInv r.2.2
  | none => none

/-- the invalidation the CURRENT SOURCE performs on the success path of `m` in `mode`
(a missing row counts as "none"; `C20_table_complete` shows no row is missing). -/
def invOf (mode : Mode) (m : Method) : Inv :=
  (invRow Arc.Generated.C20.invalidation mode m).getD .none

/-! ## mutations of the tables -/

def validPermStr (p : Str) : Bool :=
  p == "read".toList || p == "write".toList || p == "delete".toList || p == adminStr

def nameChar (c : Char) : Bool := c.isAlphanum || c == '_' || c == '-'

/-- `nameValidationRegex` `^[a-zA-Z][a-zA-Z0-9_-]{0,63}$` -/
def validName (n : Str) : Bool :=
  match n with
  | [] => false
  | c :: rest => c.isAlpha && rest.all nameChar && rest.length ≤ 63

/-- `patternValidationRegex` `^[a-zA-Z0-9_-]+\*?$|^\*[a-zA-Z0-9_-]*$|^\*$` -/
def validPattern (p : Str) : Bool :=
  match p with
  | [] => false
  | c :: rest =>
    (p.all nameChar) ||
    (p.getLast? == some '*' && !p.dropLast.isEmpty && p.dropLast.all nameChar) ||
    (c == '*' && rest.all nameChar)

inductive Res | ok | notfound | conflict | invalid | error | badid
deriving DecidableEq, Repr

inductive Op
  | createOrg (name : Str) (newId : Nat)
  | updateOrg (id : Nat) (name : Option Str) (enabled : Option Bool)
  | deleteOrg (id : Nat)
  | createTeam (org : Nat) (name : Str) (newId : Nat)
  | updateTeam (id : Nat) (name : Option Str) (enabled : Option Bool)
  | deleteTeam (id : Nat)
  | createRole (team : Nat) (pattern : Str) (perms : List Str) (newId : Nat)
  | updateRole (id : Nat) (pattern : Option Str) (perms : List Str)   -- `[]` = leave unchanged
  | deleteRole (id : Nat)
  | createMP (role : Nat) (pattern : Str) (perms : List Str) (newId : Nat)
  | deleteMP (id : Nat)
  | addMem (tok team newId : Nat)
  | removeMem (tok team : Nat)
  | createToken (name : Str) (perms : List Str) (newId : Nat)
  | updateToken (id : Nat) (perms : List Str)
  | revokeToken (id : Nat)
  | deleteToken (id : Nat)
  | rotateToken (id : Nat)
  /-- cluster-apply of a CreateOrganization entry stamped `newId` by the FSM (what the FSM callback
  hands to `ApplyCreateOrganization`): insert, log replay, or re-align on a name collision -/
  | applyCreateOrg (name : Str) (newId : Nat)
  /-- the node joins a cluster: from now on writes are proposed and applied (`SetRaftProposer`) -/
  | toCluster
  | advance (dt : Nat)
  /-- `cleanupExpiredCache` -/
  | cleanup
  | check (k : Key) (orc : List Victim)
  | batch (ks : List Key) (orc : List Victim)
deriving Repr

def Op.method? : Op → Option Method
  | .createOrg .. => some .createOrg | .updateOrg .. => some .updateOrg | .deleteOrg .. => some .deleteOrg
  | .createTeam .. => some .createTeam | .updateTeam .. => some .updateTeam | .deleteTeam .. => some .deleteTeam
  | .createRole .. => some .createRole | .updateRole .. => some .updateRole | .deleteRole .. => some .deleteRole
  | .createMP .. => some .createMP | .deleteMP .. => some .deleteMP
  | .addMem .. => some .addMem | .removeMem .. => some .removeMem
  | .createToken .. => some .createToken | .updateToken .. => some .updateToken
  | .revokeToken .. => some .revokeToken | .deleteToken .. => some .deleteToken | .rotateToken .. => some .rotateToken
  | .applyCreateOrg .. => none | .toCluster => none | .cleanup => none
  | .advance .. => none | .check .. => none | .batch .. => none

/-- the token id an op is about (the argument of `InvalidateTokenCache`) -/
def Op.tokArg : Op → Nat
  | .addMem tok _ _ => tok | .removeMem tok _ => tok
  | .createToken _ _ newId => newId | .updateToken id _ => id | .revokeToken id => id
  | .deleteToken id => id | .rotateToken id => id
  | _ => 0

def hasOrg (tb : Tables) (id : Nat) : Bool := tb.orgs.any fun o => o.id == id
def hasTeam (tb : Tables) (id : Nat) : Bool := tb.teams.any fun t => t.id == id
def hasRole (tb : Tables) (id : Nat) : Bool := tb.roles.any fun r => r.id == id
def hasMP (tb : Tables) (id : Nat) : Bool := tb.mps.any fun p => p.id == id
def hasToken (tb : Tables) (id : Nat) : Bool := tb.tokens.any fun t => t.id == id
def hasMem (tb : Tables) (tok team : Nat) : Bool := tb.mems.any fun m => m.tok == tok && m.team == team
def hasMemId (tb : Tables) (id : Nat) : Bool := tb.mems.any fun m => m.id == id
/-- whom the write path asks whether a token exists: local SQLite (direct) or the FSM (cluster) -/
def knowsToken (mode : Mode) (tb : Tables) (id : Nat) : Bool :=
  match mode with
  | .direct => hasToken tb id
  | .cluster => tb.tokens.any fun t => t.id == id && decide (tb.fsmTokFrom ≤ t.id)

/-- ON DELETE CASCADE below the teams table: keep only children whose parent row remains. -/
def cascade (tb : Tables) : Tables :=
  let roles := tb.roles.filter fun r => tb.teams.any fun t => t.id == r.team
  let mps := tb.mps.filter fun p => roles.any fun r => r.id == p.role
  let mems := tb.mems.filter fun m => tb.teams.any fun t => t.id == m.team
  { tb with roles := roles, mps := mps, mems := mems }

def setOrg (name : Option Str) (enabled : Option Bool) (o : Org) : Org :=
  { o with name := name.getD o.name, enabled := enabled.getD o.enabled }
def setTeam (name : Option Str) (enabled : Option Bool) (t : Team) : Team :=
  { t with name := name.getD t.name, enabled := enabled.getD t.enabled }
def setRole (pattern : Option Str) (perms : List Str) (r : Role) : Role :=
  { r with pattern := pattern.getD r.pattern, perms := if perms.isEmpty then r.perms else perms }

/-- Outcome of a mutating op on the tables: the result class the caller sees, and `some tb'` iff the
success path (the one that performs the generated invalidation) ran. `none` = nothing was written
and no invalidation happens (validation error, not found, conflict, or a silent no-op). -/
def exec (mode : Mode) (tb : Tables) : Op → Res × Option Tables
  | .createOrg name newId =>
    if !validName name then (.invalid, none)
    else if tb.orgs.any (fun o => o.name == name) then (.conflict, none)
    else if hasOrg tb newId then (.badid, none)
    else (.ok, some { tb with orgs := ⟨newId, name, true⟩ :: tb.orgs })
  | .updateOrg id name enabled =>
    if (match name with | some n => !validName n | none => false) then (.invalid, none)
    else if name.isNone && enabled.isNone then (.ok, none)
    else if !hasOrg tb id then (.notfound, none)
    else if (match name with
             | some n => tb.orgs.any (fun o => o.name == n && !(o.id == id))
             | none => false) then (.conflict, none)
    else (.ok, some { tb with orgs := tb.orgs.map fun o => if o.id == id then setOrg name enabled o else o })
  | .deleteOrg id =>
    if !hasOrg tb id then (.notfound, none)
    else
      let orgs := tb.orgs.filter fun o => !(o.id == id)
      let teams := tb.teams.filter fun t => orgs.any fun o => o.id == t.org
      (.ok, some (cascade { tb with orgs := orgs, teams := teams }))
  | .createTeam org name newId =>
    if !validName name then (.invalid, none)
    else if !hasOrg tb org then (.notfound, none)
    else if tb.teams.any (fun t => t.org == org && t.name == name) then (.conflict, none)
    else if hasTeam tb newId then (.badid, none)
    else (.ok, some { tb with teams := ⟨newId, org, name, true⟩ :: tb.teams })
  | .updateTeam id name enabled =>
    if (match name with | some n => !validName n | none => false) then (.invalid, none)
    else if name.isNone && enabled.isNone then (.ok, none)
    else match tb.teams.find? (fun t => t.id == id) with
      | none => (.notfound, none)
      | some cur =>
        if (match name with
            | some n => tb.teams.any (fun t => t.org == cur.org && t.name == n && !(t.id == id))
            | none => false) then (.conflict, none)
        else (.ok, some { tb with teams := tb.teams.map fun t => if t.id == id then setTeam name enabled t else t })
  | .deleteTeam id =>
    if !hasTeam tb id then (.notfound, none)
    else (.ok, some (cascade { tb with teams := tb.teams.filter fun t => !(t.id == id) }))
  | .createRole team pattern perms newId =>
    if pattern.isEmpty || perms.isEmpty || !validPattern pattern || !perms.all validPermStr then (.invalid, none)
    else if !hasTeam tb team then (.notfound, none)
    else if hasRole tb newId then (.badid, none)
    else (.ok, some { tb with roles := ⟨newId, team, pattern, perms⟩ :: tb.roles })
  | .updateRole id pattern perms =>
    if !perms.all validPermStr || (match pattern with | some p => !validPattern p | none => false) then (.invalid, none)
    else if pattern.isNone && perms.isEmpty then (.ok, none)
    else if !hasRole tb id then (.notfound, none)
    else (.ok, some { tb with roles := tb.roles.map fun r => if r.id == id then setRole pattern perms r else r })
  | .deleteRole id =>
    if !hasRole tb id then (.notfound, none)
    else
      let roles := tb.roles.filter fun r => !(r.id == id)
      (.ok, some { tb with roles := roles, mps := tb.mps.filter fun p => roles.any fun r => r.id == p.role })
  | .createMP role pattern perms newId =>
    if pattern.isEmpty || perms.isEmpty || !validPattern pattern || !perms.all validPermStr then (.invalid, none)
    else if !hasRole tb role then (.notfound, none)
    else if hasMP tb newId then (.badid, none)
    else (.ok, some { tb with mps := ⟨newId, role, pattern, perms⟩ :: tb.mps })
  | .deleteMP id =>
    if !hasMP tb id then (.notfound, none)
    else (.ok, some { tb with mps := tb.mps.filter fun p => !(p.id == id) })
  | .addMem tok team newId =>
    match mode with
    | .direct =>
      if !hasTeam tb team then (.notfound, none)
      else if hasMem tb tok team then (.conflict, none)
      else if !hasToken tb tok then (.error, none)          -- FOREIGN KEY constraint failed
      else if hasMemId tb newId then (.badid, none)
      else (.ok, some { tb with mems := ⟨newId, tok, team⟩ :: tb.mems })
    | .cluster =>
      if !knowsToken .cluster tb tok then (.notfound, none)
      else if !hasTeam tb team then (.notfound, none)
      else if hasMem tb tok team then (.conflict, none)
      else if hasMemId tb newId then (.badid, none)
      else (.ok, some { tb with mems := ⟨newId, tok, team⟩ :: tb.mems })
  | .removeMem tok team =>
    if !hasMem tb tok team then (.notfound, none)
    else (.ok, some { tb with mems := tb.mems.filter fun m => !(m.tok == tok && m.team == team) })
  | .createToken name perms newId =>
    -- only the FSM validates the verb list (`validatePermissionString`); AuthManager stores it verbatim
    if mode == .cluster && !perms.all validPermStr then (.invalid, none)
    else if tb.tokens.any (fun t => t.name == name && (mode == .direct || decide (tb.fsmTokFrom ≤ t.id))) then (.conflict, none)
    -- cluster mode, name held by a pre-switch token the FSM does not know: FSM/SQLite diverge (not modelled)
    else if tb.tokens.any (fun t => t.name == name) then (.error, none)
    else if newId < tb.tokBound then (.badid, none)
    else (.ok, some { tb with tokens := ⟨newId, name, perms, true⟩ :: tb.tokens, tokBound := newId + 1 })
  | .updateToken id perms =>
    if mode == .cluster && !perms.all validPermStr then (.invalid, none)
    else if !knowsToken mode tb id then (match mode with | .direct => (.notfound, none) | .cluster => (.ok, none))
    else (.ok, some { tb with tokens := tb.tokens.map fun t => if t.id == id then { t with perms := perms } else t })
  | .revokeToken id =>
    if !knowsToken mode tb id then (match mode with | .direct => (.notfound, none) | .cluster => (.ok, none))
    else (.ok, some { tb with tokens := tb.tokens.map fun t => if t.id == id then { t with enabled := false } else t })
  | .deleteToken id =>
    if !knowsToken mode tb id then (match mode with | .direct => (.notfound, none) | .cluster => (.ok, none))
    else (.ok, some { tb with tokens := tb.tokens.filter (fun t => !(t.id == id)),
                              mems := tb.mems.filter fun m => !(m.tok == id) })
  | .rotateToken id =>
    if !knowsToken mode tb id then (match mode with | .direct => (.notfound, none) | .cluster => (.ok, none))
    else (.ok, some tb)
  | .applyCreateOrg name newId =>
    match mode with
    | .direct => (.error, none)
    | .cluster =>
      if newId == 0 then (.error, none)
      else if tb.orgs.any (fun o => o.id == newId) then
        (if tb.orgs.any (fun o => o.id == newId && o.name == name) then (.ok, some tb)   -- log replay
         else (.error, none))                                                           -- divergence: refused
      else if tb.orgs.any (fun o => o.name == name) then
        -- re-align: DELETE the local row of that name (ON DELETE CASCADE), INSERT under the FSM's id
        let kept := tb.orgs.filter fun o => !(o.name == name)
        let teams := tb.teams.filter fun t => kept.any fun o => o.id == t.org
        (.ok, some (cascade { tb with orgs := ⟨newId, name, true⟩ :: kept, teams := teams }))
      else (.ok, some { tb with orgs := ⟨newId, name, true⟩ :: tb.orgs })
  | .toCluster => (.ok, none)
  | .cleanup => (.ok, none)
  | .advance _ => (.ok, none)
  | .check _ _ => (.ok, none)
  | .batch _ _ => (.ok, none)

/-- which success path (hence which generated invalidation) an op takes on the current tables -/
def methodAt (tb : Tables) : Op → Option Method
  | .applyCreateOrg name newId =>
    if tb.orgs.any (fun o => o.id == newId) then some .applyOrgReplay
    else if tb.orgs.any (fun o => o.name == name) then some .applyOrgRealign
    else some .createOrg
  | op => op.method?

inductive Out
  | res (r : Res)
  | dec (d : Dec) (hit : Bool)
  | decs (ds : List (Dec × Bool))
  | sizes (perm tok : Nat)
  | badOracle
deriving Repr

/-- a mutating op: run it on the tables; on its success path perform the GENERATED invalidation -/
def stepMut (s : State) (op : Op) (m : Method) : State × Out :=
  match exec s.mode s.tb op with
  | (r, none) => (s, .res r)
  | (r, some tb') => (invalidate (invOf s.mode m) op.tokArg { s with tb := tb' }, .res r)

def withOracle (s : State) (orc : List Victim) : State := { s with orc := orc, orcOk := true }
def oracleUsedUp (s : State) : Bool := s.orcOk && s.orc.isEmpty

def nextMode (mode : Mode) : Op → Mode
  | .toCluster => .cluster
  | _ => mode

/-- one step of the system -/
def step (s : State) (op : Op) : State × Out :=
  match op with
  | .advance dt => ({ s with now := s.now + dt }, .res .ok)
  | .cleanup => let s' := cleanup s; (s', .sizes s'.permCache.length s'.tokCache.length)
  | .toCluster =>
    (match s.mode with
     | .cluster => s
     | .direct => { s with mode := .cluster, tb := { s.tb with fsmTokFrom := s.tb.tokBound } }, .res .ok)
  | .check k orc =>
    let r := checkSingle (withOracle s orc) k
    (withOracle r.1 [], if oracleUsedUp r.1 then .dec r.2.1 r.2.2 else .badOracle)
  | .batch ks orc =>
    let r := checkBatch (withOracle s orc) ks
    (withOracle r.1 [], if oracleUsedUp r.1 then .decs r.2 else .badOracle)
  | op =>
    match methodAt s.tb op with
    | none => (s, .res .error)
    | some m => stepMut s op m

def run (s : State) : List Op → State
  | [] => s
  | op :: ops => run (step s op).1 ops

/-! ## which invalidation does a mutation need? -/

/-- How far a successful mutation can change the policy:
* `neutral`   — no decision of any token issued so far changes;
* `tokenLocal`— only decisions of the op's token change;
* `tokenGone` — the op's token stops authenticating (and never will again); nothing else changes;
* `global`    — decisions of arbitrary tokens may change. -/
inductive Class | neutral | tokenLocal | tokenGone | global
deriving DecidableEq, Repr

def classOf : Method → Class
  | .createOrg | .updateOrg | .createTeam | .createToken | .rotateToken | .applyOrgReplay => .neutral
  | .addMem | .removeMem | .updateToken => .tokenLocal
  | .revokeToken | .deleteToken => .tokenGone
  | .deleteOrg | .updateTeam | .deleteTeam | .createRole | .updateRole | .deleteRole | .createMP | .deleteMP
  | .applyOrgRealign => .global

def covers : Class → Inv → Bool
  | .neutral, _ => true
  | .tokenGone, _ => true
  | .tokenLocal, .token => true
  | .tokenLocal, .all => true
  | .tokenLocal, .none => false
  | .global, .all => true
  | .global, _ => false

/-- mutations that need no invalidation whatever -/
def needsNone : Class → Bool
  | .neutral => true
  | .tokenGone => true
  | _ => false

/-- the generated invalidation of `m` in `mode` covers everything `m` can affect — and the invalidator
it names really clears BOTH caches unconditionally (`strong`, from the generated structure facts) -/
def sufficient (mode : Mode) (m : Method) : Bool :=
  needsNone (classOf m) || (covers (classOf m) (invOf mode m) && strong (invOf mode m))

def allPairs : List (Mode × Method) :=
  (Method.all.map fun m => (Mode.direct, m)) ++ (Method.all.map fun m => (Mode.cluster, m)) ++
  [(Mode.cluster, .applyOrgReplay), (Mode.cluster, .applyOrgRealign)]

/-- the mutations of the current source whose invalidation is NOT sufficient -/
def insufficient : List (Mode × Method) := allPairs.filter fun p => !sufficient p.1 p.2

/-- carve-out predicate of `C20_partial`: the op is not one of the insufficient mutations -/
def opOk (mode : Mode) (op : Op) : Bool :=
  match op with
  | .applyCreateOrg .. =>
    (match mode with
     | .direct => true      -- refused outright in direct mode
     | .cluster => sufficient .cluster .createOrg && sufficient .cluster .applyOrgReplay &&
                   sufficient .cluster .applyOrgRealign)
  | op => match op.method? with
    | none => true
    | some m => sufficient mode m

/-- carve-out over a history, following the mode across a direct→cluster switch -/
def okRun (mode : Mode) : List Op → Bool
  | [] => true
  | op :: ops => opOk mode op && okRun (nextMode mode op) ops

end Arc.C20
