import Arc.Base.Proto
import Arc.Model.C22.Restore
/-
C22/C23 — line protocol of the model driver (shared by drive_c22 and drive_c23):
string tokens, canonical state dump (primaries AND indexes, sorted), op parser, step function.
The Go side (go/harness/c22/common.go) implements the same `encTok` and the same dump.
-/
namespace Arc.C22.Wire
open Arc.C22 Arc.Proto SMap

/-! ### string tokens: `-` = empty, `^n^c` = n copies of c, otherwise bytes with %xx escapes -/

def safeByte (b : Nat) : Bool :=
  (48 ≤ b && b ≤ 57) || (65 ≤ b && b ≤ 90) || (97 ≤ b && b ≤ 122) ||
  b == 95 || b == 46 || b == 47 || b == 42 || b == 64 || b == 43

def encByte (b : Nat) : String :=
  if safeByte b then String.singleton (Char.ofNat b)
  else String.ofList ['%', hexDigit (b / 16), hexDigit (b % 16)]

/-- a run of one code point repeated ≥ 16 times is written `^n^<unit>` (unit = the %-escaped bytes
of that code point) -/
def encTok (s : String) : String :=
  match s.toList with
  | [] => "-"
  | c :: rest =>
    if rest.length + 1 ≥ 16 && rest.all (· == c) then
      "^" ++ toString (rest.length + 1) ++ "^" ++ String.join ((charBytes c).map encByte)
    else String.join ((bytes s).map encByte)

def ofBytes (b : List UInt8) : Option String := String.fromUTF8? ⟨b.toArray⟩

def pctDecode : List Char → List UInt8 → Option (List UInt8)
  | [], acc => some acc.reverse
  | '%' :: a :: b :: rest, acc =>
    match hexVal a, hexVal b with
    | some x, some y => pctDecode rest (UInt8.ofNat (x * 16 + y) :: acc)
    | _, _ => none
  | '%' :: _, _ => none
  | c :: rest, acc => if c.toNat < 128 then pctDecode rest (UInt8.ofNat c.toNat :: acc) else none

def decTok (t : String) : Option String :=
  if t == "-" then some ""
  else match t.toList with
    | '^' :: _ =>
      match t.splitOn "^" with
      | ["", n, u] =>
        match n.toNat?, (pctDecode u.toList []).bind ofBytes with
        | some n, some unit => some (String.join (List.replicate n unit))
        | _, _ => none
      | _ => none
    | cs => (pctDecode cs []).bind ofBytes

/-! ### canonical dump -/

def join (sep : String) (l : List String) : String := sep.intercalate l
def b01 (b : Bool) : String := if b then "1" else "0"
def sect (name : String) (items : List String) : String := name ++ "[" ++ join ";" items ++ "]"

def dNode (p : String × NodeInfo) : String :=
  let n := p.2
  encTok p.1 ++ "~" ++ join "|" [encTok n.id, encTok n.name, encTok n.role, encTok n.cluster,
    encTok n.address, encTok n.api, encTok n.state, encTok n.version, encTok n.wstate, toString n.cores]

def dFile (p : String × FileEntry) : String :=
  let f := p.2
  encTok p.1 ++ "~" ++ join "|" [encTok f.path, encTok f.sha, toString f.size, encTok f.db, encTok f.meas,
    toString f.ptime, encTok f.origin, encTok f.tier, toString f.ctime, toString f.lsn]

def dToken (p : Int × TokenEntry) : String :=
  let t := p.2
  toString p.1 ++ "~" ++ join "|" [toString t.id, encTok t.name, encTok t.desc, encTok t.perms, encTok t.hash,
    encTok t.pfx, toString t.created, toString t.expires, b01 t.enabled, toString t.lsn]

def dOrg (p : Int × OrgEntry) : String :=
  let e := p.2
  toString p.1 ++ "~" ++ join "|" [toString e.id, encTok e.name, encTok e.desc, toString e.created,
    toString e.updated, b01 e.enabled, toString e.lsn]

def dTeam (p : Int × TeamEntry) : String :=
  let e := p.2
  toString p.1 ++ "~" ++ join "|" [toString e.id, toString e.org, encTok e.name, encTok e.desc,
    toString e.created, toString e.updated, b01 e.enabled, toString e.lsn]

def dRole (p : Int × RoleEntry) : String :=
  let e := p.2
  toString p.1 ++ "~" ++ join "|" [toString e.id, toString e.team, encTok e.pattern, encTok e.perms,
    toString e.created, toString e.lsn]

def dMPerm (p : Int × MPermEntry) : String :=
  let e := p.2
  toString p.1 ++ "~" ++ join "|" [toString e.id, toString e.role, encTok e.pattern, encTok e.perms,
    toString e.created, toString e.lsn]

def dMember (p : Int × MemberEntry) : String :=
  let e := p.2
  toString p.1 ++ "~" ++ join "|" [toString e.id, toString e.token, toString e.team,
    toString e.created, toString e.lsn]

def dIntSet (p : Int × SSet Int) : String :=
  toString p.1 ++ ":" ++ join "," (p.2.map (fun q => toString q.1))

def dIntMap (p : Int × SMap Int Int) : String :=
  toString p.1 ++ ":" ++ join "," (p.2.map (fun q => toString q.1 ++ "=" ++ toString q.2))

def dump (s : State) : String :=
  join " " [
    sect "N" (s.cl.nodes.map dNode),
    "PW=" ++ encTok s.cl.pw, "AC=" ++ encTok s.cl.compactor,
    sect "F" (s.fs.files.map dFile),
    sect "FDB" (s.fs.filesByDB.map fun p => encTok p.1 ++ ":" ++ join "," (p.2.map (fun q => encTok q.1))),
    sect "T" (s.au.tokens.map dToken),
    sect "TP" (s.au.byPrefix.map fun p => encTok p.1 ++ ":" ++ join "," (p.2.map toString)),
    sect "TN" (s.au.byName.map fun p => encTok p.1 ++ ":" ++ toString p.2),
    sect "O" (s.au.orgs.map dOrg),
    sect "ON" (s.au.orgsByName.map fun p => encTok p.1 ++ ":" ++ toString p.2),
    sect "TM" (s.au.teams.map dTeam),
    sect "TMO" (s.au.teamsByOrg.map fun p =>
      toString p.1 ++ ":" ++ join "," (p.2.map (fun q => encTok q.1 ++ "=" ++ toString q.2))),
    sect "R" (s.au.roles.map dRole),
    sect "RT" (s.au.rolesByTeam.map dIntSet),
    sect "MP" (s.au.mperms.map dMPerm),
    sect "MPR" (s.au.mpermsByRole.map dIntSet),
    sect "M" (s.au.members.map dMember),
    sect "MPAIR" (s.au.memByPair.map dIntMap),
    sect "MTOK" (s.au.memByToken.map dIntSet),
    sect "MTEAM" (s.au.memByTeam.map dIntSet)]

def resStr : Res → String
  | .ok => "ok" | .unmarshal => "unmarshal" | .unknown => "unknown" | .notfound => "notfound"
  | .exists => "exists" | .invalid => "invalid"

/-! ### op parser -/

def bool? (s : String) : Option Bool := if s == "1" then some true else if s == "0" then some false else none

def toks? : List String → Option (List String)
  | [] => some []
  | t :: rest => do
    let a ← decTok t
    let r ← toks? rest
    pure (a :: r)

def node? : List String → Option NodeInfo
  | [id, name, role, cluster, addr, api, st, ver, ws, cores] => do
    pure { id := ← decTok id, name := ← decTok name, role := ← decTok role, cluster := ← decTok cluster,
           address := ← decTok addr, api := ← decTok api, state := ← decTok st, version := ← decTok ver,
           wstate := ← decTok ws, cores := ← int? cores }
  | _ => none

def file? : List String → Option FileEntry
  | [path, sha, size, db, meas, pt, origin, tier, ct, lsn] => do
    pure { path := ← decTok path, sha := ← decTok sha, size := ← int? size, db := ← decTok db,
           meas := ← decTok meas, ptime := ← int? pt, origin := ← decTok origin, tier := ← decTok tier,
           ctime := ← int? ct, lsn := ← nat? lsn }
  | _ => none

def batchOps? : List String → Option (List BatchOp)
  | [] => some []
  | "r" :: a :: b :: c :: d :: e :: f :: g :: h :: i :: j :: rest => do
    let fe ← file? [a, b, c, d, e, f, g, h, i, j]
    let r ← batchOps? rest
    pure (.register fe :: r)
  | "u" :: a :: b :: c :: d :: e :: f :: g :: h :: i :: j :: rest => do
    let fe ← file? [a, b, c, d, e, f, g, h, i, j]
    let r ← batchOps? rest
    pure (.update fe :: r)
  | "d" :: p :: rest => do
    let p ← decTok p
    let r ← batchOps? rest
    pure (.delete p :: r)
  | "x" :: rest => do
    let r ← batchOps? rest
    pure (.malformed :: r)
  | "t" :: rest => do
    let r ← batchOps? rest
    pure (.unsupported :: r)
  | _ => none

def cmd? : List String → Option Cmd
  | "addnode" :: rest => do pure (.addNode (← node? rest))
  | "updnode" :: rest => do pure (.updateNode (← node? rest))
  | ["rmnode", id] => do pure (.removeNode (← decTok id))
  | ["nodestate", id, st] => do pure (.updateNodeState (← decTok id) (← decTok st))
  | ["promote", id, old] => do pure (.promote (← decTok id) (← decTok old))
  | ["demote", id] => do pure (.demote (← decTok id))
  | "regfile" :: rest => do pure (.registerFile (← file? rest))
  | "updfile" :: rest => do pure (.updateFile (← file? rest))
  | ["delfile", p] => do pure (.deleteFile (← decTok p))
  | ["compactor", id] => do pure (.assignCompactor (← decTok id))
  | "batch" :: rest => do pure (.batch (← batchOps? rest))
  | ["mktoken", pid, name, dsc, perms, hash, pfx, created, expires, enabled, lsn] => do
    pure (.createToken { id := ← int? pid, name := ← decTok name, desc := ← decTok dsc,
                                        perms := ← decTok perms, hash := ← decTok hash, pfx := ← decTok pfx, created := ← int? created,
                                        expires := ← int? expires, enabled := ← bool? enabled, lsn := ← nat? lsn })
  | "updtoken" :: id :: name :: dsc :: perms :: expires :: changed => do
    pure (.updateToken (← int? id) (← decTok name) (← decTok dsc) (← decTok perms) (← int? expires)
      (← toks? changed))
  | ["revoke", id] => do pure (.revokeToken (← int? id))
  | ["deltoken", id] => do pure (.deleteToken (← int? id))
  | ["rotate", id, hash, pfx] => do pure (.rotateToken (← int? id) (← decTok hash) (← decTok pfx))
  | ["mkorg", pid, name, dsc, created, updated, enabled, lsn] => do
    pure (.createOrg { id := ← int? pid, name := ← decTok name, desc := ← decTok dsc,
                                        created := ← int? created, updated := ← int? updated, enabled := ← bool? enabled, lsn := ← nat? lsn })
  | "updorg" :: id :: name :: dsc :: enabled :: updated :: changed => do
    pure (.updateOrg (← int? id) (← decTok name) (← decTok dsc) (← bool? enabled) (← int? updated)
      (← toks? changed))
  | ["delorg", id] => do pure (.deleteOrg (← int? id))
  | ["mkteam", pid, org, name, dsc, created, updated, enabled, lsn] => do
    pure (.createTeam { id := ← int? pid, org := ← int? org, name := ← decTok name, desc := ← decTok dsc,
                                        created := ← int? created, updated := ← int? updated, enabled := ← bool? enabled, lsn := ← nat? lsn })
  | "updteam" :: id :: name :: dsc :: enabled :: updated :: changed => do
    pure (.updateTeam (← int? id) (← decTok name) (← decTok dsc) (← bool? enabled) (← int? updated)
      (← toks? changed))
  | ["delteam", id] => do pure (.deleteTeam (← int? id))
  | ["mkrole", pid, team, pattern, perms, created, lsn] => do
    pure (.createRole { id := ← int? pid, team := ← int? team, pattern := ← decTok pattern,
                                        perms := ← decTok perms, created := ← int? created, lsn := ← nat? lsn })
  | "updrole" :: id :: pattern :: perms :: changed => do
    pure (.updateRole (← int? id) (← decTok pattern) (← decTok perms) (← toks? changed))
  | ["delrole", id] => do pure (.deleteRole (← int? id))
  | ["mkmperm", pid, role, pattern, perms, created, lsn] => do
    pure (.createMPerm { id := ← int? pid, role := ← int? role, pattern := ← decTok pattern,
                                        perms := ← decTok perms, created := ← int? created, lsn := ← nat? lsn })
  | ["delmperm", id] => do pure (.deleteMPerm (← int? id))
  | ["addmem", pid, token, team, created, lsn] => do
    pure (.addMember { id := ← int? pid, token := ← int? token, team := ← int? team,
                                        created := ← int? created, lsn := ← nat? lsn })
  | ["rmmem", token, team] => do pure (.removeMember (← int? token) (← int? team))
  | ["malformed", _] => some .malformed
  | ["garbage"] => some .malformed
  | ["unknown", _] => some .unknown
  | _ => none

/-- driver state: the FSM state plus the snapshots taken by `hold k` and not yet persisted -/
structure DS where
  s : State := {}
  held : List (Nat × Snapshot) := []

def DS.init : DS := {}

/-- driver step: `new` | `ap <idx> <cmd…>` (result + dump) | `aq <idx> <cmd…>` (result only) | `dump` |
`snap` (dump restore(snapshot s), state unchanged) | `swap` (s := restore(snapshot s)) |
`hold k` (Snapshot() now, keep it) | `held k` (Persist the kept snapshot now and dump its Restore).
`Snapshot()` deep-copies every entry, so what `held k` restores is the state at the time of `hold k`,
whatever was applied in between. -/
def step (d : DS) (fs : List String) : DS × String :=
  match fs with
  | ["new"] => ({}, "ok")
  | ["snap"] => (d, dump (restore (snapshot d.s)))
  | ["swap"] => let s' := restore (snapshot d.s); ({ d with s := s' }, dump s')
  | ["dump"] => (d, dump d.s)
  | ["hold", k] =>
    match nat? k with
    | some k => ({ d with held := (k, snapshot d.s) :: d.held }, "ok")
    | none => (d, "bad-op")
  | ["held", k] =>
    match (nat? k).bind (fun k => d.held.lookup k) with
    | some sn => (d, dump (restore sn))
    | none => (d, "bad-op")
  | "aq" :: idx :: rest =>
    match nat? idx, cmd? rest with
    | some i, some c => let r := apply d.s i c; ({ d with s := r.1 }, resStr r.2)
    | _, _ => (d, "bad-op")
  | "ap" :: idx :: rest =>
    match nat? idx, cmd? rest with
    | some i, some c => let r := apply d.s i c; ({ d with s := r.1 }, resStr r.2 ++ " " ++ dump r.1)
    | _, _ => (d, "bad-op")
  | _ => (d, "bad-op")

end Arc.C22.Wire
