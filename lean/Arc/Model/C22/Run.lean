import Arc.Model.C22.Restore
/-
C22/C23 — histories: committed commands at explicit log indexes, interleaved with
snapshot-and-restore steps (a node that installs a snapshot continues from `restore (snapshot s)`).
-/
namespace Arc.C22

inductive Ev where
  | cmd (idx : Nat) (c : Cmd)
  | restore
deriving DecidableEq, Repr

def stepEv (s : State) : Ev → State
  | .cmd i c => (apply s i c).1
  | .restore => restore (snapshot s)

def runEv (s : State) : List Ev → State
  | [] => s
  | e :: es => runEv (stepEv s e) es

/-- log indexes of the commands of a history are ≥ `lo` and strictly increasing (Raft) -/
def idxIncreasing (lo : Nat) : List Ev → Bool
  | [] => true
  | .cmd i _ :: es => decide (lo ≤ i) && idxIncreasing (i + 1) es
  | .restore :: es => idxIncreasing lo es

theorem runEv_append (s : State) (a b : List Ev) : runEv s (a ++ b) = runEv (runEv s a) b := by
  induction a generalizing s with
  | nil => rfl
  | cons e es ih => simp [runEv, ih]

end Arc.C22
