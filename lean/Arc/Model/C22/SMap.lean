/-
C22/C23 — finite maps as strictly sorted association lists (canonical form), core Lean only.

Go maps have no order; the model keeps every map (and every inner map / id set) as a list that is
strictly sorted by key, so that two maps with the same content are *equal* terms. Iteration in the
model is in key order; the Go code iterates in random order, which is unobservable wherever the
loop body's effects commute (validated by the correspondence harness, proved for the model's
invariants in Proofs/C22).
-/
namespace Arc.C22

/-- A decidable strict linear order on keys. -/
class LOrd (K : Type) where
  lt : K → K → Bool
  irrefl : ∀ a, lt a a = false
  trans : ∀ a b c, lt a b = true → lt b c = true → lt a c = true
  tri : ∀ a b, lt a b = true ∨ a = b ∨ lt b a = true

instance : LOrd Int where
  lt a b := decide (a < b)
  irrefl a := by simp
  trans a b c h1 h2 := by simp at *; omega
  tri a b := by simp; omega

instance : LOrd Nat where
  lt a b := decide (a < b)
  irrefl a := by simp
  trans a b c h1 h2 := by simp at *; omega
  tri a b := by simp; omega

/-- lexicographic order on code-point lists (= bytewise order of the UTF-8 encodings, which is
what Go's `sort.Strings` uses). -/
def lexLt : List Nat → List Nat → Bool
  | [], [] => false
  | [], _ :: _ => true
  | _ :: _, [] => false
  | a :: as, b :: bs => if a < b then true else if a = b then lexLt as bs else false

theorem lexLt_irrefl : ∀ l, lexLt l l = false
  | [] => rfl
  | a :: as => by simp [lexLt, lexLt_irrefl as]

theorem lexLt_trans : ∀ a b c, lexLt a b = true → lexLt b c = true → lexLt a c = true
  | [], [], _, h, _ => by simp [lexLt] at h
  | [], _ :: _, [], _, h => by simp [lexLt] at h
  | [], _ :: _, _ :: _, _, _ => by simp [lexLt]
  | _ :: _, [], _, h, _ => by simp [lexLt] at h
  | _ :: _, _ :: _, [], _, h => by simp [lexLt] at h
  | x :: xs, y :: ys, z :: zs, h1, h2 => by
    simp only [lexLt] at h1 h2 ⊢
    by_cases hxy : x < y
    · by_cases hyz : y < z
      · have : x < z := by omega
        simp [this]
      · by_cases hyz' : y = z
        · subst hyz'; simp [hxy]
        · simp [hyz, hyz'] at h2
    · by_cases hxy' : x = y
      · subst hxy'
        simp only [hxy, if_false, if_true] at h1
        by_cases hyz : x < z
        · simp [hyz]
        · by_cases hyz' : x = z
          · subst hyz'
            simp only [hyz, if_false, if_true] at h2 ⊢
            exact lexLt_trans xs ys zs h1 h2
          · simp [hyz, hyz'] at h2
      · simp [hxy, hxy'] at h1

theorem lexLt_tri : ∀ a b, lexLt a b = true ∨ a = b ∨ lexLt b a = true
  | [], [] => by simp
  | [], _ :: _ => by simp [lexLt]
  | _ :: _, [] => by simp [lexLt]
  | x :: xs, y :: ys => by
    simp only [lexLt]
    by_cases hxy : x < y
    · simp [hxy]
    · by_cases hxy' : x = y
      · subst hxy'
        simp only [hxy, if_false, if_true]
        rcases lexLt_tri xs ys with h | h | h
        · exact Or.inl h
        · exact Or.inr (Or.inl (by rw [h]))
        · exact Or.inr (Or.inr h)
      · have : y < x := by omega
        simp [hxy, hxy', this]

def strKey (s : String) : List Nat := s.toList.map Char.toNat

theorem map_toNat_inj : ∀ (a b : List Char), a.map Char.toNat = b.map Char.toNat → a = b
  | [], [], _ => rfl
  | [], _ :: _, h => by simp at h
  | _ :: _, [], h => by simp at h
  | x :: xs, y :: ys, h => by
    simp only [List.map_cons, List.cons.injEq] at h
    rw [Char.toNat_inj.mp h.1, map_toNat_inj xs ys h.2]

theorem strKey_inj {a b : String} (h : strKey a = strKey b) : a = b := by
  apply String.toList_inj.mp
  exact map_toNat_inj _ _ h

instance : LOrd String where
  lt a b := lexLt (strKey a) (strKey b)
  irrefl a := lexLt_irrefl _
  trans a b c := lexLt_trans _ _ _
  tri a b := by
    rcases lexLt_tri (strKey a) (strKey b) with h | h | h
    · exact Or.inl h
    · exact Or.inr (Or.inl (strKey_inj h))
    · exact Or.inr (Or.inr h)

/-- sorted association list -/
abbrev SMap (K V : Type) := List (K × V)

namespace SMap
variable {K V : Type} [DecidableEq K] [LOrd K]

def get? : SMap K V → K → Option V
  | [], _ => none
  | (a, b) :: t, k => if k = a then some b else get? t k

def has (m : SMap K V) (k : K) : Bool := (m.get? k).isSome

/-- insert or replace, keeping the list sorted -/
def ins (k : K) (v : V) : SMap K V → SMap K V
  | [] => [(k, v)]
  | (a, b) :: t =>
    if LOrd.lt k a then (k, v) :: (a, b) :: t
    else if k = a then (k, v) :: t
    else (a, b) :: ins k v t

/-- delete a key -/
def del (k : K) : SMap K V → SMap K V
  | [] => []
  | (a, b) :: t => if k = a then del k t else (a, b) :: del k t

def keys (m : SMap K V) : List K := m.map (·.1)

/-- strictly sorted by key -/
def Sorted (m : SMap K V) : Prop := List.Pairwise (fun a b => LOrd.lt a.1 b.1 = true) m

end SMap

/-- a set of keys = map to Unit -/
abbrev SSet (K : Type) := SMap K Unit

namespace SSet
variable {K : Type} [DecidableEq K] [LOrd K]
def mem (s : SSet K) (k : K) : Bool := SMap.has s k
def add (k : K) (s : SSet K) : SSet K := SMap.ins k () s
def toList (s : SSet K) : List K := s.map (·.1)
end SSet

/-! nested maps `K1 → K2 → V` with the code's "delete the outer key when the inner map becomes
empty" discipline -/
namespace SMap
variable {K1 K2 V : Type} [DecidableEq K1] [LOrd K1] [DecidableEq K2] [LOrd K2]

def get2? (m : SMap K1 (SMap K2 V)) (o : K1) (i : K2) : Option V :=
  match m.get? o with
  | some inner => inner.get? i
  | none => none

def inner (m : SMap K1 (SMap K2 V)) (o : K1) : SMap K2 V := (m.get? o).getD []

/-- `idx, ok := m[o]; if !ok { idx = {}; m[o] = idx }; idx[i] = v` -/
def ins2 (o : K1) (i : K2) (v : V) (m : SMap K1 (SMap K2 V)) : SMap K1 (SMap K2 V) :=
  m.ins o ((m.inner o).ins i v)

/-- `if idx, ok := m[o]; ok { delete(idx, i); if len(idx) == 0 { delete(m, o) } }` -/
def del2 (o : K1) (i : K2) (m : SMap K1 (SMap K2 V)) : SMap K1 (SMap K2 V) :=
  match m.get? o with
  | none => m
  | some inner =>
    let inner' := inner.del i
    if inner'.isEmpty then m.del o else m.ins o inner'

end SMap

end Arc.C22
