import Arc.Model.C22.SMap
/-
C22/C23 — record, state and command types of the cluster FSM model
(`internal/cluster/raft/fsm.go`, `fsm_rbac.go`).

Strings are Lean `String`s (all strings in FSM state come out of `encoding/json`, hence are valid
UTF-8). `time.Time` fields are whole unix seconds (UTC); Go's zero `time.Time` is `zeroTime`.
Integer ids are `Int` (`int64(logIndex)`), log indexes are `Nat` (< 2^63 assumed, as in Raft).
-/
namespace Arc.C22

/-- `time.Time{}.Unix()` -/
def zeroTime : Int := -62135596800

structure NodeInfo where
  id : String
  name : String
  role : String
  cluster : String
  address : String
  api : String
  state : String
  version : String
  wstate : String
  cores : Int
deriving DecidableEq, Repr

structure FileEntry where
  path : String
  sha : String
  size : Int
  db : String
  meas : String
  ptime : Int
  origin : String
  tier : String
  ctime : Int
  lsn : Nat
deriving DecidableEq, Repr

structure TokenEntry where
  id : Int
  name : String
  desc : String
  perms : String
  hash : String
  pfx : String
  created : Int
  expires : Int
  enabled : Bool
  lsn : Nat
deriving DecidableEq, Repr

structure OrgEntry where
  id : Int
  name : String
  desc : String
  created : Int
  updated : Int
  enabled : Bool
  lsn : Nat
deriving DecidableEq, Repr

structure TeamEntry where
  id : Int
  org : Int
  name : String
  desc : String
  created : Int
  updated : Int
  enabled : Bool
  lsn : Nat
deriving DecidableEq, Repr

structure RoleEntry where
  id : Int
  team : Int
  pattern : String
  perms : String
  created : Int
  lsn : Nat
deriving DecidableEq, Repr

structure MPermEntry where
  id : Int
  role : Int
  pattern : String
  perms : String
  created : Int
  lsn : Nat
deriving DecidableEq, Repr

structure MemberEntry where
  id : Int
  token : Int
  team : Int
  created : Int
  lsn : Nat
deriving DecidableEq, Repr

/-- nodes, `primaryWriterID`, `activeCompactorID` -/
structure NodeSt where
  nodes : SMap String NodeInfo := []
  pw : String := ""                 -- primaryWriterID
  compactor : String := ""          -- activeCompactorID
deriving DecidableEq, Repr

/-- file manifest and its by-database index -/
structure FileSt where
  files : SMap String FileEntry := []
  filesByDB : SMap String (SSet String) := []
deriving DecidableEq, Repr

/-- tokens and RBAC entities with all their secondary indexes -/
structure AuthSt where
  tokens : SMap Int TokenEntry := []
  /-- `tokensByPrefix` : prefix ↦ ids. The Go value is a slice whose order nothing reads (and which
  `Restore` rebuilds in map-iteration order); the model keeps it as a sorted multiset. -/
  byPrefix : SMap String (List Int) := []
  byName : SMap String Int := []
  orgs : SMap Int OrgEntry := []
  orgsByName : SMap String Int := []
  teams : SMap Int TeamEntry := []
  teamsByOrg : SMap Int (SMap String Int) := []
  roles : SMap Int RoleEntry := []
  rolesByTeam : SMap Int (SSet Int) := []
  mperms : SMap Int MPermEntry := []
  mpermsByRole : SMap Int (SSet Int) := []
  members : SMap Int MemberEntry := []
  memByPair : SMap Int (SMap Int Int) := []
  memByToken : SMap Int (SSet Int) := []
  memByTeam : SMap Int (SSet Int) := []
deriving DecidableEq, Repr

/-- `ClusterFSM` (replicated part: primaries, scalars and every secondary index). The Go struct is
flat; the model groups the fields by the commands that touch them (node/role commands: `cl`,
file-manifest commands: `fs`, token and RBAC commands: `au`). -/
structure State where
  cl : NodeSt := {}
  fs : FileSt := {}
  au : AuthSt := {}
deriving DecidableEq, Repr

def State.empty : State := {}

/-- one op of a `CommandBatchFileOps` payload -/
inductive BatchOp where
  | register (f : FileEntry)
  | delete (path : String)
  | update (f : FileEntry)
  | malformed                 -- payload of a register/update/delete op that does not unmarshal
  | unsupported               -- any other op type
deriving DecidableEq, Repr

inductive Cmd where
  | addNode (n : NodeInfo)
  | removeNode (id : String)
  | updateNode (n : NodeInfo)
  | updateNodeState (id st : String)
  | promote (id old : String)
  | demote (id : String)
  | registerFile (f : FileEntry)
  | deleteFile (path : String)
  | assignCompactor (id : String)
  | batch (ops : List BatchOp)
  | updateFile (f : FileEntry)
  | createToken (t : TokenEntry)
  | updateToken (id : Int) (name desc perms : String) (expires : Int) (changed : List String)
  | revokeToken (id : Int)
  | deleteToken (id : Int)
  | rotateToken (id : Int) (hash pfx : String)
  | createOrg (e : OrgEntry)
  | updateOrg (id : Int) (name desc : String) (enabled : Bool) (updated : Int) (changed : List String)
  | deleteOrg (id : Int)
  | createTeam (e : TeamEntry)
  | updateTeam (id : Int) (name desc : String) (enabled : Bool) (updated : Int) (changed : List String)
  | deleteTeam (id : Int)
  | createRole (e : RoleEntry)
  | updateRole (id : Int) (pattern perms : String) (changed : List String)
  | deleteRole (id : Int)
  | createMPerm (e : MPermEntry)
  | deleteMPerm (id : Int)
  | addMember (e : MemberEntry)
  | removeMember (token team : Int)
  | malformed                 -- command or payload bytes that do not unmarshal
  | unknown                   -- command type outside 1..29
deriving DecidableEq, Repr

/-- result class of `Apply` (Go: `nil` or an error, mapped to a small enum by its message) -/
inductive Res where
  | ok | unmarshal | unknown | notfound | exists | invalid
deriving DecidableEq, Repr

end Arc.C22
