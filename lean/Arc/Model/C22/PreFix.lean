import Arc.Model.C22.Run
/-
C22/C23 — the PRE-FIX transition functions (before commits 93fb282, 4708dee, 466f761, 464463f,
305f0ae), kept only so that the witness theorems of the findings remain statements about explicitly
named functions. Nothing else depends on this file; it is not tied to the current source.
-/
namespace Arc.C22.PreFix
open Arc.C22 SMap

/-- pre-466f761: `f.nodes[p.Node.ID] = &p.Node`, whole record replaced -/
def applyAddNode (s : NodeSt) (n : NodeInfo) : NodeSt × Res :=
  ({ s with nodes := s.nodes.ins n.id n }, .ok)

/-- pre-4708dee: `primaryWriterID` untouched -/
def applyRemoveNode (s : NodeSt) (id : String) : NodeSt × Res :=
  ({ s with nodes := s.nodes.del id }, .ok)

/-- pre-93fb282: old primary demoted and `primaryWriterID` set before the not-found return -/
def applyPromote (s : NodeSt) (id : String) : NodeSt × Res :=
  if id = "" then (s, .invalid) else
  match s.nodes.get? id with
  | some n =>
    if n.role ≠ "writer" then (s, .invalid)
    else ({ s with nodes := setWState (demoteOld s.nodes s.pw id) id "primary", pw := id }, .ok)
  | none => ({ s with nodes := demoteOld s.nodes s.pw id, pw := id }, .notfound)

/-- pre-464463f: an empty database is not indexed -/
def applyUpdateFile (s : FileSt) (idx : Nat) (f : FileEntry) : FileSt × Res :=
  if !fileOk f then (s, .invalid) else
  let e : FileEntry := { f with lsn := idx }
  ({ s with files := s.files.ins e.path e,
            filesByDB := if e.db ≠ "" then (dropOldIdx s e).ins2 e.db e.path () else dropOldIdx s e }, .ok)

/-- pre-305f0ae: a changed name is not validated -/
def applyUpdateToken (s : AuthSt) (idx : Nat) (id : Int) (name desc perms : String) (expires : Int)
    (changed : List String) : AuthSt × Res :=
  if id = 0 then (s, .invalid)
  else if changed.contains "permissions" && !validPerms perms then (s, .invalid)
  else match s.tokens.get? id with
  | none => (s, .ok)
  | some e =>
    if changed.contains "name" && nameTaken s.byName name id then (s, .exists)
    else
      let e' : TokenEntry :=
        { e with name := if changed.contains "name" then name else e.name,
                 desc := if changed.contains "description" then desc else e.desc,
                 perms := if changed.contains "permissions" then perms else e.perms,
                 expires := if changed.contains "expires_at" then expires else e.expires,
                 lsn := idx }
      ({ s with tokens := s.tokens.ins id e',
                byName := if changed.contains "name" then (s.byName.del e.name).ins name e.id
                          else s.byName }, .ok)

/-- the pre-fix `Apply`: the five functions above, everything else as today -/
def apply (s : State) (idx : Nat) : Cmd → State × Res
  | .addNode n => liftN s (applyAddNode s.cl n)
  | .updateNode n => liftN s (applyAddNode s.cl n)
  | .removeNode id => liftN s (applyRemoveNode s.cl id)
  | .promote id _ => liftN s (applyPromote s.cl id)
  | .updateFile f => liftF s (applyUpdateFile s.fs idx f)
  | .updateToken id n d p e ch => liftA s (applyUpdateToken s.au idx id n d p e ch)
  | c => Arc.C22.apply s idx c

def runEv (s : State) : List Ev → State
  | [] => s
  | .cmd i c :: es => runEv (apply s i c).1 es
  | .restore :: es => runEv (restore (snapshot s)) es

end Arc.C22.PreFix
