import Arc.Model.C22.Types
/-
C22/C23 — applier-side validators: `ValidateManifestPath` (path_validation.go),
`validateTokenEntry`, `validateTokenHashAndPrefix`, `validatePermissionString`/`splitCSV`/
`trimASCIISpace` (fsm.go), `validate*Entry` (fsm_rbac.go). Byte-level, like the Go code.
-/
namespace Arc.C22

/-- UTF-8 encoding of one code point (bytes as `Nat`s; structural, so that closed instances reduce
in the kernel) -/
def charBytes (c : Char) : List Nat :=
  let n := c.toNat
  if n < 128 then [n]
  else if n < 2048 then [192 + n / 64, 128 + n % 64]
  else if n < 65536 then [224 + n / 4096, 128 + (n / 64) % 64, 128 + n % 64]
  else [240 + n / 262144, 128 + (n / 4096) % 64, 128 + (n / 64) % 64, 128 + n % 64]

/-- the bytes of a string, as Go sees them -/
def bytes (s : String) : List Nat := s.toList.flatMap charBytes
/-- Go `len(s)` -/
def blen (s : String) : Nat := (bytes s).length

/-- `isAbsolutePath` -/
def isAbs : List Nat → Bool
  | [] => false
  | c0 :: rest =>
    if c0 == 47 || c0 == 92 then true
    else match rest with
      | c1 :: c2 :: _ =>
        c1 == 58 && ((65 ≤ c0 && c0 ≤ 90) || (97 ≤ c0 && c0 ≤ 122)) && (c2 == 92 || c2 == 47)
      | _ => false

/-- split on `/` and `\` (empty segments are irrelevant for the `..` test) -/
def splitSegs : List Nat → List Nat → List (List Nat)
  | [], cur => [cur.reverse]
  | c :: rest, cur =>
    if c == 47 || c == 92 then cur.reverse :: splitSegs rest [] else splitSegs rest (c :: cur)

/-- `hasParentTraversalSegment` -/
def hasTraversal (b : List Nat) : Bool := (splitSegs b []).any (fun seg => seg == [46, 46])

def firstIdx (x : Nat) : List Nat → Nat → Option Nat
  | [], _ => none
  | c :: rest, i => if c == x then some i else firstIdx x rest (i + 1)

/-- `ValidateManifestPath(path) == nil` -/
def validPath (s : String) : Bool :=
  let b := bytes s
  if b.isEmpty then false
  else if b.length > 4096 then false
  else if b.contains 0 then false
  else if (match firstIdx 58 b 0 with
           | some idx => idx != 1 || !isAbs b
           | none => false) then false
  else if isAbs b then false
  else if hasTraversal b then false
  else true

def isSp (c : Nat) : Bool := c == 32 || c == 9

/-- `trimASCIISpace` -/
def trimSp (b : List Nat) : List Nat := ((b.dropWhile isSp).reverse.dropWhile isSp).reverse

def splitComma : List Nat → List Nat → List (List Nat)
  | [], cur => [cur.reverse]
  | c :: rest, cur => if c == 44 then cur.reverse :: splitComma rest [] else splitComma rest (c :: cur)

def allowedVerb (b : List Nat) : Bool :=
  b == bytes "read" || b == bytes "write" || b == bytes "delete" || b == bytes "admin"

/-- `validatePermissionString(perms) == nil` -/
def validPerms (s : String) : Bool :=
  s == "" || (splitComma (bytes s) []).all (fun p => allowedVerb (trimSp p))

/-- `validateTokenHashAndPrefix` -/
def validHashPfx (hash pfx : String) : Bool :=
  hash != "" && blen hash ≤ 512 && pfx != "" && blen pfx ≤ 256

/-- the name clause of `validateTokenEntry` (also applied by `applyUpdateToken` to a changed name) -/
def validTokenName (name : String) : Bool := name != "" && blen name ≤ 256

/-- `validateTokenEntry` -/
def validToken (e : TokenEntry) : Bool :=
  validTokenName e.name && validHashPfx e.hash e.pfx && validPerms e.perms

def validOrg (e : OrgEntry) : Bool :=
  e.name != "" && blen e.name ≤ 256 && blen e.desc ≤ 1024

def validTeam (e : TeamEntry) : Bool :=
  decide (0 < e.org) && e.name != "" && blen e.name ≤ 256 && blen e.desc ≤ 1024

def validRole (e : RoleEntry) : Bool :=
  decide (0 < e.team) && e.pattern != "" && blen e.pattern ≤ 256 && validPerms e.perms

def validMPerm (e : MPermEntry) : Bool :=
  decide (0 < e.role) && e.pattern != "" && blen e.pattern ≤ 256 && validPerms e.perms

def validMember (e : MemberEntry) : Bool :=
  decide (0 < e.token) && decide (0 < e.team)

end Arc.C22
