import Arc.Model.C22.Apply
/-
C22 — `ClusterFSM.Snapshot` / `fsmSnapshot.Persist` / `ClusterFSM.Restore`.

`snapshot` copies scalars and primary maps (no index is persisted); the JSON encode/decode between
Persist and Restore is the identity on these values (trusted: encoding/json round-trip, validated
by the harness). `restore` re-validates every entry with ITS OWN checks (quarantine = skip),
enforces parent existence and uniqueness, and rebuilds every secondary index from the primaries.
Go iterates the decoded maps in random order; where that order can matter (which of two duplicate
names survives) the model picks key order — such snapshots are unreachable from `snapshot` of a
reachable state (Props: uniqueness invariants).
-/
namespace Arc.C22
open SMap

structure Snapshot where
  nodes : SMap String NodeInfo
  pw : String
  compactor : String
  files : SMap String FileEntry
  tokens : SMap Int TokenEntry
  orgs : SMap Int OrgEntry
  teams : SMap Int TeamEntry
  roles : SMap Int RoleEntry
  mperms : SMap Int MPermEntry
  members : SMap Int MemberEntry
deriving DecidableEq, Repr

def snapshot (s : State) : Snapshot :=
  { nodes := s.cl.nodes, pw := s.cl.pw, compactor := s.cl.compactor, files := s.fs.files,
    tokens := s.au.tokens, orgs := s.au.orgs, teams := s.au.teams, roles := s.au.roles,
    mperms := s.au.mperms, members := s.au.members }

/-! ### quarantine passes -/

def restoreFiles (l : SMap String FileEntry) : SMap String FileEntry :=
  l.filter (fun p => validPath p.1)

def restoreTokens (l : SMap Int TokenEntry) : SMap Int TokenEntry :=
  l.filter (fun p => validToken p.2)

/-- organisations: validate, then UNIQUE(name) against the names already restored -/
def restoreOrgsAux : SMap Int OrgEntry → List String → SMap Int OrgEntry
  | [], _ => []
  | (id, e) :: t, seen =>
    if validOrg e && !seen.contains e.name then (id, e) :: restoreOrgsAux t (e.name :: seen)
    else restoreOrgsAux t seen

def restoreOrgs (l : SMap Int OrgEntry) : SMap Int OrgEntry := restoreOrgsAux l []

/-- teams: validate, parent organisation restored, UNIQUE(org, name) -/
def restoreTeamsAux (orgs : SMap Int OrgEntry) : SMap Int TeamEntry → List (Int × String) → SMap Int TeamEntry
  | [], _ => []
  | (id, e) :: t, seen =>
    if validTeam e && orgs.has e.org && !seen.contains (e.org, e.name)
    then (id, e) :: restoreTeamsAux orgs t ((e.org, e.name) :: seen)
    else restoreTeamsAux orgs t seen

def restoreTeams (orgs : SMap Int OrgEntry) (l : SMap Int TeamEntry) : SMap Int TeamEntry :=
  restoreTeamsAux orgs l []

def restoreRoles (teams : SMap Int TeamEntry) (l : SMap Int RoleEntry) : SMap Int RoleEntry :=
  l.filter (fun p => validRole p.2 && teams.has p.2.team)

def restoreMPerms (roles : SMap Int RoleEntry) (l : SMap Int MPermEntry) : SMap Int MPermEntry :=
  l.filter (fun p => validMPerm p.2 && roles.has p.2.role)

/-- memberships: validate, token and team restored, UNIQUE(token, team) -/
def restoreMembersAux (tokens : SMap Int TokenEntry) (teams : SMap Int TeamEntry) :
    SMap Int MemberEntry → List (Int × Int) → SMap Int MemberEntry
  | [], _ => []
  | (id, e) :: t, seen =>
    if validMember e && tokens.has e.token && teams.has e.team && !seen.contains (e.token, e.team)
    then (id, e) :: restoreMembersAux tokens teams t ((e.token, e.team) :: seen)
    else restoreMembersAux tokens teams t seen

def restoreMembers (tokens : SMap Int TokenEntry) (teams : SMap Int TeamEntry)
    (l : SMap Int MemberEntry) : SMap Int MemberEntry := restoreMembersAux tokens teams l []

/-! ### index rebuilds (keys of the index come from the entry, values from the map key) -/

def rebuildFilesByDB (files : SMap String FileEntry) : SMap String (SSet String) :=
  files.foldl (fun acc p => acc.ins2 p.2.db p.1 ()) []

def rebuildByPrefix (tokens : SMap Int TokenEntry) : SMap String (List Int) :=
  tokens.foldl (fun acc p => prefixAdd acc p.2.pfx p.1) []

def rebuildByName (tokens : SMap Int TokenEntry) : SMap String Int :=
  tokens.foldl (fun acc p => acc.ins p.2.name p.1) []

def rebuildOrgsByName (orgs : SMap Int OrgEntry) : SMap String Int :=
  orgs.foldl (fun acc p => acc.ins p.2.name p.1) []

def rebuildTeamsByOrg (teams : SMap Int TeamEntry) : SMap Int (SMap String Int) :=
  teams.foldl (fun acc p => acc.ins2 p.2.org p.2.name p.1) []

def rebuildRolesByTeam (roles : SMap Int RoleEntry) : SMap Int (SSet Int) :=
  roles.foldl (fun acc p => acc.ins2 p.2.team p.1 ()) []

def rebuildMPermsByRole (mperms : SMap Int MPermEntry) : SMap Int (SSet Int) :=
  mperms.foldl (fun acc p => acc.ins2 p.2.role p.1 ()) []

def rebuildMemByPair (members : SMap Int MemberEntry) : SMap Int (SMap Int Int) :=
  members.foldl (fun acc p => acc.ins2 p.2.token p.2.team p.1) []

def rebuildMemByToken (members : SMap Int MemberEntry) : SMap Int (SSet Int) :=
  members.foldl (fun acc p => acc.ins2 p.2.token p.1 ()) []

def rebuildMemByTeam (members : SMap Int MemberEntry) : SMap Int (SSet Int) :=
  members.foldl (fun acc p => acc.ins2 p.2.team p.1 ()) []

def restoreFs (files0 : SMap String FileEntry) : FileSt :=
  let files := restoreFiles files0
  { files := files, filesByDB := rebuildFilesByDB files }

def restoreAu (sn : Snapshot) : AuthSt :=
  let tokens := restoreTokens sn.tokens
  let orgs := restoreOrgs sn.orgs
  let teams := restoreTeams orgs sn.teams
  let roles := restoreRoles teams sn.roles
  let mperms := restoreMPerms roles sn.mperms
  let members := restoreMembers tokens teams sn.members
  { tokens := tokens, byPrefix := rebuildByPrefix tokens, byName := rebuildByName tokens,
    orgs := orgs, orgsByName := rebuildOrgsByName orgs,
    teams := teams, teamsByOrg := rebuildTeamsByOrg teams,
    roles := roles, rolesByTeam := rebuildRolesByTeam roles,
    mperms := mperms, mpermsByRole := rebuildMPermsByRole mperms,
    members := members, memByPair := rebuildMemByPair members,
    memByToken := rebuildMemByToken members, memByTeam := rebuildMemByTeam members }

/-- `ClusterFSM.Restore` into a fresh FSM (nodes and the two ids are taken over unvalidated) -/
def restore (sn : Snapshot) : State :=
  { cl := { nodes := sn.nodes, pw := sn.pw, compactor := sn.compactor },
    fs := restoreFs sn.files,
    au := restoreAu sn }

end Arc.C22
