import Arc.Model.C22.Valid
/-
C22/C23 — `ClusterFSM.Apply` and the 29 `apply*` functions, as they are (quirks included).
`apply : State → LogIndex → Cmd → State × Res`.
-/
namespace Arc.C22
open SMap

/-! ## nodes, primary writer, compactor (fsm.go) -/

/-- `applyAddNode` = `applyUpdateNode`: the record is replaced, except that the role assignment is
kept: an existing id keeps its recorded `writer_state`, a new id never comes in marked "primary"
(fix 466f761). -/
def applyAddNode (s : NodeSt) (n : NodeInfo) : NodeSt × Res :=
  match s.nodes.get? n.id with
  | some old => ({ s with nodes := s.nodes.ins n.id { n with wstate := old.wstate } }, .ok)
  | none =>
    ({ s with nodes := s.nodes.ins n.id { n with wstate := if n.wstate = "primary" then "" else n.wstate } }, .ok)

/-- `applyRemoveNode`: removing the recorded primary writer clears `primaryWriterID` (fix 4708dee). -/
def applyRemoveNode (s : NodeSt) (id : String) : NodeSt × Res :=
  ({ s with nodes := s.nodes.del id, pw := if s.pw = id then "" else s.pw }, .ok)

def applyUpdateNodeState (s : NodeSt) (id st : String) : NodeSt × Res :=
  match s.nodes.get? id with
  | some n => ({ s with nodes := s.nodes.ins id { n with state := st } }, .ok)
  | none => (s, .notfound)

/-- `if node, ok := f.nodes[id]; ok { node.WriterState = ws }` -/
def setWState (nodes : SMap String NodeInfo) (id ws : String) : SMap String NodeInfo :=
  match nodes.get? id with
  | some n => nodes.ins id { n with wstate := ws }
  | none => nodes

/-- the old primary is demoted when it is set and different from the promoted id -/
def demoteOld (nodes : SMap String NodeInfo) (pw id : String) : SMap String NodeInfo :=
  if pw ≠ "" ∧ pw ≠ id then setWState nodes pw "standby" else nodes

/-- `applyPromoteWriter`: existence and role are validated before any state is touched
(fix 93fb282). -/
def applyPromote (s : NodeSt) (id : String) : NodeSt × Res :=
  if id = "" then (s, .invalid) else
  match s.nodes.get? id with
  | some n =>
    if n.role ≠ "writer" then (s, .invalid)
    else ({ s with nodes := setWState (demoteOld s.nodes s.pw id) id "primary", pw := id }, .ok)
  | none => (s, .notfound)

/-- `applyDemoteWriter`: clears `primaryWriterID` when it names the id, even if the node is unknown. -/
def applyDemote (s : NodeSt) (id : String) : NodeSt × Res :=
  if id = "" then (s, .invalid) else
  ({ s with nodes := setWState s.nodes id "standby", pw := if s.pw = id then "" else s.pw },
   if s.nodes.has id then .ok else .notfound)

def applyAssignCompactor (s : NodeSt) (id : String) : NodeSt × Res :=
  if id = "" then (s, .invalid) else ({ s with compactor := id }, .ok)

/-! ## file manifest -/

/-- "if the file was already registered under a different database, remove the old index entry" -/
def dropOldIdx (s : FileSt) (e : FileEntry) : SMap String (SSet String) :=
  match s.files.get? e.path with
  | some old => if old.db ≠ e.db then s.filesByDB.del2 old.db old.path else s.filesByDB
  | none => s.filesByDB

def fileOk (f : FileEntry) : Bool := validPath f.path && !(f.ctime == zeroTime)

/-- `applyRegisterFileStruct` -/
def applyRegister (s : FileSt) (idx : Nat) (f : FileEntry) : FileSt × Res :=
  if !fileOk f then (s, .invalid) else
  let e : FileEntry := { f with lsn := idx }
  ({ s with files := s.files.ins e.path e,
            filesByDB := (dropOldIdx s e).ins2 e.db e.path () }, .ok)

/-- `applyUpdateFileStruct` — same state change as Register: indexes unconditionally, an empty
database included (fix 464463f). -/
def applyUpdateFile (s : FileSt) (idx : Nat) (f : FileEntry) : FileSt × Res :=
  if !fileOk f then (s, .invalid) else
  let e : FileEntry := { f with lsn := idx }
  ({ s with files := s.files.ins e.path e,
            filesByDB := (dropOldIdx s e).ins2 e.db e.path () }, .ok)

/-- `applyDeleteFileStruct` -/
def applyDeleteFile (s : FileSt) (path : String) : FileSt × Res :=
  if path = "" then (s, .invalid) else
  match s.files.get? path with
  | none => (s, .ok)
  | some ex => ({ s with files := s.files.del path, filesByDB := s.filesByDB.del2 ex.db path }, .ok)

/-- the pre-validation pass of `applyBatchFileOps`: first failing op decides the error -/
def prevalidate : List BatchOp → Res
  | [] => .ok
  | .register f :: rest => if fileOk f then prevalidate rest else .invalid
  | .update f :: rest => if fileOk f then prevalidate rest else .invalid
  | .delete p :: rest => if p = "" then .invalid else prevalidate rest
  | .malformed :: _ => .unmarshal
  | .unsupported :: _ => .invalid

def applyBatchOp (s : FileSt) (idx : Nat) : BatchOp → FileSt × Res
  | .register f => applyRegister s idx f
  | .update f => applyUpdateFile s idx f
  | .delete p => applyDeleteFile s p
  | .malformed => (s, .unmarshal)
  | .unsupported => (s, .invalid)

/-- the apply loop of `applyBatchFileOps` (stops at the first error) -/
def applyOps (s : FileSt) (idx : Nat) : List BatchOp → FileSt × Res
  | [] => (s, .ok)
  | op :: rest =>
    if (applyBatchOp s idx op).2 = .ok then applyOps (applyBatchOp s idx op).1 idx rest
    else applyBatchOp s idx op

def applyBatch (s : FileSt) (idx : Nat) (ops : List BatchOp) : FileSt × Res :=
  if prevalidate ops = .ok then applyOps s idx ops else (s, prevalidate ops)

/-! ## tokens -/

/-- sorted multiset insert -/
def msIns (x : Int) : List Int → List Int
  | [] => [x]
  | y :: t => if x ≤ y then x :: y :: t else y :: msIns x t

/-- `tokensByPrefix[p] = append(tokensByPrefix[p], id)` -/
def prefixAdd (m : SMap String (List Int)) (p : String) (id : Int) : SMap String (List Int) :=
  m.ins p (msIns id ((m.get? p).getD []))

/-- filter `id` out of `tokensByPrefix[p]`, deleting the key when the slice becomes empty -/
def prefixDel (m : SMap String (List Int)) (p : String) (id : Int) : SMap String (List Int) :=
  match m.get? p with
  | none => m
  | some ids =>
    if (ids.filter (fun x => x != id)).isEmpty then m.del p
    else m.ins p (ids.filter (fun x => x != id))

def applyCreateToken (s : AuthSt) (idx : Nat) (t : TokenEntry) : AuthSt × Res :=
  if !validToken t then (s, .invalid)
  else if t.created = 0 then (s, .invalid)
  else if s.byName.has t.name then (s, .exists)
  else
    let e : TokenEntry := { t with id := idx, lsn := idx, enabled := true }
    ({ s with tokens := s.tokens.ins e.id e,
              byPrefix := prefixAdd s.byPrefix e.pfx e.id,
              byName := s.byName.ins e.name e.id }, .ok)

/-- `if otherID, exists := f.tokensByName[p.Name]; exists && otherID != p.ID` -/
def nameTaken (byName : SMap String Int) (name : String) (id : Int) : Bool :=
  match byName.get? name with
  | some other => other != id
  | none => false

/-- `applyUpdateToken`: a changed name must satisfy the rule `Restore` applies (fix 305f0ae). -/
def applyUpdateToken (s : AuthSt) (idx : Nat) (id : Int) (name desc perms : String) (expires : Int)
    (changed : List String) : AuthSt × Res :=
  if id = 0 then (s, .invalid)
  else if changed.contains "name" && !validTokenName name then (s, .invalid)
  else if changed.contains "permissions" && !validPerms perms then (s, .invalid)
  else match s.tokens.get? id with
  | none => (s, .ok)
  | some e =>
    if changed.contains "name" && nameTaken s.byName name id then (s, .exists)
    else
      let e' : TokenEntry :=
        { e with name := if changed.contains "name" then name else e.name,
                 desc := if changed.contains "description" then desc else e.desc,
                 perms := if changed.contains "permissions" then perms else e.perms,
                 expires := if changed.contains "expires_at" then expires else e.expires,
                 lsn := idx }
      ({ s with tokens := s.tokens.ins id e',
                byName := if changed.contains "name" then (s.byName.del e.name).ins name e.id
                          else s.byName }, .ok)

def applyRevokeToken (s : AuthSt) (idx : Nat) (id : Int) : AuthSt × Res :=
  if id = 0 then (s, .invalid)
  else match s.tokens.get? id with
  | none => (s, .ok)
  | some e => ({ s with tokens := s.tokens.ins id { e with enabled := false, lsn := idx } }, .ok)

/-- body of the membership cascade loop in `applyDeleteToken` -/
def memCascadeByToken (s : AuthSt) (mid : Int) : AuthSt :=
  match s.members.get? mid with
  | none => s
  | some mem =>
    { s with memByPair := s.memByPair.del2 mem.token mem.team,
             memByTeam := s.memByTeam.del2 mem.team mid,
             members := s.members.del mid }

def applyDeleteToken (s : AuthSt) (id : Int) : AuthSt × Res :=
  if id = 0 then (s, .invalid)
  else match s.tokens.get? id with
  | none => (s, .ok)
  | some e =>
    let s1 : AuthSt := { s with tokens := s.tokens.del id,
                                byPrefix := prefixDel s.byPrefix e.pfx id,
                                byName := s.byName.del e.name }
    match s1.memByToken.get? id with
    | none => (s1, .ok)
    | some set =>
      let s2 := (keys set).foldl memCascadeByToken s1
      ({ s2 with memByToken := s2.memByToken.del id }, .ok)

def applyRotateToken (s : AuthSt) (idx : Nat) (id : Int) (hash pfx : String) : AuthSt × Res :=
  if id = 0 then (s, .invalid)
  else if !validHashPfx hash pfx then (s, .invalid)
  else match s.tokens.get? id with
  | none => (s, .ok)
  | some e =>
    ({ s with tokens := s.tokens.ins id { e with hash := hash, pfx := pfx, lsn := idx },
              byPrefix := if e.pfx ≠ pfx then prefixAdd (prefixDel s.byPrefix e.pfx id) pfx id
                          else s.byPrefix }, .ok)

/-! ## RBAC (fsm_rbac.go) -/

def applyCreateOrg (s : AuthSt) (idx : Nat) (e : OrgEntry) : AuthSt × Res :=
  if !validOrg e then (s, .invalid)
  else if e.created = 0 then (s, .invalid)
  else if s.orgsByName.has e.name then (s, .exists)
  else
    let e' : OrgEntry := { e with id := idx, lsn := idx, enabled := true,
                                  updated := if e.updated = 0 then e.created else e.updated }
    ({ s with orgs := s.orgs.ins e'.id e', orgsByName := s.orgsByName.ins e'.name e'.id }, .ok)

def applyUpdateOrg (s : AuthSt) (idx : Nat) (id : Int) (name desc : String) (enabled : Bool)
    (updated : Int) (changed : List String) : AuthSt × Res :=
  if id = 0 then (s, .invalid)
  else if changed.contains "name" && (name == "" || blen name > 256) then (s, .invalid)
  else if changed.contains "description" && blen desc > 1024 then (s, .invalid)
  else match s.orgs.get? id with
  | none => (s, .notfound)
  | some ex =>
    if changed.contains "name" && name != ex.name && s.orgsByName.has name then (s, .exists)
    else
      let e' : OrgEntry :=
        { ex with name := if changed.contains "name" then name else ex.name,
                  desc := if changed.contains "description" then desc else ex.desc,
                  enabled := if changed.contains "enabled" then enabled else ex.enabled,
                  updated := if updated ≠ 0 then updated else ex.updated,
                  lsn := idx }
      ({ s with orgs := s.orgs.ins id e',
                orgsByName := if changed.contains "name" && name != ex.name
                              then (s.orgsByName.del ex.name).ins name id else s.orgsByName }, .ok)

/-- `cascadeDeleteRoleLocked` -/
def cascadeRole (s : AuthSt) (role : Int) : AuthSt :=
  { s with mperms := (keys (s.mpermsByRole.inner role)).foldl (fun m k => m.del k) s.mperms,
           mpermsByRole := s.mpermsByRole.del role }

/-- body of the membership loop in `cascadeDeleteTeamLocked` -/
def memCascadeByTeam (s : AuthSt) (mid : Int) : AuthSt :=
  match s.members.get? mid with
  | none => s
  | some mem =>
    { s with memByPair := s.memByPair.del2 mem.token mem.team,
             memByToken := s.memByToken.del2 mem.token mid,
             members := s.members.del mid }

def cascadeRoleAndDelete (s : AuthSt) (role : Int) : AuthSt :=
  { cascadeRole s role with roles := (cascadeRole s role).roles.del role }

/-- `cascadeDeleteTeamLocked` -/
def cascadeTeam (s : AuthSt) (team : Int) : AuthSt :=
  let s1 := (keys (s.rolesByTeam.inner team)).foldl cascadeRoleAndDelete s
  let s2 : AuthSt := { s1 with rolesByTeam := s1.rolesByTeam.del team }
  let s3 := (keys (s2.memByTeam.inner team)).foldl memCascadeByTeam s2
  { s3 with memByTeam := s3.memByTeam.del team }

def cascadeTeamAndDelete (s : AuthSt) (team : Int) : AuthSt :=
  { cascadeTeam s team with teams := (cascadeTeam s team).teams.del team }

/-- `cascadeDeleteOrgLocked` -/
def cascadeOrg (s : AuthSt) (org : Int) : AuthSt :=
  ((s.teamsByOrg.inner org).map (·.2)).foldl cascadeTeamAndDelete s

def applyDeleteOrg (s : AuthSt) (id : Int) : AuthSt × Res :=
  if id = 0 then (s, .invalid)
  else match s.orgs.get? id with
  | none => (s, .ok)
  | some ex =>
    let s1 := cascadeOrg s id
    ({ s1 with orgs := s1.orgs.del id, orgsByName := s1.orgsByName.del ex.name,
               teamsByOrg := s1.teamsByOrg.del id }, .ok)

def applyCreateTeam (s : AuthSt) (idx : Nat) (e : TeamEntry) : AuthSt × Res :=
  if !validTeam e then (s, .invalid)
  else if e.created = 0 then (s, .invalid)
  else if !s.orgs.has e.org then (s, .notfound)
  else if ((s.teamsByOrg.get2? e.org e.name).isSome) then (s, .exists)
  else
    let e' : TeamEntry := { e with id := idx, lsn := idx, enabled := true,
                                   updated := if e.updated = 0 then e.created else e.updated }
    ({ s with teams := s.teams.ins e'.id e', teamsByOrg := s.teamsByOrg.ins2 e'.org e'.name e'.id }, .ok)

def applyUpdateTeam (s : AuthSt) (idx : Nat) (id : Int) (name desc : String) (enabled : Bool)
    (updated : Int) (changed : List String) : AuthSt × Res :=
  if id = 0 then (s, .invalid)
  else if changed.contains "name" && (name == "" || blen name > 256) then (s, .invalid)
  else if changed.contains "description" && blen desc > 1024 then (s, .invalid)
  else match s.teams.get? id with
  | none => (s, .notfound)
  | some ex =>
    if changed.contains "name" && name != ex.name && (s.teamsByOrg.get2? ex.org name).isSome
    then (s, .exists)
    else
      let e' : TeamEntry :=
        { ex with name := if changed.contains "name" then name else ex.name,
                  desc := if changed.contains "description" then desc else ex.desc,
                  enabled := if changed.contains "enabled" then enabled else ex.enabled,
                  updated := if updated ≠ 0 then updated else ex.updated,
                  lsn := idx }
      ({ s with teams := s.teams.ins id e',
                teamsByOrg := if changed.contains "name" && name != ex.name
                              then s.teamsByOrg.ins ex.org (((s.teamsByOrg.inner ex.org).del ex.name).ins name id)
                              else s.teamsByOrg }, .ok)

def applyDeleteTeam (s : AuthSt) (id : Int) : AuthSt × Res :=
  if id = 0 then (s, .invalid)
  else match s.teams.get? id with
  | none => (s, .ok)
  | some ex =>
    let s1 := cascadeTeam s id
    ({ s1 with teams := s1.teams.del id, teamsByOrg := s1.teamsByOrg.del2 ex.org ex.name }, .ok)

def applyCreateRole (s : AuthSt) (idx : Nat) (e : RoleEntry) : AuthSt × Res :=
  if !validRole e then (s, .invalid)
  else if e.created = 0 then (s, .invalid)
  else if !s.teams.has e.team then (s, .notfound)
  else
    let e' : RoleEntry := { e with id := idx, lsn := idx }
    ({ s with roles := s.roles.ins e'.id e', rolesByTeam := s.rolesByTeam.ins2 e'.team e'.id () }, .ok)

def applyUpdateRole (s : AuthSt) (idx : Nat) (id : Int) (pattern perms : String)
    (changed : List String) : AuthSt × Res :=
  if id = 0 then (s, .invalid)
  else if changed.contains "database_pattern" && (pattern == "" || blen pattern > 256) then (s, .invalid)
  else if changed.contains "permissions" && !validPerms perms then (s, .invalid)
  else match s.roles.get? id with
  | none => (s, .notfound)
  | some ex =>
    let e' : RoleEntry :=
        { ex with pattern := if changed.contains "database_pattern" then pattern else ex.pattern,
                  perms := if changed.contains "permissions" then perms else ex.perms,
                  lsn := idx }
    ({ s with roles := s.roles.ins id e' }, .ok)

def applyDeleteRole (s : AuthSt) (id : Int) : AuthSt × Res :=
  if id = 0 then (s, .invalid)
  else match s.roles.get? id with
  | none => (s, .ok)
  | some ex =>
    let s1 := cascadeRole s id
    ({ s1 with roles := s1.roles.del id, rolesByTeam := s1.rolesByTeam.del2 ex.team id }, .ok)

def applyCreateMPerm (s : AuthSt) (idx : Nat) (e : MPermEntry) : AuthSt × Res :=
  if !validMPerm e then (s, .invalid)
  else if e.created = 0 then (s, .invalid)
  else if !s.roles.has e.role then (s, .notfound)
  else
    let e' : MPermEntry := { e with id := idx, lsn := idx }
    ({ s with mperms := s.mperms.ins e'.id e', mpermsByRole := s.mpermsByRole.ins2 e'.role e'.id () }, .ok)

def applyDeleteMPerm (s : AuthSt) (id : Int) : AuthSt × Res :=
  if id = 0 then (s, .invalid)
  else match s.mperms.get? id with
  | none => (s, .ok)
  | some ex =>
    ({ s with mperms := s.mperms.del id, mpermsByRole := s.mpermsByRole.del2 ex.role id }, .ok)

def applyAddMember (s : AuthSt) (idx : Nat) (e : MemberEntry) : AuthSt × Res :=
  if !validMember e then (s, .invalid)
  else if e.created = 0 then (s, .invalid)
  else if !s.tokens.has e.token then (s, .notfound)
  else if !s.teams.has e.team then (s, .notfound)
  else if (s.memByPair.get2? e.token e.team).isSome then (s, .exists)
  else
    let e' : MemberEntry := { e with id := idx, lsn := idx }
    ({ s with members := s.members.ins e'.id e',
              memByPair := s.memByPair.ins2 e'.token e'.team e'.id,
              memByToken := s.memByToken.ins2 e'.token e'.id (),
              memByTeam := s.memByTeam.ins2 e'.team e'.id () }, .ok)

def applyRemoveMember (s : AuthSt) (token team : Int) : AuthSt × Res :=
  if token = 0 ∨ team = 0 then (s, .invalid)
  else match s.memByPair.get2? token team with
  | none => (s, .ok)
  | some mid =>
    ({ s with memByPair := s.memByPair.del2 token team,
              memByToken := s.memByToken.del2 token mid,
              memByTeam := s.memByTeam.del2 team mid,
              members := s.members.del mid }, .ok)

/-! ## dispatch (`ClusterFSM.Apply`) -/

def liftN (s : State) (r : NodeSt × Res) : State × Res := ({ s with cl := r.1 }, r.2)
def liftF (s : State) (r : FileSt × Res) : State × Res := ({ s with fs := r.1 }, r.2)
def liftA (s : State) (r : AuthSt × Res) : State × Res := ({ s with au := r.1 }, r.2)

def apply (s : State) (idx : Nat) : Cmd → State × Res
  | .addNode n => liftN s (applyAddNode s.cl n)
  | .removeNode id => liftN s (applyRemoveNode s.cl id)
  | .updateNode n => liftN s (applyAddNode s.cl n)
  | .updateNodeState id st => liftN s (applyUpdateNodeState s.cl id st)
  | .promote id _ => liftN s (applyPromote s.cl id)
  | .demote id => liftN s (applyDemote s.cl id)
  | .assignCompactor id => liftN s (applyAssignCompactor s.cl id)
  | .registerFile f => liftF s (applyRegister s.fs idx f)
  | .deleteFile p => liftF s (applyDeleteFile s.fs p)
  | .batch ops => liftF s (applyBatch s.fs idx ops)
  | .updateFile f => liftF s (applyUpdateFile s.fs idx f)
  | .createToken t => liftA s (applyCreateToken s.au idx t)
  | .updateToken id n d p e ch => liftA s (applyUpdateToken s.au idx id n d p e ch)
  | .revokeToken id => liftA s (applyRevokeToken s.au idx id)
  | .deleteToken id => liftA s (applyDeleteToken s.au id)
  | .rotateToken id h p => liftA s (applyRotateToken s.au idx id h p)
  | .createOrg e => liftA s (applyCreateOrg s.au idx e)
  | .updateOrg id n d en u ch => liftA s (applyUpdateOrg s.au idx id n d en u ch)
  | .deleteOrg id => liftA s (applyDeleteOrg s.au id)
  | .createTeam e => liftA s (applyCreateTeam s.au idx e)
  | .updateTeam id n d en u ch => liftA s (applyUpdateTeam s.au idx id n d en u ch)
  | .deleteTeam id => liftA s (applyDeleteTeam s.au id)
  | .createRole e => liftA s (applyCreateRole s.au idx e)
  | .updateRole id pt pm ch => liftA s (applyUpdateRole s.au idx id pt pm ch)
  | .deleteRole id => liftA s (applyDeleteRole s.au id)
  | .createMPerm e => liftA s (applyCreateMPerm s.au idx e)
  | .deleteMPerm id => liftA s (applyDeleteMPerm s.au id)
  | .addMember e => liftA s (applyAddMember s.au idx e)
  | .removeMember t tm => liftA s (applyRemoveMember s.au t tm)
  | .malformed => (s, .unmarshal)
  | .unknown => (s, .unknown)

/-- run a history with explicit log indexes (strictly increasing in Raft) -/
def runIdx (s : State) : List (Nat × Cmd) → State
  | [] => s
  | (i, c) :: cs => runIdx (apply s i c).1 cs

/-- run a history: the i-th command is applied at log index `i0 + i` -/
def run (s : State) (i0 : Nat) : List Cmd → State
  | [] => s
  | c :: cs => run (apply s i0 c).1 (i0 + 1) cs

end Arc.C22
