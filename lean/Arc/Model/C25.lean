/-
C25 — model of peer file replication on a replica:
`internal/cluster/filereplication/puller.go` (`processEntry`, `pullOnce`, `tryResumeFromPartial`,
`writeFileTail`, `deleteFile`), `fetch_client.go` (`FetchClient.Fetch`: ack validation, streaming
through the SHA-256 hasher, final digest comparison) and the four `LocalBackend` methods the puller
uses (`StatFile`, `ReadToAt`, `WriteReader`, `AppendReader`, `Delete`).

Per manifest file the replica state is `(final, part)`: the bytes at the final path and at
`<path>.part` (`none` = file absent).  The hash is an abstract function `H`; nothing in the model
assumes anything about it (collision-freeness is a *hypothesis* of the theorems that need it).

Four code facts are parameters (`Facts`) and are REGENERATED from the source by
`go/factgen/cmd/c25` (`Arc.Generated.C25.facts`):
* `statPartFallback`   — `StatFile` reports the size of `<path>.part` when the final file is absent;
* `deleteRemovesPart`  — `Delete(path)` also removes `<path>.part`;
* `presenceNeedsFinal` — the "already present" shortcut of `processEntry` additionally requires the
  final file itself to exist;
* `promoteAfterVerdict` — `WriteReader` renames `.part` onto the final path only after `io.Copy` on
  the caller's (un-limited) reader returned nil, i.e. after the clean EOF that `pullOnce` delivers
  only once `Fetch` has returned its SHA-256 verdict.  (`false` = the copy is bounded by the declared
  size, so the rename happens as soon as that many bytes arrived — before the verdict.)

Core-only, executable.  Bytes are `Nat`s (the driver feeds values < 256).
-/
namespace Arc.C25

abbrev Bytes := List Nat

structure Facts where
  statPartFallback   : Bool
  deleteRemovesPart  : Bool
  presenceNeedsFinal : Bool
  promoteAfterVerdict : Bool
  /-- `tryResumeFromPartial` also resumes from a local file of exactly the manifest size
  (boundary `partial > SizeBytes` instead of `partial >= SizeBytes`) -/
  resumeFullPart : Bool
deriving DecidableEq, Repr

/-- the two step-order obligations every safety/liveness theorem relies on: promotion only after
the verified-EOF signal, and a local file of length ≥ size is never used as a resume point -/
def Facts.orderOK (f : Facts) : Bool := f.promoteAfterVerdict && !f.resumeFullPart

/-- the tree as of round 1 (before any repair) -/
def Facts.current : Facts := ⟨true, false, false, true, false⟩

/-- replica-side files of one manifest path -/
structure Rep where
  final : Option Bytes
  part  : Option Bytes
deriving DecidableEq, Repr

/-- what the peer / the network does in one `Fetch` call -/
inductive Outcome
  | dialFail                -- `security.Dial` fails
  | errAck                  -- ack with Status != "ok", unclassified code
  | notOnPeer               -- ack code not_found / manifest
  | badOffset               -- ack code bad_offset
  | ackWrongSize            -- ok-ack whose SizeBytes differs from the expected tail
  | ackWrongHash            -- ok-ack whose SHA256 differs from the manifest's
  | trunc (i : Nat)         -- connection breaks after the file bytes [0,i) have been sent
  | corrupt (i : Nat)       -- full body, byte i of the file altered in transit
  | ok
deriving DecidableEq, Repr

/-- error classes of `Fetch` that `pullOnce` / `processEntry` distinguish -/
inductive FErr | ok | transport | checksum | badOffset
deriving DecidableEq, Repr

def flipByte (b : Nat) : Nat := (b + 1) % 256

/-- the file with byte `i` altered (unchanged when `i` is out of range) -/
def flipAt (c : Bytes) (i : Nat) : Bytes :=
  match c[i]? with
  | some b => c.set i (flipByte b)
  | none => c

/-- whole-file byte stream the peer would put on the wire (before the resume offset is applied);
`none` = the exchange ends before the body phase. -/
def bodyOf (content : Bytes) : Outcome → Option Bytes
  | .trunc i => some (content.take i)
  | .corrupt i => some (flipAt content i)
  | .ok => some content
  | _ => none

/-- class of the exchanges that end before the body phase -/
def preErr : Outcome → FErr
  | .badOffset => .badOffset
  | .ackWrongHash => .checksum
  | _ => .transport

structure FetchRes where
  sent : Bytes      -- bytes written to `dst` (all of them reach the staging file: io.Pipe is synchronous)
  err  : FErr
deriving Repr

section
variable {D : Type} [DecidableEq D] (H : Bytes → D)

/-- outcomes in which the serving side gets as far as its offset validation
(`handleFetchFile` step 5: `byteOffset >= entry.SizeBytes` ⇒ ack `bad_offset`) -/
def reachesOffsetCheck : Outcome → Bool
  | .dialFail | .errAck | .notOnPeer | .badOffset => false
  | _ => true

/-- `FetchClient.Fetch` against a peer behaving as `o`, resuming after the local prefix `pre`.
`dstBroken`: the write side failed before the first byte (AppendReader could not open `.part`).
A resume request at or beyond the end of the file is rejected by the peer with `bad_offset`. -/
def fetch (content pre : Bytes) (dstBroken : Bool) (o : Outcome) : FetchRes :=
  if reachesOffsetCheck o = true ∧ 0 < pre.length ∧ content.length ≤ pre.length then ⟨[], .badOffset⟩ else
  match bodyOf content o with
  | none => ⟨[], preErr o⟩
  | some full =>
    if dstBroken then ⟨[], .transport⟩ else
    let sent := full.drop pre.length
    if sent.length < content.length - pre.length then ⟨sent, .transport⟩      -- io.CopyN: short read
    else if H (pre ++ sent) = H content then ⟨sent, .ok⟩                      -- digest over prefix+tail
    else ⟨sent, .checksum⟩
end

/-- `LocalBackend.StatFile`: size of the final file, else (fact) of `<path>.part`, else "absent". -/
def statFile (f : Facts) (r : Rep) : Option Nat :=
  match r.final with
  | some b => some b.length
  | none => if f.statPartFallback then r.part.map List.length else none

/-- `LocalBackend.ReadToAt(path, w, 0)`: the final file, else `<path>.part`. -/
def readAt (r : Rep) : Option Bytes :=
  match r.final with
  | some b => some b
  | none => r.part

/-- `LocalBackend.Delete`: removes the final path; removes `<path>.part` only if the fact says so. -/
def delete (f : Facts) (r : Rep) : Rep :=
  { final := none, part := if f.deleteRemovesPart then none else r.part }

/-- `tryResumeFromPartial`: the local prefix to resume after (`[]` = fetch from zero). -/
def resumePrefix (f : Facts) (size : Nat) (r : Rep) : Bytes :=
  match statFile f r with
  | none => []
  | some n => if n = 0 ∨ (if f.resumeFullPart then size < n else size ≤ n) then [] else (readAt r).getD []

/-- the write goroutine (`writeFileTail`): `WriteReader` (offset 0: create/truncate `.part`, stream,
rename on clean EOF) or `AppendReader` (offset > 0: append to the existing `.part`, rename when the
whole tail arrived).  A clean EOF is delivered exactly when `Fetch` returned nil.  Step order of
`WriteReader`: with `promoteAfterVerdict` the rename waits for that clean EOF; without it the copy
stops — and the rename happens — as soon as the declared `size > 0` bytes have arrived, whatever
verdict `Fetch` is about to deliver. -/
def afterWrite (f : Facts) (size : Nat) (r : Rep) (pre : Bytes) (fr : FetchRes) : Rep :=
  if pre.length = 0 then
    if fr.err = .ok then { final := some fr.sent, part := none }
    else if f.promoteAfterVerdict = false ∧ 0 < size ∧ size ≤ fr.sent.length then
      { final := some (fr.sent.take size), part := none }
    else { final := r.final, part := some fr.sent }
  else
    match r.part with
    | none => r
    | some base =>
      if fr.err = .ok then { final := some (base ++ fr.sent), part := none }
      else { final := r.final, part := some (base ++ fr.sent) }

structure PullOut where
  rep : Rep
  err : FErr
  off : Nat
  mid : Rep      -- replica files when the write goroutine has finished, before any cleanup `Delete`
deriving Repr

section
variable {D : Type} [DecidableEq D] (H : Bytes → D)

/-- `pullOnce`: resume decision, fetch ∥ write, then the cleanup after checksum / bad-offset errors. -/
def pullOnce (f : Facts) (content : Bytes) (resume : Bool) (r : Rep) (o : Outcome) : PullOut :=
  let pre := if resume then resumePrefix f content.length r else []
  let broken := decide (pre.length ≠ 0) && r.part.isNone
  let fr := fetch H content pre broken o
  let r1 := afterWrite f content.length r pre fr
  let r2 := if fr.err = .checksum ∨ fr.err = .badOffset then delete f r1 else r1
  ⟨r2, fr.err, pre.length, r1⟩
end

structure Counters where
  pulled       : Nat := 0
  skippedLocal : Nat := 0
  failed       : Nat := 0
  cksum        : Nat := 0
  badOffset    : Nat := 0
  noPeer       : Nat := 0
deriving DecidableEq, Repr

def Counters.bump (c : Counters) : FErr → Counters
  | .ok => { c with pulled := c.pulled + 1 }
  | .checksum => { c with cksum := c.cksum + 1 }
  | .badOffset => { c with badOffset := c.badOffset + 1 }
  | .transport => c

inductive LoopRes | pulled | stopped | exhausted
deriving DecidableEq, Repr

section
variable {D : Type} [DecidableEq D] (H : Bytes → D)

/-- the `for _, peerAddr := range peers` loop of one attempt; `offs` collects the resume offsets
passed to `Fetch` (observable in the harness). -/
def peersLoop (f : Facts) (content : Bytes) (resume : Bool) :
    Rep → Counters → List Outcome → Rep × Counters × LoopRes × List Nat
  | r, c, [] => (r, c, .exhausted, [])
  | r, c, o :: os =>
    let po := pullOnce H f content resume r o
    let c' := c.bump po.err
    if po.err = .ok then (po.rep, c', .pulled, [po.off])
    else if po.err = .checksum then (po.rep, c', .stopped, [po.off])
    else
      let rest := peersLoop f content resume po.rep c' os
      (rest.1, rest.2.1, rest.2.2.1, po.off :: rest.2.2.2)
/-- what a cleanup `Delete` finds at the final path, one entry per `Delete` call of the peer loop
(observable in the harness through a wrapping backend; used by the driver only) -/
def peersDels (f : Facts) (content : Bytes) (resume : Bool) : Rep → List Outcome → List (Option Bytes)
  | _, [] => []
  | r, o :: os =>
    let po := pullOnce H f content resume r o
    if po.err = .ok then []
    else if po.err = .checksum then [po.mid.final]
    else if po.err = .badOffset then po.mid.final :: peersDels f content resume po.rep os
    else peersDels f content resume po.rep os
end

/-- how a `processEntry` call stands -/
inductive St
  | running
  | pulled      -- totalPulled++ , succeeded
  | skipped     -- totalSkippedLocal++ , succeeded ("already present")
  | failed      -- totalFailed++ , failed
  | exhausted   -- loop ran out on a no-peers attempt: neither succeeded nor failed
deriving DecidableEq, Repr

/-- the pre-pull presence check of `processEntry` -/
def present (f : Facts) (size : Nat) (r : Rep) : Bool :=
  (statFile f r == some size) && (!f.presenceNeedsFinal || r.final.isSome)

structure PState where
  rep     : Rep
  cnt     : Counters
  attempt : Nat        -- 1-based number of the next attempt
  st      : St
  offs    : List Nat := []   -- offsets used by the last executed attempt
deriving Repr

def PState.start (r : Rep) (c : Counters) : PState := ⟨r, c, 1, .running, []⟩

section
variable {D : Type} [DecidableEq D] (H : Bytes → D)

/-- bookkeeping after the per-peer loop of one attempt -/
def afterLoop (maxAttempts : Nat) (s : PState) (l : Rep × Counters × LoopRes × List Nat) : PState :=
  if l.2.2.1 = .pulled then
    { s with rep := l.1, cnt := l.2.1, st := .pulled, offs := l.2.2.2 }
  else if s.attempt ≥ maxAttempts then
    { s with rep := l.1, cnt := { l.2.1 with failed := l.2.1.failed + 1 }, st := .failed, offs := l.2.2.2 }
  else
    { s with rep := l.1, cnt := l.2.1, attempt := s.attempt + 1, offs := l.2.2.2 }

/-- one iteration of the retry loop of `processEntry` (`peers` = scripted outcome per candidate
peer returned by the resolver for this attempt). -/
def attemptStep (f : Facts) (content : Bytes) (maxAttempts : Nat) (s : PState) (peers : List Outcome) :
    PState :=
  if s.st ≠ .running then s
  else if present f content.length s.rep then
    { s with cnt := { s.cnt with skippedLocal := s.cnt.skippedLocal + 1 }, st := .skipped, offs := [] }
  else if peers.isEmpty then
    { s with cnt := { s.cnt with noPeer := s.cnt.noPeer + 1 }, attempt := s.attempt + 1, offs := [],
             st := if s.attempt ≥ maxAttempts then .exhausted else .running }
  else
    afterLoop maxAttempts s (peersLoop H f content (decide (s.attempt > 1)) s.rep s.cnt peers)

/-- final-path contents seen by the cleanup `Delete`s of one attempt (driver only) -/
def attemptDels (f : Facts) (content : Bytes) (s : PState) (peers : List Outcome) : List (Option Bytes) :=
  if s.st ≠ .running then []
  else if present f content.length s.rep then []
  else peersDels H f content (decide (s.attempt > 1)) s.rep peers

/-- a whole `processEntry` call driven by a script (one peer-outcome list per attempt) -/
def runProc (f : Facts) (content : Bytes) (maxAttempts : Nat) : PState → List (List Outcome) → PState
  | s, [] => s
  | s, a :: as => runProc f content maxAttempts (attemptStep H f content maxAttempts s a) as

/-- a history: several `processEntry` calls for the same manifest entry (re-enqueues by FSM
callbacks / catch-up), each with its own script. -/
def runHist (f : Facts) (content : Bytes) (maxAttempts : Nat) : Rep × Counters → List (List (List Outcome)) → Rep × Counters
  | rc, [] => rc
  | rc, p :: ps =>
    let s := runProc H f content maxAttempts (PState.start rc.1 rc.2) p
    runHist f content maxAttempts (s.rep, s.cnt) ps
end

end Arc.C25
