/-
C26 — model of `internal/cluster/security/nonce_cache.go` (`NonceCache.Track`) and of the
freshness test shared by every `Validate*HMAC` function (`drift := now.Unix() - ts; |drift| >
int64(tolerance.Seconds())` ⇒ reject), composed in the order every call site uses:
validate (freshness, then MAC) and only then `Track`.

Time is an unbounded `Int` of unix nanoseconds; signed timestamps are unix seconds.
The MAC is a parameter (`macOk`): a byte-for-byte replay carries the same valid MAC.
Core-only, executable.
-/
namespace Arc.C26

def nsPerSec : Int := 1000000000

/-- `nonceCacheEvictInterval` (60 s) in ns. -/
def evictIntervalNs : Int := 60 * nsPerSec

structure Cache where
  /-- key ↦ expiry (unix ns). The Go map has one value per key; we keep that by construction. -/
  entries   : List (String × Int)
  lastEvict : Int
deriving Repr

def Cache.get (c : Cache) (k : String) : Option Int := c.entries.lookup k

def setKey (es : List (String × Int)) (k : String) (v : Int) : List (String × Int) :=
  (k, v) :: es.filter (fun p => !(p.1 == k))

/-- `evictExpiredLocked`: delete entries with `now ≥ expiry`. -/
def evict (es : List (String × Int)) (now : Int) : List (String × Int) :=
  es.filter (fun p => !(decide (now ≥ p.2)))

/-- `NonceCache.Track` with `key = nodeID ++ "\x00" ++ nonce` already built. -/
def isDup (c : Cache) (now : Int) (key : String) : Bool :=
  match c.get key with
  | some e => decide (now < e)
  | none => false

/-- state after a successful `Track` (insert, then the gated lazy sweep). -/
def inserted (ttl : Int) (c : Cache) (now : Int) (key : String) : Cache :=
  let es := setKey c.entries key (now + ttl)
  if now - c.lastEvict > evictIntervalNs then
    { entries := evict es now, lastEvict := now }
  else
    { c with entries := es }

def track (ttl : Int) (c : Cache) (now : Int) (key : String) : Cache × Bool :=
  if isDup c now key then (c, false) else (inserted ttl c now key, true)

/-- Go `time.Time.Unix()` of a unix-nanosecond instant: floor division. -/
def unixSec (nowNs : Int) : Int := nowNs / nsPerSec

/-- The freshness test of every validator. -/
def fresh (tolSec : Int) (nowNs : Int) (ts : Int) : Bool :=
  let drift := unixSec nowNs - ts
  let drift := if drift < 0 then -drift else drift
  !(decide (drift > tolSec))

structure Cfg where
  tolSec : Int     -- int64(tolerance.Seconds())
  ttlNs  : Int     -- argument of NewNonceCache
deriving Repr

structure Msg where
  key   : String   -- sender ++ NUL ++ nonce
  ts    : Int      -- signed timestamp (unix seconds)
  macOk : Bool     -- MAC verifies (true for a byte-for-byte replay of a genuine message)
deriving Repr

structure Ev where
  now : Int        -- receiver clock (unix ns) when the message is handled
  msg : Msg
deriving Repr

inductive Verdict | accepted | expired | badmac | replay
deriving Repr, DecidableEq

/-- validate-then-track, as at every call site. -/
def handle (cfg : Cfg) (c : Cache) (e : Ev) : Cache × Verdict :=
  if !(fresh cfg.tolSec e.now e.msg.ts) then (c, .expired)
  else if !e.msg.macOk then (c, .badmac)
  else
    let r := track cfg.ttlNs c e.now e.msg.key
    (r.1, if r.2 then .accepted else .replay)

def runState (cfg : Cfg) (c : Cache) : List Ev → Cache
  | [] => c
  | e :: es => runState cfg (handle cfg c e).1 es

def runOut (cfg : Cfg) (c : Cache) : List Ev → List Verdict
  | [] => []
  | e :: es => (handle cfg c e).2 :: runOut cfg (handle cfg c e).1 es

/-- The side condition every (tolerance, ttl) pair in the source must satisfy. -/
def SiteOk (tolNs ttlNs : Int) : Bool :=
  decide ((2 * (tolNs / nsPerSec) + 1) * nsPerSec ≤ ttlNs)

end Arc.C26
