/-
C16 — executable TOKEN-LEVEL model of Arc's SQL-to-storage-path rewrite
(internal/api/query.go: getTransformedSQLForParallel / getTransformedSQL /
 convertSQLToStoragePaths / convertSQLToStoragePathsWithHeaderDB / convertSingleTableQuery,
 internal/sql/mask.go: MaskStringLiterals / MaskFromKeywordsInFunctionBodies, stripSQLComments,
 extractCTENames, replaceTableRefs, isDotOrCallAt, joinKeyword, shouldSkipTableConversion).

The real code works on TEXT with five regular expressions (literals in Arc.Generated.C16). This model
works on the TOKEN stream the harness renders the text from, and states for every regex the acceptance
condition it imposes on tokens.  The correspondence relied upon (validated by the harness on every
generated statement, never proved):

  * a `w` token is a maximal run of [A-Za-z0-9_] starting with a letter or `_`; an `n` token a maximal
    run of digits; `w`/`n`/`l`/`q` tokens are never adjacent (so `\b` holds exactly at their borders and
    `[a-zA-Z_][a-zA-Z0-9_]*` / `[a-zA-Z0-9_]+` / `\w+` match exactly one such token);
  * MaskStringLiterals turns every `l` token into a word-shaped placeholder `__STR_n__` and every `q`
    token into `__IDENT_n__` (identical quoted texts share one placeholder), so both are word-like for
    the patterns; a placeholder consumed into a storage path is restored inside the path;
  * `\s+` between two words = exactly one `s` token after comments are stripped and runs are merged;
  * phase 0 (RewriteRegexToStringFuncs, rewriteTimeBucket, rewriteDateTrunc, OptimizeLikePatterns) is
    the identity on the grammar (those rewrites belong to C17; the generator never triggers them);
  * the pruner does not change the path (no time predicates: C18), tiering is off;
  * comment bodies contain no parentheses or quotes (the paren-depth scanner of
    MaskFromKeywordsInFunctionBodies runs before comments are stripped).
Core Lean only.
-/
namespace Arc.C16

abbrev Str := List Char

inductive Tok where
  | w (s : Str)                 -- word: keyword or bare identifier
  | s (s : Str)                 -- whitespace run
  | p (c : Char)                -- one punctuation byte
  | n (s : Str)                 -- digits
  | l (s : Str)                 -- '…' literal, text with quotes
  | q (s : Str)                 -- "…" quoted identifier, text with quotes
  | b (s : Str)                 -- /* … */
  | c (s : Str)                 -- -- … (without the newline)
  | m (s : Str)                 -- internal: FROM keyword masked inside EXTRACT/SUBSTRING/TRIM/OVERLAY(…)
  | rpF (db tbl : Str)          -- output: FROM read_parquet('ROOT/db/tbl/**/*.parquet', union_by_name=true)
  | rpJ (kw : List Str) (db tbl : Str)  -- output: <join words> read_parquet(…)
  | rpT (db tbl : Str)          -- output of the SPEC only: a bare read_parquet(…) (comma-join position)
  deriving DecidableEq, Repr

def lowerC (c : Char) : Char := if 'A' ≤ c ∧ c ≤ 'Z' then Char.ofNat (c.toNat + 32) else c
def lower (s : Str) : Str := s.map lowerC

def rpCall (db tbl : Str) : Str :=
  "read_parquet('ROOT/".toList ++ db ++ ['/'] ++ tbl ++ "/**/*.parquet', union_by_name=true)".toList

def joinSp : List Str → Str
  | [] => []
  | [a] => a
  | a :: rest => a ++ [' '] ++ joinSp rest

def Tok.text : Tok → Str
  | .w x | .s x | .n x | .l x | .q x | .b x | .c x | .m x => x
  | .p ch => [ch]
  | .rpF db tbl => "FROM ".toList ++ rpCall db tbl
  | .rpJ kw db tbl => joinSp kw ++ [' '] ++ rpCall db tbl
  | .rpT db tbl => rpCall db tbl

def render (ts : List Tok) : Str := ts.flatMap Tok.text

-- ---------------------------------------------------------------- small string helpers
def startsWith : Str → Str → Bool
  | _, [] => true
  | [], _ :: _ => false
  | a :: s, b :: p => a == b && startsWith s p

def isInfix : Str → Str → Bool
  | [], p => p.isEmpty
  | a :: s, p => startsWith (a :: s) p || isInfix s p

def endsWith (s p : Str) : Bool := startsWith s.reverse p.reverse

def kwIs (k : String) : Tok → Bool
  | .w s => lower s == k.toList
  | _ => false

-- ---------------------------------------------------------------- short circuits of getTransformedSQL
/-- strings.Contains(strings.ToLower(sql), pat) for a pattern made of word characters only. -/
def hasSub (pat : String) (ts : List Tok) : Bool := ts.any fun t => isInfix (lower t.text) pat.toList

/-- bytes TrimLeft / isWhitespace treat as blank: space, tab, CR, LF -/
def blank4 (c : Char) : Bool := c == ' ' || c == '\t' || c == '\r' || c == '\n'

def isIdentC (c : Char) : Bool := ('a' ≤ c ∧ c ≤ 'z') || ('A' ≤ c ∧ c ≤ 'Z') || ('0' ≤ c ∧ c ≤ '9') || c == '_'

/-- the name a token shows to patternReadParquetCall after ioDenylistNormalise: bare words as written, quoted
identifiers whose name is made of identifier bytes only are exposed unquoted, everything else is inert -/
def normName : Tok → Option (List Char)
  | .w s => some s
  | .q s => let u := (if s.length ≥ 2 then (s.drop 1).dropLast else s)
            let v := (match u with | [] => [] | _ => u)
            if !v.isEmpty && v.all isIdentC then some v else none
  | _ => none

def opensParenN : List Tok → Bool
  | .s _ :: rest | .b _ :: rest | .c _ :: rest => opensParenN rest
  | .p '(' :: _ => true
  | _ => false

/-- patternReadParquetCall `(?i)\bread_parquet\s*\(` on the normalised text (since /repo 56228b9) -/
def hasRPCall : List Tok → Bool
  | [] => false
  | t :: rest =>
    (match normName t with
      | some n => lower n == "read_parquet".toList && opensParenN rest
      | none => false) || hasRPCall rest

def shortCircuit (ts : List Tok) : Bool :=
  (hasSub "read_parquet" ts && hasRPCall ts) || (!hasSub "from" ts && !hasSub "join" ts)

-- ---------------------------------------------------------------- names
def skipPrefixes : List String := ["read_parquet", "information_schema", "pg_", "duckdb_"]
def shouldSkip (lname : Str) : Bool := skipPrefixes.any fun p => startsWith lname p.toList

def isAlpha_ (c : Char) : Bool := ('a' ≤ c ∧ c ≤ 'z') || ('A' ≤ c ∧ c ≤ 'Z') || c == '_'
def isDigit (c : Char) : Bool := '0' ≤ c ∧ c ≤ '9'
/-- validIdentifierPattern `^[a-zA-Z_][a-zA-Z0-9_-]*$`, non-empty, at most 128 bytes -/
def validIdent : Str → Bool
  | [] => false
  | c :: rest => isAlpha_ c && rest.all (fun d => isAlpha_ d || isDigit d || d == '-') && (c :: rest).length ≤ 128

def sentinel : Str := ".arc-invalid-quoted-identifier".toList

/-- IdentifierNames: strip the surrounding quotes, collapse `""`. -/
def collapseQ : Str → Str
  | '"' :: '"' :: rest => '"' :: collapseQ rest
  | c :: rest => c :: collapseQ rest
  | [] => []
def unquote (s : Str) : Str :=
  let body := if s.length ≥ 2 ∧ s.head? == some '"' ∧ s.getLast? == some '"' then (s.drop 1).dropLast else s
  collapseQ body

/-- word-like tokens after masking (`[a-zA-Z0-9_]+`, `\w+`) -/
def wordLike : Tok → Bool
  | .w _ | .n _ | .q _ | .l _ | .m _ => true
  | _ => false
/-- `[a-zA-Z_][a-zA-Z0-9_]*` -/
def simpleName : Tok → Bool
  | .w _ | .q _ | .l _ | .m _ => true
  | _ => false

/-- makeIdentResolver: bare tokens pass through; identifier placeholders resolve to the unquoted name
when valid, else to the sentinel; a string / FROM-mask placeholder spliced into a path is restored by
the unmask step, i.e. ends up as the token's own text. -/
def resolve : Tok → Str
  | .q s => let u := unquote s; if validIdent u then u else sentinel
  | t => t.text

/-- keys of the CTE registry: lower-cased captured text; a placeholder is captured as itself. -/
inductive Key where
  | w (s : Str)   -- lower-cased word
  | q (s : Str)   -- identifier placeholder of this exact quoted text
  | other
  deriving DecidableEq, Repr

def keyOf : Tok → Key
  | .w s => .w (lower s)
  | .n s => .w s
  | .q s => .q s
  | _ => .other

def cteHas (cte : List Key) (k : Key) : Bool := k != .other && cte.contains k

-- ---------------------------------------------------------------- generic leftmost non-overlapping scan
/-- `f` looks at the stream at a position and, when its pattern matches there, returns the replacement
of the matched tokens and how many tokens (≥ 1) the match covers; scanning resumes after the match
(FindAll / ReplaceAll semantics). -/
def scan (f : List Tok → Option (List Tok × Nat)) : Nat → List Tok → List Tok
  | _, [] => []
  | k + 1, _ :: rest => scan f k rest
  | 0, t :: rest =>
    match f (t :: rest) with
    | some (out, n) => out ++ scan f (n - 1) rest
    | none => t :: scan f 0 rest

-- ---------------------------------------------------------------- Phase 1b: FROM inside function bodies
def isTrigger (s : Str) : Bool :=
  let l := lower s
  l == "extract".toList || l == "substring".toList || l == "trim".toList || l == "overlay".toList

structure MS where
  depth : Int := 0
  stack : List Int := []
  prevTrig : Bool := false

def topIs (st : MS) : Bool := match st.stack with | top :: _ => st.depth == top | [] => false

/-- MaskFromKeywordsInFunctionBodies (paren depth, frame stack; the backward walk from `(` skips
whitespace and comments). -/
def maskFns : MS → List Tok → List Tok
  | _, [] => []
  | st, .p '(' :: rest =>
    .p '(' :: maskFns { depth := st.depth + 1, stack := if st.prevTrig then (st.depth + 1) :: st.stack else st.stack } rest
  | st, .p ')' :: rest =>
    let d := st.depth - 1
    let stk := match st.stack with | top :: tl => if top > d then tl else top :: tl | [] => []
    .p ')' :: maskFns { depth := d, stack := stk } rest
  | st, .w s :: rest =>
    if lower s == "from".toList && topIs st then .m s :: maskFns { st with prevTrig := false } rest
    else .w s :: maskFns { st with prevTrig := isTrigger s } rest
  | st, .s x :: rest => .s x :: maskFns st rest
  | st, .b x :: rest => .b x :: maskFns st rest
  | st, .c x :: rest => .c x :: maskFns st rest
  | st, t :: rest => t :: maskFns { st with prevTrig := false } rest

/-- ContainsFromKeywordFunction: a trigger word followed (over whitespace and comments) by `(`. -/
def opensParen : List Tok → Bool
  | .s _ :: rest | .b _ :: rest | .c _ :: rest => opensParen rest
  | .p '(' :: _ => true
  | _ => false
def hasFromKwFn : List Tok → Bool
  | [] => false
  | .w s :: rest => (isTrigger s && opensParen rest) || hasFromKwFn rest
  | _ :: rest => hasFromKwFn rest

-- ---------------------------------------------------------------- Phase 2: comments
def maskedLen1 : Tok → Bool
  | .w s | .s s | .n s => s.length == 1
  | .p _ => true
  | _ => false

/-- stripSQLComments: a block comment becomes one space, a line comment disappears (its newline stays);
(the quirk that a block comment closing one byte before the end swallowed that byte is fixed in /repo 168cceb) -/
def stripC : List Tok → List Tok
  | [] => []
  | .b _ :: rest => .s [' '] :: stripC rest
  | .c _ :: rest => stripC rest
  | t :: rest => t :: stripC rest

def mergeWs : List Tok → List Tok
  | [] => []
  | t :: rest =>
    match t, mergeWs rest with
    | .s a, .s b :: r => .s (a ++ b) :: r
    | t, r => t :: r

def hasComment (ts : List Tok) : Bool := ts.any fun t => match t with | .b _ | .c _ => true | _ => false

/-- everything before the reference passes -/
def prep (ts : List Tok) : List Tok :=
  let m := maskFns {} ts
  mergeWs (if hasComment ts then stripC m else m)

-- ---------------------------------------------------------------- CTE names
/-- tail of both alternatives of patternCTENames after the name:
`(?:\s*\([^)]*\))?\s+AS\s*\(`; returns the number of tokens consumed. -/
def skipToClose : List Tok → Option Nat
  | [] => none
  | .p ')' :: _ => some 1
  | _ :: rest => (skipToClose rest).map (· + 1)

def asParen : List Tok → Option Nat
  | .s _ :: .w a :: .s _ :: .p '(' :: _ => if lower a == "as".toList then some 4 else none
  | .s _ :: .w a :: .p '(' :: _ => if lower a == "as".toList then some 3 else none
  | _ => none

def cteTail (ts : List Tok) : Option Nat :=
  match ts with
  | .s _ :: .p '(' :: rest =>
    match skipToClose rest with
    | some k => (asParen (rest.drop k)).map (· + 2 + k)
    | none => none
  | .p '(' :: rest =>
    match skipToClose rest with
    | some k => (asParen (rest.drop k)).map (· + 1 + k)
    | none => none
  | _ => asParen ts

def cteNameThenTail : List Tok → Option (Key × Nat)
  | nm :: rest => if wordLike nm then (cteTail rest).map fun k => (keyOf nm, k + 1) else none
  | [] => none

def cteMatchAt : List Tok → Option (Key × Nat)
  | .w a :: .s _ :: rest =>
    if lower a == "with".toList then
      let plain := (cteNameThenTail rest).map fun (k, n) => (k, n + 2)
      match rest with
      | .w r :: .s _ :: rest' =>
        if lower r == "recursive".toList then
          match cteNameThenTail rest' with
          | some (k, n) => some (k, n + 4)
          | none => plain
        else plain
      | _ => plain
    else none
  | .p ',' :: .s _ :: rest => (cteNameThenTail rest).map fun (k, n) => (k, n + 2)
  | .p ',' :: rest => (cteNameThenTail rest).map fun (k, n) => (k, n + 1)
  | _ => none

def cteScan : Nat → List Tok → List Key
  | _, [] => []
  | k + 1, _ :: rest => cteScan k rest
  | 0, t :: rest =>
    match cteMatchAt (t :: rest) with
    | some (key, n) => key :: cteScan (n - 1) rest
    | none => cteScan 0 rest

-- ---------------------------------------------------------------- the four reference patterns
/-- isDotOrCallAt: first byte after optional blanks (space, tab, CR, LF since /repo 00bd721) is `.` or `(` -/
def headDotParen : List Tok → Bool
  | .p c :: _ => c == '.' || c == '('
  | _ => false
def dotOrCall : List Tok → Bool
  | .s sp :: r => (sp.dropWhile blank4).isEmpty && headDotParen r
  | r => headDotParen r

/-- the checks of the FROM/JOIN simple-table callbacks -/
def replaceOK (cte : List Key) (nm : Tok) (rest : List Tok) : Bool :=
  !cteHas cte (keyOf nm) && !cteHas cte (.w (lower (resolve nm))) && !shouldSkip (lower (resolve nm)) && !dotOrCall rest

/-- patternDBTable `(?i)\bFROM\s+([a-zA-Z0-9_]+)\.([a-zA-Z0-9_]+)\b` (ReplaceAllStringFunc: no checks) -/
def fromDbAt : List Tok → Option (List Tok × Nat)
  | .w f :: .s _ :: a :: .p '.' :: b :: _ =>
    if lower f == "from".toList && wordLike a && wordLike b then some ([.rpF (resolve a) (resolve b)], 5) else none
  | _ => none

/-- patternSimpleTable `(?i)\bFROM\s+([a-zA-Z_][a-zA-Z0-9_]*)\b` + callback -/
def fromSimpleAt (cte : List Key) (db : Str) : List Tok → Option (List Tok × Nat)
  | .w f :: .s g :: nm :: rest =>
    if lower f == "from".toList && simpleName nm then
      some (if replaceOK cte nm rest then [.rpF db (resolve nm)] else [.w f, .s g, nm], 3)
    else none
  | _ => none

def joinMods : List String :=
  ["left", "right", "full", "inner", "outer", "cross", "natural", "semi", "anti", "asof", "positional"]
def isMod (s : Str) : Bool := joinMods.any fun m => lower s == m.toList

/-- `(?:(?:LEFT|…)\s+)*(?:LATERAL\s+)?JOIN\s+` : the words, the number of tokens, what follows -/
def modsThenJoin : List Tok → Option (List Str × Nat × List Tok)
  | .w a :: .s _ :: rest =>
    if isMod a then (modsThenJoin rest).map fun (ws, n, r) => (a :: ws, n + 2, r)
    else if lower a == "lateral".toList then
      match rest with
      | .w j :: .s _ :: r => if lower j == "join".toList then some ([a, j], 4, r) else none
      | _ => none
    else if lower a == "join".toList then some ([a], 2, rest)
    else none
  | _ => none

/-- patternJoinDBTable (group 1 = prefix, then `(?:LATERAL\s+)?` greedy with backtracking, db.table) -/
def joinDbTail (words : List Str) (n : Nat) (r : List Tok) : Option (List Tok × Nat) :=
  let plain : Option (List Tok × Nat) :=
    match r with
    | a :: .p '.' :: b :: _ => if wordLike a && wordLike b then some ([.rpJ words (resolve a) (resolve b)], n + 3) else none
    | _ => none
  match r with
  | .w l :: .s _ :: a :: .p '.' :: b :: _ =>
    if lower l == "lateral".toList && wordLike a && wordLike b then some ([.rpJ (words ++ [l]) (resolve a) (resolve b)], n + 5)
    else plain
  | _ => plain

def joinDbAt (ts : List Tok) : Option (List Tok × Nat) :=
  match modsThenJoin ts with
  | none => none
  | some (words, n, r) => joinDbTail words n r

/-- patternJoinSimpleTable + callback -/
def joinSimpleTail (cte : List Key) (db : Str) (ts : List Tok) (words : List Str) (n : Nat) (r : List Tok) :
    Option (List Tok × Nat) :=
  let plain : Option (List Tok × Nat) :=
    match r with
    | nm :: rest =>
      if simpleName nm then some (if replaceOK cte nm rest then [.rpJ words db (resolve nm)] else ts.take (n + 1), n + 1) else none
    | [] => none
  match r with
  | .w l :: .s _ :: nm :: rest =>
    if lower l == "lateral".toList && simpleName nm then
      some (if replaceOK cte nm rest then [.rpJ (words ++ [l]) db (resolve nm)] else ts.take (n + 3), n + 3)
    else plain
  | _ => plain

def joinSimpleAt (cte : List Key) (db : Str) (ts : List Tok) : Option (List Tok × Nat) :=
  match modsThenJoin ts with
  | none => none
  | some (words, n, r) => joinSimpleTail cte db ts words n r

def unmask : List Tok → List Tok := List.map fun t => match t with | .m s => .w s | t => t

/-- `strings.Contains(sqlLower, "with ")` on word-character + space patterns -/
def spAfter (pat : String) : List Tok → Bool
  | [] => false
  | t :: rest =>
    (match rest with
      | .s (' ' :: _) :: _ => endsWith (lower t.text) pat.toList
      | _ => false) || spAfter pat rest

/-- the reference passes on a prepared stream -/
def passes (hdr : Option Str) (cte : List Key) (s : List Tok) : List Tok :=
  match hdr with
  | none =>
    scan (joinSimpleAt cte "default".toList) 0
      (scan (fromSimpleAt cte "default".toList) 0 (scan joinDbAt 0 (scan fromDbAt 0 s)))
  | some h => scan (joinSimpleAt cte h) 0 (scan (fromSimpleAt cte h) 0 s)

/-- the CTE registry: the names the regex collects, plus (since /repo 73763cd) the unquoted name of every CTE
defined with a quoted identifier -/
def cteReg (s : List Tok) : List Key :=
  let c := cteScan 0 s
  c ++ c.filterMap fun k => match k with | .q t => some (Key.w (lower (unquote t))) | _ => none

/-- convertSQLToStoragePaths (hdr = none) / the slow path of convertSQLToStoragePathsWithHeaderDB -/
def slow (hdr : Option Str) (ts : List Tok) : List Tok :=
  let s := prep ts
  let cte := cteReg s   -- both paths always extract the CTE names (header path: since /repo 04fa395)
  unmask (passes hdr cte s)

-- ---------------------------------------------------------------- single-table fast path (header only)
def countFromSp : List Tok → Nat
  | [] => 0
  | t :: rest =>
    (match rest with
      | .s (' ' :: _) :: _ => if endsWith (lower t.text) "from".toList then 1 else 0
      | _ => 0) + countFromSp rest

/-- patternJoinWord `\bjoin\b` on the lowered text (since /repo d4e5686; before: the substring " join ") -/
def hasJoinSp (ts : List Tok) : Bool :=
  ts.any fun t => match t with | .w j => lower j == "join".toList | _ => false

/-- after the first "from ": TrimLeft " \t\n", then `(` ? -/
def firstFromParen : List Tok → Bool
  | [] => false
  | t :: rest =>
    match rest with
    | .s (' ' :: sp) :: r =>
      if endsWith (lower t.text) "from".toList then
        (sp.dropWhile blank4).isEmpty && (match r with | .p '(' :: _ => true | _ => false)
      else firstFromParen rest
    | _ => firstFromParen rest

/-- start indices of the matches of patternSimpleTable (leftmost, non-overlapping) -/
def refStarts : Nat → Nat → List Tok → List Nat
  | _, _, [] => []
  | k + 1, i, _ :: rest => refStarts k (i + 1) rest
  | 0, i, t :: rest =>
    match t, rest with
    | .w f, .s _ :: nm :: _ =>
      if lower f == "from".toList && simpleName nm then i :: refStarts 2 (i + 1) rest else refStarts 0 (i + 1) rest
    | _, _ => refStarts 0 (i + 1) rest

/-- index of the token in which the first substring "from " ends -/
def firstFromSpIdx : Nat → List Tok → Option Nat
  | _, [] => none
  | i, t :: rest =>
    match rest with
    | .s (' ' :: _) :: _ => if endsWith (lower t.text) "from".toList then some i else firstFromSpIdx (i + 1) rest
    | _ => firstFromSpIdx (i + 1) rest

/-- isSingleTableQuery (since /repo 53c9b19: also exactly one patternSimpleTable match, at the offset of the
first "from ", and no CTE-looking construct) -/
def isSingleTable (ts : List Tok) : Bool :=
  countFromSp ts == 1 &&
  (match refStarts 0 0 ts with
    | [i] => firstFromSpIdx 0 ts == some i
    | _ => false) &&
  (cteScan 0 ts).isEmpty &&
  !hasJoinSp ts && !firstFromParen ts

/-- scanSQLFeatures finds no quote, `$`, `--`, `/*` -/
def adjOpener : List Tok → Bool
  | .p a :: .p b :: rest => (a == '-' && b == '-') || (a == '/' && b == '*') || adjOpener (.p b :: rest)
  | _ :: rest => adjOpener rest
  | [] => false
def plainFeatures (ts : List Tok) : Bool :=
  ts.all (fun t => match t with
    | .l _ | .q _ | .b _ | .c _ => false
    | .p c => c != '$' && c != '\'' && c != '"'
    | _ => true) && !adjOpener ts

def fastEligible (ts : List Tok) : Bool :=
  isSingleTable ts && !spAfter "with" ts && !hasFromKwFn ts && plainFeatures ts

def identRun : Tok → Option Str
  | .w s => some s
  | .n s => some s
  | _ => none

/-- convertSingleTableQuery: the first "from " (not word-bounded), blanks, an identifier run -/
def fastGo (h : Str) : List Tok → Option (List Tok)
  | [] => none
  | t :: rest =>
    match rest with
    | .s (' ' :: sp) :: r =>
      if endsWith (lower t.text) "from".toList then
        if !(sp.dropWhile blank4).isEmpty then none else
        match r with
        | nm :: r' =>
          match identRun nm with
          | some name =>
            if dotOrCall r' then none else   -- since /repo 7134395: table functions / qualified names left alone
            if shouldSkip (lower name) then none else
            let pre := t.text.take (t.text.length - 4)
            some ((if pre.isEmpty then [] else [Tok.w pre]) ++ [.rpF h name] ++ r')
          | none => none
        | [] => none
      else (fastGo h rest).map (t :: ·)
    | _ => (fastGo h rest).map (t :: ·)

def fast (h : Str) (ts : List Tok) : List Tok := (fastGo h ts).getD ts

/-- convertSQLToStoragePaths[WithHeaderDB] -/
def convert (hdr : Option Str) (ts : List Tok) : List Tok :=
  match hdr with
  | none => slow none ts
  | some h => if fastEligible ts then fast h ts else slow (some h) ts

/-- the whole transformation without the cache -/
def rewrite (hdr : Option Str) (ts : List Tok) : List Tok :=
  if shortCircuit ts then ts else convert hdr ts

-- ---------------------------------------------------------------- transform cache
/-- getTransformedSQL: `cacheKey := headerDB + "\x00" + sql` (unconditional; the empty header included). -/
def cacheKey (hdr : Str) (sql : Str) : Str := hdr ++ ['\x00'] ++ sql

/-- getTransformedSQLForParallel with the cache as an association list (first hit wins). -/
def rewriteCached (cache : List (Str × Str)) (hdr : Option Str) (ts : List Tok) : Str × List (Str × Str) :=
  if shortCircuit ts then (render ts, cache) else
  let direct := match hdr with
    | some _ => isSingleTable ts && !spAfter "with" ts && plainFeatures ts && !hasFromKwFn ts
    | none => false
  if direct then (render (convert hdr ts), cache) else
  let key := cacheKey (hdr.getD []) (render ts)
  match cache.lookup key with
  | some v => (v, cache)
  | none => let v := render (convert hdr ts); (v, (key, v) :: cache)

end Arc.C16
