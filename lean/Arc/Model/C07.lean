/-
C07 — durability LTS of arc's ingest path: `internal/ingest/arrow_writer.go` (per-key buffers,
size-triggered extract + non-blocking `tryEnqueueFlush`, flush worker, `flushPartitionedData` writing
one file per hour, `markFlushFailure`, `flushAgedBuffers`, `Close`), `internal/wal/wal.go` (bounded
async channel with drop, active file, time-based rotation, `PurgeOlderThan`, `PurgeAll`, `Close`),
`internal/wal/recovery.go` (`RecoverWithOptions`: skip active, `MinFileAge`, delete after replay),
the WAL maintenance tick and the start-up recovery of `cmd/arc/main.go`, and the shutdown
coordinator (`internal/shutdown`: hooks run before components).

Every accepted row carries a ghost id; `stored` is the multiset of rows that reached Parquet.
Code facts that the property hinges on are PARAMETERS (`Facts`) regenerated from the source by
`go/factgen/cmd/c07` (`Arc.Generated.C07.facts`): the order of the actions in the two branches of the
maintenance tick, which failure sites raise the flush-failure flag, whether a queue-full drop is
reported to the client, and the effective order of the shutdown actions.

Time is in whole seconds.  Thresholds are the integer forms of the code's comparisons
(`now-mtime > safeAge`, `since(mtime) < MinFileAge`, `age >= MaxAge`, `age >= maxBufferAge`), the
harness configures the real durations with a half-second offset so that both agree (see harness).
Core-only, executable.
-/
namespace Arc.C07

inductive TickAct | purge | replay | reset
deriving DecidableEq, Repr

inductive ShutAct | purgeAll | bufClose | walClose
deriving DecidableEq, Repr

structure Facts where
  /-- actions of the tick when `HasFlushFailure()` is true, in source order -/
  tickFlag : List TickAct
  /-- actions of the tick otherwise -/
  tickElse : List TickAct
  /-- `tryEnqueueFlush`'s queue-full arm calls `markFlushFailure` -/
  queueFullSetsFlag : Bool
  /-- the write path returns an error to the client after a queue-full drop -/
  queueFullErrors : Bool
  /-- queue-full is only reported as an error when no WAL is configured (repair variant) -/
  queueFullErrorsOnlyNoWal : Bool
  /-- the same two facts for the pre-typed write path (`writeTypedColumnarRaw`) -/
  typedQueueFullErrors : Bool
  typedQueueFullErrorsOnlyNoWal : Bool
  workerFailSetsFlag : Bool
  syncFailSetsFlag : Bool
  /-- the worker / sync failure site also raises the flag when the flush context is done (deadline of
  `flush_timeout_seconds` exceeded on stalled storage), i.e. the call is not guarded by `ctx.Err()` -/
  workerTimeoutSetsFlag : Bool
  syncTimeoutSetsFlag : Bool
  /-- `Close()` raises the flag when it drops queued flush tasks -/
  closeDropSetsFlag : Bool := false
  /-- the shutdown WAL purge is skipped while the flush-failure flag is up -/
  purgeGuardedByFlag : Bool := false
  /-- the tick resets the flag only after a replay pass without a rejected entry -/
  resetRequiresCleanPass : Bool := false
  /-- effective order of the shutdown actions (hooks by priority, then components by priority) -/
  shutdown : List ShutAct
deriving DecidableEq, Repr

/-- the tree as first read in round 1 (before repairs B 52926d5 and C a6bcf98) -/
def Facts.round1 : Facts :=
  { tickFlag := [.purge, .replay, .reset], tickElse := [.purge],
    queueFullSetsFlag := false, queueFullErrors := false, queueFullErrorsOnlyNoWal := false,
    typedQueueFullErrors := false, typedQueueFullErrorsOnlyNoWal := false,
    workerFailSetsFlag := true, syncFailSetsFlag := true,
    workerTimeoutSetsFlag := true, syncTimeoutSetsFlag := true,
    shutdown := [.purgeAll, .bufClose, .walClose] }

/-- the tree after repairs B and C and before 945541f: the flag branch of the tick still age-purged first -/
def Facts.pre945 : Facts :=
  { tickFlag := [.purge, .replay, .reset], tickElse := [.purge],
    queueFullSetsFlag := true, queueFullErrors := true, queueFullErrorsOnlyNoWal := true,
    typedQueueFullErrors := true, typedQueueFullErrorsOnlyNoWal := true,
    workerFailSetsFlag := true, syncFailSetsFlag := true,
    workerTimeoutSetsFlag := true, syncTimeoutSetsFlag := true,
    shutdown := [.purgeAll, .bufClose, .walClose] }

/-- the current tree: a queue-full drop raises the flag and, without a WAL, is reported to the client; while
a flush failure is pending the tick replays without an age purge (945541f) -/
def Facts.current : Facts :=
  { tickFlag := [.replay, .reset], tickElse := [.purge],
    queueFullSetsFlag := true, queueFullErrors := true, queueFullErrorsOnlyNoWal := true,
    typedQueueFullErrors := true, typedQueueFullErrorsOnlyNoWal := true,
    workerFailSetsFlag := true, syncFailSetsFlag := true,
    workerTimeoutSetsFlag := true, syncTimeoutSetsFlag := true,
    shutdown := [.purgeAll, .bufClose, .walClose] }

structure Row where
  id : Nat
  hour : Nat
deriving DecidableEq, Repr

/-- one write request = one WAL entry -/
structure Entry where
  key : Nat
  rows : List Row
  /-- row-format entry (`Append` of `typedBatchToWALRecords`): replayed one row at a time -/
  perRow : Bool := false
deriving DecidableEq, Repr

structure WFile where
  name : Nat
  mtime : Nat
  entries : List Entry
deriving DecidableEq, Repr

structure Buf where
  key : Nat
  start : Nat
  rows : List Row
deriving DecidableEq, Repr

structure Task where
  key : Nat
  rows : List Row
deriving DecidableEq, Repr

structure Cfg where
  walOn : Bool
  chanCap : Nat      -- entries the async channel holds while the writer is stalled (incl. the in-hand one)
  qCap : Nat         -- flush queue capacity
  bufMax : Nat       -- MaxBufferSize (rows)
  ageMax : Nat       -- aged flush when now - start ≥ ageMax
  safeAge : Nat      -- purge when now - mtime ≥ safeAge
  rotAge : Nat       -- rotate after a persisted entry when now - activeStart ≥ rotAge
  minFileAge : Nat   -- periodic replay skips files with now - mtime < minFileAge
  facts : Facts
deriving Repr

structure St where
  now : Nat := 0
  nextFile : Nat := 0
  up : Bool := false
  closing : Bool := false
  -- WAL
  chan : List Entry := []
  paused : Bool := false
  active : Option WFile := none
  activeLinked : Bool := false
  activeStart : Nat := 0
  files : List WFile := []
  dropped : Nat := 0
  -- buffer
  bufs : List Buf := []
  queue : List Task := []
  inflight : Option Task := none
  hold : Bool := false
  failAfter : Option Nat := none   -- none = storage ok; some k = k more file writes succeed, then all fail
  stalled : Bool := false          -- failing writes do not error: they block until the flush context's deadline
  flag : Bool := false
  lastFull : Bool := false         -- the last write's enqueue attempt hit the queue-full arm
  passFailed : Bool := false       -- the current replay pass kept a file because one of its entries was rejected
  lastSkip : Bool := false         -- ... hit the closing short-circuit (flushSkipClosing: dropped, write returns nil)
  obs : List Nat := []             -- observation: hours of successful file writes since failAfter was set
  -- ghosts
  stored : List Row := []
  acked : List Nat := []
  lastAck : Bool := false
deriving Repr

/-! ### storage: one flush = one file per hour, written one by one -/

def hoursOf (rows : List Row) : List Nat := (rows.map (·.hour)).eraseDups

/-- `flushPartitionedData`: all-or-prefix.  On a partial failure the hours that were written are the
last `k` of the observation (Go map iteration order decides which). -/
def flushRows (s : St) (rows : List Row) : St × Bool :=
  match s.failAfter with
  | none => ({ s with stored := s.stored ++ rows }, true)
  | some k =>
    if (hoursOf rows).length ≤ k then
      ({ s with stored := s.stored ++ rows, failAfter := some (k - (hoursOf rows).length) }, true)
    else
      let w := s.obs.drop (s.obs.length - k)
      ({ s with stored := s.stored ++ rows.filter (fun r => w.contains r.hour), failAfter := some 0 }, false)

/-- `markFlushFailure` at a failure site (when that site calls it) -/
def markFail (sets : Bool) (r : St × Bool) : St :=
  if r.2 then r.1 else if sets then { r.1 with flag := true } else r.1

def workerSets (c : Cfg) (s : St) : Bool :=
  if s.stalled then c.facts.workerTimeoutSetsFlag else c.facts.workerFailSetsFlag

def syncSets (c : Cfg) (s : St) : Bool :=
  if s.stalled then c.facts.syncTimeoutSetsFlag else c.facts.syncFailSetsFlag

def workerFlush (c : Cfg) (s : St) (t : Task) : St :=
  markFail (workerSets c s) (flushRows s t.rows)

def syncFlush (c : Cfg) (s : St) (rows : List Row) : St :=
  markFail (syncSets c s) (flushRows s rows)

/-- the (single) flush worker runs until the queue is empty -/
def finishInflight (c : Cfg) (s : St) : St :=
  match s.inflight with
  | some t => workerFlush c { s with inflight := none } t
  | none => s

def drainQueue (c : Cfg) (s : St) : St :=
  s.queue.foldl (workerFlush c) { s with queue := [] }

def runWorker (c : Cfg) (s : St) : St := drainQueue c (finishInflight c s)

/-- worker behaviour after a task was queued: blocked at the gate (`hold`) it only takes one task -/
def settle (c : Cfg) (s : St) : St :=
  if s.hold then
    match s.inflight, s.queue with
    | none, t :: q => { s with inflight := some t, queue := q }
    | _, _ => s
  else runWorker c s

/-- `tryEnqueueFlush` -/
def enqueue (c : Cfg) (s : St) (t : Task) : St :=
  if s.closing then { s with lastSkip := true }
  else if s.queue.length < c.qCap then settle c { s with queue := s.queue ++ [t] }
  else if c.facts.queueFullSetsFlag then { s with flag := true, lastFull := true }
  else { s with lastFull := true }

def takeBuf (k : Nat) : List Buf → Option Buf × List Buf
  | [] => (none, [])
  | b :: bs =>
    if b.key = k then (some b, bs)
    else ((takeBuf k bs).1, b :: (takeBuf k bs).2)

def oldRows (k : Nat) (bs : List Buf) : List Row :=
  match (takeBuf k bs).1 with
  | some b => b.rows
  | none => []

def oldStart (k : Nat) (bs : List Buf) (now : Nat) : Nat :=
  match (takeBuf k bs).1 with
  | some b => b.start
  | none => now

/-- append to the key's buffer; extract + enqueue when it reaches `bufMax` rows -/
def bufAppend (c : Cfg) (s : St) (key : Nat) (rows : List Row) : St :=
  if c.bufMax ≤ (oldRows key s.bufs ++ rows).length then
    enqueue c { s with bufs := (takeBuf key s.bufs).2 } ⟨key, oldRows key s.bufs ++ rows⟩
  else { s with bufs := (takeBuf key s.bufs).2 ++ [⟨key, oldStart key s.bufs s.now, oldRows key s.bufs ++ rows⟩] }

/-! ### WAL writer -/

def rotate (s : St) (f : WFile) : St :=
  { s with files := if s.activeLinked then s.files ++ [f] else s.files,
           active := some ⟨s.nextFile, s.now, []⟩, activeLinked := true,
           activeStart := s.now, nextFile := s.nextFile + 1 }

def appendEntry (s : St) (f : WFile) (e : Entry) : WFile :=
  if s.activeLinked then { f with entries := f.entries ++ [e], mtime := s.now } else f

/-- `writeEntry` -/
def persist (c : Cfg) (s : St) (e : Entry) : St :=
  match s.active with
  | none => s
  | some f =>
    if c.rotAge ≤ s.now - s.activeStart then rotate s (appendEntry s f e)
    else { s with active := some (appendEntry s f e) }

def drainChan (c : Cfg) (s : St) : St :=
  s.chan.foldl (persist c) { s with chan := [] }

/-- `tryEnqueue` on the async channel -/
def walAppend (c : Cfg) (s : St) (e : Entry) : St :=
  if s.chan.length < c.chanCap then
    (if s.paused then { s with chan := s.chan ++ [e] } else drainChan c { s with chan := s.chan ++ [e] })
  else { s with dropped := s.dropped + 1 }

/-! ### maintenance tick, recovery -/

def purgeOld (c : Cfg) (s : St) : St :=
  { s with files := s.files.filter (fun f => !(decide (c.safeAge ≤ s.now - f.mtime))) }

/-- stable insertion by mtime (findWALFiles sorts by ModTime; ties keep name order) -/
def insertByMtime (f : WFile) : List WFile → List WFile
  | [] => [f]
  | g :: gs => if f.mtime < g.mtime then f :: g :: gs else g :: insertByMtime f gs

def sortByMtime (fs : List WFile) : List WFile := fs.foldl (fun acc f => insertByMtime f acc) []

def replayRows (c : Cfg) (key : Nat) (s : St) (rows : List Row) : St :=
  rows.foldl (fun s r => bufAppend c s key [r]) s

/-- columnar entry: one `WriteColumnarDirectNoWAL`; row-format entry: one per record -/
def replayEntry (c : Cfg) (s : St) (e : Entry) : St :=
  if e.perRow then replayRows c e.key s e.rows else bufAppend c s e.key e.rows

def replayEntries (c : Cfg) (s : St) (es : List Entry) : St :=
  es.foldl (replayEntry c) s

def oldEnough (minAge now : Nat) (f : WFile) : Bool := decide (minAge ≤ now - f.mtime)

/-- `RecoverWithOptions`: every non-active file that is old enough is replayed (oldest first) and deleted -/
def replayFiles (c : Cfg) (minAge : Nat) (s : St) : St :=
  replayEntries c { s with files := s.files.filter (fun f => !oldEnough minAge s.now f) }
    ((sortByMtime (s.files.filter (oldEnough minAge s.now))).flatMap (·.entries))

/-- a replay pass in which callback invocation number `fail` (counted over the pass, one invocation per
entry) is rejected: a failed COLUMNAR entry is skipped and the pass goes on, a failed ROW entry stops its
file; result = (state, next invocation index, every entry of the file succeeded) -/
def replayEntriesF (c : Cfg) (fail : Nat) : St → Nat → List Entry → St × Nat × Bool
  | s, k, [] => (s, k, true)
  | s, k, e :: es =>
    if k = fail then
      if e.perRow then (s, k + 1, false)
      else ((replayEntriesF c fail s (k + 1) es).1, (replayEntriesF c fail s (k + 1) es).2.1, false)
    else replayEntriesF c fail (replayEntry c s e) (k + 1) es

/-- a file is deleted only if every entry was replayed; otherwise it stays (collected in `files`) -/
def replayFileF (c : Cfg) (fail : Nat) (acc : St × Nat) (f : WFile) : St × Nat :=
  ((if (replayEntriesF c fail acc.1 acc.2 f.entries).2.2 then (replayEntriesF c fail acc.1 acc.2 f.entries).1
    else { (replayEntriesF c fail acc.1 acc.2 f.entries).1 with
             files := (replayEntriesF c fail acc.1 acc.2 f.entries).1.files ++ [f], passFailed := true }),
   (replayEntriesF c fail acc.1 acc.2 f.entries).2.1)

def replayFilesF (c : Cfg) (minAge fail : Nat) (s : St) : St :=
  { ((sortByMtime (s.files.filter (oldEnough minAge s.now))).foldl (replayFileF c fail) ({ s with files := [] }, 0)).1 with
    files := ((sortByMtime (s.files.filter (oldEnough minAge s.now))).foldl (replayFileF c fail) ({ s with files := [] }, 0)).1.files
               ++ s.files.filter (fun f => !oldEnough minAge s.now f) }

def tickActF (c : Cfg) (fail : Nat) (s : St) : TickAct → St
  | .purge => purgeOld c s
  | .replay => replayFilesF c c.minFileAge fail s
  | .reset => if c.facts.resetRequiresCleanPass && s.passFailed then s else { s with flag := false }

/-- maintenance tick during which the replay callback rejects invocation `fail` (RecoverWithOptions still
returns nil, so the flag is reset) -/
def tickF (c : Cfg) (fail : Nat) (s : St) : St :=
  if c.walOn then (if s.flag then c.facts.tickFlag else c.facts.tickElse).foldl (tickActF c fail) s else s

def tickAct (c : Cfg) (s : St) : TickAct → St
  | .purge => purgeOld c s
  | .replay => replayFiles c c.minFileAge s
  | .reset => { s with flag := false }

/-- the maintenance goroutine only exists when the WAL is enabled -/
def tick (c : Cfg) (s : St) : St :=
  if c.walOn then (if s.flag then c.facts.tickFlag else c.facts.tickElse).foldl (tickAct c) s else s

/-! ### sync flushes, shutdown, crash, restart -/

def flushBufs (c : Cfg) (s : St) (bs : List Buf) : St :=
  bs.foldl (fun s b => syncFlush c s b.rows) s

def aged (c : Cfg) (now : Nat) (b : Buf) : Bool := decide (c.ageMax ≤ now - b.start)

/-- `flushAgedBuffers` -/
def ageFlush (c : Cfg) (s : St) : St :=
  flushBufs c { s with bufs := s.bufs.filter (fun b => !aged c s.now b) } (s.bufs.filter (aged c s.now))

/-- `ArrowBuffer.Close`: the in-flight task finishes, the worker may still take `d` queued tasks
(select race between ctx.Done and the queue), the rest is dropped, buffers are flushed synchronously -/
def flagIf (b : Bool) (s : St) : St := if b then { s with flag := true } else s

def dropQueueTail (c : Cfg) (d : Nat) (s : St) : St :=
  flagIf (c.facts.closeDropSetsFlag && decide (d < s.queue.length))
    ((s.queue.take d).foldl (workerFlush c) { s with queue := [] })

def flushAllBufs (c : Cfg) (s : St) : St := flushBufs c { s with bufs := [] } s.bufs

def bufClose (c : Cfg) (s : St) (d : Nat) : St :=
  flushAllBufs c (dropQueueTail c d (finishInflight c { s with closing := true, hold := false }))

def closeActive (s : St) : St :=
  match s.active with
  | some f => { s with active := none, files := if s.activeLinked then s.files ++ [f] else s.files,
                       activeLinked := false }
  | none => s

def walClose (c : Cfg) (s : St) : St := closeActive (drainChan c { s with paused := false })

def purgeAll (s : St) : St :=
  { s with files := [], activeLinked := false,
           active := s.active.map (fun f => { f with entries := [] }) }

def shutAct (c : Cfg) (d : Nat) (s : St) : ShutAct → St
  | .purgeAll => if c.walOn && !(c.facts.purgeGuardedByFlag && s.flag) then purgeAll s else s
  | .bufClose => bufClose c s d
  | .walClose => if c.walOn then walClose c s else s

def shutdown (c : Cfg) (s : St) (d : Nat) : St :=
  { (c.facts.shutdown.foldl (shutAct c d) s) with up := false }

def crash (s : St) : St :=
  { closeActive s with up := false, chan := [], paused := false, bufs := [], queue := [], inflight := none,
                       hold := false, flag := false, closing := false }

/-- process start: new WAL writer (fresh active file), new buffer, start-up recovery of every other
file (no MinFileAge) -/
def freshProc (s : St) : St :=
  { s with up := true, closing := false, hold := false, flag := false, paused := false,
           chan := [], bufs := [], queue := [], inflight := none, lastFull := false }

def openWal (s : St) : St :=
  { s with active := some ⟨s.nextFile, s.now, []⟩, activeLinked := true, activeStart := s.now,
           nextFile := s.nextFile + 1 }

def restart (c : Cfg) (s : St) : St :=
  if c.walOn then replayFiles c 0 (openWal (freshProc s)) else freshProc s

def restartF (c : Cfg) (fail : Nat) (s : St) : St :=
  if c.walOn then replayFilesF c 0 fail (openWal (freshProc s)) else freshProc s

/-! ### events -/

inductive Ev
  | adv (d : Nat)
  | write (key : Nat) (rows : List Row)   -- rows carry their ghost ids (generic columnar path)
  | writeT (direct : Bool) (key : Nat) (rows : List Row)  -- pre-typed path: typed msgpack decode / WriteTypedColumnarDirect
  | stall                                 -- storage stalls: writes block until the flush deadline
  | wpause | wresume
  | hold | unhold | step1
  | mode (m : Option Nat)
  | ageFlush
  | tick
  | shutdown (drained : Nat)
  | crash
  | restart
  | tickF (fail : Nat)      -- tick / restart whose replay callback rejects invocation `fail` (transient)
  | restartF (fail : Nat)
deriving DecidableEq, Repr

def Ev.injects : Ev → Bool
  | .tickF _ => true
  | .restartF _ => true
  | _ => false

/-- is a queue-full drop reported to the client? -/
def reportsFull (c : Cfg) : Bool :=
  c.facts.queueFullErrors && (!c.facts.queueFullErrorsOnlyNoWal || !c.walOn)

def reportsFullTyped (c : Cfg) : Bool :=
  c.facts.typedQueueFullErrors && (!c.facts.typedQueueFullErrorsOnlyNoWal || !c.walOn)

/-- which write path: 0 generic columnar (`writeColumnarInternal`), 1 typed msgpack decode with raw payload,
2 `WriteTypedColumnarDirect` (row-format WAL fallback) — 1 and 2 are `writeTypedColumnarRaw` -/
def reportsOn (c : Cfg) (path : Nat) : Bool := if path = 0 then reportsFull c else reportsFullTyped c

def walStage (c : Cfg) (s : St) (path : Nat) (key : Nat) (rows : List Row) : St :=
  if c.walOn then walAppend c { s with lastFull := false, lastSkip := false } ⟨key, rows, decide (path = 2)⟩
  else { s with lastFull := false, lastSkip := false }

def ackOf (c : Cfg) (path : Nat) (s : St) : Bool := !(s.lastFull && reportsOn c path)

def finishWrite (c : Cfg) (path : Nat) (s : St) (rows : List Row) : St :=
  { s with lastAck := ackOf c path s, acked := if ackOf c path s then s.acked ++ rows.map (·.id) else s.acked }

def writeP (c : Cfg) (s : St) (path : Nat) (key : Nat) (rows : List Row) : St :=
  finishWrite c path (bufAppend c (walStage c s path key rows) key rows) rows

def write (c : Cfg) (s : St) (key : Nat) (rows : List Row) : St := writeP c s 0 key rows

/-- one worker step while held: the in-flight task completes, the next one is taken -/
def step1 (c : Cfg) (s : St) : St :=
  match s.inflight with
  | some _ => settle c (finishInflight c s)
  | none => s

/-- the event proper, on a running process, clock already advanced -/
def stepUp (c : Cfg) (s : St) : Ev → St
  | .write k rows => write c s k rows
  | .writeT d k rows => writeP c s (if d then 2 else 1) k rows
  | .wpause => { s with paused := true }
  | .wresume => drainChan c { s with paused := false }
  | .hold => { s with hold := true }
  | .unhold => runWorker c { s with hold := false }
  | .step1 => step1 c s
  | .ageFlush => ageFlush c s
  | .tick => tick c s
  | .tickF n => tickF c n s
  | .shutdown d => shutdown c s d
  | .crash => crash s
  | _ => s

def begin (s : St) (obs : List Nat) (d : Nat) : St :=
  { s with obs := obs, lastAck := false, passFailed := false, now := s.now + d }

/-- events that need a running process are no-ops when it is down (and `restart` when it is up);
every event except `adv` takes one second -/
def step (c : Cfg) (s : St) (e : Ev) (obs : List Nat := []) : St :=
  match e with
  | .adv d => begin s obs d
  | .mode m => { begin s obs 1 with failAfter := m, stalled := false }
  | .stall => { begin s obs 1 with failAfter := some 0, stalled := true }
  | .restart => if s.up then begin s obs 0 else restart c (begin s obs 1)
  | .restartF n => if s.up then begin s obs 0 else restartF c n (begin s obs 1)
  | e => if s.up then stepUp c (begin s obs 1) e else begin s obs 0

def run (c : Cfg) (s : St) : List Ev → St
  | [] => s
  | e :: es => run c (step c s e) es

/-! ### observables -/

def bufRows (bs : List Buf) : List Row := bs.flatMap (·.rows)
def taskRows (q : List Task) : List Row := q.flatMap (·.rows)
def optRows : Option Task → List Row
  | some t => t.rows
  | none => []
def liveRows (s : St) : List Row := bufRows s.bufs ++ taskRows s.queue ++ optRows s.inflight
def fileRows (f : WFile) : List Row := f.entries.flatMap (·.rows)
def filesRows (fs : List WFile) : List Row := fs.flatMap fileRows
def activeRows (s : St) : List Row :=
  match s.active with
  | some f => if s.activeLinked then fileRows f else []
  | none => []
def walRows (s : St) : List Row := s.chan.flatMap (·.rows) ++ activeRows s ++ filesRows s.files

def cnt (rows : List Row) (i : Nat) : Nat := rows.countP (fun r => r.id == i)

/-- copies of row `i` in memory or in Parquet -/
def cntLS (s : St) (i : Nat) : Nat := cnt (liveRows s) i + cnt s.stored i
/-- copies of row `i` anywhere (memory, Parquet, WAL) -/
def tot (s : St) (i : Nat) : Nat := cntLS s i + cnt (walRows s) i

end Arc.C07
