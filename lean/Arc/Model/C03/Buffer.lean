import Arc.Model.C03.Pure
/-
C03 — labelled transition system of `ArrowBuffer` (internal/ingest/arrow_writer.go).

One event = one critical section (a region under `shard.mu`, a channel operation, or one
`storage.Write`).  There are no thread identities: any sequence of events is an interleaving of any
number of writer goroutines, flush workers, the age timer, `FlushAll` and `Close`.

  write k b      `shard.buffers[k] = append(…)` — only reachable when the buffer is absent or has the
                 batch's column signature (flushOnSchemaChangeLocked ran first, under the same lock)
  extract k      size threshold reached: buffer k is taken out (same critical section as the write)
  enqueue i      non-blocking send of an extracted task succeeded
  enqFail i      the send did not happen (closing / ctx cancelled / queue full): the task is gone
                 — owned by C07, recorded here in `dropped`
  take i         a flush worker received a task; mergeBatches + hour split + sort happen outside locks
  syncFlush w k  flushBufferLocked extracted buffer k (schema change, age, FlushAll, Close)
  store j name   one `storage.Write` of a pending file under its hour directory with file name `name`
                 (name = measurement_<time.Now()>_<nanos>.parquet); an existing path is overwritten
  close          `closing` set, ctx cancelled
  dropQueued i   after close the workers are gone: a still-queued task is never flushed (C07)
-/
namespace Arc.C03

structure TBatch where
  id : Nat          -- ghost tag (arrival number), used by the trace checker only
  b  : Batch
deriving DecidableEq, Repr

structure Task where
  key     : String
  batches : List TBatch
deriving DecidableEq, Repr

structure PFile where
  key   : String
  hour  : Int
  batch : Batch
deriving DecidableEq, Repr

structure Path where
  key  : String     -- database/measurement
  hour : Int        -- the YYYY/MM/DD/HH directory, as the hour number it denotes
  name : String
deriving DecidableEq, Repr

inductive Why | schema | age | flushAll | close
deriving DecidableEq, Repr

inductive Ev
  | write (k : String) (tb : TBatch)
  | extract (k : String)
  | enqueue (i : Nat)
  | enqFail (i : Nat)
  | take (i : Nat)
  | syncFlush (w : Why) (k : String)
  | store (j : Nat) (name : String)
  | close
  | dropQueued (i : Nat)
deriving Repr

structure St where
  bufs     : List (String × List TBatch) := []
  held     : List Task := []
  queue    : List Task := []
  inflight : List PFile := []
  files    : List (Path × PFile) := []
  dropped  : List Task := []
  failed   : List Task := []
  accepted : List (String × Batch) := []     -- ghost: every accepted write, in order
  closing  : Bool := false
deriving Repr

/-! ### well-formed accepted batches (what `convertColumnsToTyped` / typed parsers hand over) -/

def allDistinct : List String → Bool
  | [] => true
  | x :: xs => !xs.contains x && allDistinct xs

def colWF (n : Nat) (c : Col) : Bool :=
  c.vals.length == n &&
  (match c.valid with
   | none => true
   | some v => v.length == n)

def timeColWF (b : Batch) : Bool :=
  match b.col "time" with
  | some c => decide (c.ty = .i64) && c.valid.isNone
  | none => false

/-- names unique, no internal (`_…`/empty) names, a non-null int64 `time` column (values in the int64
range), every column and validity vector as long as the time column -/
def wfBatch (b : Batch) : Bool :=
  allDistinct b.names &&
  b.names.all (fun nm => !internalName nm) &&
  timeColWF b &&
  b.times.all (fun t => decide (inI64 t)) &&
  b.cols.all (fun p => colWF b.n p.2)

def rowCount (l : List TBatch) : Nat := (l.map (fun tb => tb.b.n)).sum

def eraseKey (k : String) (m : List (String × List TBatch)) : List (String × List TBatch) :=
  m.filter (fun p => p.1 != k)

def setKey (k : String) (v : List TBatch) (m : List (String × List TBatch)) : List (String × List TBatch) :=
  (k, v) :: eraseKey k m

def bufOf (s : St) (k : String) : Option (List TBatch) := s.bufs.lookup k

/-- signature guard of the write critical section -/
def sigOK (l : List TBatch) (b : Batch) : Bool :=
  match l with
  | [] => true
  | tb :: _ => decide (signature tb.b = signature b)

/-- the flush of a task outside the locks: merge, split by hour, sort -/
def startFlush (s : St) (t : Task) : St :=
  match flushTask (t.batches.map TBatch.b) with
  | .ok fs => { s with inflight := s.inflight ++ fs.map (fun f => ⟨t.key, f.hour, f.batch⟩) }
  | .error _ => { s with failed := s.failed ++ [t] }

def putFile (p : Path) (f : PFile) (m : List (Path × PFile)) : List (Path × PFile) :=
  (p, f) :: m.filter (fun q => decide (q.1 ≠ p))

def step (maxBuf : Nat) (s : St) : Ev → Option St
  | .write k tb =>
    if !wfBatch tb.b then none else
    match bufOf s k with
    | none => some { s with bufs := setKey k [tb] s.bufs, accepted := s.accepted ++ [(k, tb.b)] }
    | some l =>
      if sigOK l tb.b then
        some { s with bufs := setKey k (l ++ [tb]) s.bufs, accepted := s.accepted ++ [(k, tb.b)] }
      else none
  | .extract k =>
    match bufOf s k with
    | none => none
    | some l =>
      if rowCount l ≥ maxBuf then
        some { s with bufs := eraseKey k s.bufs, held := s.held ++ [⟨k, l⟩] }
      else none
  | .enqueue i =>
    match s.held[i]? with
    | none => none
    | some t => some { s with held := s.held.eraseIdx i, queue := s.queue ++ [t] }
  | .enqFail i =>
    match s.held[i]? with
    | none => none
    | some t => some { s with held := s.held.eraseIdx i, dropped := s.dropped ++ [t] }
  | .take i =>
    match s.queue[i]? with
    | none => none
    | some t => some (startFlush { s with queue := s.queue.eraseIdx i } t)
  | .syncFlush _ k =>
    match bufOf s k with
    | none => none
    | some l => some (startFlush { s with bufs := eraseKey k s.bufs } ⟨k, l⟩)
  | .store j name =>
    match s.inflight[j]? with
    | none => none
    | some f =>
      some { s with inflight := s.inflight.eraseIdx j, files := putFile ⟨f.key, f.hour, name⟩ f s.files }
  | .close => some { s with closing := true }
  | .dropQueued i =>
    if !s.closing then none else
    match s.queue[i]? with
    | none => none
    | some t => some { s with queue := s.queue.eraseIdx i, dropped := s.dropped ++ [t] }

def run (maxBuf : Nat) : St → List Ev → Option St
  | s, [] => some s
  | s, e :: es =>
    match step maxBuf s e with
    | none => none
    | some s' => run maxBuf s' es

/-- nothing buffered, extracted, queued or being written -/
def quiescent (s : St) : Bool :=
  s.bufs.isEmpty && s.held.isEmpty && s.queue.isEmpty && s.inflight.isEmpty

/-- FreshNames: the path of a `store` is not in use (the code relies on `time.Now()` nanoseconds) -/
def freshAt (s : St) : Ev → Bool
  | .store j name =>
    match s.inflight[j]? with
    | none => true
    | some f => !(s.files.any (fun q => decide (q.1 = (⟨f.key, f.hour, name⟩ : Path))))
  | _ => true

def freshRun (maxBuf : Nat) : St → List Ev → Bool
  | _, [] => true
  | s, e :: es =>
    freshAt s e &&
    match step maxBuf s e with
    | none => true
    | some s' => freshRun maxBuf s' es

end Arc.C03
