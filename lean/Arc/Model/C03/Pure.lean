/-
C03 — executable model of the *pure* part of `internal/ingest/arrow_writer.go`'s flush pipeline:

  mergeBatches → (single hour | groupByHour → sliceTypedColumnBatchByIndices) →
  sortTypedColumnBatchByKeys (default keys = ["time"]: permuteByTime = already-sorted fast path |
  sort.Slice below radixSkipThreshold | 8-pass LSD radix sort with sign-bit bias) → one file per hour.

Core Lean only.  Typed columns are a type tag + payload list + optional validity list, exactly the
`Data[name]` / `Validity[name]` pair of `TypedColumnBatch` (a missing/nil validity entry = all valid).
Values are opaque payloads (`f64` as IEEE bit pattern, `dec` as the 128-bit integer).
-/
namespace Arc.C03

/-! ## hour arithmetic -/

/-- `const microPerHour = int64(3600_000_000)`. -/
def microPerHour : Int := 3600000000

/-- `const radixSkipThreshold = 4096`. -/
def radixSkipThreshold : Nat := 4096

/-- `HourBucketID`: Go's `/` and `%` on int64 truncate toward zero (`Int.tdiv`/`Int.tmod`); the
function then corrects negative non-multiples by one. -/
def hourBucketID (t : Int) : Int :=
  let h := Int.tdiv t microPerHour
  if t < 0 ∧ Int.tmod t microPerHour ≠ 0 then h - 1 else h

/-- two's-complement wrap of an int64 result. -/
def wrap64 (x : Int) : Int := Int.bmod x (2 ^ 64)

def inI64 (x : Int) : Prop := -(2 ^ 63) ≤ x ∧ x < 2 ^ 63
instance (x : Int) : Decidable (inI64 x) := by unfold inI64; exact inferInstance

/-- `HourBucketID` with every intermediate int64 result wrapped (what the machine computes). -/
def hourBucketID64 (t : Int) : Int :=
  let h := wrap64 (Int.tdiv t microPerHour)
  if t < 0 ∧ wrap64 (Int.tmod t microPerHour) ≠ 0 then wrap64 (h - 1) else h

/-- `hourIDToTime`: `time.UnixMicro(hourID * microPerHour)` — the multiplication is int64. -/
def hourStartMicro64 (h : Int) : Int := wrap64 (h * microPerHour)

/-! ## typed columns and batches -/

inductive Ty | i64 | f64 | str | bool | dec
deriving DecidableEq, Repr, Inhabited

inductive Val
  | i (x : Int) | f (bits : Nat) | s (x : String) | b (x : Bool) | d (x : Int)
deriving DecidableEq, Repr, Inhabited

/-- the Go zero value of a slice element of that type -/
def Ty.zero : Ty → Val
  | .i64 => .i 0 | .f64 => .f 0 | .str => .s "" | .bool => .b false | .dec => .d 0

def Val.toInt : Val → Int
  | .i x => x | _ => 0

structure Col where
  ty    : Ty
  vals  : List Val
  valid : Option (List Bool)      -- `none` = no validity entry (all valid)
deriving DecidableEq, Repr, Inhabited

structure Batch where
  cols : List (String × Col)      -- `Data` + `Validity`; names unique
deriving DecidableEq, Repr, Inhabited

def Batch.col (b : Batch) (nm : String) : Option Col := b.cols.lookup nm
def Batch.names (b : Batch) : List String := b.cols.map Prod.fst

/-- `cols["time"].([]int64)` — empty when absent or of another type. -/
def Batch.times (b : Batch) : List Int :=
  match b.col "time" with
  | some c => if c.ty = .i64 then c.vals.map Val.toInt else []
  | none => []

def Batch.n (b : Batch) : Nat := b.times.length

/-- value or NULL at row `i` (what `AppendValues(vals, valid)` gives the Arrow builder). -/
def Col.cellAt (c : Col) (i : Nat) : Option Val :=
  match c.valid with
  | none => some (c.vals.getD i c.ty.zero)
  | some v => if v.getD i false then some (c.vals.getD i c.ty.zero) else none

/-- `applyPermutation` / `sliceColumnsByIndices` (+ the validity loops of
`sortTypedColumnBatchByKeys` / `sliceTypedColumnBatchByIndices`): out-of-range indices give the
zero value / `false`, as the slice variant does. -/
def Col.gather (c : Col) (ix : List Nat) : Col :=
  { ty := c.ty
    vals := ix.map (fun i => c.vals.getD i c.ty.zero)
    valid := c.valid.map (fun v => ix.map (fun i => v.getD i false)) }

def Batch.gather (b : Batch) (ix : List Nat) : Batch :=
  { cols := b.cols.map (fun p => (p.1, p.2.gather ix)) }

/-! ## rows (specification view) -/

/-- A row: its timestamp and, per column name, the value or NULL (absent column = NULL, which is how
`read_parquet(union_by_name)` and schema-on-read see it). -/
structure Row where
  time : Int
  cell : String → Option Val

def Batch.rowAt (b : Batch) (i : Nat) : Row :=
  { time := b.times.getD i 0, cell := fun nm => (b.col nm).bind (fun c => c.cellAt i) }

def Batch.rows (b : Batch) : List Row := (List.range b.n).map b.rowAt

/-! ## mergeBatches -/

inductive MergeErr | noBatches | typeConflict
deriving DecidableEq, Repr

def unionNames (bs : List Batch) : List String := (bs.flatMap Batch.names).eraseDups

/-- the type recorded for `nm` in PHASE 1: that of the first batch that has the column. -/
def firstTy (bs : List Batch) (nm : String) : Ty :=
  match bs.findSome? (fun b => b.col nm) with
  | some c => c.ty
  | none => .i64

/-- `dst, ok := merged[name].([]T)` checks against the first-seen type: a later
batch with another Go type for the same name makes mergeBatches return the error
`column %q changes type between batches (…)` (d29da22; it used to be a type-assertion panic). -/
def typeConflict (bs : List Batch) : Bool :=
  bs.any (fun b => b.cols.any (fun p => decide (p.2.ty ≠ firstTy bs p.1)))

def segVals (b : Batch) (nm : String) (ty : Ty) : List Val :=
  match b.col nm with
  | some c => (List.range b.n).map (fun i => c.vals.getD i ty.zero)
  | none => List.replicate b.n ty.zero

def segValid (b : Batch) (nm : String) : List Bool :=
  match b.col nm with
  | some c =>
    match c.valid with
    | some v => (List.range b.n).map (fun i => v.getD i false)
    | none => List.replicate b.n true
  | none => List.replicate b.n false

/-- `hasAnyValidity || hasSparseColumns` -/
def needsValidity (bs : List Batch) : Bool :=
  bs.any (fun b => b.cols.any (fun p => p.2.valid.isSome)) ||
  bs.any (fun b => decide (b.cols.length < (unionNames bs).length))

/-- "strip validity entries that are all-true" -/
def stripValid (v : List Bool) : Option (List Bool) := if v.all id then none else some v

def mergedCol (bs : List Batch) (nm : String) : Col :=
  let ty := firstTy bs nm
  { ty := ty
    vals := bs.flatMap (fun b => segVals b nm ty)
    valid := if needsValidity bs then stripValid (bs.flatMap (fun b => segValid b nm)) else none }

def mergeBatches (bs : List Batch) : Except MergeErr Batch :=
  match bs with
  | [] => .error .noBatches
  | [b] => .ok b
  | _ =>
    if typeConflict bs then .error .typeConflict
    else .ok { cols := (unionNames bs).map (fun nm => (nm, mergedCol bs nm)) }

/-! ## groupByHour -/

/-- append row index `i` to the bucket of hour `h` (buckets in first-appearance order; the Go map is
unordered, the `lastID/lastBucket` cache aliases the map entry and has no semantic effect). -/
def insertIdx : List (Int × List Nat) → Int → Nat → List (Int × List Nat)
  | [], h, i => [(h, [i])]
  | (h', is) :: rest, h, i =>
    if h' = h then (h', is ++ [i]) :: rest else (h', is) :: insertIdx rest h i

def groupFrom : List Int → Nat → List (Int × List Nat) → List (Int × List Nat)
  | [], _, acc => acc
  | t :: ts, i, acc => groupFrom ts (i + 1) (insertIdx acc (hourBucketID t) i)

def groupByHour (times : List Int) : List (Int × List Nat) := groupFrom times 0 []

def listMin : Int → List Int → Int
  | m, [] => m
  | m, t :: ts => listMin (if t < m then t else m) ts

def listMax : Int → List Int → Int
  | m, [] => m
  | m, t :: ts => listMax (if t > m then t else m) ts

/-! ## time sort -/

/-- the already-sorted scan of `permuteByTime` -/
def sortedScan : List Int → Bool
  | [] => true
  | [_] => true
  | a :: b :: rest => if b < a then false else sortedScan (b :: rest)

/-- `radixSortBias`: `uint64(t) ^ 0x8000000000000000` as arithmetic on the two's-complement value:
flipping the top bit of a 64-bit word adds 2^63 modulo 2^64. -/
def bias (t : Int) : Nat := ((t + 2 ^ 63) % 2 ^ 64).toNat

/-- `(key >> (8*k)) & 0xff` -/
def digit (k : Nat) (key : Nat) : Nat := (key / 256 ^ k) % 256

/-- One counting-sort pass on byte `k`: count / prefix-sum / scatter in source order is a stable
bucket sort — bucket `d` receives, in source order, the entries whose byte is `d`. -/
def countingPass (keyOf : Nat → Nat) (k : Nat) (src : List Nat) : List Nat :=
  (List.range 256).flatMap (fun d => src.filter (fun ix => digit k (keyOf ix) == d))

/-- a pass is skipped when every key has the byte of `src[0]` (`count[...] == n`) -/
def radixPass (keyOf : Nat → Nat) (src : List Nat) (k : Nat) : List Nat :=
  match src with
  | [] => src
  | i0 :: _ =>
    if src.all (fun ix => digit k (keyOf ix) == digit k (keyOf i0)) then src
    else countingPass keyOf k src

def radixWith (keyOf : Nat → Nat) (n : Nat) : List Nat :=
  (List.range 8).foldl (radixPass keyOf) (List.range n)

/-- key lookup `radixSortBias(times[ix])` (array-backed so that the executable model is linear per pass) -/
def keyAt (keys : Array Nat) (ix : Nat) : Nat := keys.getD ix 0

def radixPermuteByTime (times : List Int) : List Nat :=
  let keys := (times.map bias).toArray
  radixWith (keyAt keys) times.length

def timeAt (ts : Array Int) (ix : Nat) : Int := ts.getD ix 0

/-- `permuteByTimeSort`: `sort.Slice` (pdqsort, *unstable*) with `less = times[i] < times[j]`. The
model uses a merge sort; only "sorted permutation" is claimed for this path and the harness compares
it up to the order of equal timestamps. -/
def cmpPermuteByTime (times : List Int) : List Nat :=
  let ts := times.toArray
  (List.range times.length).mergeSort (fun i j => decide (timeAt ts i ≤ timeAt ts j))

inductive SortPath | empty | sorted | cmp | radix
deriving DecidableEq, Repr

def sortPath (times : List Int) : SortPath :=
  if times.length = 0 then .empty
  else if sortedScan times then .sorted
  else if times.length < radixSkipThreshold then .cmp
  else .radix

/-- `permuteByTime`: `none` = nil = identity -/
def permuteByTime (times : List Int) : Option (List Nat) :=
  match sortPath times with
  | .empty => none
  | .sorted => none
  | .cmp => some (cmpPermuteByTime times)
  | .radix => some (radixPermuteByTime times)

/-- `sortTypedColumnBatchByKeys(batch, ["time"])` -/
def sortBatch (b : Batch) : Batch :=
  match permuteByTime b.times with
  | none => b
  | some ix => b.gather ix

/-! ## flushPartitionedData (what gets written where) -/

structure OutFile where
  hour  : Int        -- the file goes to the directory of hour `hour` (YYYY/MM/DD/HH of hour*3600 s)
  batch : Batch
deriving DecidableEq, Repr

inductive FlushErr | noTime | merge (e : MergeErr)
deriving DecidableEq, Repr

def flushFiles (m : Batch) : Except FlushErr (List OutFile) :=
  match m.times with
  | [] => .error .noTime
  | t0 :: ts =>
    let mn := listMin t0 ts
    let mx := listMax t0 ts
    -- `minTime.Truncate(time.Hour).Equal(maxTime.Truncate(time.Hour))`; the directory of the single
    -- file is formatted from `minTime`
    if hourBucketID mn = hourBucketID mx then .ok [⟨hourBucketID mn, sortBatch m⟩]
    else .ok ((groupByHour m.times).map (fun p => ⟨p.1, sortBatch (m.gather p.2)⟩))

def flushTask (bs : List Batch) : Except FlushErr (List OutFile) :=
  match mergeBatches bs with
  | .error e => .error (.merge e)
  | .ok m => flushFiles m

/-! ## column signature (`getColumnSignature`) -/

def Ty.sigName : Ty → String
  | .i64 => "i64" | .f64 => "f64" | .str => "str" | .bool => "bool" | .dec => "dec"

/-- internal (`_`-prefixed) and empty names are skipped by the signature *and* by the Parquet schema -/
def internalName (nm : String) : Bool :=
  match nm.toList with
  | [] => true
  | c :: _ => c == '_'

def insertSorted (p : String × Ty) : List (String × Ty) → List (String × Ty)
  | [] => [p]
  | q :: rest => if p.1 < q.1 then p :: q :: rest else q :: insertSorted p rest

/-- sorted `name:type` entries of the non-internal columns -/
def signature (b : Batch) : List (String × Ty) :=
  (b.cols.filter (fun p => !internalName p.1)).foldr (fun p acc => insertSorted (p.1, p.2.ty) acc) []

/-! ## ArrowWriter.getSchema cache key (outside the flush model proper; see finding) -/

/-- Go's `%v` of a `[]string` -/
def goV (xs : List String) : String := "[" ++ " ".intercalate xs ++ "]"

/-- `fmt.Sprintf("%s:%v:%v:%v:%t", measurement, colNames, typeNames, tagColumns, dedupTime)` -/
def schemaCacheKey (m : String) (names types tags : List String) (dedup : Bool) : String :=
  m ++ ":" ++ goV names ++ ":" ++ goV types ++ ":" ++ goV tags ++ ":" ++ (if dedup then "true" else "false")

end Arc.C03
