import Arc.Generated.C31
/-
C31 — executable model of the CSV / Parquet import path
(`internal/api/import_inprocess.go`, buffer write + hour-partitioned flush of
`internal/ingest/arrow_writer.go`).

Integers are unbounded `Int` with an explicit two's-complement `wrap64` wherever Go's int64
arithmetic can overflow.  The arithmetic TABLES (unit ↦ multiply/divide/identity, auto-detection
thresholds, the MinInt64 clamp) and the ERROR POLICY (what ends every error branch) are read from
`Arc.Generated.C31`, which factgen regenerates from the current source on every run.

Parameters (library code outside the model):
* CSV tokenisation (`encoding/csv`): the model starts from the record list;
* `strconv.ParseFloat`, float arithmetic and `time.Parse`: `pf` / `fb` oracles
  (`pf cell` = ParseFloat result, `fb cell` = micros produced by the float-or-textual fallback);
* Parquet decoding (arrow-go): the model starts from the decoded typed columns.
`float64(int64)` and ParseFloat on *integer literals* are NOT parameters: they are the exact
round-to-nearest-even function `roundF64` below (validated against the real conversions).
Core-only, executable.
-/
namespace Arc.C31
open Arc.Generated.C31 (Op)

abbrev Cell := List Char

/-! ## int64 arithmetic -/
def minI64 : Int := -9223372036854775808
def maxI64 : Int := 9223372036854775807

/-- two's-complement reduction into the int64 range (what Go's `*`/unary `-` do on overflow) -/
def wrap64 (n : Int) : Int := (n + 9223372036854775808) % 18446744073709551616 - 9223372036854775808

/-- one arm of a conversion switch.  `.mul` is Go's wrapping int64 multiplication, `.div` Go's
truncating division. -/
def applyOp (auto : Int → Int) : Op → Int → Int
  | .mul k, n => wrap64 (n * k)
  | .div k, n => Int.tdiv n k
  | .id, n => n
  | .auto, n => auto n

/-- `absN` of autoIntEpochToMicros (with or without the MinInt64 clamp, as the source has it) -/
def absClamp (n : Int) : Int :=
  if n < 0 then
    (if Arc.Generated.C31.autoIntAbsClamp && n == minI64 then maxI64 else wrap64 (-n))
  else n

def threshApply (tbl : List (Int × Op)) (dflt : Op) (a n : Int) : Int :=
  match tbl with
  | [] => applyOp (fun x => x) dflt n
  | (b, o) :: rest => if a < b then applyOp (fun x => x) o n else threshApply rest dflt a n

def autoIntEpochToMicros (n : Int) : Int :=
  threshApply Arc.Generated.C31.autoInt Arc.Generated.C31.autoIntDefault (absClamp n) n

def lookupOp (tbl : List (String × Op)) (dflt : Op) (k : String) : Op :=
  match tbl.lookup k with
  | some o => o
  | none => dflt

/-- `intTimeToMicros(n, timeFormat)` -/
def intTimeToMicros (n : Int) (fmt : String) : Int :=
  applyOp autoIntEpochToMicros (lookupOp Arc.Generated.C31.intTime Arc.Generated.C31.intTimeDefault fmt) n

/-- `arrowTimestampToMicros(v, unit)`; unit ∈ Second | Millisecond | Microsecond | Nanosecond | other -/
def arrowTimestampToMicros (v : Int) (unit : String) : Int :=
  applyOp (fun x => x) (lookupOp Arc.Generated.C31.arrowTs Arc.Generated.C31.arrowTsDefault unit) v

/-! ## strconv.ParseInt(s, 10, 64) -/
def isDigit (c : Char) : Bool := c.isDigit
/-- value of a digit string (core's `Nat.ofDigitChars`: `foldl (10 * acc + (c - '0'))`) -/
def digitsVal (ds : List Char) : Nat := Nat.ofDigitChars 10 ds 0

def parseUDigits (ds : List Char) : Option Nat :=
  if ds.isEmpty || !ds.all isDigit then none else some (digitsVal ds)

def parseInt (s : Cell) : Option Int :=
  match s with
  | [] => none
  | c :: rest =>
    if c == '-' then
      match parseUDigits rest with
      | some m => if m ≤ 9223372036854775808 then some (-(m : Int)) else none
      | none => none
    else if c == '+' then
      match parseUDigits rest with
      | some m => if m < 9223372036854775808 then some (m : Int) else none
      | none => none
    else
      match parseUDigits (c :: rest) with
      | some m => if m < 9223372036854775808 then some (m : Int) else none
      | none => none

/-! ## strings.EqualFold against an ASCII lower-case literal, isBoolLiteral -/
/-- simple case folding restricted to what can reach an ASCII letter: A–Z, U+017F (ſ → s),
U+212A (Kelvin → k). -/
def foldChar (c : Char) : Char :=
  if decide ('A' ≤ c) && decide (c ≤ 'Z') then Char.ofNat (c.toNat + 32)
  else if c.toNat == 0x17F then 's'
  else if c.toNat == 0x212A then 'k'
  else c

def equalFoldLit (s : Cell) (lit : List Char) : Bool := s.map foldChar == lit

def isBoolLiteral (s : Cell) : Bool :=
  s == ['1'] || s == ['0'] || equalFoldLit s ['t','r','u','e'] || equalFoldLit s ['f','a','l','s','e']

def boolVal (s : Cell) : Bool := equalFoldLit s ['t','r','u','e'] || s == ['1']

/-! ## float64(int64) and ParseFloat on integer literals: exact round-to-nearest-even -/
/-- the integer value of the float64 nearest (ties to even) to the natural number `m` -/
def roundNat53 (m : Nat) : Nat :=
  if m < 9007199254740992 then m else
  let e := Nat.log2 m - 52
  let q := m >>> e
  let r := m % 2 ^ e
  let half := 2 ^ (e - 1)
  let q' := if r > half || (r == half && q % 2 == 1) then q + 1 else q
  q' <<< e

def roundF64 (n : Int) : Int := if n < 0 then -(roundNat53 n.natAbs : Int) else (roundNat53 n.natAbs : Int)

/-- IEEE-754 binary64 bits of an exactly representable natural number < 2^1024 -/
def f64BitsOfNat (m : Nat) : Nat :=
  if m == 0 then 0 else
  let e := Nat.log2 m
  let mant := if e ≤ 52 then m <<< (52 - e) else m >>> (e - 52)
  ((e + 1023) <<< 52) + (mant - 4503599627370496)

/-- bits of `float64(n)` for an int64 `n` -/
def f64BitsOfInt (n : Int) : Nat :=
  (if n < 0 then 9223372036854775808 else 0) + f64BitsOfNat (roundNat53 n.natAbs)

/-- `strconv.ParseFloat` on an unsigned digit string: bits, or none on overflow (ErrRange) -/
def parseFloatDigits (ds : List Char) : Option Nat :=
  let v := roundNat53 (digitsVal ds)
  if Nat.log2 v ≥ 1024 then none else some (f64BitsOfNat v)

/-! ## inferAndConvertColumn -/
inductive Col where
  | int (vs : List Int)
  | float (vs : List Nat)     -- IEEE bits
  | bool (vs : List Bool)
  | str (vs : List Cell)
deriving Repr, DecidableEq

def intOK (c : Cell) : Bool := c.isEmpty || (parseInt c).isSome
def intCell (c : Cell) : Int := (parseInt c).getD 0

/-- syntactically an integer literal: ParseInt succeeds or fails with ErrRange (not ErrSyntax) -/
def intSyntax (c : Cell) : Bool :=
  match c with
  | [] => false
  | ch :: rest => if ch == '-' || ch == '+' then (parseUDigits rest).isSome else (parseUDigits (ch :: rest)).isSome

/-- `f >= 1<<53 || f <= -(1<<53)` on IEEE bits (false for NaN) -/
def f64AbsGe2p53 (bits : Nat) : Bool :=
  let e := (bits >>> 52) % 2048
  let m := bits % 4503599627370496
  decide (e ≥ 1076) && !(e == 2047 && m != 0)

def smallInt (n : Int) : Bool := decide (-9007199254740992 ≤ n) && decide (n ≤ 9007199254740992)

/-- the 2^53 exactness guards of the current source (absent ⇒ always true) -/
def exactGuards (pf : Cell → Option Nat) (pre post : List Cell) : Bool :=
  !Arc.Generated.C31.inexactIntsStayText ||
  (pre.all (fun c => smallInt (intCell c)) &&
   post.all (fun c => c.isEmpty || !(f64AbsGe2p53 ((pf c).getD 0) && intSyntax c)))

/-- `pf` = strconv.ParseFloat(s, 64) as IEEE bits (parameter). -/
def inferCol (pf : Cell → Option Nat) (raw : List Cell) : Col × Option (List Bool) :=
  let hasValue := raw.any (fun c => !c.isEmpty)
  let hasEmpty := raw.any (fun c => c.isEmpty)
  let validity := if hasEmpty then some (raw.map (fun c => !c.isEmpty)) else none
  if !hasValue then (.str raw, none) else
  let pre := raw.takeWhile intOK
  let post := raw.dropWhile intOK
  if post.isEmpty then (.int (raw.map intCell), validity)
  else if post.all (fun c => c.isEmpty || (pf c).isSome) && exactGuards pf pre post then
    (.float (pre.map (fun c => f64BitsOfInt (intCell c)) ++ post.map (fun c => if c.isEmpty then 0 else (pf c).getD 0)),
     validity)
  else if raw.all (fun c => c.isEmpty || isBoolLiteral c) then
    (.bool (raw.map (fun c => !c.isEmpty && boolVal c)), validity)
  else (.str raw, none)

/-! ## time column (CSV strings / Parquet string cells) -/
def isSpace (c : Char) : Bool :=
  let n := c.toNat
  n == 9 || n == 10 || n == 11 || n == 12 || n == 13 || n == 32 || n == 0x85 || n == 0xA0 || n == 0x1680 ||
  (0x2000 ≤ n && n ≤ 0x200A) || n == 0x2028 || n == 0x2029 || n == 0x202F || n == 0x205F || n == 0x3000

def trimSpace (s : Cell) : Cell := ((s.dropWhile isSpace).reverse.dropWhile isSpace).reverse

/-- the integer path shared by the explicit and the auto arm:
`!strings.Contains(s, ".")` and ParseInt succeeds -/
def intPath (s : Cell) : Option Int := if s.contains '.' then none else parseInt s

/-- `oneTimeValueToMicros(s, fmt)`; `fb` = micros of the float / textual fallback (parameter). -/
def oneTime (fb : Cell → Option Int) (fmt : String) (s0 : Cell) : Option Int :=
  let s := trimSpace s0
  if Arc.Generated.C31.explicitFormats.contains fmt then
    match intPath s with
    | some n => some (intTimeToMicros n fmt)
    | none => fb s
  else if fmt == "" then
    match intPath s with
    | some n => some (autoIntEpochToMicros n)
    | none => fb s
  else if Arc.Generated.C31.unknownFormatRejected then none
  else fb s

/-- what ends the k-th error branch of `fn` in the current source -/
def branchAction (fn : String) (k : Nat) : String :=
  match ((Arc.Generated.C31.errBranches.filter (fun b => b.1 == fn)).map (fun b => b.2.2))[k]? with
  | some a => a
  | none => "missing"

def aborts (fn : String) (k : Nat) : Bool := branchAction fn k == "return-error"

/-- `stringsToTimeMicros(raw, fmt)`.  An error branch that does not return (a `continue`) leaves
the zero value in `out[i]`, as the Go loop would. -/
def timeCells (fb : Cell → Option Int) (fmt : String) : List Cell → Option (List Int)
  | [] => some []
  | c :: cs =>
    let s := trimSpace c
    let here : Option Int :=
      if s.isEmpty then (if aborts "stringsToTimeMicros" 0 then none else some 0)
      else match oneTime fb fmt s with
        | some t => some t
        | none =>
          if fmt != "" then (if aborts "stringsToTimeMicros" 1 then none else some 0)
          else (if aborts "stringsToTimeMicros" 2 then none else some 0)
    match here, timeCells fb fmt cs with
    | some t, some ts => some (t :: ts)
    | _, _ => none

/-! ## header validation -/
def stripBOM (s : Cell) : Cell :=
  match s with
  | c :: rest => if c.toNat == 0xFEFF then rest else s
  | [] => []

def timeLit : Cell := ['t','i','m','e']

/-- `validateImportHeader`: index of the time column, or none (rejected) -/
def validateHeader (header : List Cell) (timeCol : Cell) : Option Nat :=
  if header.any (fun n => n.isEmpty) then none
  else if Arc.Generated.C31.headerRejectsUnderscore && header.any (fun n => n.head? == some '_') then none
  else if !header.Nodup then none
  else
    match header.idxOf? timeCol with
    | none => none
    | some i => if timeCol != timeLit && header.contains timeLit then none else some i

/-! ## typed batch, storage -/
inductive Val where
  | null | i (n : Int) | f (bits : Nat) | b (v : Bool) | s (c : Cell)
deriving Repr, DecidableEq

structure TCol where
  name : Cell
  col : Col
  validity : Option (List Bool)
deriving Repr, DecidableEq

structure Batch where
  time : List Int
  cols : List TCol
deriving Repr, DecidableEq

def colVal (c : Col) (i : Nat) : Val :=
  match c with
  | .int vs => match vs[i]? with | some v => .i v | none => .null
  | .float vs => match vs[i]? with | some v => .f v | none => .null
  | .bool vs => match vs[i]? with | some v => .b v | none => .null
  | .str vs => match vs[i]? with | some v => .s v | none => .null

def tcolVal (c : TCol) (i : Nat) : Val :=
  match c.validity with
  | some vs => if vs[i]? == some false then .null else colVal c.col i
  | none => colVal c.col i

structure Row where
  time : Int
  vals : List (Cell × Val)
deriving Repr, DecidableEq

/-- ArrowWriter.inferSchema/getSchema skip every column whose name starts with `_`. -/
def storedCol (c : TCol) : Bool :=
  match c.name with
  | ch :: _ => !(Arc.Generated.C31.underscoreSkips ≥ 1 && ch == '_')
  | [] => false

def batchRows (b : Batch) : List Row :=
  (List.range b.time.length).map (fun i =>
    { time := b.time.getD i 0, vals := (b.cols.filter storedCol).map (fun c => (c.name, tcolVal c i)) })

def microPerHour : Int := 3600000000
def hourOf (t : Int) : Int := t / microPerHour

/-- hour files written by `flushPartitionedData` for one buffered batch (one file per distinct
hour; order of files unspecified in Go, here first-appearance order). -/
def hourFiles (rows : List Row) : List (Int × List Row) :=
  ((rows.map (fun r => hourOf r.time)).eraseDups).map (fun h => (h, rows.filter (fun r => hourOf r.time == h)))

/-- storage after a flush in which the `failAt`-th (0-based) file write fails; `none` = no fault.
Files written before the failing one stay in storage (flushPartitionedData returns at the first
error, no cleanup). -/
def flushFiles (files : List (Int × List Row)) (failAt : Option Nat) : List (Int × List Row) × Bool :=
  match failAt with
  | none => (files, true)
  | some k => if k < files.length then (files.take k, false) else (files, true)

/-! ## CSV import (from the record list) -/
structure CsvIn where
  delimOk : Bool
  skip : Int
  timeCol : Cell
  fmt : String
  recs : List (List Cell)

def padTo (n : Nat) (r : List Cell) : List Cell := (r ++ List.replicate n []).take n

def column (rows : List (List Cell)) (i : Nat) : List Cell := rows.map (fun r => r.getD i [])

/-- conversion part of `importCSV`: everything before the single buffer write. -/
def convertCSV (pf : Cell → Option Nat) (fb : Cell → Option Int) (x : CsvIn) : Option Batch :=
  if !x.delimOk then none else
  let rest := x.recs.drop x.skip.toNat
  if x.recs.length < x.skip.toNat then none else
  match rest with
  | [] => none
  | h0 :: body =>
    match h0 with
    | [] => none
    | h00 :: hrest =>
    let header := stripBOM h00 :: hrest
    match validateHeader header x.timeCol with
    | none => none
    | some ti =>
      let rows := body.map (padTo header.length)
      if rows.isEmpty then none
      else if Arc.Generated.C31.rejectLongRows && body.any (fun r => decide (r.length > header.length)) then none else
      match timeCells fb x.fmt (column rows ti) with
      | none => none
      | some tm =>
        let cols := (List.range header.length).filterMap (fun i =>
          if i == ti then none else
            let (c, v) := inferCol pf (column rows i)
            some { name := header.getD i [], col := c, validity := v : TCol })
        some { time := tm, cols := cols }

/-- whole import: reject (storage unchanged) or append the flushed rows. -/
def importCSV (pf : Cell → Option Nat) (fb : Cell → Option Int) (x : CsvIn) (store : List Row) : Bool × List Row :=
  match convertCSV pf fb x with
  | none => (false, store)
  | some b => (true, store ++ ((hourFiles (batchRows b)).map (·.2)).flatten)

/-! ## Parquet import (from the decoded typed columns) -/
inductive PKind where
  | i8 | i16 | i32 | i64 | u8 | u16 | u32 | u64 | f32 | f64 | str | bin | fsb | bool | dec | ts (unit : String) | other
deriving Repr, DecidableEq

/-- one decoded cell; `orc` = micros of the float / string fallback for a time cell (parameter) -/
structure PCell where
  v : Val                -- .i (mathematical value) | .f (float64 bits after widening / decimal→float) | .s | .b | .null
  orc : Option Int := none
deriving Repr, DecidableEq

structure PCol where
  name : Cell
  kind : PKind
  cells : List PCell
deriving Repr, DecidableEq

def isIntKind : PKind → Bool
  | .i8 | .i16 | .i32 | .i64 | .u8 | .u16 | .u32 | .u64 => true
  | _ => false

/-- `parquetColumnToTimeMicros` for one cell; none = reject -/
def pqTimeCell (fmt : String) (k : PKind) (c : PCell) : Option Int :=
  match c.v with
  | .null => none
  | .i n =>
    (match k with
     | .ts u => some (arrowTimestampToMicros n u)
     | .i64 | .i32 | .i16 | .u64 | .u32 => some (intTimeToMicros (wrap64 n) fmt)
     | _ => none)
  | .f _ => (match k with | .f64 | .f32 => c.orc | _ => none)
  | .s s => (match k with | .str | .bin | .fsb => oneTime (fun _ => c.orc) fmt s | _ => none)
  | .b _ => none

def pqTimeCol (fmt : String) (c : PCol) : Option (List Int) :=
  c.cells.mapM (pqTimeCell fmt c.kind)

def anyNull (cs : List PCell) : Bool := cs.any (fun c => c.v == .null)

/-- `arrowColumnToTyped`; none = unsupported type (import rejected) -/
def pqTyped (c : PCol) : Option TCol :=
  let validity := if anyNull c.cells then some (c.cells.map (fun x => x.v != .null)) else none
  let mk (col : Col) : Option TCol := some { name := c.name, col := col, validity := validity }
  match c.kind with
  | .u64 =>
    if Arc.Generated.C31.uint64RangeChecked && c.cells.any (fun x => match x.v with | .i n => decide (n > maxI64) | _ => false) then none
    else mk (.int (c.cells.map (fun x => match x.v with | .i n => wrap64 n | _ => 0)))
  | .i8 | .i16 | .i32 | .i64 | .u8 | .u16 | .u32 =>
    mk (.int (c.cells.map (fun x => match x.v with | .i n => wrap64 n | _ => 0)))
  | .ts u => mk (.int (c.cells.map (fun x => match x.v with | .i n => arrowTimestampToMicros n u | _ => arrowTimestampToMicros 0 u)))
  | .f32 | .f64 | .dec => mk (.float (c.cells.map (fun x => match x.v with | .f b => b | _ => 0)))
  | .str | .bin | .fsb => mk (.str (c.cells.map (fun x => match x.v with | .s s => s | _ => [])))
  | .bool => mk (.bool (c.cells.map (fun x => match x.v with | .b v => v | _ => false)))
  | .other => none

structure PqIn where
  timeCol : Cell
  fmt : String
  cols : List PCol

def convertPQ (x : PqIn) : Option Batch :=
  let header := x.cols.map (·.name)
  match validateHeader header x.timeCol with
  | none => none
  | some ti =>
    let nrows := match x.cols with | c :: _ => c.cells.length | [] => 0
    if nrows == 0 then none else
    -- columns are converted in header order; the first failing column rejects the import
    let rec go (i : Nat) (cs : List PCol) (tm : Option (List Int)) (acc : List TCol) : Option Batch :=
      match cs with
      | [] => (match tm with | some t => some { time := t, cols := acc.reverse } | none => none)
      | c :: rest =>
        if i == ti then
          match pqTimeCol x.fmt c with
          | none => none
          | some t => go (i + 1) rest (some t) acc
        else
          match pqTyped c with
          | none => none
          | some tc => go (i + 1) rest tm (tc :: acc)
    go 0 x.cols none []

def importPQ (x : PqIn) (store : List Row) : Bool × List Row :=
  match convertPQ x with
  | none => (false, store)
  | some b => (true, store ++ ((hourFiles (batchRows b)).map (·.2)).flatten)

end Arc.C31
