/-
C02 — MessagePack wire format: value type with the original encoding width kept (`MV`), a
byte-level decoder for every code of the spec (fixint, int8–64, uint8–64, float32/64,
fixstr/str8–32, bin8–32, fixext/ext8–32, fixarray/array16/32, fixmap/map16/32, nil, bool; 0xc1 is
invalid), an encoder, and (in Arc/Proofs/C02/RoundTrip.lean) the round-trip theorem.
Core Lean only, executable, structurally recursive (so closed instances reduce in the kernel).

Maps are stored *flattened* (`k₁,v₁,k₂,v₂,…`): one nesting (through `List`) instead of two.
Floats are kept as bit patterns (`Nat` < 2^32 / 2^64); every numeric interpretation of them lives in
the abstract `FloatSem` of Arc/Model/C02.lean.
-/
namespace Arc.C02

abbrev Bytes := List UInt8

inductive IW | fix | i8 | i16 | i32 | i64 deriving DecidableEq, Repr
inductive UW | u8 | u16 | u32 | u64 deriving DecidableEq, Repr
inductive SW | fix | l8 | l16 | l32 deriving DecidableEq, Repr
inductive BW | l8 | l16 | l32 deriving DecidableEq, Repr
inductive AW | fix | l16 | l32 deriving DecidableEq, Repr
inductive EW | f1 | f2 | f4 | f8 | f16 | e8 | e16 | e32 deriving DecidableEq, Repr

/-- A MessagePack value as it is on the wire (the width of every header is remembered). -/
inductive MV where
  | nil
  | bool (b : Bool)
  | int (w : IW) (v : Int)          -- positive/negative fixint, int8…int64 (signed codes)
  | uint (w : UW) (v : Nat)         -- uint8…uint64
  | f32 (bits : Nat)
  | f64 (bits : Nat)
  | str (w : SW) (s : Bytes)
  | bin (w : BW) (s : Bytes)
  | ext (w : EW) (ty : UInt8) (d : Bytes)
  | arr (w : AW) (xs : List MV)
  | map (w : AW) (kvs : List MV)    -- flattened key/value sequence (even length)
  deriving Repr

/-! ### big-endian helpers -/

def beNat (b : Bytes) : Nat := b.foldl (fun a x => a * 256 + x.toNat) 0

/-- `k` bytes big-endian (value taken mod 256^k). -/
def be : Nat → Nat → Bytes
  | 0, _ => []
  | k + 1, v => be k (v / 256) ++ [UInt8.ofNat (v % 256)]

/-- exactly `n` bytes off the front (no `length` call: linear in `n`, fails at the first missing byte). -/
def readN : Nat → Bytes → Option (Bytes × Bytes)
  | 0, b => some ([], b)
  | _ + 1, [] => none
  | n + 1, x :: r =>
    match readN n r with
    | some (s, r') => some (x :: s, r')
    | none => none

def readBE (k : Nat) (b : Bytes) : Option (Nat × Bytes) :=
  match readN k b with
  | some (x, r) => some (beNat x, r)
  | none => none

/-- two's complement: unsigned `u < 2^bits` ↦ signed. -/
def toSigned (bits : Nat) (u : Nat) : Int :=
  if u < 2 ^ (bits - 1) then (u : Int) else (u : Int) - (2 ^ bits : Nat)

/-- signed ↦ unsigned representative mod 2^bits. -/
def fromSigned (bits : Nat) (v : Int) : Nat := (v % ((2 ^ bits : Nat) : Int)).toNat

/-- length-prefixed payload: `k`-byte big-endian length then that many bytes. -/
def readLenBytes (k : Nat) (b : Bytes) : Option (Bytes × Bytes) :=
  match readBE k b with
  | some (n, r) => readN n r
  | none => none

/-- ext: `k`-byte length, 1 type byte, payload. -/
def readExt (k : Nat) (b : Bytes) : Option (UInt8 × Bytes × Bytes) :=
  match readBE k b with
  | some (n, t :: r) =>
    match readN n r with
    | some (d, r') => some (t, d, r')
    | none => none
  | _ => none

def readFixExt (n : Nat) (b : Bytes) : Option (UInt8 × Bytes × Bytes) :=
  match b with
  | t :: r =>
    match readN n r with
    | some (d, r') => some (t, d, r')
    | none => none
  | [] => none

/-! ### decoder (fuel decreases on every call; `decode` supplies enough) -/

mutual
def decodeF : Nat → Bytes → Option (MV × Bytes)
  | 0, _ => none
  | _ + 1, [] => none
  | f + 1, c :: r =>
    let cn := c.toNat
    if cn ≤ 0x7f then some (.int .fix cn, r)
    else if cn ≤ 0x8f then
      match decodeNF f (2 * (cn - 0x80)) r with
      | some (xs, r') => some (.map .fix xs, r')
      | none => none
    else if cn ≤ 0x9f then
      match decodeNF f (cn - 0x90) r with
      | some (xs, r') => some (.arr .fix xs, r')
      | none => none
    else if cn ≤ 0xbf then
      match readN (cn - 0xa0) r with
      | some (s, r') => some (.str .fix s, r')
      | none => none
    else if 0xe0 ≤ cn then some (.int .fix ((cn : Int) - 256), r)
    else if cn = 0xc0 then some (.nil, r)
    else if cn = 0xc2 then some (.bool false, r)
    else if cn = 0xc3 then some (.bool true, r)
    else if cn = 0xc4 then (readLenBytes 1 r).map fun (s, r') => (.bin .l8 s, r')
    else if cn = 0xc5 then (readLenBytes 2 r).map fun (s, r') => (.bin .l16 s, r')
    else if cn = 0xc6 then (readLenBytes 4 r).map fun (s, r') => (.bin .l32 s, r')
    else if cn = 0xc7 then (readExt 1 r).map fun (t, d, r') => (.ext .e8 t d, r')
    else if cn = 0xc8 then (readExt 2 r).map fun (t, d, r') => (.ext .e16 t d, r')
    else if cn = 0xc9 then (readExt 4 r).map fun (t, d, r') => (.ext .e32 t d, r')
    else if cn = 0xca then (readBE 4 r).map fun (n, r') => (.f32 n, r')
    else if cn = 0xcb then (readBE 8 r).map fun (n, r') => (.f64 n, r')
    else if cn = 0xcc then (readBE 1 r).map fun (n, r') => (.uint .u8 n, r')
    else if cn = 0xcd then (readBE 2 r).map fun (n, r') => (.uint .u16 n, r')
    else if cn = 0xce then (readBE 4 r).map fun (n, r') => (.uint .u32 n, r')
    else if cn = 0xcf then (readBE 8 r).map fun (n, r') => (.uint .u64 n, r')
    else if cn = 0xd0 then (readBE 1 r).map fun (n, r') => (.int .i8 (toSigned 8 n), r')
    else if cn = 0xd1 then (readBE 2 r).map fun (n, r') => (.int .i16 (toSigned 16 n), r')
    else if cn = 0xd2 then (readBE 4 r).map fun (n, r') => (.int .i32 (toSigned 32 n), r')
    else if cn = 0xd3 then (readBE 8 r).map fun (n, r') => (.int .i64 (toSigned 64 n), r')
    else if cn = 0xd4 then (readFixExt 1 r).map fun (t, d, r') => (.ext .f1 t d, r')
    else if cn = 0xd5 then (readFixExt 2 r).map fun (t, d, r') => (.ext .f2 t d, r')
    else if cn = 0xd6 then (readFixExt 4 r).map fun (t, d, r') => (.ext .f4 t d, r')
    else if cn = 0xd7 then (readFixExt 8 r).map fun (t, d, r') => (.ext .f8 t d, r')
    else if cn = 0xd8 then (readFixExt 16 r).map fun (t, d, r') => (.ext .f16 t d, r')
    else if cn = 0xd9 then (readLenBytes 1 r).map fun (s, r') => (.str .l8 s, r')
    else if cn = 0xda then (readLenBytes 2 r).map fun (s, r') => (.str .l16 s, r')
    else if cn = 0xdb then (readLenBytes 4 r).map fun (s, r') => (.str .l32 s, r')
    else if cn = 0xdc then
      match readBE 2 r with
      | some (n, r1) =>
        match decodeNF f n r1 with
        | some (xs, r') => some (.arr .l16 xs, r')
        | none => none
      | none => none
    else if cn = 0xdd then
      match readBE 4 r with
      | some (n, r1) =>
        match decodeNF f n r1 with
        | some (xs, r') => some (.arr .l32 xs, r')
        | none => none
      | none => none
    else if cn = 0xde then
      match readBE 2 r with
      | some (n, r1) =>
        match decodeNF f (2 * n) r1 with
        | some (xs, r') => some (.map .l16 xs, r')
        | none => none
      | none => none
    else if cn = 0xdf then
      match readBE 4 r with
      | some (n, r1) =>
        match decodeNF f (2 * n) r1 with
        | some (xs, r') => some (.map .l32 xs, r')
        | none => none
      | none => none
    else none   -- 0xc1: never used
/-- `n` consecutive values. -/
def decodeNF : Nat → Nat → Bytes → Option (List MV × Bytes)
  | 0, n, b => if n = 0 then some ([], b) else none
  | f + 1, n, b =>
    if n = 0 then some ([], b) else
    match decodeF f b with
    | some (v, b1) =>
      match decodeNF f (n - 1) b1 with
      | some (vs, b2) => some (v :: vs, b2)
      | none => none
    | none => none
end

/-- Decode one value from the front of `b`; `none` = malformed / truncated. Trailing bytes are
returned, not inspected. -/
def decode (b : Bytes) : Option (MV × Bytes) := decodeF (2 * b.length + 1) b

/-! ### encoder -/

def ewLen : EW → Nat
  | .f1 => 1 | .f2 => 2 | .f4 => 4 | .f8 => 8 | .f16 => 16 | _ => 0

mutual
def encode : MV → Bytes
  | .nil => [0xc0]
  | .bool false => [0xc2]
  | .bool true => [0xc3]
  | .int .fix v => [UInt8.ofNat (fromSigned 8 v)]
  | .int .i8 v => 0xd0 :: be 1 (fromSigned 8 v)
  | .int .i16 v => 0xd1 :: be 2 (fromSigned 16 v)
  | .int .i32 v => 0xd2 :: be 4 (fromSigned 32 v)
  | .int .i64 v => 0xd3 :: be 8 (fromSigned 64 v)
  | .uint .u8 v => 0xcc :: be 1 v
  | .uint .u16 v => 0xcd :: be 2 v
  | .uint .u32 v => 0xce :: be 4 v
  | .uint .u64 v => 0xcf :: be 8 v
  | .f32 n => 0xca :: be 4 n
  | .f64 n => 0xcb :: be 8 n
  | .str .fix s => UInt8.ofNat (0xa0 + s.length) :: s
  | .str .l8 s => 0xd9 :: be 1 s.length ++ s
  | .str .l16 s => 0xda :: be 2 s.length ++ s
  | .str .l32 s => 0xdb :: be 4 s.length ++ s
  | .bin .l8 s => 0xc4 :: be 1 s.length ++ s
  | .bin .l16 s => 0xc5 :: be 2 s.length ++ s
  | .bin .l32 s => 0xc6 :: be 4 s.length ++ s
  | .ext .f1 t d => 0xd4 :: t :: d
  | .ext .f2 t d => 0xd5 :: t :: d
  | .ext .f4 t d => 0xd6 :: t :: d
  | .ext .f8 t d => 0xd7 :: t :: d
  | .ext .f16 t d => 0xd8 :: t :: d
  | .ext .e8 t d => 0xc7 :: be 1 d.length ++ t :: d
  | .ext .e16 t d => 0xc8 :: be 2 d.length ++ t :: d
  | .ext .e32 t d => 0xc9 :: be 4 d.length ++ t :: d
  | .arr .fix xs => UInt8.ofNat (0x90 + xs.length) :: encodeL xs
  | .arr .l16 xs => 0xdc :: be 2 xs.length ++ encodeL xs
  | .arr .l32 xs => 0xdd :: be 4 xs.length ++ encodeL xs
  | .map .fix xs => UInt8.ofNat (0x80 + xs.length / 2) :: encodeL xs
  | .map .l16 xs => 0xde :: be 2 (xs.length / 2) ++ encodeL xs
  | .map .l32 xs => 0xdf :: be 4 (xs.length / 2) ++ encodeL xs
def encodeL : List MV → Bytes
  | [] => []
  | x :: xs => encode x ++ encodeL xs
end

/-- pair up a flattened map body (a trailing odd element cannot come out of `decode`; dropped). -/
def pairs : List MV → List (MV × MV)
  | k :: v :: rest => (k, v) :: pairs rest
  | _ => []

end Arc.C02
