import Arc.Model.C02.Msgpack
/-
C02 — `ingest.SanitizeUTF8` (utf8.ValidString fast path + sanitizeUTF8SlowPath) as an executable
function on bytes.  Used only by the correspondence driver: the theorems take the sanitiser as a
parameter (both decode paths call the same Go function).
-/
namespace Arc.C02

def isCont (b : UInt8) : Bool := 0x80 ≤ b && b ≤ 0xBF

def ok3 (a b c : UInt8) : Bool :=
  (if a == 0xE0 then (0xA0 : UInt8) else 0x80) ≤ b && b ≤ (if a == 0xED then (0x9F : UInt8) else 0xBF) && isCont c

def ok4 (a b c d : UInt8) : Bool :=
  (if a == 0xF0 then (0x90 : UInt8) else 0x80) ≤ b && b ≤ (if a == 0xF4 then (0x8F : UInt8) else 0xBF) &&
    isCont c && isCont d

/-- Size (1..4) of the valid encoding at the head, or 0 when `DecodeRune` returns (RuneError, 1). -/
def runeLen : Bytes → Nat
  | [] => 0
  | a :: rest =>
    if a < 0x80 then 1
    else if 0xC2 ≤ a && a ≤ 0xDF then
      match rest with
      | b :: _ => if isCont b then 2 else 0
      | _ => 0
    else if 0xE0 ≤ a && a ≤ 0xEF then
      match rest with
      | b :: c :: _ => if ok3 a b c then 3 else 0
      | _ => 0
    else if 0xF0 ≤ a && a ≤ 0xF4 then
      match rest with
      | b :: c :: d :: _ => if ok4 a b c d then 4 else 0
      | _ => 0
    else 0

/-- fuelled so that it is structurally recursive; fuel = length suffices (≥ 1 byte per step). -/
def validAux : Nat → Bytes → Bool
  | _, [] => true
  | 0, _ => false
  | f + 1, s => let n := runeLen s; if n = 0 then false else validAux f (s.drop n)

def sanitizeAux : Nat → Bytes → Bytes
  | _, [] => []
  | 0, _ => []
  | f + 1, a :: rest =>
    let n := runeLen (a :: rest)
    if n = 0 then 0xEF :: 0xBF :: 0xBD :: sanitizeAux f rest
    else (a :: rest).take n ++ sanitizeAux f ((a :: rest).drop n)

/-- `SanitizeUTF8` (valid ⇒ unchanged; else every (RuneError,1) byte becomes U+FFFD). -/
def sanitizeUTF8 (s : Bytes) : Bytes :=
  if validAux s.length s then s else sanitizeAux s.length s

end Arc.C02
