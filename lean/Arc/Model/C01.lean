import Arc.Model.C01.Bytes
import Arc.Generated.C01
/-
C01 — byte-level model of arc's line-protocol ingest path
(`internal/ingest/lineprotocol.go`: parseBatchInternal, parseLineWithPrecision, splitOnDelimiter,
parseMeasurementTags, parseFields, parseFieldValue, unescape, the precision arm, BatchToColumnar;
`internal/ingest/arrow_writer.go`: convertColumnsToTyped, toInt64, toFloat64).

Quirks are modelled as they are in the code:
* every `"` toggles quote mode in `splitOnDelimiter`, also in the measurement/tag section;
* a backslash skips the next byte in `splitOnDelimiter`, whatever that byte is;
* key/value components are cut at the first `=`: escape-unaware (`bytes.IndexByte`) or escape-aware
  (`indexUnescaped`) according to the regenerated fact `Generated.C01.kvCutEscapeAware`;
* `unescape` rewrites the escapes of `Generated.C01.unescapeSet` (today `\,` `\ ` `\=` `\"` `\\`) in names;
  quoted string values use `Generated.C01.stringUnescapeSet` (the same set, or only `\"` `\\`);
* ns precision divides with Go's truncating `/`; ms/s fall back to *now* outside the overflow guard;
* Go maps are modelled as association lists (insertion order, last write wins); the driver sorts.

* the parser is modelled as a PURE FUNCTION of (precision, payload): no state is carried between or
  among calls.  `LineProtocolHandler` shares one `LineProtocolParser` among all request goroutines, so
  this is a real assumption about the source; it is tied by the regenerated facts
  `Generated.C01.parserFields = []` / `parserReceiverWrites = []` (theorem `C01_parser_stateless`)
  and exercised by the harness's concurrency stage (one shared instance, 2–8 goroutines).

`pf` = `strconv.ParseFloat(·, 64)` (bit pattern, `none` on error) is a parameter; `now` is the value
of `time.Now().UnixMicro()`.  Core Lean only, executable.
-/
namespace Arc.C01

/-! ## splitOnDelimiter -/

def consHead (x : Bytes) : List Bytes → List Bytes
  | [] => [x]
  | s :: ss => (x ++ s) :: ss

/-- All segments between unquoted, unescaped delimiters (empty ones included; never `[]`).
`q` = `inQuotes`. -/
def splitRaw (delim : UInt8) : Bool → Bytes → List Bytes
  | _, [] => [[]]
  | q, [b] =>
    if b = cDQ then [[b]]
    else if b = delim ∧ q = false then [[], []]
    else [[b]]
  | q, b :: c :: r =>
    if b = cBS then consHead [b, c] (splitRaw delim q r)
    else if b = cDQ then consHead [b] (splitRaw delim (!q) (c :: r))
    else if b = delim ∧ q = false then [] :: splitRaw delim q (c :: r)
    else consHead [b] (splitRaw delim q (c :: r))

/-- `splitOnDelimiter(data, delim)`: the non-empty segments (nil for none). -/
def splitOn (delim : UInt8) (data : Bytes) : List Bytes :=
  (splitRaw delim false data).filter (fun s => !s.isEmpty)

/-! ## unescape -/

/-- the `case` list of `unescape`'s switch, regenerated from the source -/
def isEsc (b : UInt8) : Bool := Arc.Generated.C01.unescapeSet.contains b.toNat

/-- the escape set applied inside quoted string field values (regenerated) -/
def isEscStr (b : UInt8) : Bool := Arc.Generated.C01.stringUnescapeSet.contains b.toNat

def unescapeBy (esc : UInt8 → Bool) : Bytes → Bytes
  | [] => []
  | [b] => [b]
  | b :: c :: r => if b = cBS ∧ esc c = true then c :: unescapeBy esc r else b :: unescapeBy esc (c :: r)

def unescape : Bytes → Bytes := unescapeBy isEsc

def unescapeStr : Bytes → Bytes := unescapeBy isEscStr

/-- `indexUnescaped(b, d)` + slicing: the first `d` not consumed by a preceding backslash -/
def cutAtEsc (d : UInt8) : Bytes → Option (Bytes × Bytes)
  | [] => none
  | [b] => if b = d then some ([], []) else none
  | b :: c :: r =>
    if b = cBS then
      match cutAtEsc d r with
      | some (k, v) => some (b :: c :: k, v)
      | none => none
    else if b = d then some ([], c :: r)
    else match cutAtEsc d (c :: r) with
      | some (k, v) => some (b :: k, v)
      | none => none

/-- the key/value cut of parseMeasurementTags / parseFields as the current source does it -/
def cutKV (comp : Bytes) : Option (Bytes × Bytes) :=
  if Arc.Generated.C01.kvCutEscapeAware = true then cutAtEsc cEQ comp else cutAt cEQ comp

/-! ## maps as association lists -/

abbrev AMap (V : Type) := List (Bytes × V)

def AMap.set {V : Type} (m : AMap V) (k : Bytes) (v : V) : AMap V :=
  m.filter (fun p => !(p.1 == k)) ++ [(k, v)]

def AMap.has {V : Type} (m : AMap V) (k : Bytes) : Bool := m.any (fun p => p.1 == k)

/-! ## parseMeasurementTags -/

def addTag (m : AMap Bytes) (comp : Bytes) : AMap Bytes :=
  match cutKV comp with
  | some (k, v) => if k.isEmpty then m else m.set (unescape k) (unescape v)
  | none => m

def parseMeasurementTags (part : Bytes) : Bytes × AMap Bytes :=
  match splitOn cCM part with
  | [] => ([], [])
  | c0 :: cs => (unescape c0, cs.foldl addTag [])

/-! ## parseFieldValue -/

/-- a Go dynamic value as it sits in `map[string]interface{}` / `[]interface{}` -/
inductive GoVal
  | f64 (bits : UInt64)
  | i64 (v : Int)
  | u64 (v : Nat)
  | str (b : Bytes)
  | bool (v : Bool)
deriving Repr, DecidableEq, Inhabited

def wTrue : Bytes := [116, 114, 117, 101]        -- "true"
def wFalse : Bytes := [102, 97, 108, 115, 101]   -- "false"

/-- the boolean spellings accepted (tied by factgen): one byte t/T/f/F, or any-case true/false -/
def boolOf (v : Bytes) : Option Bool :=
  match v with
  | [c] => if c == 116 || c == 84 then some true else if c == 102 || c == 70 then some false else none
  | _ =>
    if v.length == 4 && eqFold v wTrue then some true
    else if v.length == 5 && eqFold v wFalse then some false
    else none

/-- `bytes.Trim(value, "\"")` -/
def trimQuotes (v : Bytes) : Bytes :=
  ((v.dropWhile (· == cDQ)).reverse.dropWhile (· == cDQ)).reverse

def san (validUTF8 : Bool) (s : Bytes) : Bytes := if validUTF8 then s else sanitizeUTF8 s

/-- the tail of `parseFieldValue`: `ParseFloat` succeeds ⇒ float64, otherwise the bare token as a string -/
def floatOrStr (pf : Bytes → Option UInt64) (valid : Bool) (v : Bytes) : GoVal :=
  match pf v with
  | some bits => .f64 bits
  | none => .str (san valid v)

def parseFieldValue (pf : Bytes → Option UInt64) (valid : Bool) (value : Bytes) : Option GoVal :=
  let v := trimSpace value
  match v with
  | [] => none
  | c0 :: _ =>
    match boolOf v with
    | some b => some (.bool b)
    | none =>
      if c0 = cDQ then
        if v.length > 1 ∧ v.getLast? = some cDQ then
          some (.str (san valid (unescapeStr ((v.drop 1).dropLast))))
        else some (.str (san valid (trimQuotes v)))
      else if v.getLast? = some 105 then         -- 'i'
        (parseInt64 v.dropLast).map .i64
      else if v.getLast? = some 117 then         -- 'u'
        (parseUint64 v.dropLast).map .u64
      else some (floatOrStr pf valid v)

/-! ## parseFields -/

def addField (pf : Bytes → Option UInt64) (valid : Bool) (m : AMap GoVal) (comp : Bytes) : AMap GoVal :=
  match cutKV comp with
  | some (k, v) =>
    if k.isEmpty then m else
    match parseFieldValue pf valid v with
    | some gv => m.set (unescape k) gv
    | none => m
  | none => m

def parseFields (pf : Bytes → Option UInt64) (valid : Bool) (part : Bytes) : AMap GoVal :=
  (splitOn cCM part).foldl (addField pf valid) []

/-! ## timestamp -/

inductive Prec | ns | us | ms | s
deriving Repr, DecidableEq

def maxI64 : Int := 9223372036854775807
def minI64 : Int := -9223372036854775808

/-- the `switch precision` arm of `parseLineWithPrecision` on a successfully parsed `rawTs`.
Go `/` on int64 truncates toward zero = `Int.tdiv`; the guards use Go constant division
(`math.MaxInt64/1000` etc., also truncating). -/
def convTs (now : Int) (p : Prec) (raw : Int) : Int :=
  match p with
  | .us => raw
  | .ms => if raw ≤ Int.tdiv maxI64 1000 ∧ raw ≥ Int.tdiv minI64 1000 then raw * 1000 else now
  | .s => if raw ≤ Int.tdiv maxI64 1000000 ∧ raw ≥ Int.tdiv minI64 1000000 then raw * 1000000 else now
  | .ns => Int.tdiv raw 1000

/-! ## parseLineWithPrecision / parseBatchInternal -/

structure Record where
  meas : Bytes
  tags : AMap Bytes
  fields : AMap GoVal
  ts : Int
deriving Repr, DecidableEq

def timestampOf (now : Int) (p : Prec) (parts : List Bytes) : Int :=
  match parts with
  | _ :: _ :: t :: _ =>
    match parseInt64 (trimSpace t) with
    | some raw => convTs now p raw
    | none => now
  | _ => now

/-- the part of `parseLineWithPrecision` after `splitLine` -/
def parseParts (pf : Bytes → Option UInt64) (now : Int) (p : Prec) (valid : Bool) (parts : List Bytes) :
    Option Record :=
  match parts with
  | p0 :: p1 :: rest =>
    let mt := parseMeasurementTags p0
    if mt.1.isEmpty then none else
    let fields := parseFields pf valid p1
    if fields.isEmpty then none else
    some { meas := mt.1, tags := mt.2, fields := fields, ts := timestampOf now p (p0 :: p1 :: rest) }
  | _ => none

def parseLine (pf : Bytes → Option UInt64) (now : Int) (p : Prec) (valid : Bool) (line : Bytes) :
    Option Record :=
  let line := trimSpace line
  if line.isEmpty then none                       -- len(line) == 0
  else if line.head? = some cHash then none       -- line[0] == '#'
  else parseParts pf now p valid (splitOn cSP line)

/-- `bytes.Split(data, "\n")` -/
def splitNL : Bytes → List Bytes
  | [] => [[]]
  | b :: r =>
    if b = cNL then [] :: splitNL r
    else consHead [b] (splitNL r)

def parseBatchInternal (pf : Bytes → Option UInt64) (now : Int) (p : Prec) (valid : Bool) (data : Bytes) :
    List Record :=
  (splitNL data).filterMap (parseLine pf now p valid)

/-- `ParseBatchWithPrecision` -/
def parseBatch (pf : Bytes → Option UInt64) (now : Int) (p : Prec) (data : Bytes) : List Record :=
  parseBatchInternal pf now p (validUTF8 data) data

/-! ## BatchToColumnar -/

def valueSuffix : Bytes := [95, 118, 97, 108, 117, 101]   -- "_value"
def timeCol : Bytes := [116, 105, 109, 101]               -- "time"

def colName (r : Record) (k : Bytes) : Bytes := if r.tags.has k then k ++ valueSuffix else k

/-- the sequence of `columnarData[c][i] = v` assignments the fill loop performs for one record
(time, then tags, then fields; later assignments win) -/
def rowAssigns (r : Record) : List (Bytes × GoVal) :=
  (timeCol, GoVal.i64 r.ts) :: (r.tags.map (fun p => (p.1, GoVal.str p.2)) ++
    r.fields.map (fun p => (colName r p.1, p.2)))

def lastAssign (as : List (Bytes × GoVal)) (c : Bytes) : Option GoVal :=
  as.foldl (fun acc p => if p.1 == c then some p.2 else acc) none

def cellOf (r : Record) (c : Bytes) : Option GoVal := lastAssign (rowAssigns r) c

def dedup (xs : List Bytes) : List Bytes :=
  xs.foldl (fun acc x => if acc.contains x then acc else acc ++ [x]) []

structure ColRec where
  meas : Bytes
  n : Nat
  cols : List (Bytes × List (Option GoVal))
  tagCols : List Bytes
deriving Repr

def groupCols (g : List Record) : List Bytes :=
  dedup (timeCol :: g.flatMap (fun r => r.tags.map (·.1) ++ r.fields.map (fun p => colName r p.1)))

def toColRec (m : Bytes) (g : List Record) : ColRec :=
  { meas := m, n := g.length,
    cols := (groupCols g).map (fun c => (c, g.map (fun r => cellOf r c))),
    tagCols := dedup (g.flatMap (fun r => r.tags.map (·.1))) }

def batchToColumnar (rs : List Record) : List ColRec :=
  (dedup (rs.map (·.meas))).map (fun m => toColRec m (rs.filter (fun r => r.meas == m)))

/-! ## convertColumnsToTyped (no decimal config) -/

inductive TCol
  | i64 (vs : List Int)
  | f64 (vs : List UInt64)
  | str (vs : List Bytes)
  | bool (vs : List Bool)
deriving Repr, DecidableEq

structure TypedCol where
  data : TCol
  validity : Option (List Bool)     -- none = no entry in the Validity map (all valid)
deriving Repr, DecidableEq

/-- `toInt64` on the dynamic types the LP path can produce -/
def toInt64 (f2i : UInt64 → Option Int) : GoVal → Option Int
  | .i64 v => some v
  | .u64 v => if v > 9223372036854775807 then none else some v
  | .f64 b => f2i b
  | _ => none

/-- `toFloat64` -/
def toFloat64 (i2f : Int → UInt64) : GoVal → Option UInt64
  | .f64 b => some b
  | .i64 v => some (i2f v)
  | .u64 v => some (i2f v)
  | _ => none

def optAll {α β : Type} (f : α → Option β) : List α → Option (List β)
  | [] => some []
  | a :: as => match f a, optAll f as with
    | some b, some bs => some (b :: bs)
    | _, _ => none

/-- one cell of the slow path: nil ↦ zero value, otherwise the conversion -/
def cellConv {β : Type} (zero : β) (conv : GoVal → Option β) : Option GoVal → Option β
  | none => some zero
  | some v => conv v

/-- generic slow path: nil ↦ zero value + invalid; conversion failure ↦ error -/
def convSlow {β : Type} (zero : β) (conv : GoVal → Option β) (col : List (Option GoVal)) :
    Option (List β × Option (List Bool)) :=
  match optAll (cellConv zero conv) col with
  | none => none
  | some vs =>
    let valid := col.map Option.isSome
    some (vs, if valid.all id then none else some valid)

/-- one column of `convertColumnsToTyped`; `none` = the function returns an error;
`some none` = column skipped (`len(col) == 0`). -/
def convertCol (f2i : UInt64 → Option Int) (i2f : Int → UInt64) (name : Bytes)
    (col : List (Option GoVal)) : Option (Option TypedCol) :=
  if col.isEmpty then some none else
  match col.findSome? id with
  | none =>
    if name == timeCol then none
    else some (some { data := .str (col.map fun _ => []), validity := some (col.map fun _ => false) })
  | some first =>
    if name == timeCol then
      match first with
      | .str _ => none
      | _ =>
        match optAll (fun c => match c with | none => none | some v => toInt64 f2i v) col with
        | some vs => some (some { data := .i64 vs, validity := none })
        | none => none
    else
      match first with
      | .i64 _ | .u64 _ =>
        match convSlow (0 : Int) (toInt64 f2i) col with
        | some (vs, va) => some (some { data := .i64 vs, validity := va })
        | none => none
      | .f64 _ =>
        match convSlow (0 : UInt64) (toFloat64 i2f) col with
        | some (vs, va) => some (some { data := .f64 vs, validity := va })
        | none => none
      | .str _ =>
        match convSlow ([] : Bytes) (fun v => match v with | .str s => some s | _ => none) col with
        | some (vs, va) => some (some { data := .str vs, validity := va })
        | none => none
      | .bool _ =>
        match convSlow false (fun v => match v with | .bool b => some b | _ => none) col with
        | some (vs, va) => some (some { data := .bool vs, validity := va })
        | none => none

/-- `convertColumnsToTyped`: all columns or an error (`none`). -/
def convertColumns (f2i : UInt64 → Option Int) (i2f : Int → UInt64)
    (cols : List (Bytes × List (Option GoVal))) : Option (List (Bytes × TypedCol)) :=
  match optAll (fun p => (convertCol f2i i2f p.1 p.2).map (fun o => (p.1, o))) cols with
  | none => none
  | some xs => some (xs.filterMap (fun p => p.2.map (fun t => (p.1, t))))

end Arc.C01
