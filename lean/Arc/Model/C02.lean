import Arc.Model.C02.Msgpack
import Arc.Model.C02.Utf8
import Arc.Generated.C02
/-
C02 — executable model of the two MessagePack decode paths of arc's ingest:

* `goBox`        the msgpack fork's `Unmarshal(data, &interface{})` boxing rules (a library fact,
                 stated separately and validated by the correspondence harness),
* `typedOfMV` / `typedPath`   `MessagePackDecoder.tryDecodeColumnarTyped` (msgpack_typed.go): every
                 bail-out is an explicit `none`,
* `genericPath`  `Unmarshal` → `decodeMapPayload`/`mapToPayload` → `decodeColumnar`
                 (`normalizeTimestampColumns`, `sanitizeColumnarStrings`) → `convertColumnsToTyped`.

Both are parameterised by an abstract float structure `FloatSem` (conversion functions on IEEE *bit
patterns*) and by the string sanitiser, so that the theorems hold for any float semantics; the IEEE
instance used by the driver is in Arc/Drive/C02.lean.

Modelling decision (extensional, validated on every harness body incl. truncations): the typed path
is a *streaming* decoder that returns ok=false on every failure and has no side effects, so it is
modelled as a function of the parsed value tree: `typedPath b = decode b >>= typedOfMV`. This is
exact because (a) `Decoder.Skip` succeeds exactly on well-formed values, (b) each `DecodeXxx` it calls
is only reached after a `PeekCode` class test under which it agrees with the tree decoder, and (c) a
hit consumes exactly the top-level value.
-/
namespace Arc.C02
open Arc.Generated.C02

/-! ## abstract float semantics (all on bit patterns) -/

structure FloatSem where
  f2i : Nat → Int            -- Go `int64(f)` for a float64
  i2f : Int → Nat            -- Go `float64(n)` for an integer value (int64 or uint64 range)
  f32to64 : Nat → Nat        -- Go `float64(f)` for a float32
  gtMaxI64 : Nat → Bool      -- `f > float64(math.MaxInt64)`
  ltMinI64 : Nat → Bool      -- `f < float64(math.MinInt64)`
  f32toI : Nat → Int         -- Go `int64(f)` for a float32
  f32gtMax : Nat → Bool      -- `f > float32(math.MaxInt64)`
  f32ltMin : Nat → Bool      -- `f < float32(math.MinInt64)`
  intKeyOk : Nat → Bool      -- fork `floatToInt64` succeeds (typed-map keys only)
  uintKeyOk : Nat → Bool     -- fork `floatToUint64` succeeds
  fitsF32 : Nat → Bool       -- ¬ (f > MaxFloat32 ∨ f < -MaxFloat32)

/-- The only facts about floats the equivalence needs: converting a float32 directly or through
float64 (exact widening) gives the same int64 and the same range-test outcome. -/
structure FloatLaws (F : FloatSem) : Prop where
  f32toI_eq : ∀ x, F.f32toI x = F.f2i (F.f32to64 x)
  f32gtMax_eq : ∀ x, F.f32gtMax x = F.gtMaxI64 (F.f32to64 x)
  f32ltMin_eq : ∀ x, F.f32ltMin x = F.ltMinI64 (F.f32to64 x)

/-! ## int64 arithmetic -/

def maxI64 : Int := 9223372036854775807
def two64 : Int := 18446744073709551616
def two63 : Int := 9223372036854775808

/-- wrap a mathematical integer into int64 (two's complement). -/
def wrap64 (v : Int) : Int := (v + two63) % two64 - two63

/-! ## typed columns -/

inductive Col where
  | i64 (vs : List Int)
  | f64 (vs : List Nat)
  | str (vs : List Bytes)
  | bool (vs : List Bool)
  deriving DecidableEq, Repr

structure ColRec where
  name : Bytes
  data : Col
  valid : Option (List Bool)      -- present only when the column has nulls (false = null)
  deriving DecidableEq, Repr

/-- `TypedColumnarRecord` / (`ColumnarRecord` after `convertColumnsToTyped`). `genTime` marks that
the last column is the generated `time` column. -/
structure TypedRec where
  meas : Bytes
  cols : List ColRec
  n : Nat
  genTime : Bool
  deriving DecidableEq, Repr

def timeName : Bytes := [116, 105, 109, 101]                 -- "time"
def mName : Bytes := [109]                                   -- "m"
def columnsName : Bytes := [99, 111, 108, 117, 109, 110, 115] -- "columns"
def batchName : Bytes := [98, 97, 116, 99, 104]              -- "batch"
def tName : Bytes := [116]
def fName : Bytes := [102]
def fieldsName : Bytes := [102, 105, 101, 108, 100, 115]

def decBytes (v : Int) : Bytes := (toString v).toUTF8.toList
def measPrefix : Bytes := "measurement_".toUTF8.toList

/-- unit detection: first threshold the value is below decides the multiplier (< 0 = divide). -/
def multOf : List (Int × Int) → Int → Int → Int
  | [], dflt, _ => dflt
  | (th, m) :: rest, dflt, ts => if ts < th then m else multOf rest dflt ts

/-- `decodeTimeColumnTyped`'s table (regenerated from msgpack_typed.go) -/
def tsMultT (ts : Int) : Int := multOf typedUnits typedUnitDefault ts
/-- `normalizeTimestampColumns`' table (regenerated from msgpack.go) -/
def tsMultG (ts : Int) : Int := multOf normUnits normUnitDefault ts

def applyMult (m : Int) (ts : Int) : Int :=
  if m < 0 then Int.tdiv ts (-m) else wrap64 (ts * m)

/-! ## the typed fast path (msgpack_typed.go) on the value tree -/

section typed
variable (F : FloatSem) (san : Bytes → Bytes)

/-- `decodeMeasurementTyped` -/
def typedMeas : MV → Option Bytes
  | .str _ s => some s
  | .uint _ v => some (measPrefix ++ decBytes v)
  | .int _ v => some (measPrefix ++ decBytes v)
  | _ => none

/-- one element of the time column as int64 (`decodeTimeColumnTyped`, before scaling) -/
def typedTs : MV → Option Int
  | .uint .u64 v => some (wrap64 v)
  | .uint _ v => some v
  | .int _ v => some v
  | .f32 b => some (F.f2i (F.f32to64 b))
  | .f64 b => some (F.f2i b)
  | _ => none

def typedTsAll : List MV → Option (List Int)
  | [] => some []
  | x :: xs =>
    match typedTs F x with
    | none => none
    | some t =>
      match typedTsAll xs with
      | none => none
      | some ts => some (t :: ts)

/-- `decodeTimeColumnTyped`: unit from element 0. -/
def typedTime (xs : List MV) : Option (List Int) :=
  match typedTsAll F xs with
  | none => none
  | some [] => some []
  | some (t0 :: ts) => some ((t0 :: ts).map (applyMult (tsMultT t0)))

inductive Cls | int | float | str | bool deriving DecidableEq, Repr

/-- class of the first non-nil element; `none` = every element nil; `some none` = bail-out
(bin, ext, nested). -/
def clsOfElem : MV → Option Cls
  | .int _ _ => some .int
  | .uint _ _ => some .int
  | .f32 _ => some .float
  | .f64 _ => some .float
  | .str _ _ => some .str
  | .bool _ => some .bool
  | _ => none

def isNil : MV → Bool
  | .nil => true
  | _ => false

/-- `decodeIntElemAsInt64` -/
def typedIntElem : MV → Option Int
  | .uint .u64 v => if (v : Int) > maxI64 then none else some v
  | .uint _ v => some v
  | .int _ v => some v
  | .f32 b => let f := F.f32to64 b; if F.gtMaxI64 f || F.ltMinI64 f then none else some (F.f2i f)
  | .f64 b => if F.gtMaxI64 b || F.ltMinI64 b then none else some (F.f2i b)
  | _ => none

/-- `decodeElemAsFloat64` -/
def typedFloatElem : MV → Option Nat
  | .uint _ v => some (F.i2f v)
  | .int _ v => some (F.i2f v)
  | .f32 b => some (F.f32to64 b)
  | .f64 b => some b
  | _ => none

def typedStrElem : MV → Option Bytes
  | .str _ s => some (san s)
  | _ => none

def typedBoolElem : MV → Option Bool
  | .bool b => some b
  | _ => none

/-- elementwise conversion with nil ↦ zero value. -/
def convElems {α : Type} (conv : MV → Option α) (zero : α) : List MV → Option (List α)
  | [] => some []
  | x :: xs =>
    match (if isNil x then some zero else conv x), convElems conv zero xs with
    | some a, some as => some (a :: as)
    | _, _ => none

def firstNonNilMV : List MV → Option MV
  | [] => none
  | x :: xs => if isNil x then firstNonNilMV xs else some x

def validityOf (xs : List MV) : Option (List Bool) :=
  if xs.any isNil then some (xs.map fun x => !isNil x) else none

/-- `decodeValueColumnTyped` -/
def typedValueCol (xs : List MV) : Option (Col × Option (List Bool)) :=
  match firstNonNilMV xs with
  | none => some (.str (xs.map fun _ => []), some (xs.map fun _ => false))
  | some x0 =>
    match clsOfElem x0 with
    | none => none
    | some .int => (convElems (typedIntElem F) 0 xs).map fun vs => (.i64 vs, validityOf xs)
    | some .float => (convElems (typedFloatElem F) 0 xs).map fun vs => (.f64 vs, validityOf xs)
    | some .str => (convElems (typedStrElem san) [] xs).map fun vs => (.str vs, validityOf xs)
    | some .bool => (convElems typedBoolElem false xs).map fun vs => (.bool vs, validityOf xs)

def hasCol (acc : List ColRec) (name : Bytes) : Bool := acc.any fun c => c.name == name

/-- `decodeTypedColumns`: the loop over the columns map (flattened key/value list), `acc` in wire
order, `expected` = length of the first array seen. -/
def typedCols : List MV → List ColRec → Option Nat → Option (List ColRec × Option Nat)
  | k :: v :: rest, acc, expected =>
    match k with
    | .str _ name =>
      match v with
      | .arr _ xs =>
        let n := xs.length
        if n = 0 || n > maxTypedPreallocElems then none
        else if (match expected with | some e => n != e | none => false) then none
        else if hasCol acc name then none
        else if name == timeName then
          match typedTime F xs with
          | none => none
          | some ts => typedCols rest (acc ++ [⟨name, .i64 ts, none⟩]) (some n)
        else
          match typedValueCol F san xs with
          | none => none
          | some (d, vl) => typedCols rest (acc ++ [⟨name, d, vl⟩]) (some n)
      | _ =>
        -- non-array column value: skipped — unless (fix d7052e6, flag regenerated from the source) an
        -- array was already decoded under this key: the generic map is last-wins, so fall back
        if nonArrayDupFallsBack && hasCol acc name then none
        else typedCols rest acc expected
    | _ => none                                    -- non-str key
  | _, acc, expected => some (acc, expected)

/-- the value of the top-level "columns" key -/
def typedColumnsVal : MV → Option (List ColRec × Nat)
  | .map _ kvs =>
    if kvs.length < 2 then none else
    match typedCols F san kvs [] none with
    | some (acc, some n) => if acc.isEmpty then none else some (acc, n)
    | _ => none
  | _ => none

structure TopSt where
  meas : Option Bytes := none
  cols : Option (List ColRec × Nat) := none

/-- the loop over the top-level map of `tryDecodeColumnarTyped` -/
def typedTopLoop : List MV → TopSt → Option TopSt
  | k :: v :: rest, st =>
    match k with
    | .str _ key =>
      if key == batchName then none
      else if key == mName then
        if st.meas.isSome then none else
        match typedMeas v with
        | none => none
        | some m => typedTopLoop rest { st with meas := some m }
      else if key == columnsName then
        if st.cols.isSome then none else
        match typedColumnsVal F san v with
        | none => none
        | some c => typedTopLoop rest { st with cols := some c }
      else typedTopLoop rest st                   -- dec.Skip()
    | _ => none
  | _, st => some st

/-- `tryDecodeColumnarTyped` on the parsed top-level value. `now` = generated timestamp (µs). -/
def typedOfMV (now : Int) : MV → Option TypedRec
  | .map _ kvs =>
    if kvs.length < 2 then none else
    match typedTopLoop F san kvs {} with
    | some { meas := some m, cols := some (cols, n) } =>
      if hasCol cols timeName then some ⟨m, cols, n, false⟩
      else some ⟨m, cols ++ [⟨timeName, .i64 (List.replicate n now), none⟩], n, true⟩
    | _ => none
  | _ => none

def typedPath (now : Int) (b : Bytes) : Option TypedRec :=
  match decode b with
  | some (v, _) => typedOfMV F san now v
  | none => none

end typed

/-! ## `goBox`: what `msgpack.Unmarshal(data, &interface{})` of the fork produces -/

inductive IK | i8 | i16 | i32 | i64 | u8 | u16 | u32 | u64 deriving DecidableEq, Repr

/-- Go dynamic values produced by `DecodeInterface`. `tmap` = any map type other than
`map[string]interface{}` (arc only ever fails a type assertion on it). -/
inductive GoVal where
  | nil
  | bool (b : Bool)
  | int (k : IK) (v : Int)
  | f32 (bits : Nat)
  | f64 (bits : Nat)
  | str (s : Bytes)
  | bytes (s : Bytes)
  | time
  | slice (xs : List GoVal)
  | smap (kvs : List (Bytes × GoVal))   -- wire order, duplicates kept; lookup = last wins
  | tmap
  deriving Repr

inductive BoxErr | err | panic deriving DecidableEq, Repr

def ikOfIW : IW → IK
  | .fix => .i8 | .i8 => .i8 | .i16 => .i16 | .i32 => .i32 | .i64 => .i64
def ikOfUW : UW → IK
  | .u8 => .u8 | .u16 => .u16 | .u32 => .u32 | .u64 => .u64

/-- `DecodeString` on a map key of a string-keyed map: str, bin and nil are accepted. -/
def keyString : MV → Option Bytes
  | .str _ s => some s
  | .bin _ s => some s
  | .nil => some []
  | _ => none

inductive KeyKind | int | uint | f32 | f64 | bool | time deriving DecidableEq, Repr

/-- key type of a non-string-keyed ("typed") map from its first boxed key:
`reflect.TypeOf(nil).Comparable()` panics; slices/maps are not comparable. -/
def keyKindOf : GoVal → Except BoxErr KeyKind
  | .nil => .error .panic
  | .bool _ => .ok .bool
  | .int k _ => .ok (match k with | .u8 | .u16 | .u32 | .u64 => .uint | _ => .int)
  | .f32 _ => .ok .f32
  | .f64 _ => .ok .f64
  | .time => .ok .time
  | _ => .error .err

def extTimeOk (ty : UInt8) (d : Bytes) : Bool :=
  ty == 0xff && (d.length == 4 || d.length == 8 || d.length == 12)

section box
variable (F : FloatSem)

/-- does a later key of a typed map decode into the key type? (`DecodeValue` on the key kind) -/
def keyOk (kind : KeyKind) (k : MV) : Except BoxErr Unit :=
  let dInt : Except BoxErr Unit :=      -- Decoder.int(c) / uint(c) on a non-float code
    match k with
    | .nil => .ok () | .int _ _ => .ok () | .uint _ _ => .ok () | _ => .error .err
  match kind with
  | .int =>
    match k with
    | .f32 b => if F.intKeyOk (F.f32to64 b) then .ok () else .error .err
    | .f64 b => if F.intKeyOk b then .ok () else .error .err
    | _ => dInt
  | .uint =>
    match k with
    | .f32 b => if F.uintKeyOk (F.f32to64 b) then .ok () else .error .err
    | .f64 b => if F.uintKeyOk b then .ok () else .error .err
    | _ => dInt
  | .f32 =>
    match k with
    | .f32 _ => .ok ()
    | .f64 b => if F.fitsF32 b then .ok () else .error .err
    | _ => dInt
  | .f64 =>
    match k with
    | .f32 _ => .ok () | .f64 _ => .ok () | _ => dInt
  | .bool =>
    match k with
    | .nil => .ok () | .bool _ => .ok () | _ => .error .err
  | .time =>
    match k with
    | .nil => .error .panic                     -- decodeNilValue: reflect IsNil on a struct
    | .ext _ ty d => if extTimeOk ty d then .ok () else .error .err
    | _ => .error .err

mutual
def goBox : MV → Except BoxErr GoVal
  | .nil => .ok .nil
  | .bool b => .ok (.bool b)
  | .int w v => .ok (.int (ikOfIW w) v)
  | .uint w v => .ok (.int (ikOfUW w) v)
  | .f32 b => .ok (.f32 b)
  | .f64 b => .ok (.f64 b)
  | .str _ s => .ok (.str s)
  | .bin _ s => .ok (.bytes s)
  | .ext _ ty d => if extTimeOk ty d then .ok .time else .error .err
  | .arr _ xs =>
    match goBoxL xs with
    | .ok gs => .ok (.slice gs)
    | .error e => .error e
  | .map _ kvs =>
    match kvs with
    | [] => .ok (.smap [])
    | .str _ _ :: _ =>
      match goBoxSMap kvs with
      | .ok m => .ok (.smap m)
      | .error e => .error e
    | _ => goBoxTMap kvs
def goBoxL : List MV → Except BoxErr (List GoVal)
  | [] => .ok []
  | x :: xs =>
    match goBox x with
    | .error e => .error e
    | .ok g =>
      match goBoxL xs with
      | .error e => .error e
      | .ok gs => .ok (g :: gs)
/-- `decodeMapStringInterfaceN` -/
def goBoxSMap : List MV → Except BoxErr (List (Bytes × GoVal))
  | k :: v :: rest =>
    match keyString k with
    | none => .error .err
    | some key =>
      match goBox v with
      | .error e => .error e
      | .ok g =>
        match goBoxSMap rest with
        | .error e => .error e
        | .ok m => .ok ((key, g) :: m)
  | _ => .ok []
/-- `decodeTypedMapN` -/
def goBoxTMap : List MV → Except BoxErr GoVal
  | k :: v :: rest =>
    match goBox k with
    | .error e => .error e
    | .ok gk =>
      match goBox v with
      | .error e => .error e
      | .ok _ =>
        match keyKindOf gk with
        | .error e => .error e
        | .ok kind => goBoxTRest kind rest
  | _ => .ok .tmap
def goBoxTRest (kind : KeyKind) : List MV → Except BoxErr GoVal
  | k :: v :: rest =>
    match keyOk F kind k with
    | .error e => .error e
    | .ok _ =>
      match goBox v with
      | .error e => .error e
      | .ok _ => goBoxTRest kind rest
  | _ => .ok .tmap
end

end box

/-! ## the generic path on boxed values -/

def lookupLast (k : Bytes) : List (Bytes × GoVal) → Option GoVal
  | [] => none
  | (k', v) :: rest =>
    match lookupLast k rest with
    | some x => some x
    | none => if k' == k then some v else none

/-- Go map semantics of a key/value sequence with duplicates: keep each key's LAST pair. -/
def dedupLast : List (Bytes × GoVal) → List (Bytes × GoVal)
  | [] => []
  | (k, v) :: rest => if rest.any (fun p => p.1 == k) then dedupLast rest else (k, v) :: dedupLast rest

inductive GErr | unmarshal | unmarshalPanic | unsupported | payload deriving DecidableEq, Repr

/-- one decoded item of `Decode`'s result, after the typing chokepoint of `ArrowBuffer.Write`. -/
inductive Item where
  | col (r : TypedRec)        -- *ColumnarRecord / *TypedColumnarRecord accepted by convertColumnsToTyped
  | colReject (meas : Bytes)  -- *ColumnarRecord rejected by convertColumnsToTyped (Write returns the error)
  | row (meas : Bytes)        -- *models.Record (row format; content not modelled)
  | nested                    -- a []interface{} inside the result list (Write: "unknown record type")
  deriving DecidableEq, Repr

abbrev Outcome := Except GErr (List Item)

section generic
variable (F : FloatSem) (san : Bytes → Bytes)

/-- `extractMeasurement` -/
def extractMeas : Option GoVal → Option Bytes
  | some (.str s) => some s
  | some (.int _ v) => some (measPrefix ++ decBytes v)
  | _ => none

/-- `toInt64Timestamp` -/
def toInt64Ts : GoVal → Option Int
  | .int .u64 v => some (wrap64 v)
  | .int _ v => some v
  | .f64 b => some (F.f2i b)
  | .f32 b => some (F.f32toI b)
  | _ => none

def normAll (m : Int) : List GoVal → Option (List GoVal)
  | [] => some []
  | x :: xs =>
    match toInt64Ts F x, normAll m xs with
    | some t, some r => some (.int .i64 (applyMult m t) :: r)
    | _, _ => none

/-- `normalizeTimestampColumns` on the time column (non-empty or not). -/
def normalizeTime : List GoVal → Option (List GoVal)
  | [] => some []
  | x0 :: xs =>
    match toInt64Ts F x0 with
    | none => none
    | some t0 => normAll F (tsMultG t0) (x0 :: xs)

def sanVal : GoVal → GoVal
  | .str s => .str (san s)
  | g => g

/-- `toInt64` -/
def toInt64 : GoVal → Option Int
  | .int .u64 v => if v > maxI64 then none else some v
  | .int _ v => some v
  | .f32 b => if F.f32gtMax b || F.f32ltMin b then none else some (F.f32toI b)
  | .f64 b => if F.gtMaxI64 b || F.ltMinI64 b then none else some (F.f2i b)
  | _ => none

/-- `toFloat64` -/
def toFloat64 : GoVal → Option Nat
  | .f32 b => some (F.f32to64 b)
  | .f64 b => some b
  | .int _ v => some (F.i2f v)
  | _ => none

def gIsNil : GoVal → Bool
  | .nil => true
  | _ => false

def firstNonNilG : List GoVal → Option GoVal
  | [] => none
  | x :: xs => if gIsNil x then firstNonNilG xs else some x

def gConv {α : Type} (conv : GoVal → Option α) (zero : α) : List GoVal → Option (List α)
  | [] => some []
  | x :: xs =>
    match (if gIsNil x then some zero else conv x), gConv conv zero xs with
    | some a, some as => some (a :: as)
    | _, _ => none

def gValidity (xs : List GoVal) : Option (List Bool) :=
  if xs.any gIsNil then some (xs.map fun x => !gIsNil x) else none

def gStr : GoVal → Option Bytes
  | .str s => some s
  | _ => none
def gBool : GoVal → Option Bool
  | .bool b => some b
  | _ => none

/-- the time chokepoint of `convertColumnsToTyped`: nil rejects, everything else via `toInt64`
(the int64 fast path is the same function on int64). -/
def gTimeAll : List GoVal → Option (List Int)
  | [] => some []
  | x :: xs =>
    match (if gIsNil x then none else toInt64 F x), gTimeAll xs with
    | some t, some r => some (t :: r)
    | _, _ => none

/-- one non-empty column of `convertColumnsToTyped` (no decimal configuration). -/
def convertCol (name : Bytes) (xs : List GoVal) : Option ColRec :=
  match firstNonNilG xs with
  | none =>
    if name == timeName then none
    else some ⟨name, .str (xs.map fun _ => []), some (xs.map fun _ => false)⟩
  | some x0 =>
    if name == timeName then
      match x0 with
      | .str _ => none
      | _ => (gTimeAll F xs).map fun ts => ⟨name, .i64 ts, none⟩
    else
      match x0 with
      | .int _ _ => (gConv (toInt64 F) 0 xs).map fun vs => ⟨name, .i64 vs, gValidity xs⟩
      | .f32 _ => (gConv (toFloat64 F) 0 xs).map fun vs => ⟨name, .f64 vs, gValidity xs⟩
      | .f64 _ => (gConv (toFloat64 F) 0 xs).map fun vs => ⟨name, .f64 vs, gValidity xs⟩
      | .str _ => (gConv gStr [] xs).map fun vs => ⟨name, .str vs, gValidity xs⟩
      | .bool _ => (gConv gBool false xs).map fun vs => ⟨name, .bool vs, gValidity xs⟩
      | _ => none

/-- `convertColumnsToTyped`: empty columns are skipped; numRecords = length of a non-empty column. -/
def convertCols : List (Bytes × List GoVal) → Option (List ColRec)
  | [] => some []
  | (name, xs) :: rest =>
    if xs.isEmpty then convertCols rest else
    match convertCol F name xs, convertCols rest with
    | some c, some cs => some (c :: cs)
    | _, _ => none

def numRecordsOf : List (Bytes × List GoVal) → Nat
  | [] => 0
  | (_, xs) :: rest => if xs.isEmpty then numRecordsOf rest else xs.length

/-- `mapToPayload`'s Columns: last pair per key, arrays only. -/
def payloadColumns (kvs : List (Bytes × GoVal)) : List (Bytes × List GoVal) :=
  (dedupLast kvs).filterMap fun p =>
    match p.2 with
    | .slice xs => some (p.1, xs)
    | _ => none

def lookupCol (k : Bytes) : List (Bytes × List GoVal) → Option (List GoVal)
  | [] => none
  | (k', v) :: rest => if k' == k then some v else lookupCol k rest

def replaceCol (k : Bytes) (v : List GoVal) : List (Bytes × List GoVal) → List (Bytes × List GoVal)
  | [] => []
  | (k', v') :: rest => if k' == k then (k, v) :: rest else (k', v') :: replaceCol k v rest

/-- the result of `decodeColumnar` (a *ColumnarRecord): measurement, columns, generated-time flag. -/
structure ColumnarRec where
  meas : Bytes
  cols : List (Bytes × List GoVal)
  genTime : Bool

def genTimeCol (now : Int) (n : Nat) : List GoVal := List.replicate n (GoVal.int IK.i64 now)

/-- "Ensure 'time' column exists": missing or empty ⇒ `numRecords` copies of now-µs. -/
def ensureTime (now : Int) (n : Nat) (cols : List (Bytes × List GoVal)) :
    List (Bytes × List GoVal) × Bool :=
  match lookupCol timeName cols with
  | some (_ :: _) => (cols, false)
  | some [] => (replaceCol timeName (genTimeCol now n) cols, true)
  | none => (cols ++ [(timeName, genTimeCol now n)], true)

/-- `normalizeTimestampColumns` on the column map -/
def normalizeCols (cols : List (Bytes × List GoVal)) : Option (List (Bytes × List GoVal)) :=
  match lookupCol timeName cols with
  | none => some cols
  | some tcol =>
    match normalizeTime F tcol with
    | none => none
    | some tcol' => some (replaceCol timeName tcol' cols)

def sanCols (cols : List (Bytes × List GoVal)) : List (Bytes × List GoVal) :=
  cols.map fun (p : Bytes × List GoVal) => (p.1, p.2.map (sanVal san))

def lensOk (n : Nat) (cols : List (Bytes × List GoVal)) : Bool :=
  cols.all fun (p : Bytes × List GoVal) => p.2.length == n

/-- `decodeColumnar` -/
def decodeColumnar (now : Int) (m : Option GoVal) (cols : List (Bytes × List GoVal)) :
    Option ColumnarRec :=
  match extractMeas m with
  | none => none
  | some meas =>
    match cols with
    | [] => none
    | (_, c0) :: _ =>
      if !lensOk c0.length cols then none else
      match normalizeCols F (ensureTime now c0.length cols).1 with
      | none => none
      | some cols2 => some ⟨meas, sanCols san cols2, (ensureTime now c0.length cols).2⟩

/-- `ArrowBuffer.writeColumnar`'s typing step applied to a *ColumnarRecord. -/
def typeItem (r : ColumnarRec) : Item :=
  match convertCols F r.cols with
  | some cs => .col ⟨r.meas, cs, numRecordsOf r.cols, r.genTime⟩
  | none => .colReject r.meas

/-- `decodeRow`: only its accept/reject decision and the measurement are modelled. -/
def decodeRow (kvs : List (Bytes × GoVal)) : Option Item :=
  match extractMeas (lookupLast mName kvs) with
  | none => none
  | some meas =>
    let tOk := match lookupLast tName kvs with
      | none => true | some .nil => true | some (.int _ _) => true | some (.f32 _) => true
      | some (.f64 _) => true | _ => false
    if !tOk then none else
    let fieldsOk := match lookupLast fieldsName kvs with
      | some (.smap _) => true | _ => false
    let fOk := match lookupLast fName kvs with
      | none => false | some .nil => false | _ => true
    if fieldsOk || fOk then some (.row meas) else none

mutual
/-- `decodeMapPayload`; `none` = error. A batch yields ONE result that is a slice. -/
def decodeMapPayload (now : Int) : Nat → List (Bytes × GoVal) → Option (List Item × Bool)
  | 0, _ => none
  | fuel + 1, kvs =>
    match lookupLast batchName kvs with
    | some (.slice items) => some (batchItems now fuel items, true)
    | _ =>
      match lookupLast columnsName kvs with
      | some (.smap ckvs) =>
        match decodeColumnar F san now (lookupLast mName kvs) (payloadColumns ckvs) with
        | some r => some ([typeItem F r], false)
        | none => none
      | _ =>
        match decodeRow kvs with
        | some it => some ([it], false)
        | none => none
/-- the loop over a batch / a top-level array: failing items are logged and skipped; an item that
is itself a batch contributes one nested slice. -/
def batchItems (now : Int) : Nat → List GoVal → List Item
  | _, [] => []
  | 0, _ => []
  | fuel + 1, g :: rest =>
    match g with
    | .smap kvs =>
      match decodeMapPayload now fuel kvs with
      | some (_, true) => .nested :: batchItems now fuel rest
      | some (its, false) => its ++ batchItems now fuel rest
      | none => batchItems now fuel rest
    | _ => batchItems now fuel rest
end

/-- `Decode` with the typed path off, followed by the typing chokepoint of `Write`. -/
def genericOfGo (now : Int) (fuel : Nat) : GoVal → Outcome
  | .smap kvs =>
    match decodeMapPayload F san now fuel kvs with
    | some (its, _) => .ok its          -- a top-level batch result is flattened
    | none => .error .payload
  | .slice xs => .ok (batchItems F san now fuel xs)
  | _ => .error .unsupported

def unmarshal (b : Bytes) : Except GErr GoVal :=
  match decode b with
  | none => .error .unmarshal
  | some (v, _) =>
    match goBox F v with
    | .ok g => .ok g
    | .error .err => .error .unmarshal
    | .error .panic => .error .unmarshalPanic

def genericPath (now : Int) (b : Bytes) : Outcome :=
  match unmarshal F b with
  | .error e => .error e
  | .ok g => genericOfGo F san now (b.length + 2) g

/-- `MessagePackDecoder.Decode` (+ typing chokepoint) with the fast path switched on or off. -/
def decodeWith (typed : Bool) (now : Int) (b : Bytes) : Outcome :=
  if typed then
    match typedPath F san now b with
    | some r => .ok [.col r]
    | none => genericPath F san now b
  else genericPath F san now b

end generic

/-! ## the WAL record of an accepted columnar write (`ArrowBuffer.Write`)

What is written ahead of buffering is part of what "ends up stored": after a crash the rows are
rebuilt from it. A write logs either the original client bytes (zero-copy `AppendRawWithMeta`) or a
row transpose of the typed batch (`typedBatchToWALRecords`, which ignores validity: NULLs come back
as 0 / ""). Which one depends on the function `Write` hands the record to and on whether the raw
payload travels with it — facts regenerated from the current source. -/

inductive WalRec where
  | raw (payload : Bytes)      -- envelope + the request body, byte for byte
  | rows                       -- row records rebuilt from the typed batch (lossy for NULLs)
  deriving DecidableEq, Repr

/-- `Write` on the *TypedColumnarRecord of a typed hit on body `b` -/
def walTyped (b : Bytes) : WalRec :=
  if typedWriteLogsRaw && !b.isEmpty then .raw b else .rows

/-- `Write` on the *ColumnarRecord the generic path produces for a top-level single-map body `b` -/
def walGeneric (b : Bytes) : WalRec :=
  if genericWriteLogsRaw && !b.isEmpty then .raw b else .rows

end Arc.C02
