/-
C13 — model of `internal/backup`: `Manager.CreateBackup` (inventory → `copyDataFiles` twice →
`checkSkipRatio` → manifest) and `Manager.RestoreBackup` (`GetBackup` → `restoreDataFiles` →
status), over storage trees and a per-file fault oracle.

* A storage tree is an association list `Path → Bytes` with one entry per path (`put` replaces).
* A fault oracle names, per phase, the files whose `ReadTo` fails, the files whose `WriteReader`
  fails (before any byte, or after `k` bytes reached the `<path>.part` staging file) and whether
  the `manifest.json` write/read fails — any subset of files.
* `copyLoop` is the one per-file loop shared by `copyDataFiles` and `restoreDataFiles`; what follows
  a per-file error (`continue` / count-and-`continue` / `return err`) is a PARAMETER (`Policy`), whose
  current value is regenerated from the source by `go/factgen/cmd/c13` (see `Arc/Model/C13Current`).

Quirks kept: files that are neither `*.parquet` nor Iceberg metadata are not backed up; hidden
files (base name starting with `.`) are invisible to both listings; parquet files are copied before
Iceberg metadata; a failed `WriteReader` on the *data* storage leaves `<path>.part` behind (the
backup side deletes it); a backup whose copy aborted has no manifest and cannot be restored.
Core-only, executable.
-/
namespace Arc.C13

abbrev Path := List Char
abbrev Bytes := List UInt8
abbrev Tree := List (Path × Bytes)

/-! ## storage trees -/

def lookup (t : Tree) (p : Path) : Option Bytes := List.lookup p t

/-- write `b` at `p` (create or replace) — `LocalBackend.WriteReader` success (stage + rename). -/
def put (t : Tree) (p : Path) (b : Bytes) : Tree :=
  (p, b) :: t.filter (fun e => !(e.1 == p))

def keys (t : Tree) : List Path := t.map Prod.fst

/-! ## path classification (`CreateBackup` inventory switch, `isIcebergMetadata`, listings) -/

def dotParquet : List Char := ['.', 'p', 'a', 'r', 'q', 'u', 'e', 't']
def metadataSeg : List Char := ['/', 'm', 'e', 't', 'a', 'd', 'a', 't', 'a', '/']
def partSuffix : List Char := ['.', 'p', 'a', 'r', 't']

def hasInfix (needle : List Char) : List Char → Bool
  | [] => needle.isEmpty
  | c :: cs => needle.isPrefixOf (c :: cs) || hasInfix needle cs

/-- `strings.HasSuffix(p, ".parquet")` -/
def isParquet (p : Path) : Bool := dotParquet.isSuffixOf p

/-- `isIcebergMetadata`: contains `/metadata/` and is not parquet. -/
def isIcebergMeta (p : Path) : Bool := hasInfix metadataSeg p && !isParquet p

/-- last path component -/
def baseName : List Char → List Char → List Char
  | [], acc => acc.reverse
  | c :: cs, acc => if c == '/' then baseName cs [] else baseName cs (c :: acc)

/-- `LocalBackend.List/ListObjects` skip files whose base name starts with `.` -/
def hidden (p : Path) : Bool :=
  match baseName p [] with
  | c :: _ => c == '.'
  | [] => false

/-- what `CreateBackup` copies: visible parquet or Iceberg-metadata files. -/
def eligible (p : Path) : Bool := !hidden p && (isParquet p || isIcebergMeta p)

/-! ## listing order (`filepath.WalkDir`: lexical per directory = `/` sorts before every char) -/

def rank (c : Char) : Nat := if c == '/' then 0 else c.toNat + 1

def walkLt : Path → Path → Bool
  | [], [] => false
  | [], _ :: _ => true
  | _ :: _, [] => false
  | a :: as, b :: bs => if rank a < rank b then true else if rank b < rank a then false else walkLt as bs

def insertBy (lt : Path → Path → Bool) (e : Path × Bytes) : Tree → Tree
  | [] => [e]
  | x :: xs => if lt e.1 x.1 then e :: x :: xs else x :: insertBy lt e xs

def sortBy (lt : Path → Path → Bool) : Tree → Tree
  | [] => []
  | x :: xs => insertBy lt x (sortBy lt xs)

def walkSort (t : Tree) : Tree := sortBy walkLt t

/-! ## fault oracle -/

structure Faults where
  /-- `manifest.json`: the write fails (backup) / the read fails (restore) -/
  manifest : Bool := false
  /-- original paths whose `ReadTo` fails in this phase -/
  read : List Path := []
  /-- original paths whose `WriteReader` fails in this phase; `some k` = after `k` bytes were staged -/
  write : List (Path × Option Nat) := []
  /-- TRANSIENT read faults `(path, n, d)`: the first `n` `ReadTo` attempts of the file fail, each
  after delivering `d` bytes to the writer; later attempts succeed -/
  readT : List (Path × Nat × Nat) := []
  /-- TRANSIENT write faults `(path, n, staged)`: the first `n` `WriteReader` attempts fail -/
  writeT : List (Path × Nat × Option Nat) := []
  /-- `metadata/arc.db`: the copy into the backup fails (backup) / reading it back fails (restore) -/
  sqlite : Bool := false
  /-- `config/arc.toml`: likewise -/
  config : Bool := false

inductive Outcome
  | ok
  | readErr
  | writeErr (staged : Option Nat)

/-- outcome of one file's read-then-write when the code makes at most `ra` `ReadTo` attempts and `wa`
`WriteReader` attempts (a retry only follows a failure). -/
def Faults.outcomeA (ra wa : Nat) (f : Faults) (p : Path) : Outcome :=
  if f.read.contains p then .readErr
  else if (match f.readT.lookup p with
      | some (n, _) => decide (ra ≤ n)
      | none => false) then .readErr
  else match f.write.lookup p with
    | some s => .writeErr s
    | none =>
      match f.writeT.lookup p with
      | some (n, s) => if wa ≤ n then .writeErr s else .ok
      | none => .ok

def repeatBytes : Nat → Bytes → Bytes
  | 0, _ => []
  | n + 1, b => b ++ repeatBytes n b

/-- what the temp file holds after a successful read phase: when a retry does NOT reset the temp
file, the prefixes delivered by the failed attempts stay in front of the full re-read. -/
def readContent (ra : Nat) (resets : Bool) (f : Faults) (p : Path) (b : Bytes) : Bytes :=
  match f.readT.lookup p with
  | some (n, d) => if decide (n < ra) && !resets then repeatBytes n (b.take d) ++ b else b
  | none => b

/-- the read phase hands on exactly the source bytes: no retry, or a retry that resets the temp file -/
def readExact (ra : Nat) (resets : Bool) : Bool := decide (ra ≤ 1) || resets

def noFaults : Faults := {}

/-! ## the step program of `RestoreBackup` (generated from the source) -/

inductive StepKind | data | sqlite | config
deriving DecidableEq, Repr

/-- what `RestoreBackup` does with the error a step returns -/
inductive StepMode
  /-- `if err := step(); err != nil { status = failed; return err }` -/
  | failNow
  /-- `err = step()` into the shared variable — a later success OVERWRITES an earlier failure -/
  | assign
  /-- the first error is kept in the shared variable -/
  | accumulate
  /-- the error is dropped -/
  | ignore
deriving DecidableEq, Repr

inductive Instr
  | step (k : StepKind) (m : StepMode)
  /-- `if err != nil { status = failed; return err }` on the shared variable -/
  | check
deriving DecidableEq, Repr

structure ProgSt where
  pending : Option StepKind := none
  failed : Option StepKind := none
  dataRan : Bool := false
  sqliteOk : Bool := false
  configOk : Bool := false
deriving DecidableEq, Repr

def ProgSt.mark (st : ProgSt) (k : StepKind) (bad : Bool) : ProgSt :=
  match k with
  | .data => { st with dataRan := true }
  | .sqlite => { st with sqliteOk := !bad }
  | .config => { st with configOk := !bad }

/-- run the step program: `en k` = step `k` is requested and present in the backup, `bad k` = it fails.
`failed = none` at the end means `progress.Status = "completed"`. -/
def runProg (en bad : StepKind → Bool) : List Instr → ProgSt → ProgSt
  | [], st => st
  | .check :: r, st =>
    match st.pending with
    | some k => { st with failed := some k }
    | none => runProg en bad r st
  | .step k m :: r, st =>
    if en k then
      match m with
      | .failNow => if bad k then { st.mark k true with failed := some k } else runProg en bad r (st.mark k false)
      | .assign => runProg en bad r { st.mark k (bad k) with pending := if bad k then some k else none }
      | .accumulate =>
        runProg en bad r { st.mark k (bad k) with
          pending := match st.pending with
            | some j => some j
            | none => if bad k then some k else none }
      | .ignore => runProg en bad r (st.mark k (bad k))
    else runProg en bad r st

def mkFn (d s c : Bool) : StepKind → Bool
  | .data => d
  | .sqlite => s
  | .config => c

def bools : List Bool := [false, true]

/-- decidable well-behavedness of a step program, over every combination of requested steps and step
outcomes (data step requested): (honest) it ends `completed` only if the data step ran and did not
fail; (live) if no step fails it ends `completed`, having run the data step. -/
def comboOk (prog : List Instr) (es ec bd bs bc : Bool) : Bool :=
  let st := runProg (mkFn true es ec) (mkFn bd bs bc) prog {}
  (!(st.failed == none) || (st.dataRan && !bd)) &&
  (bd || bs || bc || (st.failed == none && st.dataRan))

def progOk (prog : List Instr) : Bool :=
  bools.all fun es => bools.all fun ec => bools.all fun bd => bools.all fun bs => bools.all fun bc =>
    comboOk prog es ec bd bs bc

/-! ## error policy (generated from the source) -/

inductive ErrPolicy
  /-- log and `continue`; nothing is counted and the loop's function still returns nil -/
  | continueSilently
  /-- count the file as skipped and `continue`; the caller inspects the count -/
  | skipCount
  /-- `return err` -/
  | abort
deriving DecidableEq, Repr

structure Policy where
  /-- `copyDataFiles`, error classified by `isSourceReadError` -/
  backupReadErr : ErrPolicy
  /-- `copyDataFiles`, any other per-file error -/
  backupWriteErr : ErrPolicy
  /-- `restoreDataFiles`, any per-file error of `streamRestoreFile` -/
  restoreFileErr : ErrPolicy
  /-- `streamBackupFile` does NOT clean `<dest>.part` after a failed `WriteReader` -/
  backupKeepsPart : Bool
  /-- `streamRestoreFile` does NOT clean `<dest>.part` after a failed `WriteReader` -/
  restoreKeepsPart : Bool
  /-- `streamBackupFile` / `streamRestoreFile`: number of `ReadTo` / `WriteReader` attempts per file
  (1 = no retry) and whether a read retry truncates+rewinds the temp file first -/
  backupReadAttempts : Nat
  backupRetryResets : Bool
  backupWriteAttempts : Nat
  restoreReadAttempts : Nat
  restoreRetryResets : Bool
  restoreWriteAttempts : Nat
  /-- `maxSkipRatio` as a fraction -/
  ratioNum : Nat
  ratioDen : Nat
  /-- `CreateBackup` fails when `checkSkipRatio` errs -/
  ratioChecked : Bool
  /-- `manifest.SkippedFiles = progress.SkippedFiles` is assigned before the manifest is marshalled -/
  manifestSkipped : Bool
  /-- the steps of `RestoreBackup` after the manifest was read, in source order -/
  restoreProg : List Instr
  /-- `RestoreBackup` skips the data step when the manifest inventories no parquet file
  (`manifest.TotalFiles == 0`) — the inventory does not count Iceberg metadata files -/
  dataSkipNoParquet : Bool
deriving DecidableEq, Repr

/-! ## the per-file loop -/

structure CopySt where
  dest : Tree
  processed : Nat := 0
  bytes : Nat := 0
  skipped : Nat := 0
  aborted : Bool := false

structure LoopCfg where
  onRead : ErrPolicy
  onWrite : ErrPolicy
  keepStaged : Bool

def onErr (pol : ErrPolicy) (st : CopySt) : CopySt :=
  match pol with
  | .continueSilently => st
  | .skipCount => { st with skipped := st.skipped + 1 }
  | .abort => { st with aborted := true }

/-- what a failed `WriteReader` leaves in the destination -/
def stagedPut (keep : Bool) (dest : Tree) (p : Path) (b : Bytes) : Option Nat → Tree
  | some k => if keep then put dest (p ++ partSuffix) (b.take k) else dest
  | none => dest

def stepFile (cfg : LoopCfg) (oc : Path → Outcome) (p : Path) (b : Bytes) (st : CopySt) : CopySt :=
  match oc p with
  | .ok => { st with dest := put st.dest p b, processed := st.processed + 1, bytes := st.bytes + b.length }
  | .readErr => onErr cfg.onRead st
  | .writeErr s => onErr cfg.onWrite { st with dest := stagedPut cfg.keepStaged st.dest p b s }

def copyLoop (cfg : LoopCfg) (oc : Path → Outcome) : Tree → CopySt → CopySt
  | [], st => st
  | (p, b) :: rest, st =>
    if (stepFile cfg oc p b st).aborted then stepFile cfg oc p b st
    else copyLoop cfg oc rest (stepFile cfg oc p b st)

/-! ## backup -/

/-- the two file groups of `CreateBackup`, in copy order (parquet first, then Iceberg metadata) -/
def backupItems (t : Tree) : Tree :=
  (t.filter fun e => !hidden e.1 && isParquet e.1) ++
  (t.filter fun e => !hidden e.1 && (!isParquet e.1 && isIcebergMeta e.1))

def parquetItems (t : Tree) : Tree := t.filter fun e => !hidden e.1 && isParquet e.1

def sumSizes : Tree → Nat
  | [] => 0
  | (_, b) :: r => b.length + sumSizes r

/-- `parseDBMeasurement`: `strings.SplitN(path, "/", 3)` → (parts[0], parts[1] or "unknown") -/
def splitSlash : List Char → List Char → List Char × Option (List Char)
  | [], acc => (acc.reverse, none)
  | c :: cs, acc => if c == '/' then (acc.reverse, some cs) else splitSlash cs (c :: acc)

def unknownName : List Char := ['u', 'n', 'k', 'n', 'o', 'w', 'n']

def dbMeas (p : Path) : List Char × List Char :=
  match splitSlash p [] with
  | (db, none) => (db, unknownName)
  | (db, some rest) => (db, (splitSlash rest []).1)

def dedup {α : Type} [BEq α] : List α → List α
  | [] => []
  | x :: xs => if xs.contains x then dedup xs else x :: dedup xs

structure Manifest where
  totalFiles : Nat
  totalSize : Nat
  skipped : Nat
  dbs : Nat
  meas : Nat
  /-- `has_metadata` / `has_config`: the SQLite database / arc.toml are in the backup -/
  hasMetadata : Bool := false
  hasConfig : Bool := false
deriving Repr, DecidableEq

inductive BStatus | completed | failedCopy | failedRatio | failedManifest
deriving DecidableEq, Repr

structure Backup where
  status : BStatus
  /-- contents of `<id>/data/` -/
  store : Tree
  /-- the persisted `manifest.json` (absent when the backup failed) -/
  manifest : Option Manifest
  /-- `Progress` counters -/
  processed : Nat
  pbytes : Nat
  skipped : Nat
  total : Nat

def ratioExceeded (pol : Policy) (skipped total : Nat) : Bool :=
  !(skipped == 0 || total == 0) && decide (skipped * pol.ratioDen > pol.ratioNum * total)

def backupCfg (pol : Policy) : LoopCfg :=
  { onRead := pol.backupReadErr, onWrite := pol.backupWriteErr, keepStaged := pol.backupKeepsPart }

def bOutcome (pol : Policy) (f : Faults) : Path → Outcome :=
  f.outcomeA pol.backupReadAttempts pol.backupWriteAttempts

def bContent (pol : Policy) (f : Faults) (e : Path × Bytes) : Path × Bytes :=
  (e.1, readContent pol.backupReadAttempts pol.backupRetryResets f e.1 e.2)

def backupExact (pol : Policy) : Bool := readExact pol.backupReadAttempts pol.backupRetryResets

/-- `CreateBackup` over the listing `t` (in `ListObjects` order). -/
def backup (pol : Policy) (f : Faults) (t : Tree) : Backup :=
  let items := (backupItems t).map (bContent pol f)
  let st := copyLoop (backupCfg pol) (bOutcome pol f) items { dest := [] }
  let mk (s : BStatus) (m : Option Manifest) : Backup :=
    { status := s, store := st.dest, manifest := m, processed := st.processed, pbytes := st.bytes,
      skipped := st.skipped, total := items.length }
  if st.aborted then mk .failedCopy none
  else if pol.ratioChecked && ratioExceeded pol st.skipped items.length then mk .failedRatio none
  else if f.manifest then mk .failedManifest none
  else
    let pq := parquetItems t
    mk .completed (some {
      totalFiles := pq.length, totalSize := sumSizes pq,
      skipped := if pol.manifestSkipped then st.skipped else 0,
      dbs := (dedup (pq.map fun e => (dbMeas e.1).1)).length,
      meas := (dedup (pq.map fun e => dbMeas e.1)).length })

/-! ## restore -/

inductive RStatus | completed | failedNoManifest | failedData
deriving DecidableEq, Repr

structure Restored where
  status : RStatus
  data : Tree
  processed : Nat
  pbytes : Nat
  total : Nat
  tbytes : Nat

def restoreCfg (pol : Policy) : LoopCfg :=
  { onRead := pol.restoreFileErr, onWrite := pol.restoreFileErr, keepStaged := pol.restoreKeepsPart }

def rOutcome (pol : Policy) (f : Faults) : Path → Outcome :=
  f.outcomeA pol.restoreReadAttempts pol.restoreWriteAttempts

def rContent (pol : Policy) (f : Faults) (e : Path × Bytes) : Path × Bytes :=
  (e.1, readContent pol.restoreReadAttempts pol.restoreRetryResets f e.1 e.2)

def restoreExact (pol : Policy) : Bool := readExact pol.restoreReadAttempts pol.restoreRetryResets

/-- `RestoreBackup{RestoreData: true}` where `items` is what `backupStorage.List(<id>/data/)`
returned (paths with the prefix stripped, with the bytes stored there), into data storage `d0`. -/
def restoreItems (pol : Policy) (f : Faults) (manifest : Option Manifest) (items : Tree) (d0 : Tree) : Restored :=
  match manifest with
  | none => { status := .failedNoManifest, data := d0, processed := 0, pbytes := 0, total := 0, tbytes := 0 }
  | some m =>
    if f.manifest then { status := .failedNoManifest, data := d0, processed := 0, pbytes := 0, total := 0, tbytes := 0 }
    else
      let st := copyLoop (restoreCfg pol) (rOutcome pol f) (items.map (rContent pol f)) { dest := d0 }
      { status := if st.aborted || st.skipped != 0 then .failedData else .completed,
        data := st.dest, processed := st.processed, pbytes := st.bytes, total := items.length,
        tbytes := m.totalSize }

/-- restore of backup `bk`, listing its data directory in `WalkDir` order. -/
def restore (pol : Policy) (f : Faults) (bk : Backup) (d0 : Tree) : Restored :=
  restoreItems pol f bk.manifest (walkSort bk.store) d0

/-! ## whole operations: options, SQLite metadata and arc.toml -/

structure BOpts where
  metadata : Bool := false
  config : Bool := false

/-- `CreateBackup(opts)`: the data part is `backup`; the SQLite / config copies run after the skip-ratio
check, are NON-fatal, and only set `has_metadata` / `has_config` in the manifest. -/
def backupFull (pol : Policy) (o : BOpts) (f : Faults) (t : Tree) : Backup :=
  let bk := backup pol f t
  { bk with manifest := bk.manifest.map fun m =>
      { m with hasMetadata := o.metadata && !f.sqlite, hasConfig := o.config && !f.config } }

structure ROpts where
  data : Bool := true
  metadata : Bool := false
  config : Bool := false

inductive FStatus | completed | failedNoManifest | failedData | failedSqlite | failedConfig
deriving DecidableEq, Repr

structure RestoredFull where
  status : FStatus
  data : Tree
  processed : Nat
  pbytes : Nat
  total : Nat
  tbytes : Nat
  sqliteRestored : Bool
  configRestored : Bool

/-- `RestoreBackup(opts)`: manifest, then the step program. -/
def restoreBackup (pol : Policy) (o : ROpts) (f : Faults) (bk : Backup) (d0 : Tree) : RestoredFull :=
  match bk.manifest with
  | none => { status := .failedNoManifest, data := d0, processed := 0, pbytes := 0, total := 0, tbytes := 0,
              sqliteRestored := false, configRestored := false }
  | some m =>
    if f.manifest then
      { status := .failedNoManifest, data := d0, processed := 0, pbytes := 0, total := 0, tbytes := 0,
        sqliteRestored := false, configRestored := false }
    else
      let dr := restore pol f bk d0
      let en := mkFn (o.data && !(pol.dataSkipNoParquet && m.totalFiles == 0))
        (o.metadata && m.hasMetadata) (o.config && m.hasConfig)
      let bad := mkFn (dr.status != .completed) f.sqlite f.config
      let st := runProg en bad pol.restoreProg {}
      { status := match st.failed with
          | none => .completed
          | some .data => .failedData
          | some .sqlite => .failedSqlite
          | some .config => .failedConfig,
        data := if st.dataRan then dr.data else d0,
        processed := if st.dataRan then dr.processed else 0,
        pbytes := if st.dataRan then dr.pbytes else 0,
        total := if st.dataRan then dr.total else 0,
        tbytes := if st.dataRan then dr.tbytes else 0,
        sqliteRestored := st.sqliteOk, configRestored := st.configOk }

end Arc.C13
