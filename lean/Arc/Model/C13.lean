/-
C13 — model of `internal/backup`: `Manager.CreateBackup` (inventory → `copyDataFiles` twice →
`checkSkipRatio` → manifest) and `Manager.RestoreBackup` (`GetBackup` → `restoreDataFiles` →
status), over storage trees and a per-file fault oracle.

* A storage tree is an association list `Path → Bytes` with one entry per path (`put` replaces).
* A fault oracle names, per phase, the files whose `ReadTo` fails, the files whose `WriteReader`
  fails (before any byte, or after `k` bytes reached the `<path>.part` staging file) and whether
  the `manifest.json` write/read fails — any subset of files.
* `copyLoop` is the one per-file loop shared by `copyDataFiles` and `restoreDataFiles`; what follows
  a per-file error (`continue` / count-and-`continue` / `return err`) is a PARAMETER (`Policy`), whose
  current value is regenerated from the source by `go/factgen/cmd/c13` (see `Arc/Model/C13Current`).

Quirks kept: files that are neither `*.parquet` nor Iceberg metadata are not backed up; hidden
files (base name starting with `.`) are invisible to both listings; parquet files are copied before
Iceberg metadata; a failed `WriteReader` on the *data* storage leaves `<path>.part` behind (the
backup side deletes it); a backup whose copy aborted has no manifest and cannot be restored.
Core-only, executable.
-/
namespace Arc.C13

abbrev Path := List Char
abbrev Bytes := List UInt8
abbrev Tree := List (Path × Bytes)

/-! ## storage trees -/

def lookup (t : Tree) (p : Path) : Option Bytes := List.lookup p t

/-- write `b` at `p` (create or replace) — `LocalBackend.WriteReader` success (stage + rename). -/
def put (t : Tree) (p : Path) (b : Bytes) : Tree :=
  (p, b) :: t.filter (fun e => !(e.1 == p))

def keys (t : Tree) : List Path := t.map Prod.fst

/-! ## path classification (`CreateBackup` inventory switch, `isIcebergMetadata`, listings) -/

def dotParquet : List Char := ['.', 'p', 'a', 'r', 'q', 'u', 'e', 't']
def metadataSeg : List Char := ['/', 'm', 'e', 't', 'a', 'd', 'a', 't', 'a', '/']
def partSuffix : List Char := ['.', 'p', 'a', 'r', 't']

def hasInfix (needle : List Char) : List Char → Bool
  | [] => needle.isEmpty
  | c :: cs => needle.isPrefixOf (c :: cs) || hasInfix needle cs

/-- `strings.HasSuffix(p, ".parquet")` -/
def isParquet (p : Path) : Bool := dotParquet.isSuffixOf p

/-- `isIcebergMetadata`: contains `/metadata/` and is not parquet. -/
def isIcebergMeta (p : Path) : Bool := hasInfix metadataSeg p && !isParquet p

/-- last path component -/
def baseName : List Char → List Char → List Char
  | [], acc => acc.reverse
  | c :: cs, acc => if c == '/' then baseName cs [] else baseName cs (c :: acc)

/-- `LocalBackend.List/ListObjects` skip files whose base name starts with `.` -/
def hidden (p : Path) : Bool :=
  match baseName p [] with
  | c :: _ => c == '.'
  | [] => false

/-- what `CreateBackup` copies: visible parquet or Iceberg-metadata files. -/
def eligible (p : Path) : Bool := !hidden p && (isParquet p || isIcebergMeta p)

/-! ## listing order (`filepath.WalkDir`: lexical per directory = `/` sorts before every char) -/

def rank (c : Char) : Nat := if c == '/' then 0 else c.toNat + 1

def walkLt : Path → Path → Bool
  | [], [] => false
  | [], _ :: _ => true
  | _ :: _, [] => false
  | a :: as, b :: bs => if rank a < rank b then true else if rank b < rank a then false else walkLt as bs

def insertBy (lt : Path → Path → Bool) (e : Path × Bytes) : Tree → Tree
  | [] => [e]
  | x :: xs => if lt e.1 x.1 then e :: x :: xs else x :: insertBy lt e xs

def sortBy (lt : Path → Path → Bool) : Tree → Tree
  | [] => []
  | x :: xs => insertBy lt x (sortBy lt xs)

def walkSort (t : Tree) : Tree := sortBy walkLt t

/-! ## fault oracle -/

structure Faults where
  /-- `manifest.json`: the write fails (backup) / the read fails (restore) -/
  manifest : Bool := false
  /-- original paths whose `ReadTo` fails in this phase -/
  read : List Path := []
  /-- original paths whose `WriteReader` fails in this phase; `some k` = after `k` bytes were staged -/
  write : List (Path × Option Nat) := []

inductive Outcome
  | ok
  | readErr
  | writeErr (staged : Option Nat)

def Faults.outcome (f : Faults) (p : Path) : Outcome :=
  if f.read.contains p then .readErr
  else match f.write.lookup p with
    | some s => .writeErr s
    | none => .ok

def noFaults : Faults := {}

/-! ## error policy (generated from the source) -/

inductive ErrPolicy
  /-- log and `continue`; nothing is counted and the loop's function still returns nil -/
  | continueSilently
  /-- count the file as skipped and `continue`; the caller inspects the count -/
  | skipCount
  /-- `return err` -/
  | abort
deriving DecidableEq, Repr

structure Policy where
  /-- `copyDataFiles`, error classified by `isSourceReadError` -/
  backupReadErr : ErrPolicy
  /-- `copyDataFiles`, any other per-file error -/
  backupWriteErr : ErrPolicy
  /-- `restoreDataFiles`, any per-file error of `streamRestoreFile` -/
  restoreFileErr : ErrPolicy
  /-- `streamBackupFile` does NOT clean `<dest>.part` after a failed `WriteReader` -/
  backupKeepsPart : Bool
  /-- `streamRestoreFile` does NOT clean `<dest>.part` after a failed `WriteReader` -/
  restoreKeepsPart : Bool
  /-- `maxSkipRatio` as a fraction -/
  ratioNum : Nat
  ratioDen : Nat
  /-- `CreateBackup` fails when `checkSkipRatio` errs -/
  ratioChecked : Bool
  /-- `manifest.SkippedFiles = progress.SkippedFiles` is assigned before the manifest is marshalled -/
  manifestSkipped : Bool
deriving DecidableEq, Repr

/-! ## the per-file loop -/

structure CopySt where
  dest : Tree
  processed : Nat := 0
  bytes : Nat := 0
  skipped : Nat := 0
  aborted : Bool := false

structure LoopCfg where
  onRead : ErrPolicy
  onWrite : ErrPolicy
  keepStaged : Bool

def onErr (pol : ErrPolicy) (st : CopySt) : CopySt :=
  match pol with
  | .continueSilently => st
  | .skipCount => { st with skipped := st.skipped + 1 }
  | .abort => { st with aborted := true }

/-- what a failed `WriteReader` leaves in the destination -/
def stagedPut (keep : Bool) (dest : Tree) (p : Path) (b : Bytes) : Option Nat → Tree
  | some k => if keep then put dest (p ++ partSuffix) (b.take k) else dest
  | none => dest

def stepFile (cfg : LoopCfg) (oc : Path → Outcome) (p : Path) (b : Bytes) (st : CopySt) : CopySt :=
  match oc p with
  | .ok => { st with dest := put st.dest p b, processed := st.processed + 1, bytes := st.bytes + b.length }
  | .readErr => onErr cfg.onRead st
  | .writeErr s => onErr cfg.onWrite { st with dest := stagedPut cfg.keepStaged st.dest p b s }

def copyLoop (cfg : LoopCfg) (oc : Path → Outcome) : Tree → CopySt → CopySt
  | [], st => st
  | (p, b) :: rest, st =>
    if (stepFile cfg oc p b st).aborted then stepFile cfg oc p b st
    else copyLoop cfg oc rest (stepFile cfg oc p b st)

/-! ## backup -/

/-- the two file groups of `CreateBackup`, in copy order (parquet first, then Iceberg metadata) -/
def backupItems (t : Tree) : Tree :=
  (t.filter fun e => !hidden e.1 && isParquet e.1) ++
  (t.filter fun e => !hidden e.1 && (!isParquet e.1 && isIcebergMeta e.1))

def parquetItems (t : Tree) : Tree := t.filter fun e => !hidden e.1 && isParquet e.1

def sumSizes : Tree → Nat
  | [] => 0
  | (_, b) :: r => b.length + sumSizes r

/-- `parseDBMeasurement`: `strings.SplitN(path, "/", 3)` → (parts[0], parts[1] or "unknown") -/
def splitSlash : List Char → List Char → List Char × Option (List Char)
  | [], acc => (acc.reverse, none)
  | c :: cs, acc => if c == '/' then (acc.reverse, some cs) else splitSlash cs (c :: acc)

def unknownName : List Char := ['u', 'n', 'k', 'n', 'o', 'w', 'n']

def dbMeas (p : Path) : List Char × List Char :=
  match splitSlash p [] with
  | (db, none) => (db, unknownName)
  | (db, some rest) => (db, (splitSlash rest []).1)

def dedup {α : Type} [BEq α] : List α → List α
  | [] => []
  | x :: xs => if xs.contains x then dedup xs else x :: dedup xs

structure Manifest where
  totalFiles : Nat
  totalSize : Nat
  skipped : Nat
  dbs : Nat
  meas : Nat
deriving Repr, DecidableEq

inductive BStatus | completed | failedCopy | failedRatio | failedManifest
deriving DecidableEq, Repr

structure Backup where
  status : BStatus
  /-- contents of `<id>/data/` -/
  store : Tree
  /-- the persisted `manifest.json` (absent when the backup failed) -/
  manifest : Option Manifest
  /-- `Progress` counters -/
  processed : Nat
  pbytes : Nat
  skipped : Nat
  total : Nat

def ratioExceeded (pol : Policy) (skipped total : Nat) : Bool :=
  !(skipped == 0 || total == 0) && decide (skipped * pol.ratioDen > pol.ratioNum * total)

def backupCfg (pol : Policy) : LoopCfg :=
  { onRead := pol.backupReadErr, onWrite := pol.backupWriteErr, keepStaged := pol.backupKeepsPart }

/-- `CreateBackup` over the listing `t` (in `ListObjects` order). -/
def backup (pol : Policy) (f : Faults) (t : Tree) : Backup :=
  let items := backupItems t
  let st := copyLoop (backupCfg pol) f.outcome items { dest := [] }
  let mk (s : BStatus) (m : Option Manifest) : Backup :=
    { status := s, store := st.dest, manifest := m, processed := st.processed, pbytes := st.bytes,
      skipped := st.skipped, total := items.length }
  if st.aborted then mk .failedCopy none
  else if pol.ratioChecked && ratioExceeded pol st.skipped items.length then mk .failedRatio none
  else if f.manifest then mk .failedManifest none
  else
    let pq := parquetItems t
    mk .completed (some {
      totalFiles := pq.length, totalSize := sumSizes pq,
      skipped := if pol.manifestSkipped then st.skipped else 0,
      dbs := (dedup (pq.map fun e => (dbMeas e.1).1)).length,
      meas := (dedup (pq.map fun e => dbMeas e.1)).length })

/-! ## restore -/

inductive RStatus | completed | failedNoManifest | failedData
deriving DecidableEq, Repr

structure Restored where
  status : RStatus
  data : Tree
  processed : Nat
  pbytes : Nat
  total : Nat
  tbytes : Nat

def restoreCfg (pol : Policy) : LoopCfg :=
  { onRead := pol.restoreFileErr, onWrite := pol.restoreFileErr, keepStaged := pol.restoreKeepsPart }

/-- `RestoreBackup{RestoreData: true}` where `items` is what `backupStorage.List(<id>/data/)`
returned (paths with the prefix stripped, with the bytes stored there), into data storage `d0`. -/
def restoreItems (pol : Policy) (f : Faults) (manifest : Option Manifest) (items : Tree) (d0 : Tree) : Restored :=
  match manifest with
  | none => { status := .failedNoManifest, data := d0, processed := 0, pbytes := 0, total := 0, tbytes := 0 }
  | some m =>
    if f.manifest then { status := .failedNoManifest, data := d0, processed := 0, pbytes := 0, total := 0, tbytes := 0 }
    else
      let st := copyLoop (restoreCfg pol) f.outcome items { dest := d0 }
      { status := if st.aborted || st.skipped != 0 then .failedData else .completed,
        data := st.dest, processed := st.processed, pbytes := st.bytes, total := items.length,
        tbytes := m.totalSize }

/-- restore of backup `bk`, listing its data directory in `WalkDir` order. -/
def restore (pol : Policy) (f : Faults) (bk : Backup) (d0 : Tree) : Restored :=
  restoreItems pol f bk.manifest (walkSort bk.store) d0

end Arc.C13
