/-
C27 — executable model of edge sync (internal/edgesync): the spoke ledger (`ledger.go`), the agent
program (`agent.go`: recover → discover → page → reconcile → send, ack-then-advance), the hub
receiver over a LocalBackend (`receive.go`: receipt pre-check, resolveExisting, staging `.part`,
verify-before-promote, record), the reconciler (`reconcile.go`, `hubindex.go`), per-call transport
faults, a spoke crash at any step and environment events on both sides.

The digest is an abstract function `H : Bytes → Bytes`; the driver instantiates it with `id`
(trivially collision free), theorems take collision-freeness as a hypothesis.
Core-only, executable.
-/
namespace Arc.C27

abbrev Bytes := List UInt8

/-! ## ledger -/

inductive St | pending | inFlight | synced | exported | failed | skipped
deriving DecidableEq, Repr

def St.name : St → String
  | .pending => "pending" | .inFlight => "in_flight" | .synced => "synced"
  | .exported => "exported" | .failed => "failed" | .skipped => "skipped"

def St.ofName? (s : String) : Option St :=
  if s = "pending" then some .pending else if s = "in_flight" then some .inFlight
  else if s = "synced" then some .synced else if s = "exported" then some .exported
  else if s = "failed" then some .failed else if s = "skipped" then some .skipped else none

/-- the state-changing `Ledger` methods the agent uses (+ the operator/air-gap ones, which the model
only carries in its transition table). -/
inductive Method
  | markInFlight | markSynced | markFailed | markConflicted | markSkipped | recoverInFlight
  | recordProgress | markExported | revertExported | requeueFailed | dismissFailed
deriving DecidableEq, Repr

def Method.name : Method → String
  | .markInFlight => "MarkInFlight" | .markSynced => "MarkSynced" | .markFailed => "MarkFailed"
  | .markConflicted => "MarkConflicted" | .markSkipped => "MarkSkipped"
  | .recoverInFlight => "RecoverInFlight" | .recordProgress => "RecordProgress"
  | .markExported => "MarkExported" | .revertExported => "RevertExported"
  | .requeueFailed => "RequeueFailed" | .dismissFailed => "DismissFailed"

def Method.all : List Method :=
  [.dismissFailed, .markConflicted, .markExported, .markFailed, .markInFlight, .markSkipped,
   .markSynced, .recordProgress, .recoverInFlight, .requeueFailed, .revertExported]

/-- source states of the guarded UPDATE (what the model's ledger operations implement; tied to the
SQL of the current source by `C27_table_tied`). -/
def Method.src : Method → List St
  | .markInFlight => [.pending]
  | .markSynced => [.exported, .inFlight, .pending]
  | .markFailed => [.inFlight]
  | .markConflicted => [.pending]
  | .markSkipped => [.inFlight, .pending]
  | .recoverInFlight => [.inFlight]
  | .recordProgress => [.inFlight]
  | .markExported => [.pending]
  | .revertExported => [.exported]
  | .requeueFailed => [.failed, .skipped]
  | .dismissFailed => [.failed]

/-- target states the UPDATE can write. -/
def Method.dst : Method → List St
  | .markInFlight => [.inFlight]
  | .markSynced => [.synced]
  | .markFailed => [.failed, .pending]
  | .markConflicted => [.failed]
  | .markSkipped => [.skipped]
  | .recoverInFlight => [.pending]
  | .recordProgress => []
  | .markExported => [.exported]
  | .revertExported => [.pending]
  | .requeueFailed => [.pending]
  | .dismissFailed => [.skipped]

def specTable : List (String × List String × List String) :=
  Method.all.map fun m => (m.name, m.src.map St.name, m.dst.map St.name)

structure Row where
  id : Nat
  path : String
  sha : Bytes
  size : Nat
  pt : Nat          -- partition hour parsed from the path (0 = none); orders Pending
  state : St
  attempts : Nat
  sent : Nat        -- bytes_sent, the resume checkpoint
deriving Repr

/-- one entry of the ledger's transition log (`old = none` for an INSERT). -/
structure LogE where
  path : String
  old : Option St
  new : St
  via : Option Method
deriving Repr

/-- The single place a row's state is rewritten: the guarded UPDATE of method `m` applied to one
row. `f` computes the new row; it is applied only when the row is in a source state. -/
def Row.apply (m : Method) (f : Row → Row) (r : Row) : Row :=
  if r.state ∈ m.src then f r else r

def logOf (m : Method) (r r' : Row) : List LogE :=
  if r.state = r'.state then [] else [{ path := r.path, old := some r.state, new := r'.state, via := some m }]

/-- guarded UPDATE `… WHERE path = p AND state IN src(m)`; returns the new ledger, the log entries
and whether a row was affected. -/
def updPath (m : Method) (p : String) (f : Row → Row) (l : List Row) : List Row × List LogE × Bool :=
  (l.map (fun r => if r.path = p then r.apply m f else r),
   l.flatMap (fun r => if r.path = p then logOf m r (r.apply m f) else []),
   l.any (fun r => r.path = p && decide (r.state ∈ m.src)))

/-- guarded UPDATE without a path predicate (`RecoverInFlight`). -/
def updAll (m : Method) (f : Row → Row) (l : List Row) : List Row × List LogE :=
  (l.map (fun r => r.apply m f), l.flatMap (fun r => logOf m r (r.apply m f)))

/-! ## hub: one object per (spoke, path) -/

structure HObj where
  final : Option Bytes := none            -- {spoke}/{path}
  sfull : Option Bytes := none            -- .sync-staging/{spoke}/{path}
  spart : Option Bytes := none            -- .sync-staging/{spoke}/{path}.part
  idx : Option (Bytes × Bool) := none     -- receipt: (sha256, compacted_at IS NOT NULL)
  promotes : Nat := 0                     -- ghost: how many times the receiver promoted into `final`
deriving Repr

abbrev Key := String × String
abbrev Hub := List (Key × HObj)

def Hub.get (h : Hub) (k : Key) : HObj := (h.lookup k).getD {}
def Hub.set (h : Hub) (k : Key) (o : HObj) : Hub := (k, o) :: h.filter (fun p => !(p.1 == k))

inductive PutRes
  | committed (n : Nat) | already (n : Nat) | part (n : Nat) | conflict | mismatch | backpressure | err
deriving Repr, DecidableEq

structure Req where
  sha : Bytes
  size : Nat
  off : Nat
  body : Bytes          -- bytes the body reader delivers …
  bodyErr : Bool        -- … before failing with a non-EOF error (source file vanished on the spoke)
  failRec : Bool        -- hub-side fault: the index write after promote fails
deriving Repr

def stagedLen (o : HObj) : Option Nat :=
  match o.spart with
  | some p => some p.length
  | none => o.sfull.map (·.length)

def compactedSha (o : HObj) : Option Bytes :=
  match o.idx with
  | some (s, true) => some s
  | _ => none

def prefixOf (o : HObj) (q : Req) : Bytes := if q.off > 0 then o.spart.getD [] else []
def takenOf (q : Req) : Bytes := q.body.take (q.size - q.off)
/-- what the staging file holds (and what the hasher has seen) once the body has been consumed. -/
def contentOf (o : HObj) (q : Req) : Bytes := prefixOf o q ++ takenOf q

/-- the whole file is staged: verify, promote, record. -/
def commitStaged (H : Bytes → Bytes) (o : HObj) (q : Req) : HObj × PutRes :=
  if H (contentOf o q) ≠ q.sha then ({ o with spart := none, sfull := none }, .mismatch)
  else if q.failRec then
    ({ o with final := some (contentOf o q), sfull := none, spart := none, promotes := o.promotes + 1 }, .err)
  else
    ({ o with final := some (contentOf o q), sfull := none, spart := none, promotes := o.promotes + 1,
              idx := some (q.sha, false) }, .committed q.size)

/-- `stage`: a short (or broken) body leaves the `.part`; a complete one goes on to verification. -/
def stageBody (H : Bytes → Bytes) (o : HObj) (q : Req) : HObj × PutRes :=
  if (takenOf q).length < q.size - q.off then
    ({ o with spart := some (contentOf o q) }, if q.bodyErr then .err else .part (q.off + (takenOf q).length))
  else commitStaged H o q

/-- the final path does not exist and no compacted receipt: resume checks, then staging. -/
def receiveAbsent (H : Bytes → Bytes) (o : HObj) (q : Req) : HObj × PutRes :=
  if q.off > 0 ∧ stagedLen o ≠ some q.off then
    (if (stagedLen o).getD 0 ≥ q.size then ({ o with sfull := none, spart := none }, .part 0)
     else (o, .part ((stagedLen o).getD 0)))
  else if q.off > 0 ∧ o.spart = none then (o, .err)
  else stageBody H o q

/-- `resolveExisting`. -/
def receiveExisting (H : Bytes → Bytes) (o : HObj) (q : Req) (b : Bytes) : HObj × PutRes :=
  if H b = q.sha then ({ o with idx := some (q.sha, false) }, .already b.length) else (o, .conflict)

/-- the compacted-receipt pre-check (#619). -/
def receiveCompacted (o : HObj) (q : Req) (s : Bytes) : HObj × PutRes :=
  if s = q.sha then (o, .already q.size) else (o, .conflict)

/-- `Receiver.Receive` over a LocalBackend (validation already passed: `off ≤ size`). -/
def receive (H : Bytes → Bytes) (o : HObj) (q : Req) : HObj × PutRes :=
  match compactedSha o with
  | some s => receiveCompacted o q s
  | none =>
    match o.final with
    | some b => receiveExisting H o q b
    | none => receiveAbsent H o q

inductive Cls | missing | present | conflict
deriving Repr, DecidableEq

/-- `confirmPresent` + `ForgetBatch`: a non-compacted receipt whose file is gone is forgotten. -/
def forgetStale (o : HObj) : HObj :=
  match o.idx, o.final with
  | some (_, false), none => { o with idx := none }
  | _, _ => o

def classify (o : HObj) (sha : Bytes) : Cls :=
  match o.idx with
  | none => .missing
  | some (s, _) => if s = sha then .present else .conflict

def reconcile (hub : Hub) (spoke : String) (es : List (String × Bytes)) : Hub × List (String × Cls) :=
  let hub' := es.foldl (fun h e => h.set (spoke, e.1) (forgetStale (h.get (spoke, e.1)))) hub
  (hub', es.map (fun e => (e.1, classify (hub'.get (spoke, e.1)) e.2)))

/-! ### hub-side environment -/

/-- foreign content appears at the final path (spoke-ID collision / operator), optionally indexed. -/
def hubPlant (H : Bytes → Bytes) (o : HObj) (b : Bytes) (indexed : Bool) : HObj :=
  { o with final := some b, idx := if indexed then some (H b, false) else o.idx }
/-- genuine removal (retention, rm): the index is not told. -/
def hubDelete (o : HObj) : HObj := { o with final := none }
/-- hub compaction consumed the file: `MarkCompacted` (an UPDATE) then the source deletion (which may fail). -/
def hubCompact (o : HObj) (del : Bool) : HObj :=
  { o with idx := o.idx.map (fun p => (p.1, true)), final := if del then none else o.final }
/-- the second step of hub compaction, possibly much later (retry after a failed deletion): the source
file is removed; its content lives on in the compacted output. -/
def hubCompactDelete (o : HObj) : HObj := { o with final := none }
def hubSweep (o : HObj) : HObj := { o with sfull := none, spart := none }

/-! ## spoke -/

structure SFile where
  path : String
  pt : Nat
  bytes : Bytes
deriving Repr

structure Spoke where
  files : List SFile := []
  ledger : List Row := []
  nextId : Nat := 1
  log : List LogE := []
deriving Repr

def Spoke.file? (sp : Spoke) (p : String) : Option SFile := sp.files.find? (fun f => f.path == p)

inductive FK
  | none | dropBefore | hubErr | backpressure | short (k : Nat) | corrupt (i : Nat)
  | shortCorrupt (k i : Nat) | recFail | fakeConflict
deriving Repr, DecidableEq

structure Fault where
  kind : FK := .none
  lostAck : Bool := false
deriving Repr

def flipAt : Bytes → Nat → Bytes
  | [], _ => []
  | b :: bs, 0 => (b ^^^ 0xff) :: bs
  | b :: bs, i + 1 => b :: flipAt bs i

def mangle (k : FK) (tail : Bytes) : Bytes :=
  match k with
  | .short n => tail.take n
  | .corrupt i => flipAt tail i
  | .shortCorrupt n i => (flipAt tail i).take n
  | _ => tail

structure Cnt where
  recovered : Nat := 0
  discovered : Nat := 0
  present : Nat := 0
  sent : Nat := 0
  bytes : Int := 0
  partialN : Nat := 0
  failed : Nat := 0
  skipped : Nat := 0
  conflicts : Nat := 0
deriving Repr

structure RunSt where
  sp : Spoke
  hub : Hub
  alive : Bool := true
  crashIn : Option Nat := none      -- steps left before the crash
  faults : List Fault := []
  err : Bool := false
  cnt : Cnt := {}
  acks : List String := []          -- ghost: paths for which a hub acknowledgment reached the agent
deriving Repr

/-- One step boundary (a ledger mutation or a transport call). Returns whether the step happens. -/
def tick (s : RunSt) : RunSt × Bool :=
  if !s.alive then (s, false) else
  match s.crashIn with
  | some 0 => ({ s with alive := false }, false)
  | some (n + 1) => ({ s with crashIn := some n }, true)
  | none => (s, true)

def popFault (s : RunSt) : Fault × RunSt :=
  match s.faults with
  | [] => ({}, s)
  | f :: fs => (f, { s with faults := fs })

/-- a guarded ledger UPDATE on one path, as one crashable step. -/
def ledgerStep (m : Method) (p : String) (f : Row → Row) (s : RunSt) : RunSt × Bool :=
  let (s, ok) := tick s
  if !ok then (s, false) else
  let (l, lg, hit) := updPath m p f s.sp.ledger
  ({ s with sp := { s.sp with ledger := l, log := s.sp.log ++ lg } }, hit)

structure Cfg where
  maxAttempts : Nat := 5
  batch : Nat := 0      -- AgentConfig.BatchSize
  cap : Nat := 0        -- hub's reconcile entry cap (0 = default, never reached here)
deriving Repr

/-! the row rewrites of the guarded UPDATEs -/
def rfInFlight (r : Row) : Row := { r with state := .inFlight, attempts := r.attempts + 1 }
def rfSynced (r : Row) : Row := { r with state := .synced, sent := r.size }
/-- `state = CASE WHEN attempts >= cap THEN 'failed' ELSE 'pending' END` -/
def rfFailed (cap : Nat) (r : Row) : Row := { r with state := if r.attempts ≥ cap then .failed else .pending }
def rfConflicted (r : Row) : Row := { r with state := .failed }
def rfSkipped (r : Row) : Row := { r with state := .skipped }
def rfProgress (n : Nat) (r : Row) : Row := { r with sent := min n r.size }
def rfRecover (r : Row) : Row := { r with state := .pending }

def markInFlight (p : String) := ledgerStep .markInFlight p rfInFlight
def markSynced (p : String) := ledgerStep .markSynced p rfSynced
def markFailed (cap : Nat) (p : String) := ledgerStep .markFailed p (rfFailed cap)
def markConflicted (p : String) := ledgerStep .markConflicted p rfConflicted
def markSkipped (p : String) := ledgerStep .markSkipped p rfSkipped
def recordProgress (n : Nat) (p : String) := ledgerStep .recordProgress p (rfProgress n)

/-- `transport.PutFile` through the loop-back transport with the call's scripted fault. -/
def putFile (H : Bytes → Bytes) (sid : String) (r : Row) (off : Nat) (s : RunSt) : RunSt × PutRes :=
  let (s, ok) := tick s
  if !ok then (s, .err) else
  let (f, s) := popFault s
  match f.kind with
  | .dropBefore => (s, .err)
  | .hubErr => (s, .err)
  | .backpressure => (s, if f.lostAck then .err else .backpressure)
  | .fakeConflict => (s, if f.lostAck then .err else .conflict)
  | k =>
    let file := s.sp.file? r.path
    let tail := match file with
      | some fl => mangle k (fl.bytes.drop off)
      | none => []
    let q : Req := { sha := r.sha, size := r.size, off := off, body := tail,
                     bodyErr := file.isNone, failRec := k == .recFail }
    let (o, res) := receive H (s.hub.get (sid, r.path)) q
    let s := { s with hub := s.hub.set (sid, r.path) o }
    if f.lostAck then (s, .err) else (s, res)

def bump (s : RunSt) (f : Cnt → Cnt) : RunSt := { s with cnt := f s.cnt }

/-- `Agent.sendOne` for the page snapshot `r` of a row. -/
def sendOne (H : Bytes → Bytes) (cfg : Cfg) (sid : String) (r : Row) (s : RunSt) : RunSt :=
  let (s, ok) := markInFlight r.path s
  if !ok then bump s (fun c => { c with failed := c.failed + 1 }) else
  let off := r.sent
  let (s, res) := putFile H sid r off s
  match res with
  | .err =>
    if (s.sp.file? r.path).isNone then
      let (s, ok) := markSkipped r.path s
      if ok then bump s (fun c => { c with skipped := c.skipped + 1 }) else
      let (s, _) := markFailed cfg.maxAttempts r.path s
      bump s (fun c => { c with failed := c.failed + 1 })
    else
      let (s, _) := markFailed cfg.maxAttempts r.path s
      bump s (fun c => { c with failed := c.failed + 1 })
  | .committed n =>
    let s := { s with acks := r.path :: s.acks }
    let (s, ok) := markSynced r.path s
    if ok then bump s (fun c => { c with sent := c.sent + 1, bytes := c.bytes + ((n : Int) - off) })
    else bump s (fun c => { c with failed := c.failed + 1 })
  | .already _ =>
    let s := { s with acks := r.path :: s.acks }
    let (s, ok) := markSynced r.path s
    if ok then bump s (fun c => { c with sent := c.sent + 1 })
    else bump s (fun c => { c with failed := c.failed + 1 })
  | .part n =>
    let (s, _) := recordProgress n r.path s
    let (s, _) := markFailed cfg.maxAttempts r.path s
    bump s (fun c => { c with partialN := c.partialN + 1, bytes := c.bytes + ((n : Int) - off) })
  | .conflict =>
    let (s, _) := markFailed 1 r.path s
    s
  | .mismatch =>
    let (s, _) := markFailed cfg.maxAttempts r.path s
    s
  | .backpressure =>
    let (s, _) := markFailed cfg.maxAttempts r.path s
    s

inductive RecRes | ok (cls : List (String × Cls)) | tooLarge (m : Nat) | error
deriving Repr

def doReconcile (cfg : Cfg) (sid : String) (page : List Row) (s : RunSt) : RunSt × RecRes :=
  let (s, ok) := tick s
  if !ok then (s, .error) else
  let (f, s) := popFault s
  match f.kind with
  | .dropBefore => (s, .error)
  | .hubErr => (s, .error)
  | _ =>
    if cfg.cap > 0 ∧ page.length > cfg.cap then
      (s, if f.lostAck then .error else .tooLarge cfg.cap)
    else
      let (hub', cls) := reconcile s.hub sid (page.map (fun r => (r.path, r.sha)))
      let s := { s with hub := hub' }
      if f.lostAck then (s, .error) else (s, .ok cls)

def pathsOf (c : Cls) (cls : List (String × Cls)) : List String :=
  (cls.filter (fun p => p.2 == c)).map (·.1)

/-- `Agent.reconcileAndSend`. -/
def reconcileAndSend (H : Bytes → Bytes) (cfg : Cfg) (sid : String) (page : List Row) (s : RunSt) : RunSt × RecRes :=
  let (s, rr) := doReconcile cfg sid page s
  match rr with
  | .ok cls =>
    let s := { s with acks := pathsOf .present cls ++ s.acks }
    let s := (pathsOf .present cls).foldl (fun s p =>
      let (s, ok) := markSynced p s
      if ok then bump s (fun c => { c with present := c.present + 1 }) else s) s
    let s := (pathsOf .conflict cls).foldl (fun s p =>
      (markConflicted p (bump s (fun c => { c with conflicts := c.conflicts + 1 }))).1) s
    let missing := page.filter (fun r => (pathsOf .missing cls).contains r.path)
    (missing.foldl (fun s r => sendOne H cfg sid r s) s, rr)
  | _ => (s, rr)

def chunks (n : Nat) (l : List α) : List (List α) :=
  if _h : n = 0 ∨ l.length ≤ n then [l] else
    l.take n :: chunks n (l.drop n)
termination_by l.length
decreasing_by simp [List.length_drop]; omega

/-- `Agent.runBatch`: reconcile a page, splitting it when the hub refuses it as too large. -/
def runBatch (H : Bytes → Bytes) (cfg : Cfg) (sid : String) : Nat → List (List Row) → RunSt → RunSt
  | 0, _, s => s
  | _, [], s => s
  | fuel + 1, page :: rest, s =>
    let (s, rr) := reconcileAndSend H cfg sid page s
    match rr with
    | .ok _ => runBatch H cfg sid fuel rest s
    | .error => { s with err := true }
    | .tooLarge m =>
      if page.length ≤ 1 then { s with err := true } else
      let size := if m = 0 ∨ m ≥ page.length then page.length / 2 else m
      runBatch H cfg sid fuel (rest ++ chunks size page) s

def rowLe (a b : Row) : Bool := a.pt > b.pt || (a.pt == b.pt && a.id ≤ b.id)

/-- insertion sort (structural, so that closed examples reduce). -/
def insertBy (le : α → α → Bool) (x : α) : List α → List α
  | [] => [x]
  | y :: ys => if le x y then x :: y :: ys else y :: insertBy le x ys

def isort (le : α → α → Bool) : List α → List α
  | [] => []
  | x :: xs => insertBy le x (isort le xs)

def pendingPage (l : List Row) (batch : Nat) (cursor : Option (Nat × Nat)) : List Row :=
  let xs := isort rowLe (l.filter (fun r => r.state == .pending))
  let xs := match cursor with
    | none => xs
    | some (cpt, cid) => xs.filter (fun r => r.pt < cpt || (r.pt == cpt && r.id > cid))
  if batch > 0 then xs.take batch else xs

def pagesLoop (H : Bytes → Bytes) (cfg : Cfg) (sid : String) : Nat → Option (Nat × Nat) → RunSt → RunSt
  | 0, _, s => s
  | fuel + 1, cursor, s =>
    if !s.alive then { s with err := true } else
    let page := pendingPage s.sp.ledger cfg.batch cursor
    match page.getLast? with
    | none => s
    | some last =>
      let s := runBatch H cfg sid (2 * page.length + 2) [page] s
      if s.err then s else
      if cfg.batch = 0 then s else pagesLoop H cfg sid fuel (some (last.pt, last.id)) s

def pathLe (a b : SFile) : Bool := !(decide (b.path < a.path))

/-- `Discoverer.Discover` + `TrackBatch`. -/
def discover (H : Bytes → Bytes) (s : RunSt) : RunSt :=
  if !s.alive then { s with err := true } else
  let fresh := isort pathLe (s.sp.files.filter (fun f => !(s.sp.ledger.any (fun r => r.path == f.path))))
  if fresh.isEmpty then s else
  let (s, ok) := tick s
  if !ok then { s with err := true } else
  let rows := fresh.zipIdx.map (fun (f, i) =>
    ({ id := s.sp.nextId + i, path := f.path, sha := H f.bytes, size := f.bytes.length, pt := f.pt,
       state := .pending, attempts := 0, sent := 0 } : Row))
  let lg := rows.map (fun r => ({ path := r.path, old := none, new := .pending, via := none } : LogE))
  { s with sp := { s.sp with ledger := s.sp.ledger ++ rows, nextId := s.sp.nextId + rows.length,
                             log := s.sp.log ++ lg },
           cnt := { s.cnt with discovered := rows.length } }

/-- `RecoverInFlight`. -/
def recover (s : RunSt) : RunSt :=
  let (s, ok) := tick s
  if !ok then { s with err := true } else
  let n := (s.sp.ledger.filter (fun r => r.state == .inFlight)).length
  let (l, lg) := updAll .recoverInFlight rfRecover s.sp.ledger
  { s with sp := { s.sp with ledger := l, log := s.sp.log ++ lg }, cnt := { s.cnt with recovered := n } }

/-- `Agent.Run`. -/
def runAgent (H : Bytes → Bytes) (cfg : Cfg) (sid : String) (sp : Spoke) (hub : Hub)
    (crashAt : Option Nat) (faults : List Fault) : RunSt :=
  let s : RunSt := { sp := sp, hub := hub, crashIn := crashAt, faults := faults }
  let s := recover s
  if s.err then s else
  let s := discover H s
  if s.err then s else
  pagesLoop H cfg sid (s.sp.ledger.length + 1) none s

end Arc.C27
