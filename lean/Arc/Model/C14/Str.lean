import Arc.Model.C14
/-!
# C14 — model, part 2: byte-level transcriptions (executable; what `drive_c14` runs)

* `maskLits`      = `sqlutil.MaskStringLiterals` (quirks included: backslash before a quote continues a
                    plain literal, `$tag$`, `E'…'`, de-duplicated identifier placeholders)
* `stripComments` = `stripSQLComments` (non-nesting)
* `strFindAll`    = RE2 leftmost-first matching of the five reference regexes, hand-compiled
* `validate`      = `ValidateSQLRequest`
* `strWorld`      = the `World` both consumers of part 1 run in

Scope (what the harness diffs): ASCII statements without EXTRACT/SUBSTRING/TRIM/OVERLAY (so that
`MaskFromKeywordsInFunctionBodies` is the identity) — see go/harness/c14/main.go `inScope`.
-/
namespace Arc.C14

def isSpaceRe (c : Char) : Bool := c == ' ' || c == '\t' || c == '\n' || c == '\r' || c == '\x0c'
def isDigitC (c : Char) : Bool := c.isDigit
def natChars (n : Nat) : Str := (toString n).toList

/-! ## MaskStringLiterals -/

/-- body of a quoted token after its opening quote: (consumed incl. closing quote, remaining).
A doubled quote is an escape; a backslash escapes the NEXT byte only when `esc` (E'…' strings, `scanQuoted`);
plain '…' literals and "…" identifiers end at the first undoubled quote (8f4fe38). -/
def scanQ (q : Char) (esc : Bool) : Nat → Str → Str × Str
  | 0, s => ([], s)
  | _, [] => ([], [])
  | n + 1, c :: cs =>
    if esc && c == '\\' then
      match cs with
      | d :: ds =>
        let (a, b) := scanQ q esc n ds
        (c :: d :: a, b)
      | [] => ([c], [])
    else if c == q then
      match cs with
      | d :: ds =>
        if d == q then
          let (a, b) := scanQ q esc n ds
          (c :: d :: a, b)
        else ([c], cs)
      | [] => ([c], [])
    else
      let (a, b) := scanQ q esc n cs
      (c :: a, b)

/-- `dollarQuoteTag` on the text after the `$` -/
def dollarTag : Bool → Str → Str → Option Str
  | _, _, [] => none
  | first, acc, c :: cs =>
    if c == '$' then some acc.reverse
    else if c.isAlpha || c == '_' || c.toNat ≥ 128 || (c.isDigit && !first) then dollarTag false (c :: acc) cs
    else none

/-- split at the first occurrence of `needle`: (before, after) -/
def splitAt? (needle : Str) : Str → Str → Option (Str × Str)
  | _, [] => if needle.isEmpty then some ([], []) else none
  | acc, c :: cs =>
    if needle.isPrefixOf (c :: cs) then some (acc.reverse, (c :: cs).drop needle.length)
    else splitAt? needle (c :: acc) cs

structure Mask where
  ph : Str
  orig : Str
  ident : Bool
deriving Repr

structure MaskSt where
  out : Str := []          -- reversed
  masks : List Mask := []  -- reversed
  idx : Nat := 0

def strPh (i : Nat) : Str := "__STR_".toList ++ natChars i ++ "__".toList
def identPh (i : Nat) : Str := "__IDENT_".toList ++ natChars i ++ "__".toList

def MaskSt.pushStr (st : MaskSt) (orig : Str) : MaskSt :=
  let ph := strPh st.idx
  { out := ph.reverse ++ st.out, masks := ⟨ph, orig, false⟩ :: st.masks, idx := st.idx + 1 }

def MaskSt.pushIdent (st : MaskSt) (orig : Str) : MaskSt :=
  match st.masks.find? (fun m => m.ident && m.orig == orig) with
  | some m => { st with out := m.ph.reverse ++ st.out }
  | none =>
    let ph := identPh st.idx
    { out := ph.reverse ++ st.out, masks := ⟨ph, orig, true⟩ :: st.masks, idx := st.idx + 1 }

def lastOr (d : Char) (s : Str) : Char := s.getLast?.getD d

/-- the rest of a (nesting) block comment after its opener: (body incl. the closing `*/`, remaining) -/
def blockComment : Nat → Nat → Str → Str × Str
  | 0, _, s => ([], s)
  | _, _, [] => ([], [])
  | n + 1, depth, c :: cs =>
    if c == '/' && headIs '*' cs then
      let (a, b) := blockComment n (depth + 1) (cs.drop 1)
      (c :: '*' :: a, b)
    else if c == '*' && headIs '/' cs then
      if depth ≤ 1 then (['*', '/'], cs.drop 1)
      else
        let (a, b) := blockComment n (depth - 1) (cs.drop 1)
        (c :: '/' :: a, b)
    else
      let (a, b) := blockComment n depth cs
      (c :: a, b)

def maskLoop : Nat → Char → Str → MaskSt → MaskSt
  | 0, _, _, st => st
  | _, _, [], st => st
  | n + 1, prev, c :: cs, st =>
    let tagged : Option Str := if c == '$' && !(isWordC prev) then dollarTag true [] cs else none
    match tagged with
    | some tag =>
      let closing := '$' :: tag ++ ['$']
      let body := cs.drop (tag.length + 1)
      match splitAt? closing [] body with
      | some (inner, after) =>
        let orig := closing ++ inner ++ closing
        maskLoop n (lastOr prev orig) after (st.pushStr orig)
      | none => st.pushStr (c :: cs)
    | none =>
      if (c == 'e' || c == 'E') && headIs '\'' cs && !(isWordC prev) then
        let (body, after) := scanQ '\'' true (cs.length + 1) (cs.drop 1)
        let orig := c :: '\'' :: body
        maskLoop n (lastOr prev orig) after (st.pushStr orig)
      else if c == '-' && headIs '-' cs then
        -- comments are copied through verbatim (64dff5c): a quote inside a comment opens nothing
        -- … up to a line feed OR a carriage return (17363b5)
        let body := (c :: cs).takeWhile (fun x => x != '\n' && x != '\r')
        maskLoop n (lastOr prev body) ((c :: cs).dropWhile (fun x => x != '\n' && x != '\r')) { st with out := body.reverse ++ st.out }
      else if c == '/' && headIs '*' cs then
        let (body, after) := blockComment (cs.length + 1) 1 (cs.drop 1)
        let whole := c :: '*' :: body
        maskLoop n (lastOr prev whole) after { st with out := whole.reverse ++ st.out }
      else if c == '\'' then
        let (body, after) := scanQ '\'' false (cs.length + 1) cs
        let orig := c :: body
        maskLoop n (lastOr prev orig) after (st.pushStr orig)
      else if c == '"' then
        let (body, after) := scanQ '"' false (cs.length + 1) cs
        let orig := c :: body
        maskLoop n (lastOr prev orig) after (st.pushIdent orig)
      else maskLoop n c cs { st with out := c :: st.out }

def maskLits (s : Str) : Str × List Mask :=
  let st := maskLoop (s.length + 1) '\x00' s {}
  (st.out.reverse, st.masks.reverse)

def replaceAll (needle rep : Str) : Nat → Str → Str
  | 0, s => s
  | _, [] => []
  | n + 1, c :: cs =>
    if !needle.isEmpty && needle.isPrefixOf (c :: cs) then rep ++ replaceAll needle rep n ((c :: cs).drop needle.length)
    else c :: replaceAll needle rep n cs

/-- `sqlutil.IdentifierNames` -/
def identNames (ms : List Mask) : Idents :=
  (ms.filter (·.ident)).map fun m =>
    let o := m.orig
    let inner := if o.length ≥ 2 && o.head? == some '"' && o.getLast? == some '"' then (o.drop 1).dropLast else o
    (m.ph, replaceAll "\"\"".toList "\"".toList (inner.length + 1) inner)

/-! ## stripSQLComments -/

def stripLoop : Nat → Str → Str
  | 0, s => s
  | _, [] => []
  | n + 1, c :: cs =>
    if c == '-' && headIs '-' cs then
      match (cs.drop 1).dropWhile (· != '\n') with
      | [] => []
      | _ :: r => '\n' :: stripLoop n r
    else if c == '/' && headIs '*' cs then
      match splitAt? "*/".toList [] (cs.drop 1) with
      | some (_, after) => ' ' :: stripLoop n after   -- 168cceb: no byte is swallowed after a closed comment
      | none => [' ']
    else c :: stripLoop n cs

def stripComments (s : Str) : Str := stripLoop (s.length + 1) s

/-- the permission-side / rewrite-side normalisation (MaskFromKeywordsInFunctionBodies = id in scope) -/
def strNorm (s : Str) : Norm :=
  let (t, ms) := maskLits s
  { text := stripComments t, idents := identNames ms }

/-! ## the five regexes (RE2, leftmost-first, `(?i)`) -/

def lowerAsciiC (c : Char) : Char := c.toLower

/-- case-insensitive literal prefix; returns the remainder -/
def eatLit (lit : Str) (s : Str) : Option Str :=
  if lit.length ≤ s.length && (s.take lit.length).map lowerAsciiC == lit then some (s.drop lit.length) else none

/-- `\s+` -/
def eatSpaces1 (s : Str) : Option Str :=
  match s with
  | c :: _ => if isSpaceRe c then some (s.dropWhile isSpaceRe) else none
  | [] => none

/-- keyword followed by `\s+` (the keyword must end at a non-word byte because `\s` follows) -/
def eatKw (kw : Str) (s : Str) : Option Str := (eatLit kw s).bind eatSpaces1

def wordRun (s : Str) : Str × Str := (s.takeWhile isWordC, s.dropWhile isWordC)

/-- `([a-zA-Z0-9_]+)\.([a-zA-Z0-9_]+)\b` -/
def capDotted (s : Str) : Option (Match × Str) :=
  let (a, r) := wordRun s
  if a.isEmpty then none else
  match r with
  | '.' :: r2 =>
    let (b, r3) := wordRun r2
    if b.isEmpty then none else some (⟨a, b, r3⟩, r3)
  | _ => none

/-- `([a-zA-Z_][a-zA-Z0-9_]*)\b` -/
def capSimple (s : Str) : Option (Match × Str) :=
  match s with
  | c :: _ =>
    if c.isAlpha || c == '_' then
      let (a, r) := wordRun s
      some (⟨a, [], r⟩, r)
    else none
  | [] => none

def joinMods : List Str :=
  ["left", "right", "full", "inner", "outer", "cross", "natural", "semi", "anti", "asof", "positional"].map String.toList

/-- `(?:(?:LEFT|…)\s+)*` (greedy; giving a modifier back can never help) -/
def eatMods : Nat → Str → Str
  | 0, s => s
  | n + 1, s =>
    match joinMods.findSome? (fun m => eatKw m s) with
    | some r => eatMods n r
    | none => s

/-- the join prefix `…(?:LATERAL\s+)?JOIN\s+` then `(?:LATERAL\s+)?` with backtracking, then the capture -/
def joinAt (cap : Str → Option (Match × Str)) (s : Str) : Option (Match × Str) :=
  let s1 := eatMods (s.length + 1) s
  let afterJoin : Option Str :=
    match (eatKw "lateral".toList s1).bind (eatKw "join".toList) with
    | some r => some r
    | none => eatKw "join".toList s1
  match afterJoin with
  | none => none
  | some r =>
    match (eatKw "lateral".toList r).bind cap with
    | some x => some x
    | none => cap r

def fromAt (cap : Str → Option (Match × Str)) (s : Str) : Option (Match × Str) :=
  (eatKw "from".toList s).bind cap

def eatSpaces0 (s : Str) : Str := s.dropWhile isSpaceRe

/-- `(?:\s*\([^)]*\))?\s+AS\s*\(` -/
def cteTail (s : Str) : Option Str :=
  let asPart (t : Str) : Option Str :=
    (eatSpaces1 t).bind fun t1 => (eatLit "as".toList t1).bind fun t2 =>
      match eatSpaces0 t2 with
      | '(' :: r => some r
      | _ => none
  let withCols : Option Str :=
    match eatSpaces0 s with
    | '(' :: r =>
      match r.dropWhile (· != ')') with
      | ')' :: r2 => asPart r2
      | _ => none
    | _ => none
  match withCols with
  | some r => some r
  | none => asPart s

def cteName (s : Str) : Option (Str × Str) :=
  let (a, r) := wordRun s
  if a.isEmpty then none else (cteTail r).map fun r2 => (a, r2)

/-- alternative 1 (`\bWITH\s+(?:RECURSIVE\s+)?(\w+)…`), tried at a word start -/
def cteWithAt (s : Str) : Option (Match × Str) :=
  match eatKw "with".toList s with
  | none => none
  | some r =>
    match (eatKw "recursive".toList r).bind cteName with
    | some (a, r2) => some (⟨a, [], r2⟩, r2)
    | none => (cteName r).map fun (a, r2) => (⟨a, [], r2⟩, r2)

/-- alternative 2 (`,\s*(\w+)…`) -/
def cteCommaAt (s : Str) : Option (Match × Str) :=
  match s with
  | ',' :: r => (cteName (eatSpaces0 r)).map fun (a, r2) => (⟨[], a, r2⟩, r2)
  | _ => none

/-- FindAll: leftmost, non-overlapping. `tryAt wordStart s`. Each match comes with the length of the text
that was still ahead at its start (so that start offset = total length - that). -/
def findAllLoopS (tryAt : Bool → Str → Option (Match × Str)) : Nat → Char → Str → List (Nat × Match)
  | 0, _, _ => []
  | _, _, [] => []
  | n + 1, prev, c :: cs =>
    let ws := !(isWordC prev) && isWordC c
    match tryAt ws (c :: cs) with
    | some (m, after) =>
      if after.length < (c :: cs).length then
        let consumed := (c :: cs).take ((c :: cs).length - after.length)
        ((c :: cs).length, m) :: findAllLoopS tryAt n (lastOr c consumed) after
      else ((c :: cs).length, m) :: findAllLoopS tryAt n c cs
    | none => findAllLoopS tryAt n c cs

def findAllLoop (tryAt : Bool → Str → Option (Match × Str)) (n : Nat) (prev : Char) (s : Str) : List Match :=
  (findAllLoopS tryAt n prev s).map (·.2)

/-- `patternSimpleTable.FindAllStringIndex`: start offsets -/
def strSimpleStarts (t : Str) : List Nat :=
  (findAllLoopS (fun ws s => if ws then fromAt capSimple s else none) (t.length + 1) '\x00' t).map (fun x => t.length - x.1)

def strFindAll (p : Pat) (t : Str) : List Match :=
  let go (f : Bool → Str → Option (Match × Str)) := findAllLoop f (t.length + 1) '\x00' t
  match p with
  | .dbTable => go fun ws s => if ws then fromAt capDotted s else none
  | .simple => go fun ws s => if ws then fromAt capSimple s else none
  | .joinDbTable => go fun ws s => if ws then joinAt capDotted s else none
  | .joinSimple => go fun ws s => if ws then joinAt capSimple s else none
  | .cte => go fun ws s =>
      match (if ws then cteWithAt s else none) with
      | some x => some x
      | none => cteCommaAt s

/-- replace every identifier placeholder whose unquoted name is a non-empty run of word bytes by that name -/
def exposeIdents (I : Idents) (t : Str) : Str :=
  I.foldl (fun acc (ph, name) =>
    if !name.isEmpty && name.all isWordC then replaceAll ph name (acc.length + 1) acc else acc) t

/-- `(?i)\bread_parquet\s*\(` on `ioDenylistNormalise(sql)` -/
def strRpCall (s : Str) : Bool :=
  let maskInput := s.map (fun c => if c == '`' then '"' else c)
  let (mt, ms) := maskLits maskInput
  let ioN := stripComments (exposeIdents (identNames ms) mt)
  rpAt '\x00' ioN
where
  rpAt : Char → Str → Bool
    | _, [] => false
    | prev, c :: cs =>
      (!(isWordC prev) &&
        (match eatLit "read_parquet".toList (c :: cs) with
         | some r => headIs '(' (r.dropWhile isSpaceRe)
         | none => false))
      || rpAt c cs

/-- the executable world. `splice` is never inspected by the permission side; the rewrite side of the
string level is only used on the header fast path (see Props), so it is the identity here. -/
def strWorld : World :=
  { findAll := strFindAll, splice := fun _ t _ => t, normP := strNorm, prepass := id, lower := lowerAscii,
    simpleStarts := strSimpleStarts, rpCall := strRpCall }

/-! ## ValidateSQLRequest -/

inductive Verdict | ok | empty | toolong | multi | danger | io | strtab | identtab
deriving DecidableEq, Repr

/-- tokens of the dangerous-pattern / denylist scans: words, RE2-space runs, single other bytes -/
inductive WTok | w (s : Str) | sp | o (c : Char)
deriving DecidableEq, Repr

def wtoks : Nat → Str → List WTok
  | 0, _ => []
  | _, [] => []
  | n + 1, c :: cs =>
    if isWordC c then .w ((c :: cs).takeWhile isWordC) :: wtoks n ((c :: cs).dropWhile isWordC)
    else if isSpaceRe c then .sp :: wtoks n ((c :: cs).dropWhile isSpaceRe)
    else .o c :: wtoks n cs

def isW (x : String) : WTok → Bool
  | .w s => lowerAscii s == x.toList
  | _ => false

def dangerSingles : List String := ["attach", "detach", "copy", "pragma", "set", "reset", "load", "install", "call"]
def dangerPairs : List (String × List String) :=
  [("drop", ["table", "database", "index", "view"]), ("delete", ["from"]), ("truncate", ["table"]), ("alter", ["table"]),
   ("create", ["table", "database", "index"]), ("insert", ["into"]), ("export", ["database"]), ("import", ["database"])]

def secretAhead : List WTok → Bool
  | [] => false
  | .o ';' :: _ => false
  | t :: r => isW "secret" t || secretAhead r

def dangerous : List WTok → Bool
  | [] => false
  | t :: r =>
    dangerSingles.any (fun k => isW k t)
    || (match r with
        | .sp :: t2 :: r2 =>
          dangerPairs.any (fun (a, bs) => isW a t && bs.any (fun b => isW b t2))
          || (isW "update" t && (match t2, r2 with
                | .w _, .sp :: t3 :: _ => isW "set" t3
                | _, _ => false))
        | _ => false)
    || ((isW "create" t || isW "drop" t) && secretAhead r)
    || dangerous r

/-- `(?:\s|[^\x00-\x7F])*\(` after the name (c63798f) -/
def parenAfterBlanks : List WTok → Bool
  | .o c :: r => c == '(' || (c.toNat ≥ 128 && parenAfterBlanks r)
  | .sp :: r => parenAfterBlanks r
  | _ => false

def deniedCall : List WTok → Bool
  | [] => false
  | .w s :: r => (denylist.contains (lowerAscii s) && parenAfterBlanks r) || deniedCall r
  | _ :: r => deniedCall r

/-- `__(?:STR|IDENT)_\d+__` at the head: the placeholder text -/
def phAt (s : Str) : Option Str :=
  let go (pre : Str) : Option Str :=
    (eatLitCS pre s).bind fun r =>
      let ds := r.takeWhile isDigitC
      if ds.isEmpty then none else
      match r.dropWhile isDigitC with
      | '_' :: '_' :: _ => some (pre ++ ds ++ "__".toList)
      | _ => none
  match go "__STR_".toList with
  | some x => some x
  | none => go "__IDENT_".toList
where
  eatLitCS (lit : Str) (s : Str) : Option Str :=
    if lit.isPrefixOf s then some (s.drop lit.length) else none

/-- flush a word run as the tokenizer sees it: `[A-Za-z_][A-Za-z0-9_]*` from the first non-digit -/
def flushWord (w : Str) (acc : List Str) : List Str :=
  let w' := w.reverse.dropWhile isDigitC
  if w'.isEmpty then acc else w' :: acc

/-- tokens of `maskedTokenInTablePosition` (placeholders isolated first); reversed accumulator -/
def tpToks : Nat → Str → Str → List Str → List Str
  | 0, _, w, acc => (flushWord w acc).reverse
  | _, [], w, acc => (flushWord w acc).reverse
  | n + 1, c :: cs, w, acc =>
    match phAt (c :: cs) with
    | some ph => tpToks n ((c :: cs).drop ph.length) [] (ph :: flushWord w acc)
    | none =>
      if isWordC c then tpToks n cs (c :: w) acc
      else if c == '(' || c == ')' || c == ',' then tpToks n cs [] ([c] :: flushWord w acc)
      else tpToks n cs [] (flushWord w acc)

/-- `maskedTokenInTablePosition`: armed flags by depth (head = current), after-FROM/JOIN flag, previous token
(lower-cased; "" at the start); returns the FIRST flagged placeholder in table position -/
def tablePosGo (flag : Str → Bool) : List Str → List Bool → Bool → Str → Option Str
  | [], _, _, _ => none
  | tok :: r, armed, after, prev =>
    let lt := lowerAscii tok
    if tok == ['('] then tablePosGo flag r (false :: armed) false lt
    else if tok == [')'] then
      (match armed with
       | _ :: b :: bs => tablePosGo flag r (b :: bs) false lt
       | a => tablePosGo flag r a false lt)
    else if tok == [','] then tablePosGo flag r armed (armed.headD false) lt
    else if "__STR_".toList.isPrefixOf tok || "__IDENT_".toList.isPrefixOf tok then
      if after && flag tok then some tok else tablePosGo flag r armed false lt
    else
      if armsLikeFrom prev lt then tablePosGo flag r (true :: armed.tail) true lt
      else if terminators.contains lt then tablePosGo flag r (false :: armed.tail) false lt
      else tablePosGo flag r armed false lt

def tablePosFirst (flag : Str → Bool) (toks : List Str) (armed : List Bool) (after : Bool) : Option Str :=
  tablePosGo flag toks armed after []

def tablePos (flag : Str → Bool) (toks : List Str) (armed : List Bool) (after : Bool) : Bool :=
  (tablePosFirst flag toks armed after).isSome

def trimRightSet (set : Str) (s : Str) : Str := (s.reverse.dropWhile (fun c => set.contains c)).reverse

def isGoSpace (c : Char) : Bool := c == ' ' || c == '\t' || c == '\n' || c == '\x0b' || c == '\x0c' || c == '\r'

def validate (s : Str) : Verdict :=
  if s.all isGoSpace then .empty
  else if s.length > 10000 then .toolong
  else
    let maskInput := s.map (fun c => if c == '`' then '"' else c)
    let (mt, ms) := maskLits maskInput
    let normalised := stripComments mt
    if (trimRightSet " \t\n\r;".toList normalised).contains ';' then .multi
    else if dangerous (wtoks (normalised.length + 1) normalised) then .danger
    else
      -- ioDenylistNormalise (e3b9b4d): mask first, then put back the quoted names that are plain identifiers
      let ioN := stripComments (exposeIdents (identNames ms) mt)
      if deniedCall (wtoks (ioN.length + 1) ioN) then .io
      else if tablePos (fun t => "__STR_".toList.isPrefixOf t) (tpToks (ioN.length + 1) ioN [] []) [false] false then .strtab
      else
        let I := identNames ms
        -- the scan stops at the first flagged token; the request is rejected only when the offending
        -- NAME is non-empty (`""` in table position slips through: `if name != ""`)
        let first := if I.isEmpty then none else
          tablePosFirst (fun t => "__IDENT_".toList.isPrefixOf t &&
              (match I.lookup t with
               | some name => !validName name
               | none => true)) (tpToks (normalised.length + 1) normalised [] []) [false] false
        match first with
        | some t => if ((I.lookup t).getD t).isEmpty then .ok else .identtab
        | none => .ok

/-! ## header rules -/

def headerOK (h : Str) : Bool := h.isEmpty || validName h

/-- `hasCrossDatabaseSyntax` -/
def crossAt (kw : Str) : Nat → Char → Str → Bool
  | 0, _, _ => false
  | _, _, [] => false
  | n + 1, prev, c :: cs =>
    (kw.isPrefixOf (c :: cs) && !(isWordC prev) &&
      (let r := (c :: cs).drop kw.length
       let isWs (x : Char) : Bool := x == ' ' || x == '\t' || x == '\n' || x == '\r'
       match r with
       | [] => false
       | x :: _ =>
         isWs x &&
         (let r2 := r.dropWhile isWs
          let idn := r2.takeWhile isWordC
          !idn.isEmpty &&
          (match r2.dropWhile isWordC with
           | '.' :: y :: _ => isWordC y
           | _ => false))))
    || crossAt kw n c cs

def hasCross (s : Str) : Bool :=
  let t := lowerAscii (strNorm s).text
  crossAt "from".toList (t.length + 1) '\x00' t || crossAt "join".toList (t.length + 1) '\x00' t

/-! ## the decidable lexical class K (what C14_partial is stated on) -/

/-- a block comment is nested or unterminated: the (non-nesting) stripper and DuckDB delimit it differently
(the stripper then shows the validators MORE text than DuckDB executes - the safe direction) -/
def commentHazard : Nat → Str → Bool
  | 0, _ => false
  | _, [] => false
  | n + 1, c :: cs =>
    if c == '-' && headIs '-' cs then commentHazard n (cs.dropWhile (· != '\n'))
    else if c == '/' && headIs '*' cs then
      match splitAt? "*/".toList [] (cs.drop 1) with
      | some (body, after) => containsSub "/*".toList body || commentHazard n after
      | none => true
    else commentHazard n cs

/-- identifier followed by blanks containing a line break and then `(` (the two look-aheads still differ) -/
def callAfterNewline (s : Str) : Bool :=
  (strFindAll .simple (strNorm s).text ++ strFindAll .joinSimple (strNorm s).text).any
    (fun m => callAtX m.rest && !(dotOrCallAtR m.rest))

/-- The decidable lexical class of `C14_partial` AFTER the round-2 repairs (/repo 64dff5c). The carve-outs for
backslash-before-quote, quotes in comments, markers in quoted identifiers, placeholder look-alikes, non-ASCII
bytes, the header fast path and the `with ` gate are GONE (those classes are repaired; their monitors stay
armed); since 00bd721 the look-ahead near-miss is gone too. What remains: comment extents (above) and the
pre-pass triggers. -/
def inK (s _hdr : Str) : Bool :=
  !(commentHazard (s.length + 1) (maskLits s).1) &&
  !(Arc.Generated.C14.prepassTriggers.any (fun w => containsSub w.toList (lowerAscii s)))

end Arc.C14
