import Arc.Model.C03.Pure
import Arc.Model.C03.Buffer
/-! C03 model: `Pure` (flush pipeline functions) + `Buffer` (ArrowBuffer LTS). -/
