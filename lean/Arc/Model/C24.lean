/-
C24 — LTS of the replicated WAL stream.

writer side   `wal.Writer.AppendRaw*` (sequence under `w.mu`, THEN `hook(...)` outside it) →
              `Sender.Replicate` (`entry.Sequence = s.sequence.Add(1)`, THEN non-blocking channel
              send; the WAL's own sequence number is overwritten here, so the only sequence that
              reaches the wire is the Sender's) → `distributionLoop`/`sendToReader` (tag, running
              hash, periodic checkpoint).
wire          an adversary that may deliver ANY frame at ANY time (that subsumes flip, duplicate,
              drop, reorder, splice, replay).  What a MAC check answers is a field of the event
              (`tagOk`, `macOk`); the theorems constrain those answers by explicit hypotheses
              (`Unforgeable…`), the driver computes them symbolically.
reader side   `Receiver.receiveLoop` (verify tag; `seq ≤ lastSeq` ⇒ drop connection; feed running
              hash; apply; apply error ⇒ continue WITHOUT advancing; checkpoint must match cluster,
              lastSeq, running hash, timestamp window, HMAC).

`cfg.atomic` says whether sequence assignment and enqueue are one critical section (regenerated
fact `Arc.Generated.C24.assignEnqueueAtomic`).  Core-only, executable.
-/
namespace Arc.C24

abbrev Bytes := List UInt8

/-- OWNERSHIP ASSUMPTION of the model: an `Entry` is a value — once a thread holds / has enqueued
it, its payload bytes never change (in Go the Sender only queues the slice header, so whoever
passes the slice to the hook must never write to it again; tied to the source by the regenerated
facts `hookPayloadAppendRawWithMeta = "fresh-make"` / `senderCopiesPayload`). -/
structure Entry where
  seq : Nat
  payload : Bytes
deriving DecidableEq, Repr

structure Cfg where
  atomic : Bool      -- assign + enqueue under one lock?
  cap : Nat          -- SenderConfig.BufferSize
  interval : Nat     -- SenderConfig.CheckpointInterval
deriving Repr

inductive Drop
  | tag | seq | ckptCluster | ckptSeq | ckptHash | ckptStale | ckptMac | bad | eof
deriving DecidableEq, Repr

/-- ghost record of a checkpoint the sender produced: last sequence, pre-image of the running
hash (all payload bytes streamed in that session so far), session number. -/
structure CkRec where
  lastSeq : Nat
  pre : Bytes
  session : Nat
deriving DecidableEq, Repr

structure State where
  -- writer / Sender.Replicate
  ctr : Nat := 0                         -- s.sequence
  holding : List (Nat × Entry) := []     -- thread ↦ entry that has its sequence but is not enqueued yet
  queue : List Entry := []               -- s.entryChan
  queued : List Entry := []              -- ghost: everything ever enqueued, channel order
  dropped : List Nat := []               -- reported drops (totalEntriesDropped + log line)
  dist : List Entry := []                -- ghost: everything distributionLoop popped
  -- sender, per reader
  active : Bool := false                 -- reader is in s.readers
  session : Nat := 0
  sent : List Entry := []                -- frames emitted in this session, in order
  since : Nat := 0                       -- entriesSinceCheckpoint
  ckpts : List CkRec := []               -- ghost: all checkpoints produced (any session)
  -- receiver
  conn : Bool := false                   -- receiveLoop running
  lastSeq : Nat := 0                     -- r.lastSeq (survives reconnects)
  fed : List Entry := []                 -- entries fed to the running hash in this session
  appliedS : List Entry := []            -- entries applied in this session
  applied : List Entry := []             -- entries applied, all sessions
  lastDrop : Option Drop := none         -- why the current/last connection was dropped
deriving Repr

inductive Ev (α : Type)
  | assign (t : Nat) (p : Bytes)
  | enqueue (t : Nat)
  | dist
  | connect
  | detach
  | deliverE (seq : Nat) (p : Bytes) (tagOk applyOk : Bool)
  | deliverC (lastSeq : Nat) (h : α) (clusterOk fresh macOk : Bool)
  | deliverBad
  | close

def flat (es : List Entry) : Bytes := es.flatMap (·.payload)

def holds (s : State) (t : Nat) : Option Entry := s.holding.lookup t

/-- `assign t p` is enabled when thread `t` is not already inside `Replicate`, and — if assignment
and enqueue share a critical section — no other thread is inside it. -/
def canAssign (cfg : Cfg) (s : State) (t : Nat) : Bool :=
  (holds s t).isNone && (!cfg.atomic || s.holding.isEmpty)

def doAssign (s : State) (t : Nat) (p : Bytes) : State :=
  { s with ctr := s.ctr + 1, holding := (t, ⟨s.ctr + 1, p⟩) :: s.holding }

def unhold (s : State) (t : Nat) : List (Nat × Entry) := s.holding.filter (fun x => !(x.1 == t))

/-- the non-blocking channel send of `Replicate`. -/
def doEnqueue (cfg : Cfg) (s : State) (t : Nat) (e : Entry) : State :=
  if s.queue.length < cfg.cap then
    { s with holding := unhold s t, queue := s.queue ++ [e], queued := s.queued ++ [e] }
  else
    { s with holding := unhold s t, dropped := s.dropped ++ [e.seq] }

/-- `distributionLoop` pops one entry; `sendToReader` for the (single) reader, incl. checkpoint. -/
def doDist (cfg : Cfg) (s : State) (e : Entry) (rest : List Entry) : State :=
  let s1 := { s with queue := rest, dist := s.dist ++ [e] }
  if !s.active then s1 else
  let sent' := s.sent ++ [e]
  if s.since + 1 ≥ cfg.interval then
    { s1 with sent := sent', since := 0, ckpts := s.ckpts ++ [⟨e.seq, flat sent', s.session⟩] }
  else
    { s1 with sent := sent', since := s.since + 1 }

def doConnect (s : State) : State :=
  { s with active := true, session := s.session + 1, sent := [], since := 0,
           conn := true, fed := [], appliedS := [], lastDrop := none }

def dropConn (s : State) (d : Drop) : State := { s with conn := false, lastDrop := some d }

/-- `case MsgReplicateEntry` of `receiveLoop` after a successful parse. -/
def recvEntry (s : State) (seq : Nat) (p : Bytes) (tagOk applyOk : Bool) : State :=
  if !tagOk then dropConn s .tag
  else if seq ≤ s.lastSeq then dropConn s .seq
  else
    let e : Entry := ⟨seq, p⟩
    if applyOk then
      { s with fed := s.fed ++ [e], appliedS := s.appliedS ++ [e], applied := s.applied ++ [e],
               lastSeq := seq }
    else
      { s with fed := s.fed ++ [e] }

/-- `case MsgReplicateCheckpoint` of `receiveLoop` after a successful parse. -/
def recvCkpt {α : Type} [DecidableEq α] (hashFn : Bytes → α) (s : State)
    (lastSeq : Nat) (h : α) (clusterOk fresh macOk : Bool) : State :=
  if !clusterOk then dropConn s .ckptCluster
  else if lastSeq ≠ s.lastSeq then dropConn s .ckptSeq
  else if h ≠ hashFn (flat s.fed) then dropConn s .ckptHash
  else if !fresh then dropConn s .ckptStale
  else if !macOk then dropConn s .ckptMac
  else s

/-- One labelled transition; `none` = the event is not enabled in this state. -/
def step {α : Type} [DecidableEq α] (cfg : Cfg) (hashFn : Bytes → α) (s : State) :
    Ev α → Option State
  | .assign t p => if canAssign cfg s t then some (doAssign s t p) else none
  | .enqueue t =>
    match holds s t with
    | some e => some (doEnqueue cfg s t e)
    | none => none
  | .dist =>
    match s.queue with
    | e :: rest => some (doDist cfg s e rest)
    | [] => none
  | .connect => some (doConnect s)
  | .detach => some { s with active := false }
  | .deliverE seq p tagOk applyOk => if s.conn then some (recvEntry s seq p tagOk applyOk) else none
  | .deliverC l h c f m => if s.conn then some (recvCkpt hashFn s l h c f m) else none
  | .deliverBad => if s.conn then some (dropConn s .bad) else none
  | .close => if s.conn then some (dropConn s .eof) else none

/-- run a whole trace; `none` as soon as an event is not enabled. -/
def run {α : Type} [DecidableEq α] (cfg : Cfg) (hashFn : Bytes → α) (s : State) :
    List (Ev α) → Option State
  | [] => some s
  | e :: es => match step cfg hashFn s e with
    | some s' => run cfg hashFn s' es
    | none => none

def init : State := {}

/-- The frames an honest wire hands to the reader for one `dist` step: the entry the sender just
emitted, with a verifying tag, followed by the checkpoint if one was emitted — unmodified, fresh. -/
def honestDist {α : Type} [DecidableEq α] (cfg : Cfg) (hashFn : Bytes → α) (s : State) :
    Option State :=
  match s.queue with
  | [] => none
  | e :: rest =>
    let s1 := doDist cfg s e rest
    if !(s.active && s.conn) then some s1 else
    let s2 := recvEntry s1 e.seq e.payload true true
    if !s2.conn then some s2 else
    if s1.ckpts.length > s.ckpts.length then
      some (recvCkpt hashFn s2 e.seq (hashFn (flat s1.sent)) true true true)
    else some s2

/-- Events of a run with a healthy wire: producers and honest distribution only. -/
inductive HEv
  | assign (t : Nat) (p : Bytes)
  | enqueue (t : Nat)
  | dist
  | connect
deriving Repr

def hstep {α : Type} [DecidableEq α] (cfg : Cfg) (hashFn : Bytes → α) (s : State) :
    HEv → Option State
  | .assign t p => step cfg hashFn s (.assign t p)
  | .enqueue t => step cfg hashFn s (.enqueue t)
  | .dist => honestDist cfg hashFn s
  | .connect => if s.conn then none else some (doConnect s)

def hrun {α : Type} [DecidableEq α] (cfg : Cfg) (hashFn : Bytes → α) (s : State) :
    List HEv → Option State
  | [] => some s
  | e :: es => match hstep cfg hashFn s e with
    | some s' => hrun cfg hashFn s' es
    | none => none

end Arc.C24
