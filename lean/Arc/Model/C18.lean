/-
C18 — model of `internal/pruning/partition_pruner.go` as used by `internal/api/query.go`.

Time is an unbounded `Int` of unix nanoseconds (Go `time.Time`); DuckDB's µs instants are multiples of 1000.

(A) `generatePaths (start, end)`: `GeneratePartitionPaths` — `current := Start.Truncate(time.Hour)`, clamp up to
    `minPartitionDate`, the path-count cap computed on a *saturating* `end.Sub(current)` with int64 wrap-around
    (quirk kept: a span above ~292 years saturates, `span + time.Hour - 1` wraps negative and the cap does NOT
    fire), the loop `for current.Before(end) { emit hour; current = current.Add(time.Hour) }`, one day-level path
    per distinct day (daily compacted files). Partitions are abstract indices: hour `h = ⌊t/1h⌋`, day `d = ⌊h/24⌋`;
    `renderHour/renderDay` give the `YYYY/MM/DD[/HH]` directory (used by the driver only).
(B) literals and relative expressions: for each quoted literal *format* what `parseDateTime` (Go) reads and what
    DuckDB's cast to TIMESTAMPTZ (session TimeZone UTC — the type Arc writes `time` with) reads; `NOW() ± INTERVAL`
    with Go `AddDate` month overflow vs DuckDB month clamping.
(C) `extract`: `ExtractTimeRange` over the WHERE text seen as the list of its atoms *in textual order* — the regexes
    ignore the boolean structure. What each regex recognises (tied to the regenerated literals by `C18_regex_tied`):
      startTimePatterns  : `<name ending in "time">  >= | >  '<lit>'`, then `<name ending in "timestamp"> >= | > '<lit>'`
      endTimePatterns    : same with `<`, `<=`
      for each pattern only its FIRST textual match is looked at; the first pattern (in list order) whose first
      match parses wins; BETWEEN `'<lit>' AND '<lit>'` on a name ending in "time" overrides both bounds;
      relative patterns (`>=?`/`<=?` NOW()|CURRENT_TIMESTAMP ± INTERVAL 'n unit') only fill a bound still missing,
      subtraction before addition (a unit spelled with a final capital `S` matches but is then dropped by
      `evaluateRelativeTime`); start-only ⇒ end = now + 24 h; end-only ⇒ start = 2020-01-01.
    There is no word boundary before `time`: `event_time`, `uptime`, `t.time` all match; `"time"` (quoted) does not.
(D) data sets (files at hour or day partitions), the read plan (`OptimizeTablePath`: generated paths filtered to
    those with at least one file; empty ⇒ unpruned glob), query results with and without pruning, the transform
    cache (plan reused for the same SQL until the TTL expires).

Re-synced to /repo b2903b5 (fix commits b6673db, 18e1f86, 5c0e6c5, a6e9521, 642ecb4, b2903b5):
  * every pattern now starts with `\\b`: only a column written `time` / `x.time` (resp. literally `timestamp`) matches;
    names merely ENDING in time/timestamp (`event_time`, `src_timestamp`) are invisible. The model has no column
    literally named `timestamp` (assumption recorded in props/C18.py);
  * `ExtractTimeRange` returns nil for statements with JOIN / UNION / INTERSECT / EXCEPT or more than one SELECT, and
    when the WHERE text contains the word OR or NOT (`Pred.plainConj`);
  * `TimeRange.EndInclusive`: false only when the end came from a `<` literal pattern; true for `<=`, BETWEEN, the
    relative patterns and the start-only default; the loop then also emits the hour that STARTS at `End`;
  * end-only ⇒ start = minPartitionDate (wide ranges hit the cap ⇒ unpruned);
  * `NOW() ± INTERVAL 'n months'` clamps the day of month like DuckDB.

Core-only, executable.
-/
import Arc.Generated.C18
namespace Arc.C18
open Arc.Generated.C18

/-! ## (A) hours, days, generated paths -/

/-- `time.Hour` in ns (equal to `Generated.hourNs`, see `C18_constants_tied`). -/
def HOUR : Int := 3600000000000
def DAY : Int := 86400000000000

def hourOf (t : Int) : Int := t / HOUR
def dayOf (t : Int) : Int := t / HOUR / 24
/-- `t.Truncate(time.Hour)` (Go truncates relative to the zero time, which is hour-aligned with the unix epoch). -/
def truncHour (t : Int) : Int := t / HOUR * HOUR

def maxI64 : Int := 9223372036854775807
def minI64 : Int := -9223372036854775808
/-- `Time.Sub` saturates at the int64 Duration range. -/
def sat64 (x : Int) : Int := if x > maxI64 then maxI64 else if x < minI64 then minI64 else x
/-- int64 wrap-around arithmetic. -/
def wrap64 (x : Int) : Int := (x + 9223372036854775808) % 18446744073709551616 - 9223372036854775808

/-- the guard in front of the loop: true = "range too wide", the caller falls back to the unpruned glob. -/
def overCap (cur e : Int) : Bool :=
  let span := sat64 (e - cur)
  if span > 0 then
    let hourly := Int.tdiv (wrap64 (span + HOUR - 1)) HOUR
    let daily := wrap64 (Int.tdiv hourly 24 + 1)
    decide (wrap64 (hourly + daily) > maxPartitionPaths)
  else false

/-- `for current.Before(end) { paths = append(paths, hour(current)); current = current.Add(time.Hour) }`
    (fuel-bounded; `fuelFor` is always enough, lemma `loop_mem`). -/
def loop : Nat → Int → Int → List Int
  | 0, _, _ => []
  | n+1, cur, e => if cur < e then hourOf cur :: loop n (cur + HOUR) e else []

def fuelFor (cur e : Int) : Nat := ((e - cur + HOUR - 1) / HOUR).toNat

/-- tail-recursive form of `loop` used by compiled code (ranges of millions of hours, see the cap quirk). -/
def loopTR : Nat → Int → Int → List Int → List Int
  | 0, _, _, acc => acc.reverse
  | n+1, cur, e, acc => if cur < e then loopTR n (cur + HOUR) e (hourOf cur :: acc) else acc.reverse

theorem loopTR_eq (n : Nat) (cur e : Int) (acc : List Int) :
    loopTR n cur e acc = acc.reverse ++ loop n cur e := by
  induction n generalizing cur acc with
  | zero => simp [loopTR, loop]
  | succ n ih =>
    unfold loopTR loop
    by_cases h : cur < e
    · simp [h, ih]
    · simp [h]

def loopFast (n : Nat) (cur e : Int) : List Int := loopTR n cur e []

@[csimp] theorem loop_eq_loopFast : @loop = @loopFast := by
  funext n cur e; simp [loopFast, loopTR_eq]

/-- the Go map `daysMap` is a set of day keys; the hours are generated in increasing order, so removing
    adjacent duplicates yields that set (kept as an increasing list). -/
def dedupAdj : List Int → List Int
  | [] => []
  | [x] => [x]
  | x :: y :: xs => if x = y then dedupAdj (y :: xs) else x :: dedupAdj (y :: xs)

def dedupAdjTR : List Int → List Int → List Int
  | [], acc => acc.reverse
  | [x], acc => (x :: acc).reverse
  | x :: y :: xs, acc => if x = y then dedupAdjTR (y :: xs) acc else dedupAdjTR (y :: xs) (x :: acc)

theorem dedupAdjTR_eq (l acc : List Int) : dedupAdjTR l acc = acc.reverse ++ dedupAdj l := by
  induction l generalizing acc with
  | nil => simp [dedupAdjTR, dedupAdj]
  | cons x xs ih =>
    cases xs with
    | nil => simp [dedupAdjTR, dedupAdj]
    | cons y ys =>
      unfold dedupAdjTR dedupAdj
      by_cases h : x = y
      · simp [h, ih]
      · simp [h, ih]

def dedupAdjFast (l : List Int) : List Int := dedupAdjTR l []

@[csimp] theorem dedupAdj_eq_fast : @dedupAdj = @dedupAdjFast := by
  funext l; simp [dedupAdjFast, dedupAdjTR_eq]

structure Paths where
  hours : List Int
  days  : List Int
deriving Repr, DecidableEq

def startOf (s : Int) : Int :=
  let cur0 := truncHour s
  if cur0 < minPartitionDateNs then minPartitionDateNs else cur0

/-- loop bound: `current.Before(end) || (EndInclusive && current.Equal(end))` over integer ns is `current < end + 1`
    when inclusive. -/
def loopEnd (e : Int) (incl : Bool) : Int := if incl then e + 1 else e

/-- `GeneratePartitionPaths`; `none` = nil (cap exceeded; the cap is computed on `End` itself). -/
def generatePaths (s e : Int) (incl : Bool := false) : Option Paths :=
  let cur := startOf s
  if overCap cur e then none else
  let hs := loop (fuelFor cur (loopEnd e incl)) cur (loopEnd e incl)
  some { hours := hs, days := dedupAdj (hs.map (· / 24)) }

/-! ### civil calendar (proleptic Gregorian, as Go `time` and DuckDB) -/

def daysFromCivil (y m d : Int) : Int :=
  let y' := if m ≤ 2 then y - 1 else y
  let era := y' / 400
  let yoe := y' - era * 400
  let mp := (m + 9) % 12
  let doy := (153 * mp + 2) / 5 + d - 1
  let doe := yoe * 365 + yoe / 4 - yoe / 100 + doy
  era * 146097 + doe - 719468

def civilFromDays (z0 : Int) : Int × Int × Int :=
  let z := z0 + 719468
  let era := z / 146097
  let doe := z - era * 146097
  let yoe := (doe - doe / 1460 + doe / 36524 - doe / 146096) / 365
  let y := yoe + era * 400
  let doy := doe - (365 * yoe + yoe / 4 - yoe / 100)
  let mp := (5 * doy + 2) / 153
  let d := doy - (153 * mp + 2) / 5 + 1
  let m := if mp < 10 then mp + 3 else mp - 9
  (if m ≤ 2 then y + 1 else y, m, d)

def pad (w : Nat) (n : Int) : String :=
  let s := toString n.toNat
  String.ofList (List.replicate (w - s.length) '0') ++ s

def renderDay (d : Int) : String :=
  let (y, m, dd) := civilFromDays d
  pad 4 y ++ "/" ++ pad 2 m ++ "/" ++ pad 2 dd

def renderHour (h : Int) : String := renderDay (h / 24) ++ "/" ++ pad 2 (h % 24)

/-! ## (B) right-hand sides: quoted literals and NOW() ± INTERVAL -/

/-- A quoted datetime literal, by *format* (the harness renders it, the real parsers read it).
    fmt: 0 `Y-M-D` · 1 `Y-M-D h:m:s` · 2 `Y-M-D h:m` · 3 `Y-M-DTh:m:sZ` · 4 `Y-M-DTh:m:s±hh:mm` ·
    5 `Y-M-DTh:m:s.ffffffZ` · 6 `Y/M/D h:m:s` · 7 `Y/M/D` · 8 `Y-M-D h:m:s.ffffff` ·
    9 `Y-M-DTh:m:s` (no zone) · 10 `Y-M-D h:m:s±hh` · 11 not a datetime at all. -/
structure Lit where
  fmt : Nat
  y : Int
  mo : Int
  d : Int
  hh : Int
  mi : Int
  ss : Int
  frac : Int   -- ns
  off : Int    -- zone offset, seconds east of UTC (formats 4, 10)
deriving Repr, DecidableEq

def NS : Int := 1000000000

def Lit.wall (l : Lit) (withTime withSec withFrac : Bool) : Int :=
  daysFromCivil l.y l.mo l.d * DAY +
  (if withTime then (l.hh * 3600 + l.mi * 60 + (if withSec then l.ss else 0)) * NS else 0) +
  (if withFrac then l.frac else 0)

/-- what `parseDateTime` returns (`none` = error: no layout of the list matches). -/
def Lit.go (l : Lit) : Option Int :=
  match l.fmt with
  | 0 => some (l.wall false false false)
  | 1 => some (l.wall true true false)
  | 2 => some (l.wall true false false)
  | 3 => some (l.wall true true false)
  | 4 => some (l.wall true true false - l.off * NS)
  | 5 => some (l.wall true true true)
  | 6 => some (l.wall true true false)
  | 7 => some (l.wall false false false)
  | 8 => some (l.wall true true true)
  | _ => none

/-- what DuckDB's `CAST('<lit>' AS TIMESTAMPTZ)` yields with session TimeZone UTC (`none` = conversion error).
    ASSUMED DuckDB behaviour, validated per literal by the harness (op `lit`). -/
def Lit.db (l : Lit) : Option Int :=
  match l.fmt with
  | 0 => some (l.wall false false false)
  | 1 => some (l.wall true true false)
  | 2 => some (l.wall true false false)
  | 3 => some (l.wall true true false)
  | 4 => some (l.wall true true false - l.off * NS)
  | 5 => some (l.wall true true true)
  | 6 => some (l.wall true true false)
  | 7 => some (l.wall false false false)
  | 8 => some (l.wall true true true)
  | 9 => some (l.wall true true false)
  | 10 => some (l.wall true true false - l.off * NS)
  | _ => none

inductive TUnit | second | minute | hour | day | week | month
deriving Repr, DecidableEq

/-- Go `now.AddDate(0, n, 0)` alone (the behaviour BEFORE fix b6673db, kept for the history example): month overflow
    normalises into the following month (Mar 31 − 1 month = Mar 2/3). -/
def goAddMonths (now n : Int) : Int :=
  let day := now / DAY
  let tod := now - day * DAY
  let (y, m, d) := civilFromDays day
  let m' := m - 1 + n
  (daysFromCivil (y + m' / 12) (m' % 12 + 1) 1 + (d - 1)) * DAY + tod

/-- DuckDB `ts ± INTERVAL 'n months'`: day-of-month clamped to the target month's length. ASSUMED, validated (op `rel`). -/
def dbAddMonths (now n : Int) : Int :=
  let day := now / DAY
  let tod := now - day * DAY
  let (y, m, d) := civilFromDays day
  let m' := m - 1 + n
  let y2 := y + m' / 12
  let m2 := m' % 12 + 1
  let first := daysFromCivil y2 m2 1
  let m3 := m' + 1
  let len := daysFromCivil (y + m3 / 12) (m3 % 12 + 1) 1 - first
  (first + (if d > len then len else d) - 1) * DAY + tod

def relGo (now : Int) (plus : Bool) (n : Nat) (u : TUnit) : Int :=
  let k : Int := if plus then n else -(n : Int)
  match u with
  | .second => now + k * NS
  | .minute => now + k * 60 * NS
  | .hour => now + k * HOUR
  | .day => now + k * DAY
  | .week => now + k * 7 * DAY
  | .month => dbAddMonths now k   -- since fix b6673db: AddDate(0,n,0), then back to the target month's last day on overflow

def relDb (now : Int) (plus : Bool) (n : Nat) (u : TUnit) : Int :=
  let k : Int := if plus then n else -(n : Int)
  match u with
  | .month => dbAddMonths now k
  | u => relGo now plus n u

inductive Rhs
  | lit (l : Lit)                                  -- '<literal>'
  /-- `NOW() ± INTERVAL 'n unit'`; `capS` = the unit is spelled with a final CAPITAL `S` (`DAYS`): the regex
      (case-insensitive) still matches, but `evaluateRelativeTime` trims a lower-case `s` BEFORE lower-casing, so
      `DAYS` becomes `days`, hits the `default` arm and the bound is dropped (quirk; sound). -/
  | rel (plus : Bool) (n : Nat) (u : TUnit) (capS : Bool)
  | num (k : Int)                                  -- unquoted number (plain columns)
deriving Repr, DecidableEq

/-- the pruner's reading of a right-hand side (ns). -/
def Rhs.go (now : Int) : Rhs → Option Int
  | .lit l => l.go
  | .rel p n u capS => if capS then none else some (relGo now p n u)
  | .num _ => none

/-- the value the query engine compares the column with (ns); literals DuckDB rejects make the whole
    query fail in both modes and are excluded by `Rhs.dbOk`. -/
def Rhs.db (now : Int) : Rhs → Int
  | .lit l => l.db.getD 0
  | .rel p n u _ => relDb now p n u
  | .num k => k

def Rhs.dbOk : Rhs → Bool
  | .lit l => l.db.isSome
  | _ => true

/-! ## (C) atoms, predicates, textual order, range extraction -/

/-- columns as the regexes see them. `time` = the partition column written `time` or `t.time`;
    `timeQuoted` = the same column written `"time"` (invisible to the regexes); `likeTime` = another column whose
    name ends in `time` (e.g. `event_time`, `uptime`); `likeTs` = a column whose name ends in `timestamp`;
    `plain` = any other column. -/
inductive Col | time | timeQuoted | likeTime | likeTs | plain
deriving Repr, DecidableEq

structure Row where
  time : Int    -- partition column
  c1 : Int      -- the `likeTime` column
  c2 : Int      -- the `likeTs` column
  v : Int       -- the plain column
deriving Repr, DecidableEq

def Col.val : Col → Row → Int
  | .time, r => r.time
  | .timeQuoted, r => r.time
  | .likeTime, r => r.c1
  | .likeTs, r => r.c2
  | .plain, r => r.v

/-- `\\btime\\s*<op>` matches the written name: only `time` / `alias.time` (word boundary since fix 18e1f86). -/
def Col.endsInTime : Col → Bool
  | .time => true
  | _ => false

/-- `\\btimestamp\\s*<op>`: a column literally named `timestamp` — none in the model (see header). -/
def Col.endsInTimestamp : Col → Bool
  | _ => false

inductive Cmp | ge | gt | lt | le
deriving Repr, DecidableEq

def Cmp.holds : Cmp → Int → Int → Bool
  | .ge, a, b => decide (a ≥ b)
  | .gt, a, b => decide (a > b)
  | .lt, a, b => decide (a < b)
  | .le, a, b => decide (a ≤ b)

/-- atoms of a WHERE text. `opaque k` = any condition in which no regex matches (truth given by a valuation). -/
inductive BAtom
  | cmp (c : Col) (op : Cmp) (r : Rhs)
  | between (c : Col) (lo hi : Rhs)
  | opaque (k : Nat)
deriving Repr, DecidableEq

/-- `sub k inner` = `<expr> IN (SELECT … WHERE <inner>)` (or EXISTS …): its truth for an outer row is opaque
    (valuation `k`), but its text — the inner atoms — is part of the outer statement's WHERE text. -/
inductive Atom
  | base (b : BAtom)
  | sub (k : Nat) (inner : List BAtom)
deriving Repr

inductive Pred
  | atom (a : Atom)
  | and (p q : Pred)
  | or (p q : Pred)
  | not (p : Pred)
deriving Repr

def Atom.text : Atom → List BAtom
  | .base b => [b]
  | .sub _ inner => inner

/-- the atoms in the order they appear in the SQL text. -/
def Pred.text : Pred → List BAtom
  | .atom a => a.text
  | .and p q => p.text ++ q.text
  | .or p q => p.text ++ q.text
  | .not p => p.text

/-- no OR, no NOT, no subquery: otherwise `ExtractTimeRange` returns nil (fixes 642ecb4, b2903b5). -/
def Pred.plainConj : Pred → Bool
  | .atom (.base _) => true
  | .atom (.sub _ _) => false
  | .and p q => p.plainConj && q.plainConj
  | .or _ _ => false
  | .not _ => false

abbrev Valuation := Nat → Row → Bool

def BAtom.eval (now : Int) (σ : Valuation) (r : Row) : BAtom → Bool
  | .cmp c op rhs => op.holds (c.val r) (rhs.db now)
  | .between c lo hi => decide (lo.db now ≤ c.val r) && decide (c.val r ≤ hi.db now)
  | .opaque k => σ k r

def Atom.eval (now : Int) (σ : Valuation) (r : Row) : Atom → Bool
  | .base b => b.eval now σ r
  | .sub k _ => σ k r

/-- two-valued: every column is NOT NULL in the model (Arc's `time` always is). -/
def Pred.eval (now : Int) (σ : Valuation) (r : Row) : Pred → Bool
  | .atom a => a.eval now σ r
  | .and p q => p.eval now σ r && q.eval now σ r
  | .or p q => p.eval now σ r || q.eval now σ r
  | .not p => !(p.eval now σ r)

/-- syntactic match of an absolute pattern `<suffix>\s*<op>\s*'([^']+)'`. -/
def isAbs (suffix : Col → Bool) (op : Cmp) : BAtom → Bool
  | .cmp c o (.lit _) => suffix c && decide (o = op)
  | _ => false

/-- one absolute pattern: only its first textual match is examined; a literal that does not parse makes
    the pattern yield nothing (the next PATTERN is tried, not the next match). -/
def absPat (now : Int) (suffix : Col → Bool) (op : Cmp) (txt : List BAtom) : Option Int :=
  match txt.find? (isAbs suffix op) with
  | some (.cmp _ _ r) => r.go now
  | _ => none

def firstSome : List (Option Int) → Option Int
  | [] => none
  | some x :: _ => some x
  | none :: xs => firstSome xs

def absStart (now : Int) (txt : List BAtom) : Option Int :=
  firstSome [absPat now Col.endsInTime .ge txt, absPat now Col.endsInTime .gt txt,
             absPat now Col.endsInTimestamp .ge txt, absPat now Col.endsInTimestamp .gt txt]

def absEnd (now : Int) (txt : List BAtom) : Option Int :=
  firstSome [absPat now Col.endsInTime .lt txt, absPat now Col.endsInTime .le txt,
             absPat now Col.endsInTimestamp .lt txt, absPat now Col.endsInTimestamp .le txt]

def isBetween : BAtom → Bool
  | .between c (.lit _) (.lit _) => c.endsInTime
  | _ => false

def betweenPat (now : Int) (txt : List BAtom) : Option (Int × Int) :=
  match txt.find? isBetween with
  | some (.between _ lo hi) =>
    match lo.go now, hi.go now with
    | some a, some b => some (a, b)
    | _, _ => none
  | _ => none

def isRel (start plus : Bool) : BAtom → Bool
  | .cmp c o (.rel p _ _ _) =>
    c.endsInTime && decide (p = plus) &&
      (if start then decide (o = .ge) || decide (o = .gt) else decide (o = .lt) || decide (o = .le))
  | _ => false

def relPat (now : Int) (start plus : Bool) (txt : List BAtom) : Option Int :=
  match txt.find? (isRel start plus) with
  | some (.cmp _ _ r) => r.go now
  | _ => none

def startBound (now : Int) (txt : List BAtom) : Option Int :=
  match betweenPat now txt with
  | some (a, _) => some a
  | none => firstSome [absStart now txt, relPat now true false txt, relPat now true true txt]

def firstSomeP : List (Option Int × Bool) → Option (Int × Bool)
  | [] => none
  | (some x, b) :: _ => some (x, b)
  | (none, _) :: xs => firstSomeP xs

/-- end bound and its inclusivity: `<` patterns ⇒ exclusive, `<=` patterns ⇒ inclusive. -/
def absEndP (now : Int) (txt : List BAtom) : Option (Int × Bool) :=
  firstSomeP [(absPat now Col.endsInTime .lt txt, false), (absPat now Col.endsInTime .le txt, true),
              (absPat now Col.endsInTimestamp .lt txt, false), (absPat now Col.endsInTimestamp .le txt, true)]

/-- BETWEEN ⇒ inclusive; relative patterns (they match `<` and `<=` alike) ⇒ inclusive. -/
def endBoundP (now : Int) (txt : List BAtom) : Option (Int × Bool) :=
  match betweenPat now txt with
  | some (_, b) => some (b, true)
  | none =>
    match absEndP now txt with
    | some x => some x
    | none =>
      match firstSome [relPat now false false txt, relPat now false true txt] with
      | some e => some (e, true)
      | none => none

def endBound (now : Int) (txt : List BAtom) : Option Int := (endBoundP now txt).map (·.1)

/-- `ExtractTimeRange` on the WHERE text `txt` of a single-table plain-conjunction statement:
    (start, end, EndInclusive). Start-only ⇒ end = now + 24 h (EndInclusive stays true); end-only ⇒ start = floor. -/
def extract (now : Int) (txt : List BAtom) : Option (Int × Int × Bool) :=
  match startBound now txt, endBoundP now txt with
  | some s, some (e, i) => some (s, e, i)
  | some s, none => some (s, now + startOnlyAddNs, true)
  | none, some (e, i) => some (defaultStartNs, e, i)
  | none, none => none

/-- `ExtractTimeRange` of `SELECT … FROM m WHERE p`. -/
def extractStmt (now : Int) (p : Pred) : Option (Int × Int × Bool) :=
  if p.plainConj then extract now p.text else none

/-! ## (D) data sets, read plans, results -/

inductive Part | hour (h : Int) | day (d : Int)
deriving Repr, DecidableEq

structure File where
  part : Part
  rows : List Row
deriving Repr

abbrev Dataset := List File

/-- every row lives in the partition of its own `time` (property C03; day files hold compacted hours). -/
def Part.contains : Part → Int → Bool
  | .hour h, t => decide (hourOf t = h)
  | .day d, t => decide (dayOf t = d)

def WellPlaced (ds : Dataset) : Prop :=
  ∀ f ∈ ds, ∀ r ∈ f.rows, f.part.contains r.time = true

instance (ds : Dataset) : Decidable (WellPlaced ds) := by
  unfold WellPlaced; infer_instance

def Part.inPaths (ps : Paths) : Part → Bool
  | .hour h => decide (h ∈ ps.hours)
  | .day d => decide (d ∈ ps.days)

def rowsOf (ds : Dataset) : List Row := ds.flatMap (·.rows)

/-- a read plan: `none` = the unpruned glob `/**/*.parquet`; `some ps` = the explicit list of partition globs. -/
abbrev Plan := Option (List Part)

def partsOfPaths (ps : Paths) : List Part := ps.hours.map Part.hour ++ ps.days.map Part.day

/-- `OptimizeTablePath` on a cache miss: extract, generate, keep the globs that match at least one file;
    nothing left ⇒ fall back to the unpruned glob. -/
def planFor (range : Option (Int × Int × Bool)) (ds : Dataset) : Plan :=
  match range with
  | none => none
  | some (s, e, incl) =>
    match generatePaths s e incl with
    | none => none
    | some ps =>
      let live := (partsOfPaths ps).filter (fun p => ds.any (fun f => decide (f.part = p)))
      if live.isEmpty then none else some live

/-- the files DuckDB reads under a plan (globs are expanded at execution time). -/
def readWith (plan : Plan) (ds : Dataset) : Dataset :=
  match plan with
  | none => ds
  | some parts => ds.filter (fun f => decide (f.part ∈ parts))

def readSet (range : Option (Int × Int × Bool)) (ds : Dataset) : Dataset := readWith (planFor range ds) ds

/-- single-table query `SELECT … FROM m WHERE p`: rows returned with pruning. -/
def runPruned (now : Int) (σ : Valuation) (p : Pred) (ds : Dataset) : List Row :=
  (rowsOf (readSet (extractStmt now p) ds)).filter (p.eval now σ)

/-- the same query when every file of the measurement is read. -/
def runFull (now : Int) (σ : Valuation) (p : Pred) (ds : Dataset) : List Row :=
  (rowsOf ds).filter (p.eval now σ)

/-- `SELECT … FROM a JOIN b ON a.v = b.v WHERE p(a)`: query.go prunes EVERY table reference of the statement
    with the range extracted from the whole statement text — which since fix b2903b5 is nil for a statement
    with JOIN / set operations / more than one SELECT (`multiTableRange`). -/
def multiTableRange : Option (Int × Int × Bool) := none

def runJoinWith (now : Int) (σ : Valuation) (p : Pred) (ra rb : List Row) : List (Row × Row) :=
  ra.flatMap (fun a => (rb.filter (fun b => decide (a.v = b.v) && p.eval now σ a)).map (fun b => (a, b)))

def runJoinPruned (now : Int) (σ : Valuation) (p : Pred) (a b : Dataset) : List (Row × Row) :=
  let rng := multiTableRange
  runJoinWith now σ p (rowsOf (readSet rng a)) (rowsOf (readSet rng b))

def runJoinFull (now : Int) (σ : Valuation) (p : Pred) (a b : Dataset) : List (Row × Row) :=
  runJoinWith now σ p (rowsOf a) (rowsOf b)

/-- `SELECT … WHERE p UNION ALL SELECT … WHERE q` over the same measurement: the WHERE text of the statement
    runs from the first WHERE to the end, so both branches are pruned with the atoms of both. -/
def runUnionPruned (now : Int) (σ : Valuation) (p q : Pred) (ds : Dataset) : List Row :=
  let rs := rowsOf (readSet multiTableRange ds)
  rs.filter (p.eval now σ) ++ rs.filter (q.eval now σ)

def runUnionFull (now : Int) (σ : Valuation) (p q : Pred) (ds : Dataset) : List Row :=
  (rowsOf ds).filter (p.eval now σ) ++ (rowsOf ds).filter (q.eval now σ)

/-- query answered from the transform cache: the plan computed for the data set `ds0` at caching time is
    applied to the current data set. -/
def runCached (now : Int) (σ : Valuation) (p : Pred) (ds0 ds : Dataset) : List Row :=
  (rowsOf (readWith (planFor (extractStmt now p) ds0) ds)).filter (p.eval now σ)

/-- does a cached plan survive the post-compaction hook `QueryHandler.InvalidateCaches`? It is gone only if the
    hook clears the transform cache (whose entries embed the pruned path list) AND the pruner's partition / glob
    caches (regenerated facts). -/
def survivesInvalidate : Bool := !(invalidateClearsTransform && invalidateClearsPruner)

/-- the same statement issued again: `invalidated` = `InvalidateCaches` ran since the plan was cached
    (compaction completed); a plan that did not survive is recomputed on the current data set. -/
def runCachedI (now : Int) (σ : Valuation) (p : Pred) (ds0 ds : Dataset) (invalidated : Bool) : List Row :=
  if invalidated && !survivesInvalidate then runPruned now σ p ds else runCached now σ p ds0 ds

/-- DuckDB fails with "No files found" when a listed glob matches no file. -/
def planBroken (plan : Plan) (ds : Dataset) : Bool :=
  match plan with
  | none => false
  | some parts => parts.any (fun p => !(ds.any (fun f => decide (f.part = p))))

/-- cache entry valid at `now`: Go `!now.After(expiresAt)`. -/
def cacheValid (setAt now : Int) : Bool := decide (now ≤ setAt + transformCacheTTLNs)

end Arc.C18
