import Arc.Model.C21
import Arc.Generated.C21
/-!
C21 — the configuration of the LTS induced by the facts factgen reads from the CURRENT source.
-/
namespace Arc.C21

/-- one pooled connection, held by VerifyToken from its query to its return. -/
def serialDBNow : Bool :=
  Arc.Generated.C21.maxOpenConns == 1 && Arc.Generated.C21.rowsHeldAcrossInsert

def currentCfg (ttl maxCache : Nat) : Cfg :=
  { serialDB := serialDBNow
    genGuard := Arc.Generated.C21.genGuard
    hitChecksExpiry := Arc.Generated.C21.hitChecksExpiry
    hitTouch := Arc.Generated.C21.hitPathWritesCache
    ttl := ttl, maxCache := maxCache }

/-- does the mutator of this (mode, kind) call InvalidateCache after its SQL statement? -/
def invalOf (cluster : Bool) (kind : String) : Bool :=
  match Arc.Generated.C21.mutators.find? (fun m => m.2.1 == cluster && m.2.2.1 == kind) with
  | some m => m.2.2.2
  | none => false

end Arc.C21
