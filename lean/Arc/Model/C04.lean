import Arc.Generated.C04
/-
C04 — "No request payload can crash the server": executable model of the request pipeline

    validate (database / measurement names)  →  per record: WAL envelope → convertColumnsToTyped
    → getColumnSignature / flushOnSchemaChangeLocked (SYNCHRONOUS flush on the request goroutine)
    → append to buffer → size trigger (ASYNCHRONOUS flush on a worker goroutine)
    → import handlers: FlushAll on the request goroutine
    flush = mergeBatches → flushPartitionedData (single hour: sortTypedColumnBatchByKeys /
            applyPermutation; several hours: sliceTypedColumnBatchByIndices) →
            WriteParquetColumnar (getSchema/inferSchema, AppendValues, array.NewRecord)

of internal/api/{msgpack,lineprotocol,tle,import,import_inprocess}.go and
internal/ingest/arrow_writer.go, with EVERY Go operation of that code that can panic made an explicit
`Except Site` step:

    Site.mergeTypeAssert   copy(merged[name].([]T)[rowOffset:], v)      single-value type assertion
                           (repaired in /repo d29da22: checked assertion, mergeBatches returns an error;
                           fact `mergeUncheckedAsserts = 0` — the flush fails and the rows are LOST)
    Site.schemaName0       getSchema / inferSchema  `name[0]`            index on an empty string
                           (repaired in /repo 1d10738: guarded, and a column named "" is rejected by
                           both write paths; facts `schemaGuardsEmpty`, `writeRejectsEmptyName`)
    Site.permIndex         applyPermutation  `col[idx]`                  index, column shorter than `time`
    Site.permValidIndex    sortTypedColumnBatchByKeys  `valid[idx]`      index, validity shorter than `time`
    Site.appendValuesLen   builder.AppendValues(v, valid)                arrow panics when len(valid) ∉ {0, len(v)}
    Site.newRecordRows     array.NewRecord(schema, arrays, -1)           arrow panics when a column is shorter
                           than the FIRST schema field (Go map order ⇒ *possible* panic, over-approximated)
    Site.walEnvelope       envHeader[:3+len(db)] of AppendRawWithMeta    slice bound of a fixed array

Where a panic happens decides what it does (facts regenerated from the source, Arc.Generated.C04):
on the request goroutine fiber's recover middleware turns it into a 500 (`Resp.panic`), the rows that had
been extracted from the buffer are gone; on a flush goroutine nothing recovers and the PROCESS dies
(`pipeline … = .error site`).

What is NOT modelled (library code; the harness stream is search only there): gzip/zstd decoders,
the msgpack wire decoder (C02 models it), the line-protocol tokenizer (C01), encoding/csv, the Parquet
reader, the TLE parser, fasthttp/fiber.  Their result enters the model as the request's `pre` field
(rejected before anything is buffered, with that status) and as the decoded records `recs`.
Values are abstracted to what the panic sites depend on: column names (byte lists), Go slice types,
lengths, validity lengths, per-cell dynamic kinds (for convertColumnsToTyped) and the int64 `time`
values (sortedness and hour of the merged batch select the code path).  Core Lean only.
-/
namespace Arc.C04
open Arc.Generated.C04

abbrev Name := List Nat                       -- bytes of a Go string

def timeName : Name := [116, 105, 109, 101]   -- "time"
def valueSuffix : Name := [95, 118, 97, 108, 117, 101] -- "_value"
def slash : Nat := 47
def uscore : Nat := 95

inductive Ty | i64 | f64 | str | bool
deriving DecidableEq, Repr, Inhabited

/-- dynamic kind of one `interface{}` cell as `convertColumnsToTyped` sees it. `ubig` = uint64/uint
above MaxInt64 (toInt64 fails, toFloat64 succeeds), `fbig` = float outside the int64 range. -/
inductive Cell | nil | int | ubig | flt | fbig | str | bool | other
deriving DecidableEq, Repr, Inhabited

/-- one entry of `TypedColumnBatch.Data` (+ its `Validity` entry; `vlen = 0` = no entry / nil). -/
structure Col where
  name : Name
  ty   : Ty
  len  : Nat
  vlen : Nat
deriving DecidableEq, Repr, Inhabited

/-- a `TypedColumnBatch` as appended to `shard.buffers[key]`. `times` = `Data["time"].([]int64)`
(`[]` when absent or of another type), `nrec` = the `numRecords` added to `bufferRecordCounts`. -/
structure Batch where
  cols  : List Col
  times : List Int
  nrec  : Nat
deriving DecidableEq, Repr, Inhabited

inductive Site
  | mergeTypeAssert | schemaName0 | permIndex | permValidIndex | appendValuesLen | newRecordRows | walEnvelope
deriving DecidableEq, Repr, Inhabited

/-- `array.NewRecord` compares every column with the first schema field, whose position comes from Go
map iteration: the model reports the panic whenever some order panics. -/
def Site.possibleOnly : Site → Bool
  | .newRecordRows => true
  | _ => false

/-! ## names -/

def isUnderscore (nm : Name) : Bool := nm.head? == some uscore

/-- `getColumnSignature`: `if len(name) == 0 || name[0] == '_' { continue }` (regenerated) -/
def sigSkips (nm : Name) : Bool :=
  (sigSkipsEmpty && nm.isEmpty) || (sigSkipsUnderscore && isUnderscore nm)

/-- the `name:type` entries of the signature. The real function sorts them and joins them into a
string; two signatures are compared with `==`. For batches with unique column names (Go map keys)
string equality is equality of these entry SETS (textual injectivity of `name:type,` joins is a stated
assumption: names containing `,` or `:` are generated by the harness as search only). -/
def sigPairs (b : Batch) : List (Name × Ty) :=
  (b.cols.filter (fun c => !sigSkips c.name)).map (fun c => (c.name, c.ty))

def sameSig (a b : Batch) : Bool :=
  (sigPairs a).all (fun p => (sigPairs b).contains p) && (sigPairs b).all (fun p => (sigPairs a).contains p)

def isLetter (c : Nat) : Bool := (97 ≤ c && c ≤ 122) || (65 ≤ c && c ≤ 90)
def isNameChar (c : Nat) : Bool := isLetter c || (48 ≤ c && c ≤ 57) || c == 95 || c == 45

/-- `isValidDatabaseName` (body pinned by factgen) -/
def validDb (nm : Name) : Bool :=
  match nm with
  | [] => false
  | c :: rest => decide (nm.length ≤ dbNameMaxLen) && isLetter c && rest.all isNameChar

/-- `isValidMeasurementName`: 1..128 bytes, `^[a-zA-Z][a-zA-Z0-9_-]*$` -/
def validMeas (nm : Name) : Bool :=
  match nm with
  | [] => false
  | c :: rest => decide (nm.length ≤ measNameMaxLen) && isLetter c && rest.all isNameChar

/-! ## convertColumnsToTyped -/

def firstNonNil : List Cell → Option Cell
  | [] => none
  | .nil :: rest => firstNonNil rest
  | c :: _ => some c

/-- `toInt64` succeeds -/
def cellToInt : Cell → Bool
  | .int => true | .flt => true | _ => false
/-- `toFloat64` succeeds -/
def cellToFloat : Cell → Bool
  | .int => true | .ubig => true | .flt => true | .fbig => true | _ => false

def hasNil (cs : List Cell) : Bool := cs.any (· == .nil)

/-- one non-empty column: `none` = the request is rejected (`failed to convert columns`). -/
def convCol (nm : Name) (cs : List Cell) : Option Col :=
  let n := cs.length
  let v := if hasNil cs then n else 0
  match firstNonNil cs with
  | none =>
    if nm == timeName then none                       -- "time column contains only null values"
    else some ⟨nm, .str, n, n⟩                          -- all-null string placeholder column
  | some first =>
    if nm == timeName then
      -- string first value rejects; every cell must be non-nil and pass toInt64
      if first == .str then none
      else if cs.all cellToInt then some ⟨nm, .i64, n, 0⟩ else none
    else
      match first with
      | .int | .ubig =>
        if cs.all (fun c => c == .nil || cellToInt c) then some ⟨nm, .i64, n, v⟩ else none
      | .flt | .fbig =>
        if cs.all (fun c => c == .nil || cellToFloat c) then some ⟨nm, .f64, n, v⟩ else none
      | .str => if cs.all (fun c => c == .nil || c == .str) then some ⟨nm, .str, n, v⟩ else none
      | .bool => if cs.all (fun c => c == .nil || c == .bool) then some ⟨nm, .bool, n, v⟩ else none
      | _ => none                                        -- "unsupported column type"

def convCols : List (Name × List Cell) → Option (List Col)
  | [] => some []
  | (nm, cs) :: rest =>
    if cs.isEmpty then convCols rest                     -- `if len(col) == 0 { continue }`
    else
      match convCol nm cs, convCols rest with
      | some c, some r => some (c :: r)
      | _, _ => none

def allLensEq : List Col → Bool
  | [] => true
  | c :: rest => rest.all (fun d => d.len == c.len)

/-- `times` cut or zero-padded to `n` entries (the harness always supplies exactly `n`) -/
def fitLen (n : Nat) (ts : List Int) : List Int := (List.range n).map (fun i => ts.getD i 0)

/-- `convertColumnsToTyped`. `times` = the converted int64 values of the time column and `nrec` = the
length of the map-order-first non-empty column are supplied with the record (value arithmetic and Go
map order are outside the model). Since /repo 3fc3856 two non-empty columns of different length are
an error (fact `convertChecksLengths`): whatever the producer, the typed batch is even. -/
def convert (cols : List (Name × List Cell)) (times : List Int) (nrec : Nat) : Option Batch :=
  match convCols cols with
  | none => none
  | some cs =>
    if convertChecksLengths && !allLensEq cs then none
    else
      let hasTime := cs.any (fun c => c.name == timeName)
      let n := match cs.find? (fun c => c.name == timeName) with
        | some c => c.len
        | none => 0
      some { cols := cs, times := if hasTime then fitLen n times else [], nrec := nrec }

/-! ## validateImportHeader (CSV / Parquet import) and the names the import stores -/

def distinctNames : List Name → Bool
  | [] => true
  | x :: xs => !xs.contains x && distinctNames xs

/-- `validateImportHeader`: no empty name, no `_`-prefixed name (since /repo 273e2e1; fact
`importRejectsUnderscoreName`), no duplicate, the time column is present, and a literal `time` column
may not coexist with a renamed time column. -/
def validHeader (header : List Name) (timeCol : Name) : Bool :=
  !header.contains [] && distinctNames header && header.contains timeCol &&
  (timeCol == timeName || !header.contains timeName) &&
  !(importRejectsUnderscoreName && header.any isUnderscore)

/-- the map keys `importCSV` / `importParquet` store the columns under: the header names exactly as
validated (fact `importNamesStoredAsValidated`), the time column under "time". -/
def storageName (timeCol : Name) (n : Name) : Name := if n == timeCol then timeName else n
def storageNames (header : List Name) (timeCol : Name) : List Name := header.map (storageName timeCol)

/-! ## rowsToColumnar (row-format MessagePack records of one measurement) -/

structure Row where
  tags   : List Name                 -- tag values are always strings
  fields : List (Name × Cell)
deriving DecidableEq, Repr

def allTags (rows : List Row) : List Name := (rows.flatMap (·.tags)).eraseDups
def allFields (rows : List Row) : List Name := (rows.flatMap (fun r => r.fields.map Prod.fst)).eraseDups

/-- column a field lands in: "`field`_value" when a tag of that name exists -/
def fieldCol (tags : List Name) (f : Name) : Name := if tags.contains f then f ++ valueSuffix else f

/-- the cells one row appends to column `c`, in the order of the three append loops: the timestamp
(only `c = "time"`), the tag value or nil (every `c ∈ allTags`), one value or nil for EVERY field whose
target column is `c`. Nothing stops a tag or a field from being called "time" (fact `rowTimeGuard`), nor
two fields from sharing a target column — those columns get more than one cell per row. -/
def rowCells (tags fields : List Name) (c : Name) (r : Row) : List Cell :=
  (if c == timeName then [Cell.int] else []) ++
  (if tags.contains c then [if r.tags.contains c then Cell.str else Cell.nil] else []) ++
  (fields.filter (fun f => fieldCol tags f == c)).map (fun f => (r.fields.lookup f).getD .nil)

def rowsToColumnar (rows : List Row) : List (Name × List Cell) :=
  let tags := allTags rows
  let fields := allFields rows
  let names := (timeName :: tags ++ fields.map (fieldCol tags)).eraseDups
  names.map (fun c => (c, rows.flatMap (rowCells tags fields c)))

/-! ## mergeBatches -/

/-- Two batches give one column name two Go types. `mergeBatches` types `merged[name]` by the FIRST
batch that has the column and type-asserts every batch against it, so (names being unique per batch)
it hits a failing assertion iff such a pair exists. -/
def conflict (bs : List Batch) : Bool :=
  bs.any fun b1 => bs.any fun b2 => b1.cols.any fun c1 => b2.cols.any fun c2 =>
    c1.name == c2.name && c1.ty != c2.ty

def colTy? (b : Batch) (nm : Name) : Option Ty := (b.cols.find? (fun c => c.name == nm)).map (·.ty)
def firstTy (bs : List Batch) (nm : Name) : Ty := (bs.findSome? (fun b => colTy? b nm)).getD .i64
def unionNames (bs : List Batch) : List Name := (bs.flatMap (fun b => b.cols.map (·.name))).eraseDups
def rowsOf (bs : List Batch) : Nat := (bs.map (·.nrec)).sum

/-- PHASE 2/3: every column of the union is allocated with `totalRows` = Σ len(time) elements. -/
def mergedBatch (bs : List Batch) : Batch :=
  let times := bs.flatMap (·.times)
  { cols := (unionNames bs).map (fun nm => ⟨nm, firstTy bs nm, times.length, 0⟩)
    times := times
    nrec := rowsOf bs }

/-- `none` = returned an error (rows dropped, no panic) -/
def mergeBatches (bs : List Batch) : Except Site (Option Batch) :=
  match bs with
  | [] => .ok none
  | [b] => .ok (some b)                                -- `if len(batches) == 1 { return tcb }`
  | _ =>
    if conflict bs then
      (if mergeUncheckedAsserts > 0 && !mergeRecovers then .error .mergeTypeAssert else .ok none)
    else .ok (some (mergedBatch bs))

/-! ## flushPartitionedData → WriteParquetColumnar -/

structure FileOut where
  rows   : Nat
  schema : List (Name × Ty)
deriving DecidableEq, Repr

def microPerHour : Int := 3600000000
/-- hour bucket (floor division; `Truncate(time.Hour)` of the real code) -/
def hourOf (t : Int) : Int := t / microPerHour

def sortedTimes : List Int → Bool
  | [] => true
  | [_] => true
  | a :: b :: rest => decide (a ≤ b) && sortedTimes (b :: rest)

def minL : Int → List Int → Int
  | m, [] => m
  | m, t :: ts => minL (if t < m then t else m) ts
def maxL : Int → List Int → Int
  | m, [] => m
  | m, t :: ts => maxL (if t > m then t else m) ts

/-- the Parquet schema: `_`-prefixed columns are left out (and an empty name would be indexed) -/
def schemaFields (cols : List Col) : List Col :=
  cols.filter (fun c => !(schemaSkipsUnderscore && isUnderscore c.name) && !(schemaGuardsEmpty && c.name.isEmpty))

/-- `WriteParquetColumnar`: getSchema (`name[0]`), one builder per field (`AppendValues`),
`array.NewRecord`. `none` = returned an error. -/
def writeParquet (cols : List Col) (rows : Nat) : Except Site (Option FileOut) :=
  if !schemaGuardsEmpty && cols.any (fun c => c.name.isEmpty) then .error .schemaName0
  else if cols.any (fun c => c.name == timeName && c.ty != .i64) then .ok none   -- "time column must be int64"
  else
    let fs := schemaFields cols
    if fs.any (fun c => c.vlen != 0 && c.vlen != c.len) then .error .appendValuesLen
    else if !allLensEq fs then .error .newRecordRows
    else .ok (some ⟨rows, fs.map (fun c => (c.name, c.ty))⟩)

/-- after applyPermutation / sliceColumnsByIndices every column (and validity) has `n` entries -/
def evened (cols : List Col) (n : Nat) : List Col :=
  cols.map (fun c => { c with len := n, vlen := if c.vlen == 0 then 0 else n })

/-- `flushPartitionedData` on the merged batch (default sort keys = ["time"]). -/
def flushMerged (m : Batch) : Except Site (Option FileOut) :=
  match m.times with
  | [] => .ok none                                      -- "no time data in batch"
  | t0 :: ts =>
    let n := m.times.length
    if hourOf (minL t0 ts) == hourOf (maxL t0 ts) then
      -- single hour: sortTypedColumnBatchByKeys; a permutation is built only for unsorted times
      if sortedTimes m.times then writeParquet m.cols m.nrec
      else if !permBoundsChecked && m.cols.any (fun c => decide (c.len < n)) then .error .permIndex
      else if !validPermBoundsChecked && m.cols.any (fun c => c.vlen != 0 && decide (c.vlen < n)) then
        .error .permValidIndex
      else writeParquet (evened m.cols n) m.nrec
    else
      -- several hours: sliceTypedColumnBatchByIndices is bounds-checked; every hour batch is even;
      -- totalRecordsWritten counts the index lists (Σ len(bucket.indices) = len(times)), not recordCount
      writeParquet (evened m.cols n) n

/-- one flush task: `Except` = panic, `none` = error (rows lost, logged), `some` = file(s) written -/
def flushBatches (bs : List Batch) : Except Site (Option FileOut) :=
  match mergeBatches bs with
  | .error s => .error s
  | .ok none => .ok none
  | .ok (some m) => flushMerged m

/-! ## server state -/

structure StoredFile where
  key    : Name
  rows   : Nat
  schema : List (Name × Ty)
deriving DecidableEq, Repr

structure St where
  bufs   : List (Name × List Batch) := []     -- shard.buffers (key = database ++ "/" ++ measurement)
  files  : List StoredFile := []              -- storage
  lost   : Nat := 0                            -- rows taken out of a buffer by a flush that then failed or panicked
  appended : Nat := 0                          -- totalRecordsBuffered: Σ numRecords of every appended batch
deriving DecidableEq, Repr

def St.stored (s : St) : Nat := (s.files.map (·.rows)).sum
def St.buffered (s : St) : Nat := (s.bufs.map (fun p => rowsOf p.2)).sum

def bufGet (s : St) (k : Name) : List Batch := (s.bufs.lookup k).getD []
def bufErase (s : St) (k : Name) : St := { s with bufs := s.bufs.filter (fun p => p.1 != k) }
def bufSet (s : St) (k : Name) (l : List Batch) : St :=
  { s with bufs := (k, l) :: s.bufs.filter (fun p => p.1 != k) }

/-- book-keeping after a flush of the batches `l` of key `k` that did not panic -/
def applyFlush (s : St) (k : Name) (l : List Batch) : Option FileOut → St
  | some f => { s with files := s.files ++ [⟨k, f.rows, f.schema⟩] }
  | none => { s with lost := s.lost + rowsOf l }

inductive WOut
  | ok                      -- batch appended (and possibly flushed by a worker)
  | reqPanic (s : Site)     -- panic on the request goroutine (recovered by the middleware)
deriving DecidableEq, Repr

structure Cfg where
  maxBuf : Nat              -- ingest.max_buffer_size
  wal    : Bool
deriving DecidableEq, Repr

def keyOf (db meas : Name) : Name := db ++ [slash] ++ meas

/-- AppendRawWithMeta: `envHeader[:1+2+len(db)]` of a `[envHeaderCap]byte` array -/
def envPanics (cfg : Cfg) (db : Name) : Bool :=
  cfg.wal && !envGuardsDbLen && decide (3 + db.length > envHeaderCap)

/-- the buffer exists and was created with another signature -/
def schemaChanged (old : List Batch) (b : Batch) : Bool :=
  match old with
  | [] => false
  | h :: _ => !sameSig h b

/-- `flushOnSchemaChangeLocked`: synchronous flush (request goroutine) when the signature differs -/
def syncStage (s : St) (k : Name) (b : Batch) : Except Site St :=
  if schemaChanged (bufGet s k) b then
    match flushBatches (bufGet s k) with
    | .error site => .error site
    | .ok r => .ok (applyFlush (bufErase s k) k (bufGet s k) r)
  else .ok s

/-- append, count, size trigger: the extracted batches go to a flush WORKER (`.error` = process dies) -/
def appendStage (cfg : Cfg) (s1 : St) (k : Name) (b : Batch) : Except Site (WOut × St) :=
  let l := bufGet s1 k ++ [b]
  let s2 : St := { s1 with appended := s1.appended + b.nrec }
  if rowsOf l ≥ cfg.maxBuf then
    match flushBatches l with
    | .error site =>
      if flushGoroutinesRecover then .ok (.ok, { (bufErase s2 k) with lost := s2.lost + rowsOf l }) else .error site
    | .ok r => .ok (.ok, applyFlush (bufErase s2 k) k l r)
  else .ok (.ok, bufSet s2 k l)

/-- `writeColumnarInternal` / `writeTypedColumnarRaw` after the typing step. `.error site` = a flush
WORKER goroutine panicked: the process is gone. -/
def writeBatch (cfg : Cfg) (s : St) (db meas : Name) (b : Batch) : Except Site (WOut × St) :=
  if envPanics cfg db then .ok (.reqPanic .walEnvelope, s)
  else
    match syncStage s (keyOf db meas) b with
    | .error site =>
      -- request goroutine: the buffer entry was deleted before the merge, its rows are gone
      .ok (.reqPanic site,
        { (bufErase s (keyOf db meas)) with lost := s.lost + rowsOf (bufGet s (keyOf db meas)) })
    | .ok s1 => appendStage cfg s1 (keyOf db meas) b

/-! ## requests -/

inductive Ep | msgpack | lp | tle | csv | parquet | implp | imptle
deriving DecidableEq, Repr

/-- import handlers call `FlushAll` before answering -/
def Ep.flushesAll : Ep → Bool
  | .csv | .parquet | .implp | .imptle => true
  | _ => false

inductive Rec
  | generic (meas : Name) (cols : List (Name × List Cell)) (times : List Int) (nrec : Nat)
  | typed (meas : Name) (b : Batch)
  | rows (meas : Name) (rows : List Row) (times : List Int) (nrec : Nat)
  | nested                       -- a value `ArrowBuffer.Write` has no case for: "unknown record type"
deriving Repr

structure Req where
  ep    : Ep
  db    : Name                   -- after defaulting ("default")
  pre   : Option Nat := none     -- rejected by a stage outside the model with this status
  vmeas : List Name := []        -- measurement names the handler validates
  recs  : List Rec := []
deriving Repr

structure Resp where
  status : Nat
  added  : Nat := 0              -- rows of THIS request that were appended to a buffer
  panic  : Option Site := none   -- a panic on the request goroutine (answered 500 by the middleware)
deriving DecidableEq, Repr

def Resp.rejected (r : Resp) : Bool := decide (r.status ≥ 400)

inductive RecOut
  | ok (added : Nat)
  | reject                        -- handler answers 500 "failed to write"
  | reqPanic (s : Site)
deriving DecidableEq, Repr

/-- the typed batch of one record goes to the buffer layer. Both write paths first refuse a batch
with a column named "" (fact `writeRejectsEmptyName`): the handler answers 500, nothing is buffered. -/
def bufferBatch (cfg : Cfg) (s : St) (db meas : Name) (b : Batch) : Except Site (RecOut × St) :=
  if writeRejectsEmptyName && b.cols.any (fun c => c.name.isEmpty) then .ok (.reject, s)
  else
    match writeBatch cfg s db meas b with
    | .error site => .error site
    | .ok (.ok, s') => .ok (.ok b.nrec, s')
    | .ok (.reqPanic site, s') => .ok (.reqPanic site, s')

def writeRec (cfg : Cfg) (s : St) (db : Name) : Rec → Except Site (RecOut × St)
  | .nested => .ok (.reject, s)
  | .typed meas b => bufferBatch cfg s db meas b
  | .generic meas cols times nrec =>
    match convert cols times nrec with
    | none => .ok (.reject, s)
    | some b => bufferBatch cfg s db meas b
  | .rows meas rows times nrec =>
    match convert (rowsToColumnar rows) times nrec with
    | none => .ok (.reject, s)
    | some b => bufferBatch cfg s db meas b

/-- the record loop of `ArrowBuffer.Write` / the per-measurement loops of the LP handlers: stops at
the first failing record; what was buffered before STAYS buffered (fact `writeAtomic = false`). -/
def writeRecs (cfg : Cfg) (db : Name) : St → Nat → List Rec → Except Site (Resp × St)
  | s, added, [] => .ok ({ status := 204, added := added }, s)
  | s, added, r :: rest =>
    match writeRec cfg s db r with
    | .error site => .error site
    | .ok (.ok n, s') => writeRecs cfg db s' (added + n) rest
    | .ok (.reject, s') => .ok ({ status := 500, added := added }, s')
    | .ok (.reqPanic site, s') => .ok ({ status := 500, added := added, panic := some site }, s')

/-- `FlushAll` on the request goroutine: every buffer, in map order (modelled as list order; the
first panic ends the handler). Returns `(anyError, panic?)`. -/
def flushAll : List (Name × List Batch) → St → Bool → (Bool × Option Site × St)
  | [], s, err => (err, none, s)
  | (k, l) :: rest, s, err =>
    match flushBatches l with
    | .error site => (true, some site, { (bufErase s k) with lost := s.lost + rowsOf l })
    | .ok r => flushAll rest (applyFlush (bufErase s k) k l r) (err || r.isNone)

/-- one HTTP request. `.error site` = the process died on a flush goroutine. -/
def step (cfg : Cfg) (s : St) (r : Req) : Except Site (Resp × St) :=
  match r.pre with
  | some st => .ok ({ status := st }, s)
  | none =>
    if !validDb r.db then .ok ({ status := 400 }, s)
    else if r.vmeas.any (fun m => !validMeas m) then .ok ({ status := 400 }, s)
    else
      match writeRecs cfg r.db s 0 r.recs with
      | .error site => .error site
      | .ok (resp, s1) =>
        if resp.status ≥ 400 || !r.ep.flushesAll then .ok (resp, s1)
        else
          match flushAll s1.bufs s1 false with
          | (_, some site, s2) => .ok ({ resp with status := 500, panic := some site }, s2)
          | (true, none, s2) => .ok ({ resp with status := 500 }, s2)
          | (false, none, s2) => .ok ({ resp with status := 200 }, s2)

/-- a sequence of requests to ONE server instance -/
def pipelineFrom (cfg : Cfg) : St → List Req → Except Site (List Resp × St)
  | s, [] => .ok ([], s)
  | s, r :: rest =>
    match step cfg s r with
    | .error site => .error site
    | .ok (resp, s1) =>
      match pipelineFrom cfg s1 rest with
      | .error site => .error site
      | .ok (resps, s2) => .ok (resp :: resps, s2)

def pipeline (cfg : Cfg) (reqs : List Req) : Except Site (List Resp × St) := pipelineFrom cfg {} reqs

/-- what eventually happens to whatever is still buffered: the age timer flushes it on the
periodicFlush goroutine (`.error` = process dies). -/
def drain : List (Name × List Batch) → St → Except Site St
  | [], s => .ok s
  | (k, l) :: rest, s =>
    match flushBatches l with
    | .error site => if flushGoroutinesRecover then drain rest { (bufErase s k) with lost := s.lost + rowsOf l } else .error site
    | .ok r => drain rest (applyFlush (bufErase s k) k l r)

/-- the whole life of a server instance: the requests, then the background flush of the rest -/
def lifetime (cfg : Cfg) (reqs : List Req) : Except Site (List Resp × St) :=
  match pipeline cfg reqs with
  | .error site => .error site
  | .ok (resps, s) =>
    match drain s.bufs s with
    | .error site => .error site
    | .ok s' => .ok (resps, s')

end Arc.C04
