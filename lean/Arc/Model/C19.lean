import Arc.Generated.C19
/-!
C19 — byte-level model of arc's query response encoders, and the decoders used as their SPEC.

Bytes are `Nat`s (< 256 wherever it matters; `AllBytes`), so that every size-class argument is plain
linear arithmetic.  The driver (Arc/Drive/C19.lean) converts at the edge.

IMPLEMENTATION side (transcriptions; constants come from `Arc.Generated.C19`, regenerated from the source):
* `writeJSONString`, `writeJSONStringArray`        internal/api/query_json_writer.go
* `writeInt`, `writeBoolCell`, `nullCell`, `writeFloatCell` (decision logic only: non-finite → null; the
  digits of a finite float come from strconv and are a parameter)      query_arrow_json.go:writeArrowValue
* `jsonRows` / `jsonEnvelope`                       query_arrow_json.go:streamArrowJSON (batch/row loops,
                                                    governance `goto done`, envelope layout)
* `drainBatches`                                    query_msgpack.go:drainArrowBatches (row cap / trim)
* `encUint encInt encInt64 encUint64 encF32 encF64 encNil encBool encStr encBin encArrLen encMapLen
  encExtLen encTime`                                msgpack fork: encode_number.go, encode_slice.go,
                                                    encode_map.go, ext.go, time.go
* `mpEnvelope`                                      query_msgpack.go:streamMsgPackFromBatches

SPEC side (written from the RFCs, not from the code):
* `ValidUTF8` (RFC 3629), `jsonDecode` (RFC 8259 §7 string), `decInt` (RFC 8259 §6 integer part)
* `decTok` / `tokens` (MessagePack spec: every format code), `decTime` (timestamp extension type -1)
-/
namespace Arc.C19
open Arc.Generated.C19

abbrev Bytes := List Nat

def AllBytes (s : Bytes) : Prop := ∀ b ∈ s, b < 256

/-! ## JSON string writer (implementation) -/

/-- `hexDigit` of query_json_writer.go -/
def hexDigit (b : Nat) : Nat := if b < hexDigitBelow then hexDigitNum + b else hexDigitAlpha + b - 10

/-- the `if c == '"' || c == '\\' || c < 0x20` test -/
def needsEsc (c : Nat) : Bool := escAlways.contains c || c < escBelow

/-- the `switch c` that writes the escape sequence -/
def escSeq (c : Nat) : Bytes :=
  match escTable.lookup c with
  | some e => e
  | none => escDefaultPrefix ++ [hexDigit (c / 16), hexDigit (c % 16)]

/-- what one input byte contributes to the output -/
def escOne (c : Nat) : Bytes := if needsEsc c then escSeq c else [c]

/-- the scan loop: `seg` is the pending clean segment `s[start:i]`, `out` what has been written. -/
def wjsLoop : Bytes → Bytes → Bytes → Bytes
  | [], seg, out => out ++ seg
  | c :: rest, seg, out =>
    if needsEsc c then wjsLoop rest [] (out ++ seg ++ escSeq c) else wjsLoop rest (seg ++ [c]) out

def writeJSONString (s : Bytes) : Bytes := 34 :: (wjsLoop s [] [] ++ [34])

/-- closed form used by the proofs (`wjsLoop_eq`) -/
def escAll (s : Bytes) : Bytes := s.flatMap escOne

def joinComma : List Bytes → Bytes
  | [] => []
  | [x] => x
  | x :: y :: r => x ++ 44 :: joinComma (y :: r)

/-- `writeJSONStringArray` -/
def writeJSONStringArray (ss : List Bytes) : Bytes := 91 :: (joinComma (ss.map writeJSONString) ++ [93])

/-! ## JSON scalar cell writers (implementation) -/

/-- decimal digits of a natural number (strconv.AppendUint, base 10) -/
def natDigits (n : Nat) : Bytes :=
  if n < 10 then [48 + n] else natDigits (n / 10) ++ [48 + n % 10]
decreasing_by omega

/-- strconv.AppendInt(v, 10) -/
def writeInt (v : Int) : Bytes := if v < 0 then 45 :: natDigits (-v).toNat else natDigits v.toNat

def nullCell : Bytes := jsonNullText
def writeBoolCell (b : Bool) : Bytes := if b then jsonTrueText else jsonFalseText

/-- IEEE-754 binary64 bit pattern classification -/
def f64NonFinite (bits : Nat) : Bool := bits / 2 ^ 52 % 2048 == 2047
def f32NonFinite (bits : Nat) : Bool := bits / 2 ^ 23 % 256 == 255

/-- float32 → float64 widening of a NON-FINITE pattern keeps it non-finite (the code tests
`math.IsNaN(float64(v)) || math.IsInf(float64(v),0)`); for the decision only the class matters. -/
def writeFloatCell (fmt : Nat → Bytes) (bits : Nat) : Bytes :=
  if f64NonFinite bits then jsonNonFiniteText else fmt bits
def writeFloat32Cell (fmt : Nat → Bytes) (bits : Nat) : Bytes :=
  if f32NonFinite bits then jsonNonFiniteText else fmt bits

/-! ## BLOB and 128-bit decimal cells (query_arrow_json.go: blobText, decimalText) -/

/-- the `c >= 32 && c <= 126 && c != '\\' && c != '\'' && c != '"'` test of blobText -/
def blobPlain (c : Nat) : Bool := blobPrintLo ≤ c && c ≤ blobPrintHi && !blobExcluded.contains c

/-- one byte of a BLOB: itself, or `\xHH` with the digits taken from `hexd` -/
def blobOne (c : Nat) : Bytes :=
  if blobPlain c then [c] else blobEscPrefix ++ [blobHexDigits.getD (c / 16) 0, blobHexDigits.getD (c % 16) 0]

/-- `blobText`: DuckDB's text form of a BLOB -/
def blobText (s : Bytes) : Bytes := s.flatMap blobOne

/-- `decimalText(unscaled, scale)`: digits of |unscaled|, left-padded with zeros to scale+1 digits, decimal
point inserted `scale` digits from the right (only when scale > 0), sign in front -/
def decimalText (unscaled : Int) (scale : Nat) : Bytes :=
  let d := natDigits unscaled.natAbs
  let body :=
    if scale > 0 then
      let p := List.replicate (scale + 1 - d.length) 48 ++ d
      p.take (p.length - scale) ++ 46 :: p.drop (p.length - scale)
    else d
  if unscaled < 0 then 45 :: body else body

/-! ## the result-set cells the envelope models are stated over -/

inductive Cell where
  | null
  | bool (b : Bool)
  | int (v : Int)            -- any integer column (value printed by AppendInt/AppendUint)
  | f64 (bits : Nat)
  | str (s : Bytes)          -- utf8 / large_utf8 / binary-as-string
  | ts (sec : Int) (nsec : Nat)   -- timestamp/date (msgpack only in the model)
  | bin (s : Bytes)          -- msgpack only
  deriving DecidableEq, Repr

/-- `writeArrowValue` on the modelled cell classes; `fmt` = strconv's text of a finite float64;
timestamps (time.AppendFormat) are outside the model: `tsFmt`. -/
def writeCell (fmt : Nat → Bytes) (tsFmt : Int → Nat → Bytes) : Cell → Bytes
  | .null => nullCell
  | .bool b => writeBoolCell b
  | .int v => writeInt v
  | .f64 bits => writeFloatCell fmt bits
  | .str s => writeJSONString s
  | .bin s => writeJSONString (blobText s)
  | .ts s n => 34 :: (tsFmt s n ++ [34])

/-! ## row loops and the governance row limit (implementation) -/

/-- inner `for row` loop of streamArrowJSON with the `goto done` test; returns (done, rows emitted so far). -/
def jsonInner {α : Type} (maxRows : Nat) : List α → List α → Bool × List α
  | [], out => (false, out)
  | r :: rest, out =>
    if maxRows > 0 ∧ out.length ≥ maxRows then (true, out) else jsonInner maxRows rest (out ++ [r])

/-- outer `for reader.Next()` loop -/
def jsonOuter {α : Type} (maxRows : Nat) : List (List α) → List α → List α
  | [], out => out
  | b :: bs, out =>
    match jsonInner maxRows b out with
    | (true, out') => out'
    | (false, out') => jsonOuter maxRows bs out'

/-- rows that streamArrowJSON emits for a reader yielding `batches` -/
def jsonRows {α : Type} (maxRows : Nat) (batches : List (List α)) : List α := jsonOuter maxRows batches []

/-- `drainArrowBatches`: retained (possibly trimmed) batches and the row count -/
def drainLoop {α : Type} (cap : Nat) : List (List α) → List (List α) → Nat → List (List α) × Nat
  | [], acc, rc => (acc, rc)
  | b :: bs, acc, rc =>
    if cap > 0 then
      if rc ≥ cap then (acc, rc)
      else if rc + b.length > cap then (acc ++ [b.take (cap - rc)], cap)
      else drainLoop cap bs (acc ++ [b]) (rc + b.length)
    else drainLoop cap bs (acc ++ [b]) (rc + b.length)

def drainBatches {α : Type} (cap : Nat) (batches : List (List α)) : List (List α) × Nat :=
  drainLoop cap batches [] 0

/-! ## JSON envelope (implementation) -/

def jsonRow (fmt : Nat → Bytes) (tsFmt : Int → Nat → Bytes) (row : List Cell) : Bytes :=
  91 :: (joinComma (row.map (writeCell fmt tsFmt)) ++ [93])

/-- the complete body written by streamArrowJSON (profile == nil) -/
def jsonEnvelope (fmt : Nat → Bytes) (tsFmt : Int → Nat → Bytes) (cols : List Bytes)
    (maxRows : Nat) (batches : List (List (List Cell))) (execMs : Nat) (timestamp : Bytes) : Bytes :=
  let rows := jsonRows maxRows batches
  jsonEnvOpen ++ writeJSONStringArray cols ++ jsonEnvData ++ joinComma (rows.map (jsonRow fmt tsFmt)) ++
    jsonEnvRowCount ++ writeInt rows.length ++ jsonEnvExec ++ natDigits execMs ++ jsonEnvTimestamp ++
    writeJSONString timestamp ++ [125]

/-! ## MessagePack encoders (implementation: the Basekick-Labs/msgpack fork) -/

/-- `k` bytes big-endian (write1/2/4/8 take the value mod 256^k: Go integer conversion) -/
def be : Nat → Nat → Bytes
  | 0, _ => []
  | k + 1, v => (v / 256 ^ k % 256) :: be k v

def two64 : Nat := 18446744073709551616

def encUint64 (n : Nat) : Bytes := cUint64 :: be 8 n
def encUint (n : Nat) : Bytes :=
  if n ≤ uintFixLe then [n]
  else if n ≤ uint8Le then cUint8 :: be 1 n
  else if n ≤ uint16Le then cUint16 :: be 2 n
  else if n ≤ uint32Le then cUint32 :: be 4 n
  else encUint64 n

/-- two's complement representative of an int64 as uint64 (`uint64(n)`) -/
def u64 (v : Int) : Nat := (v % (two64 : Int)).toNat

def encInt64 (v : Int) : Bytes := cInt64 :: be 8 (u64 v)
def encInt (v : Int) : Bytes :=
  if v ≥ 0 then encUint v.toNat
  else if v ≥ intFixGe then [u64 v % 256]
  else if v ≥ int8Ge then cInt8 :: be 1 (u64 v)
  else if v ≥ int16Ge then cInt16 :: be 2 (u64 v)
  else if v ≥ int32Ge then cInt32 :: be 4 (u64 v)
  else encInt64 v

def encF32 (bits : Nat) : Bytes := cFloat :: be 4 bits
def encF64 (bits : Nat) : Bytes := cDouble :: be 8 bits
def encNil : Bytes := [cNil]
def encBool (b : Bool) : Bytes := if b then [cTrue] else [cFalse]

def encStrLen (l : Nat) : Bytes :=
  if l < strFixLt then [cFixedStrLow + l]
  else if l < str8Lt then cStr8 :: be 1 l
  else if l ≤ str16Le then cStr16 :: be 2 l
  else cStr32 :: be 4 l
def encStr (s : Bytes) : Bytes := encStrLen s.length ++ s

def encBinLen (l : Nat) : Bytes :=
  if l < bin8Lt then cBin8 :: be 1 l
  else if l ≤ bin16Le then cBin16 :: be 2 l
  else cBin32 :: be 4 l
def encBin (s : Bytes) : Bytes := encBinLen s.length ++ s

def encArrLen (l : Nat) : Bytes :=
  if l < arrFixLt then [cFixedArrayLow + l]
  else if l ≤ arr16Le then cArray16 :: be 2 l
  else cArray32 :: be 4 l
def encMapLen (l : Nat) : Bytes :=
  if l < mapFixLt then [cFixedMapLow + l]
  else if l ≤ map16Le then cMap16 :: be 2 l
  else cMap32 :: be 4 l

def encExtLen (l : Nat) : Bytes :=
  match extFixLens.lookup l with
  | some c => [c]
  | none =>
    if l ≤ ext8Le then cExt8 :: be 1 l
    else if l ≤ ext16Le then cExt16 :: be 2 l
    else cExt32 :: be 4 l

/-- `encodeTime`: payload of the timestamp extension for `time.Unix(sec, nsec)`, 0 ≤ nsec < 10^9 -/
def timeData (sec : Int) (nsec : Nat) : Bytes :=
  let secs := u64 sec
  if secs / 2 ^ timeSecShift = 0 then
    let data := nsec * 2 ^ timeSecShift + secs          -- nsec<<34 | secs (disjoint bits)
    if data / 2 ^ 32 % 2 ^ 32 = 0 then be 4 data       -- data & 0xffffffff00000000 == 0
    else be 8 data
  else be 4 nsec ++ be 8 secs

def encTime (sec : Int) (nsec : Nat) : Bytes :=
  let d := timeData sec nsec
  encExtLen d.length ++ timeExtId :: d

/-- msgpack cell encoders of encode*Column -/
inductive MpTy | i64 | icompact | u64 | ucompact | f64 | f32 | bool | str | bin | ts
  deriving DecidableEq, Repr

def encCell : MpTy → Cell → Bytes
  | _, .null => encNil
  | .i64, .int v => encInt64 v
  | .icompact, .int v => encInt v
  | .u64, .int v => encUint64 v.toNat
  | .ucompact, .int v => encUint v.toNat
  | .f64, .f64 b => encF64 b
  | .f32, .f64 b => encF32 b
  | _, .bool b => encBool b
  | _, .str s => encStr s
  | _, .bin s => encBin s
  | _, .ts s n => encTime s n
  | _, .int v => encInt v
  | _, .f64 b => encF64 b

def strBytes (s : String) : Bytes := s.toUTF8.toList.map (·.toNat)

/-- envelope keys as bytes (checked against the regenerated `mpEnvKeys` by `C19_msgpack_thresholds`) -/
def kSuccess : Bytes := [115, 117, 99, 99, 101, 115, 115]
def kColumns : Bytes := [99, 111, 108, 117, 109, 110, 115]
def kTypes : Bytes := [116, 121, 112, 101, 115]
def kData : Bytes := [100, 97, 116, 97]
def kRowCount : Bytes := [114, 111, 119, 95, 99, 111, 117, 110, 116]
def kExecMs : Bytes := [101, 120, 101, 99, 117, 116, 105, 111, 110, 95, 116, 105, 109, 101, 95, 109, 115]
def kTimestamp : Bytes := [116, 105, 109, 101, 115, 116, 97, 109, 112]

/-- everything after the column-name array -/
def mpEnvelopeTail (cols : List (Bytes × Bytes × MpTy × List Cell)) (rowCount : Nat) (execMs : Nat)
    (timestamp : Bytes) : Bytes :=
  encStr kTypes ++ encArrLen cols.length ++ (cols.flatMap fun c => encStr c.2.1) ++
  encStr kData ++ encArrLen cols.length ++
    (cols.flatMap fun c => encArrLen rowCount ++ c.2.2.2.flatMap (encCell c.2.2.1)) ++
  encStr kRowCount ++ encUint rowCount ++
  encStr kExecMs ++ encUint execMs ++
  encStr kTimestamp ++ encStr timestamp

/-- body written by streamMsgPackFromBatches (profile == nil): `cols` = (name, wire type name, encoder
class, column cells already concatenated over the retained batches). -/
def mpEnvelope (cols : List (Bytes × Bytes × MpTy × List Cell)) (rowCount : Nat) (execMs : Nat)
    (timestamp : Bytes) : Bytes :=
  encMapLen mpEnvMapLen ++
  encStr kSuccess ++ encBool true ++
  encStr kColumns ++ encArrLen cols.length ++ (cols.flatMap fun c => encStr c.1) ++
  mpEnvelopeTail cols rowCount execMs timestamp

/-! ## SPEC: UTF-8 (RFC 3629) -/

def isCont (b : Nat) : Bool := 0x80 ≤ b && b ≤ 0xBF
def ok2 (a b : Nat) : Bool := 0xC2 ≤ a && a ≤ 0xDF && isCont b
def ok3 (a b c : Nat) : Bool :=
  0xE0 ≤ a && a ≤ 0xEF && (if a = 0xE0 then 0xA0 else 0x80) ≤ b && b ≤ (if a = 0xED then 0x9F else 0xBF) && isCont c
def ok4 (a b c d : Nat) : Bool :=
  0xF0 ≤ a && a ≤ 0xF4 && (if a = 0xF0 then 0x90 else 0x80) ≤ b && b ≤ (if a = 0xF4 then 0x8F else 0xBF) &&
    isCont c && isCont d

/-- well-formed UTF-8 byte sequences (Unicode table 3-7 / RFC 3629 §4) -/
inductive ValidUTF8 : Bytes → Prop
  | nil : ValidUTF8 []
  | one (a : Nat) (rest : Bytes) : a < 0x80 → ValidUTF8 rest → ValidUTF8 (a :: rest)
  | two (a b : Nat) (rest : Bytes) : ok2 a b = true → ValidUTF8 rest → ValidUTF8 (a :: b :: rest)
  | three (a b c : Nat) (rest : Bytes) : ok3 a b c = true → ValidUTF8 rest → ValidUTF8 (a :: b :: c :: rest)
  | four (a b c d : Nat) (rest : Bytes) : ok4 a b c d = true → ValidUTF8 rest → ValidUTF8 (a :: b :: c :: d :: rest)

/-- executable checker (fuel = length) -/
def validUTF8F : Nat → Bytes → Bool
  | _, [] => true
  | 0, _ => false
  | f + 1, a :: rest =>
    if a < 0x80 then validUTF8F f rest
    else match rest with
      | b :: r2 =>
        if ok2 a b then validUTF8F f r2
        else match r2 with
          | c :: r3 =>
            if ok3 a b c then validUTF8F f r3
            else match r3 with
              | d :: r4 => if ok4 a b c d then validUTF8F f r4 else false
              | [] => false
          | [] => false
      | [] => false

def validUTF8 (s : Bytes) : Bool := validUTF8F s.length s

/-! ## SPEC: JSON string decoder (RFC 8259 §7) -/

def hexVal (c : Nat) : Option Nat :=
  if 48 ≤ c ∧ c ≤ 57 then some (c - 48)
  else if 97 ≤ c ∧ c ≤ 102 then some (c - 87)
  else if 65 ≤ c ∧ c ≤ 70 then some (c - 55)
  else none

def hex4 (a b c d : Nat) : Option Nat :=
  match hexVal a, hexVal b, hexVal c, hexVal d with
  | some a, some b, some c, some d => some (((a * 16 + b) * 16 + c) * 16 + d)
  | _, _, _, _ => none

def utf8Enc (cp : Nat) : Bytes :=
  if cp < 0x80 then [cp]
  else if cp < 0x800 then [0xC0 + cp / 64, 0x80 + cp % 64]
  else if cp < 0x10000 then [0xE0 + cp / 4096, 0x80 + cp / 64 % 64, 0x80 + cp % 64]
  else [0xF0 + cp / 262144, 0x80 + cp / 4096 % 64, 0x80 + cp / 64 % 64, 0x80 + cp % 64]

/-- after `\u`: four hex digits; a high surrogate must be followed by `\u` + low surrogate; a lone
surrogate is rejected (RFC 8259 §8.2 leaves it undefined; the strict reading is the spec here). -/
def decU (rest : Bytes) : Option (Bytes × Bytes) :=
  match rest with
  | a :: b :: c :: d :: r =>
    match hex4 a b c d with
    | none => none
    | some cp =>
      if 0xD800 ≤ cp ∧ cp < 0xDC00 then
        match r with
        | 92 :: 117 :: a' :: b' :: c' :: d' :: r' =>
          match hex4 a' b' c' d' with
          | some lo =>
            if 0xDC00 ≤ lo ∧ lo < 0xE000 then
              some (utf8Enc (0x10000 + (cp - 0xD800) * 1024 + (lo - 0xDC00)), r')
            else none
          | none => none
        | _ => none
      else if 0xDC00 ≤ cp ∧ cp < 0xE000 then none
      else some (utf8Enc cp, r)
  | _ => none

/-- after a backslash -/
def decEscape (rest : Bytes) : Option (Bytes × Bytes) :=
  match rest with
  | [] => none
  | e :: r =>
    if e = 34 then some ([34], r)
    else if e = 92 then some ([92], r)
    else if e = 47 then some ([47], r)
    else if e = 98 then some ([8], r)
    else if e = 102 then some ([12], r)
    else if e = 110 then some ([10], r)
    else if e = 114 then some ([13], r)
    else if e = 116 then some ([9], r)
    else if e = 117 then decU r
    else none

/-- one unescaped multi-byte UTF-8 character starting with `c ≥ 0x80` -/
def decUtf8 (c : Nat) (rest : Bytes) : Option (Bytes × Bytes) :=
  match rest with
  | b :: r2 =>
    if ok2 c b then some ([c, b], r2)
    else match r2 with
      | d :: r3 =>
        if ok3 c b d then some ([c, b, d], r3)
        else match r3 with
          | e :: r4 => if ok4 c b d e then some ([c, b, d, e], r4) else none
          | [] => none
      | [] => none
  | [] => none

/-- one JSON `char` (not the closing quote). `strict = false` is the byte-transparent reading that
passes bytes ≥ 0x80 through unvalidated (used only to state what is emitted for invalid UTF-8). -/
def decChar (strict : Bool) (c : Nat) (rest : Bytes) : Option (Bytes × Bytes) :=
  if c = 92 then decEscape rest
  else if c < 0x20 ∨ c = 34 then none
  else if c < 0x80 then some ([c], rest)
  else if strict then decUtf8 c rest
  else if c < 256 then some ([c], rest) else none

/-- string body up to and including the closing quote; returns (decoded bytes, rest after the quote) -/
def decBodyF (strict : Bool) : Nat → Bytes → Option (Bytes × Bytes)
  | 0, _ => none
  | _ + 1, [] => none
  | f + 1, c :: rest =>
    if c = 34 then some ([], rest)
    else match decChar strict c rest with
      | none => none
      | some (d, rest') =>
        match decBodyF strict f rest' with
        | none => none
        | some (ds, r) => some (d ++ ds, r)

def decStr (strict : Bool) (s : Bytes) : Option (Bytes × Bytes) :=
  match s with
  | c :: b => if c = 34 then decBodyF strict (b.length + 1) b else none
  | [] => none

/-- a complete JSON string text ↦ the UTF-8 bytes it denotes -/
def jsonDecodeG (strict : Bool) (s : Bytes) : Option Bytes :=
  match decStr strict s with
  | some (d, []) => some d
  | _ => none

def jsonDecode (s : Bytes) : Option Bytes := jsonDecodeG true s
def jsonDecodeRaw (s : Bytes) : Option Bytes := jsonDecodeG false s

/-! ## SPEC: DuckDB's BLOB text form, read back (printable ASCII except `\` stands for itself, `\xHH` for a byte) -/

def blobDecode : Bytes → Option Bytes
  | [] => some []
  | c :: r =>
    if c = 92 then
      match r with
      | x :: a :: b :: r' =>
        if x = 120 then
          match hexVal a, hexVal b with
          | some p, some q => (blobDecode r').map (fun t => (p * 16 + q) :: t)
          | _, _ => none
        else none
      | _ => none
    else if 32 ≤ c ∧ c ≤ 126 then (blobDecode r).map (fun t => c :: t)
    else none

/-! ## SPEC: JSON integer (RFC 8259 §6: `[ minus ] int`, no leading zeros) -/

def isDigit (c : Nat) : Bool := 48 ≤ c && c ≤ 57

def decDigits : Bytes → Nat → Nat × Bytes
  | [], acc => (acc, [])
  | c :: r, acc => if isDigit c then decDigits r (acc * 10 + (c - 48)) else (acc, c :: r)

def decNat (s : Bytes) : Option (Nat × Bytes) :=
  match s with
  | [] => none
  | c :: r =>
    if c = 48 then (match r with
      | d :: _ => if isDigit d then none else some (0, r)
      | [] => some (0, r))
    else if isDigit c then some (decDigits r (c - 48))
    else none

def decInt (s : Bytes) : Option (Int × Bytes) :=
  match s with
  | 45 :: r => (match decNat r with | some (n, r') => some (-(n : Int), r') | none => none)
  | _ => match decNat s with | some (n, r') => some ((n : Int), r') | none => none

/-! ## SPEC: MessagePack tokens (every format code of the spec) -/

inductive Tok where
  | nil
  | bool (b : Bool)
  | int (v : Int)
  | f32 (bits : Nat)
  | f64 (bits : Nat)
  | str (s : Bytes)
  | bin (s : Bytes)
  | arr (n : Nat)
  | map (n : Nat)
  | ext (ty : Nat) (d : Bytes)
  deriving DecidableEq, Repr

def readN : Nat → Bytes → Option (Bytes × Bytes)
  | 0, b => some ([], b)
  | _ + 1, [] => none
  | n + 1, x :: r =>
    match readN n r with
    | some (s, r') => some (x :: s, r')
    | none => none

def readBE : Nat → Bytes → Option (Nat × Bytes)
  | 0, b => some (0, b)
  | _ + 1, [] => none
  | k + 1, x :: r =>
    match readBE k r with
    | some (v, r') => some (x * 256 ^ k + v, r')
    | none => none

def toSigned (bits : Nat) (u : Nat) : Int :=
  if u < 2 ^ (bits - 1) then (u : Int) else (u : Int) - ((2 ^ bits : Nat) : Int)

def readLen (k : Nat) (mk : Bytes → Tok) (r : Bytes) : Option (Tok × Bytes) :=
  match readBE k r with
  | some (n, r') => (match readN n r' with | some (s, r'') => some (mk s, r'') | none => none)
  | none => none

def readExtN (n : Nat) (r : Bytes) : Option (Tok × Bytes) :=
  match r with
  | t :: r' => (match readN n r' with | some (d, r'') => some (.ext t d, r'') | none => none)
  | [] => none

def readExt (k : Nat) (r : Bytes) : Option (Tok × Bytes) :=
  match readBE k r with
  | some (n, r') => readExtN n r'
  | none => none

def readNum (k : Nat) (mk : Nat → Tok) (r : Bytes) : Option (Tok × Bytes) :=
  match readBE k r with
  | some (v, r') => some (mk v, r')
  | none => none

/-- one MessagePack object header / scalar (containers yield their header token) -/
def decTok (b : Bytes) : Option (Tok × Bytes) :=
  match b with
  | [] => none
  | c :: r =>
    if c ≤ 0x7f then some (.int c, r)
    else if 0xe0 ≤ c then (if c < 256 then some (.int ((c : Int) - 256), r) else none)
    else if c ≤ 0x8f then some (.map (c - 0x80), r)
    else if c ≤ 0x9f then some (.arr (c - 0x90), r)
    else if c ≤ 0xbf then (match readN (c - 0xa0) r with | some (s, r') => some (.str s, r') | none => none)
    else if c = 0xc0 then some (.nil, r)
    else if c = 0xc1 then none
    else if c = 0xc2 then some (.bool false, r)
    else if c = 0xc3 then some (.bool true, r)
    else if c = 0xc4 then readLen 1 .bin r
    else if c = 0xc5 then readLen 2 .bin r
    else if c = 0xc6 then readLen 4 .bin r
    else if c = 0xc7 then readExt 1 r
    else if c = 0xc8 then readExt 2 r
    else if c = 0xc9 then readExt 4 r
    else if c = 0xca then readNum 4 .f32 r
    else if c = 0xcb then readNum 8 .f64 r
    else if c = 0xcc then readNum 1 (fun v => .int v) r
    else if c = 0xcd then readNum 2 (fun v => .int v) r
    else if c = 0xce then readNum 4 (fun v => .int v) r
    else if c = 0xcf then readNum 8 (fun v => .int v) r
    else if c = 0xd0 then readNum 1 (fun v => .int (toSigned 8 v)) r
    else if c = 0xd1 then readNum 2 (fun v => .int (toSigned 16 v)) r
    else if c = 0xd2 then readNum 4 (fun v => .int (toSigned 32 v)) r
    else if c = 0xd3 then readNum 8 (fun v => .int (toSigned 64 v)) r
    else if c = 0xd4 then readExtN 1 r
    else if c = 0xd5 then readExtN 2 r
    else if c = 0xd6 then readExtN 4 r
    else if c = 0xd7 then readExtN 8 r
    else if c = 0xd8 then readExtN 16 r
    else if c = 0xd9 then readLen 1 .str r
    else if c = 0xda then readLen 2 .str r
    else if c = 0xdb then readLen 4 .str r
    else if c = 0xdc then readNum 2 .arr r
    else if c = 0xdd then readNum 4 .arr r
    else if c = 0xde then readNum 2 .map r
    else if c = 0xdf then readNum 4 .map r
    else none

/-- the flat token stream of a byte string (fuel = length + 1) -/
def tokensF : Nat → Bytes → Option (List Tok)
  | _, [] => some []
  | 0, _ => none
  | f + 1, b =>
    match decTok b with
    | none => none
    | some (t, r) => (match tokensF f r with | some ts => some (t :: ts) | none => none)

def tokens (b : Bytes) : Option (List Tok) := tokensF (b.length + 1) b

/-- timestamp extension payload (spec: timestamp 32 / 64 / 96) ↦ (seconds, nanoseconds) -/
def decTime (d : Bytes) : Option (Int × Nat) :=
  if d.length = 4 then (match readBE 4 d with | some (v, _) => some ((v : Int), 0) | none => none)
  else if d.length = 8 then
    (match readBE 8 d with | some (v, _) => some (((v % 2 ^ 34 : Nat) : Int), v / 2 ^ 34) | none => none)
  else if d.length = 12 then
    (match readBE 4 d with
     | some (ns, r) => (match readBE 8 r with | some (s, _) => some (toSigned 64 s, ns) | none => none)
     | none => none)
  else none

end Arc.C19
