import Arc.Generated.C08
/-
C08 — executable model of

* `internal/storage/local.go`: `sanitizePath`, `validatePath` (with POSIX `filepath.Clean/Join/Abs/Rel`
  as a segment-stack machine over bytes), and the three write procedures `Write`, `WriteReader`,
  `AppendReader` as sequences of file-system operations whose ORDER and path roles come from
  `Arc.Generated.C08` (regenerated from the source on every run);
* `internal/cluster/raft/path_validation.go`: `ValidateManifestPath`;
* `internal/edgesync/receive.go`: `validateSpokeID`, `validateSyncPath`, `NamespacedPath`,
  `stagingPathFor`.

Go strings are byte strings; every function the code uses here is byte-level (the separators `/`,
`\`, `:`, NUL, `.` are ASCII, and an ASCII byte is never part of a multi-byte UTF-8 sequence, so the
rune-level helpers `ContainsRune`, `ContainsAny`, `FieldsFunc` coincide with their byte versions).
Core Lean only, executable.
-/
namespace Arc.C08

abbrev Bytes := List UInt8

/-! ## sanitizePath -/

/-- `strings.TrimPrefix(path, "/")` — one slash only. -/
def trimLeadingSlash : Bytes → Bytes
  | [] => []
  | c :: r => if c = 47 then r else c :: r

/-- `strings.ReplaceAll(path, "..", "_")` — non-overlapping, left to right. -/
def replaceDotDot : Bytes → Bytes
  | [] => []
  | [c] => [c]
  | c :: d :: r => if c = 46 ∧ d = 46 then 95 :: replaceDotDot r else c :: replaceDotDot (d :: r)

/-- `strings.ReplaceAll(path, "\x00", "")`. -/
def removeNul (p : Bytes) : Bytes := p.filter (fun c => c != 0)

def applySan : Bytes → Arc.Generated.C08.SanStep → Bytes
  | p, .trimLeadingSlash => trimLeadingSlash p
  | p, .replaceDotDot => replaceDotDot p
  | p, .removeNul => removeNul p

/-- `sanitizePath`: the statements of the source, in the source's order (regenerated fact). -/
def sanitize (p : Bytes) : Bytes := Arc.Generated.C08.sanitizeSteps.foldl applySan p

/-! ## path/filepath (unix) -/

/-- `strings.Split(p, "/")`. -/
def splitSlash : Bytes → List Bytes
  | [] => [[]]
  | c :: r =>
    if c = 47 then [] :: splitSlash r
    else match splitSlash r with
      | [] => [[c]]
      | s :: ss => (c :: s) :: ss

/-- `strings.Join(segs, "/")`. -/
def joinSlash : List Bytes → Bytes
  | [] => []
  | [s] => s
  | s :: t :: ss => s ++ 47 :: joinSlash (t :: ss)

def dot : Bytes := [46]
def dotdot : Bytes := [46, 46]

/-- One element of `Clean`'s scan; the stack is kept top-first. -/
def pushSeg (rooted : Bool) (st : List Bytes) (seg : Bytes) : List Bytes :=
  if seg = [] then st
  else if seg = dot then st
  else if seg = dotdot then
    match st with
    | [] => if rooted then [] else [dotdot]
    | top :: rest => if top = dotdot then dotdot :: top :: rest else rest
  else seg :: st

def cleanStack (rooted : Bool) (segs : List Bytes) : List Bytes :=
  (segs.foldl (pushSeg rooted) []).reverse

def isRooted : Bytes → Bool
  | [] => false
  | c :: _ => c = 47

/-- rendering of a cleaned rooted path from its elements -/
def renderAbs (st : List Bytes) : Bytes := 47 :: joinSlash st

/-- `filepath.Clean` (= `path.Clean`) on unix. -/
def clean (p : Bytes) : Bytes :=
  if p = [] then dot
  else if isRooted p then renderAbs (cleanStack true (splitSlash p))
  else if cleanStack false (splitSlash p) = [] then dot
  else joinSlash (cleanStack false (splitSlash p))

/-- `filepath.Join(a, b)` / `path.Join(a, b)` for two elements. -/
def fpJoin (a b : Bytes) : Bytes :=
  if a ≠ [] then clean (a ++ 47 :: b)
  else if b ≠ [] then clean b
  else []

/-- non-empty elements of a path -/
def segsOf (p : Bytes) : List Bytes := (splitSlash p).filter (fun s => s != [])

def stripCommon : List Bytes → List Bytes → List Bytes × List Bytes
  | b :: bs, t :: ts => if b = t then stripCommon bs ts else (b :: bs, t :: ts)
  | bs, ts => (bs, ts)

inductive RelResult where
  | ok (r : Bytes)
  | err
deriving Repr, DecidableEq

/-- what `Rel` returns once both paths are cleaned, differ and are both rooted or both unrooted -/
def relCore (bs ts : List Bytes) : RelResult :=
  let r := stripCommon bs ts
  if r.1 = [] then .ok (joinSlash r.2)
  else if r.1.head? = some dotdot then .err
  else .ok (clean (joinSlash (r.1.map (fun _ => dotdot) ++ r.2)))

/-- `filepath.Rel(basePath, targPath)` on unix. -/
def rel (basePath targPath : Bytes) : RelResult :=
  let base := clean basePath
  let targ := clean targPath
  if targ = base then .ok dot
  else
    let base' := if base = dot then [] else base
    if isRooted base' ≠ isRooted targ then .err
    else relCore (segsOf base') (segsOf targ)

/-- `strings.HasPrefix(r, "..")` -/
def hasDotDotPrefix : Bytes → Bool
  | c :: d :: _ => c = 46 && d = 46
  | _ => false

inductive VResult where
  | ok (p : Bytes)
  | needsCwd      -- `filepath.Abs` of a relative path: only when basePath is not absolute (never, see NewLocalBackend)
  | relFailed     -- "path traversal detected"
  | escapes       -- "path traversal detected: path escapes base directory"
  | rootKey       -- validateFilePath: "key resolves to the storage root"
deriving Repr, DecidableEq

def checkRel (base absP : Bytes) : VResult :=
  match rel base absP with
  | .err => .relFailed
  | .ok r => if hasDotDotPrefix r then .escapes else .ok absP

/-- `LocalBackend.validatePath` with `b.basePath = base`. -/
def validatePath (base key : Bytes) : VResult :=
  let full := fpJoin base (sanitize key)
  if isRooted full then checkRel base (clean full) else .needsCwd

/-- `LocalBackend.validateFilePath` — what `Write`, `WriteReader`, `AppendReader` call. Whether the
three procedures really go through it (and whether it still rejects `fullPath == b.basePath`) is the
regenerated fact `writersRejectRootKey`. -/
def validateFilePath (base key : Bytes) : VResult :=
  match validatePath base key with
  | .ok p => if Arc.Generated.C08.writersRejectRootKey && p = base then .rootKey else .ok p
  | e => e

/-! ## ValidateManifestPath -/

inductive MResult where
  | ok | empty | tooLong | nul | scheme | absolute | traversal
deriving Repr, DecidableEq

def isLetter (c : UInt8) : Bool := (65 ≤ c && c ≤ 90) || (97 ≤ c && c ≤ 122)

def isAbsolutePath : Bytes → Bool
  | [] => false
  | c0 :: rest =>
    if c0 = 47 ∨ c0 = 92 then true
    else match rest with
      | c1 :: c2 :: _ => c1 = 58 && isLetter c0 && (c2 = 92 || c2 = 47)
      | _ => false

def indexOfByte (b : UInt8) : Bytes → Option Nat
  | [] => none
  | c :: r => if c = b then some 0 else (indexOfByte b r).map (· + 1)

/-- split on `/` and `\` keeping empty fields -/
def splitSeps : Bytes → List Bytes
  | [] => [[]]
  | c :: r =>
    if c = 47 ∨ c = 92 then [] :: splitSeps r
    else match splitSeps r with
      | [] => [[c]]
      | s :: ss => (c :: s) :: ss

def containsDotDot : Bytes → Bool
  | c :: d :: r => (c = 46 && d = 46) || containsDotDot (d :: r)
  | _ => false

/-- `hasParentTraversalSegment`: `FieldsFunc` on `/`,`\` = `splitSeps` without empty fields. -/
def hasParentTraversalSegment (p : Bytes) : Bool :=
  containsDotDot p && (splitSeps p).any (fun s => s = dotdot)

def colonCheck (p : Bytes) : Bool :=
  match indexOfByte 58 p with
  | none => true
  | some idx => idx = 1 && isAbsolutePath p

def validateManifestPath (p : Bytes) : MResult :=
  if p = [] then .empty
  else if p.length > Arc.Generated.C08.maxManifestPathLen then .tooLong
  else if p.contains 0 then .nul
  else if !colonCheck p then .scheme
  else if isAbsolutePath p then .absolute
  else if hasParentTraversalSegment p then .traversal
  else .ok

/-! ## edge-sync validators -/

inductive SResult where
  | ok | empty | separator | dot | nul
deriving Repr, DecidableEq

def validateSpokeID (s : Bytes) : SResult :=
  if s = [] then .empty
  else if s.contains 47 || s.contains 92 then .separator
  else if s.head? = some 46 then .dot
  else if s.contains 0 then .nul
  else .ok

inductive PResult where
  | ok | empty | nul | absolute | backslash | dotdot | emptySegment | leadingDot | notParquet
deriving Repr, DecidableEq

def parquetSuffix : Bytes := [46, 112, 97, 114, 113, 117, 101, 116]

def hasSuffix (p suf : Bytes) : Bool := suf.reverse.isPrefixOf p.reverse

def validateSyncPath (p : Bytes) : PResult :=
  if p = [] then .empty
  else if p.contains 0 then .nul
  else if p.head? = some 47 then .absolute
  else if p.contains 92 then .backslash
  else if containsDotDot p then .dotdot
  else if (splitSlash p).any (fun s => s = []) then .emptySegment
  else if p.head? = some 46 then .leadingDot
  else if !hasSuffix p parquetSuffix then .notParquet
  else .ok

/-- `NamespacedPath(spokeID, sourcePath) = path.Join(spokeID, sourcePath)` -/
def namespacedPath (spoke p : Bytes) : Bytes := fpJoin spoke p

/-- `stagingPathFor = path.Join(StagingPrefix, spokeID, sourcePath)` (StagingPrefix is non-empty) -/
def stagingPathFor (spoke p : Bytes) : Bytes :=
  if Arc.Generated.C08.stagingPrefix ≠ [] then
    clean (Arc.Generated.C08.stagingPrefix ++ 47 :: (spoke ++ 47 :: p))
  else fpJoin spoke p

/-! ## file-system model and the write procedures -/

/-- regular files only: path ↦ content -/
abbrev FS := Bytes → Option Bytes

def FS.empty : FS := fun _ => none
def FS.set (fs : FS) (p : Bytes) (c : Bytes) : FS := fun q => if q = p then some c else fs q
def FS.del (fs : FS) (p : Bytes) : FS := fun q => if q = p then none else fs q

inductive Op where
  | mkdirAll (d : Bytes)
  | createExcl (p : Bytes)             -- os.CreateTemp: O_RDWR|O_CREATE|O_EXCL on a fresh random name
  | openTrunc (p : Bytes)              -- O_WRONLY|O_CREATE|O_TRUNC
  | openAppend (p : Bytes)             -- O_WRONLY|O_APPEND (must exist)
  | write (p : Bytes) (chunk : Bytes)  -- one write(2) through the descriptor opened on p
  | sync (p : Bytes)
  | close (p : Bytes)
  | rename (src dst : Bytes)           -- rename(2): atomic replace
  | remove (p : Bytes)
deriving Repr, DecidableEq

/-- `none` = the system call fails (the procedure then leaves its success path). -/
def step (fs : FS) : Op → Option FS
  | .mkdirAll _ => some fs
  | .createExcl p => if (fs p).isSome then none else some (fs.set p [])
  | .openTrunc p => some (fs.set p [])
  | .openAppend p => if (fs p).isSome then some fs else none
  | .write p ch =>
    match fs p with
    | some c => some (fs.set p (c ++ ch))
    | none => none
  | .sync _ => some fs
  | .close _ => some fs
  | .rename s d =>
    match fs s with
    | some c => some ((fs.del s).set d c)
    | none => none
  | .remove p => some (fs.del p)

/-- run an op sequence; execution stops at the first failing call. -/
def run (fs : FS) : List Op → FS
  | [] => fs
  | o :: os =>
    match step fs o with
    | some fs' => run fs' os
    | none => fs

/-- which paths an op may modify -/
def Op.touches (f : Bytes) : Op → Bool
  | .mkdirAll _ => false
  | .createExcl p => p = f
  | .openTrunc p => p = f
  | .openAppend _ => false
  | .write p _ => p = f
  | .sync _ => false
  | .close _ => false
  | .rename s d => s = f || d = f
  | .remove p => p = f

structure Params where
  final : Bytes
  staging : Bytes
  dir : Bytes
  /-- the data, cut into the pieces the successive `write(2)` calls deliver -/
  chunks : List Bytes

open Arc.Generated.C08 in
def Params.path (w : Params) : Tgt → Bytes
  | .dir => w.dir
  | .staging => w.staging
  | .final => w.final
  | .none => []

open Arc.Generated.C08 in
/-- instantiate one regenerated skeleton step -/
def inst (w : Params) (s : Step) : List Op :=
  match s.call with
  | .ensureDir => [.mkdirAll (w.path s.a)]
  | .createTemp => [.createExcl w.staging]
  | .openTrunc => [.openTrunc (w.path s.a)]
  | .openAppend => [.openAppend (w.path s.a)]
  | .write => w.chunks.map (fun ch => .write (w.path s.a) ch)
  | .sync => [.sync (w.path s.a)]
  | .close => [.close (w.path s.a)]
  | .rename => [.rename (w.path s.a) (w.path s.b)]
  | .remove => [.remove (w.path s.a)]

def proc (sk : List Arc.Generated.C08.Step) (w : Params) : List Op := sk.flatMap (inst w)

/-- `partPath` -/
def partPath (f : Bytes) : Bytes := f ++ Arc.Generated.C08.partSuffix

/-- success path of `Write(final, data)`; `tmp` is the random name `os.CreateTemp` picked. -/
def writeOps (final tmp : Bytes) (chunks : List Bytes) : List Op :=
  proc Arc.Generated.C08.writeSuccess { final := final, staging := tmp, dir := [], chunks := chunks }

/-- success path of `WriteReader(final, reader)`. -/
def writeReaderOps (final : Bytes) (chunks : List Bytes) : List Op :=
  proc Arc.Generated.C08.writeReaderSuccess
    { final := final, staging := partPath final, dir := [], chunks := chunks }

/-- `Write` when the first `os.CreateTemp` fails with ENOENT (partition directory cached in `dirCache`
but deleted externally): the failed create has no effect; the error block re-creates the directory and
the temp file (the first two steps of the regenerated error-block list), then the success path
continues with write, close, rename. -/
def writeRetryOps (final tmp : Bytes) (chunks : List Bytes) : List Op :=
  proc (Arc.Generated.C08.writeSuccess.take 1 ++ Arc.Generated.C08.writeOnError.take 2
        ++ Arc.Generated.C08.writeSuccess.drop 2)
    { final := final, staging := tmp, dir := [], chunks := chunks }

/-- the same retry branch of `WriteReader` (failed `OpenFile` of the staging file, then mkdir + re-open) -/
def writeReaderRetryOps (final : Bytes) (chunks : List Bytes) : List Op :=
  proc (Arc.Generated.C08.writeReaderSuccess.take 1 ++ Arc.Generated.C08.writeReaderOnError.take 2
        ++ Arc.Generated.C08.writeReaderSuccess.drop 2)
    { final := final, staging := partPath final, dir := [], chunks := chunks }

def totalLen (chunks : List Bytes) : Nat := (chunks.map List.length).sum

/-- success path of `AppendReader(final, reader, appendSize)` incl. the deferred close. -/
def appendReaderOps (final : Bytes) (chunks : List Bytes) (appendSize : Int) : List Op :=
  let w : Params := { final := final, staging := partPath final, dir := [], chunks := chunks }
  proc Arc.Generated.C08.appendSuccess w
    ++ (if (totalLen chunks : Int) = appendSize then proc Arc.Generated.C08.appendPromote w else [])
    ++ proc Arc.Generated.C08.appendDeferred w

/-- the file-system states a crash can leave: one per prefix of the op sequence -/
def crashStates (fs : FS) (ops : List Op) : List FS :=
  (List.range (ops.length + 1)).map (fun k => run fs (ops.take k))

end Arc.C08
