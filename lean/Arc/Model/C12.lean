import Arc.Model.C12.Types
import Arc.Generated.C12
/-
C12 — executable model of hot→cold tier migration for ONE file (the measurement's other files are
abstracted to two flags at observation time).

Source anchors (all in /repo):
* `internal/tiering/migrator.go`  `Migrator.MigrateFile` — the ordered step list with its error
  policy is NOT written here: it is `Arc.Generated.C12.migrateSteps`, regenerated from the source on
  every run; this file only gives each step kind its meaning (`prim`) and interprets the list
  (`runSteps`). `Migrator.FindCandidates` (only files whose METADATA tier is `srcTier` are migrated),
  `Migrator.ReconcileOrphanedFiles` (guard/probe/delete tiers generated).
* `internal/tiering/manager.go`   `ScanAndRegisterFiles` (upsert tier := scanTier for every object
  listed in the hot backend), `RunMigrationCycle` (phase order generated).
* `internal/storage/local.go`     `WriteReader`: bytes go to "<path>.part"; only a complete stream is
  renamed to the final name (S3/Azure uploads are atomic too). `Delete` of a missing object is nil.
* `internal/api/query.go`         `buildMultiTierReadParquet`: a tier is globbed ("…/db/m/**/*.parquet")
  iff `tier_files` has at least one row of the measurement with that tier (table generated);
  no row at all ⇒ hot. A "<x>.parquet.part" staging object never matches the glob.

Faults: every mutation ATTEMPT consumes the next `Outcome` of an oracle list (exhausted ⇒ `ok`):
`fail` = the call returns an error and has no effect (`srcfail`: the error comes from the source
read of the copy), `crash` = the process stops right before the
mutation takes effect (nothing after it runs). A crash "at the k-th mutation" is the oracle
`ok^(k-1) ++ [crash]`; arbitrary failure sequences are arbitrary lists. The streaming copy is
`begin` (open/truncate staging) + one attempt per chunk + `done` (EOF ⇒ rename).
-/
namespace Arc.C12

/-- `srcfail` = the SOURCE side of the streaming copy fails (`src.ReadTo` returns an error after the
chunks delivered so far): `copyFileStreaming` closes the pipe with that error
(`pw.CloseWithError(err)`, shape checked by factgen: `copySrcErrPropagates`), so `WriteReader` fails,
nothing is renamed and the whole copy step fails. At any other mutation it behaves like `fail`. -/
inductive Outcome | ok | fail | crash | srcfail
deriving DecidableEq, Repr

/-- Persistent state of one file. -/
structure FileSt where
  hot  : Bool          -- complete object under the final name in the hot backend (nothing ever writes partial hot objects)
  cold : Bool          -- complete object under the final name in the cold backend
  part : Option Nat    -- cold staging object "<path>.part": number of chunks it holds (partial copy)
  tier : Tier          -- tier_files.tier of the file's row
  pend : Nat           -- tier_migrations rows of the file with completed_at IS NULL
  recent : Bool        -- tier_files.migrated_at is non-NULL and inside the reconcile window (48 h, generated)
deriving DecidableEq, Repr

/-- A freshly ingested, registered file. -/
def init : FileSt := { hot := true, cold := false, part := none, tier := .hot, pend := 0, recent := false }

def FileSt.has (s : FileSt) : Tier → Bool
  | .hot => s.hot
  | .cold => s.cold

def FileSt.setObj (s : FileSt) (t : Tier) (b : Bool) : FileSt :=
  match t with
  | .hot => { s with hot := b }
  | .cold => { s with cold := b }

/-- Execution context of one procedure run. -/
structure Exec where
  st     : FileSt
  orc    : List Outcome
  logged : Bool          -- RecordMigration returned an id (> 0) in this run
  inval  : Bool := false -- a mutation that calls invalidateTierCache for the measurement took effect in this run
deriving Repr

/-- Result of one primitive mutation. -/
inductive R | ok | failed | crashed
deriving DecidableEq, Repr

def pop : List Outcome → Outcome × List Outcome
  | [] => (.ok, [])
  | o :: r => (o, r)

/-- An atomic mutation: `f` is applied iff the oracle says `ok`. -/
def atomic (x : Exec) (f : Exec → Exec) : Exec × R :=
  match pop x.orc with
  | (.ok, r) => (f { x with orc := r }, .ok)
  | (.fail, r) => ({ x with orc := r }, .failed)
  | (.srcfail, r) => ({ x with orc := r }, .failed)
  | (.crash, r) => ({ x with orc := r }, .crashed)

/-- chunk loop of the streaming copy: `k` chunks still to write, `w` written so far. -/
def copyChunks : Nat → Nat → Exec → Exec × R
  | 0, _, x => (x, .ok)
  | k + 1, w, x =>
    match pop x.orc with
    | (.ok, r) => copyChunks k (w + 1) { x with orc := r, st := { x.st with part := some (w + 1) } }
    | (.fail, r) => ({ x with orc := r }, .failed)       -- destination write error: staging keeps `w` chunks
    | (.srcfail, r) => ({ x with orc := r }, .failed)    -- source read error after `w` chunks: reaches the writer, same end state
    | (.crash, r) => ({ x with orc := r }, .crashed)

/-- `copyFileStreaming` hot→cold of a file of `n` chunks (`LocalBackend.WriteReader` staging semantics). -/
def copyHotCold (n : Nat) (x : Exec) : Exec × R :=
  -- begin: open/truncate "<path>.part"
  match atomic x (fun y => { y with st := { y.st with part := some 0 } }) with
  | (x1, .ok) =>
    if !x1.st.hot then (x1, .failed)            -- source missing: ReadTo's error travels through the pipe
    else
      match copyChunks n 0 x1 with
      | (x2, .ok) =>
        -- done: EOF reaches WriteReader, which renames the staging object to the final name
        atomic x2 (fun y => { y with st := { y.st with cold := true, part := none } })
      | other => other
  | other => other

/-- Meaning of one step kind. `n` = number of chunks of the file. -/
def prim (n : Nat) (a : Act) (x : Exec) : Exec × R :=
  match a with
  | .record => atomic x (fun y => { y with st := { y.st with pend := y.st.pend + 1 }, logged := true })
  | .complete =>
    if x.logged then atomic x (fun y => { y with st := { y.st with pend := y.st.pend - 1 } })
    else (x, .ok)                                 -- `if migrationID > 0` guard: nothing is attempted
  | .copy .hot .cold => copyHotCold n x
  | .copy _ _ => (x, .failed)                     -- FindCandidates: "only hot -> cold supported"
  | .setMeta t =>                                  -- UpdateTier: migrated_at = CURRENT_TIMESTAMP (+ cache invalidation, generated)
    atomic x (fun y => { y with st := { y.st with tier := t, recent := true }, inval := y.inval || Arc.Generated.C12.cacheInvalidatedBy.contains .updateTier })
  | .del t => atomic x (fun y => { y with st := y.st.setObj t false })

inductive Exit | ok | err | crash
deriving DecidableEq, Repr

/-- clean-up mutations of an aborting step: errors are only logged. -/
def runCleanup (n : Nat) : List Act → Exec → Exec × Exit
  | [], x => (x, .err)
  | a :: rest, x =>
    match prim n a x with
    | (x', .crashed) => (x', .crash)
    | (x', _) => runCleanup n rest x'

/-- Interpreter of a step list (instantiated with the GENERATED list below). -/
def runSteps (n : Nat) : List Step → Exec → Exec × Exit
  | [], x => (x, .ok)
  | s :: rest, x =>
    match prim n s.act x with
    | (x', .ok) => runSteps n rest x'
    | (x', .crashed) => (x', .crash)
    | (x', .failed) =>
      match s.onFail with
      | .tolerate => runSteps n rest x'
      | .abort cl => runCleanup n cl x'

/-- The steps of `MigrateFile` as they stand in the current source. -/
def migrateSteps : List Step := Arc.Generated.C12.migrateSteps

/-- One `MigrateTier(hot, cold)` over this file: `FindCandidates` returns it iff its metadata tier is
the source tier; otherwise nothing is attempted (`none`). -/
def migOp (n : Nat) (s : FileSt) (orc : List Outcome) : Exec × Option Exit :=
  if s.tier = Arc.Generated.C12.srcTier then
    let r := runSteps n migrateSteps { st := s, orc := orc, logged := false }
    (r.1, some r.2)
  else ({ st := s, orc := orc, logged := false }, none)

/-- Counters returned by `ReconcileOrphanedFiles` (restricted to this file) or a crash. -/
structure RecOut where
  found : Nat := 0
  deleted : Nat := 0
  errors : Nat := 0
  crashed : Bool := false
deriving DecidableEq, Repr

/-- `ReconcileOrphanedFiles` for this file: considered iff its metadata tier is `recGuard` AND its
`migrated_at` lies inside the window (`GetRecentlyMigratedFiles`); `Exists` probe on `recProbe` (a failed probe
counts an error and skips the file), then `Delete` on `recDelete`. -/
def recOp (s : FileSt) (orc : List Outcome) : Exec × RecOut :=
  let x : Exec := { st := s, orc := orc, logged := false }
  if s.tier = Arc.Generated.C12.recGuard ∧ s.recent = true then
    match atomic x id with                                     -- Exists probe (read; may error)
    | (x1, .crashed) => (x1, { crashed := true })
    | (x1, .failed) => (x1, { errors := 1 })
    | (x1, .ok) =>
      if x1.st.has Arc.Generated.C12.recProbe then
        match atomic x1 (fun y => { y with st := y.st.setObj Arc.Generated.C12.recDelete false }) with
        | (x2, .ok) => (x2, { found := 1, deleted := 1 })
        | (x2, .failed) => (x2, { found := 1, errors := 1 })
        | (x2, .crashed) => (x2, { found := 1, crashed := true })
      else (x1, {})
  else (x, {})

/-- `ScanAndRegisterFiles` for this file: listed iff the hot object exists. Unless the scan skips
paths that already have a row (`scanSkipsRegistered`, generated — the file always has one), the
upsert sets tier := scanTier and, when that changes the tier, migrated_at := now. -/
def scanOp (s : FileSt) (orc : List Outcome) : Exec × R :=
  let x : Exec := { st := s, orc := orc, logged := false }
  if s.hot && !Arc.Generated.C12.scanSkipsRegistered then
    atomic x (fun y => { y with st := { y.st with tier := Arc.Generated.C12.scanTier,
                                                   recent := if y.st.tier = Arc.Generated.C12.scanTier then y.st.recent else true }, inval := y.inval || Arc.Generated.C12.cacheInvalidatedBy.contains .recordFile })
  else (x, .ok)

/-- More than the reconcile window passes without any tiering activity on the file. -/
def ageOp (s : FileSt) : FileSt := { s with recent := false }

/-- One phase of a cycle; `true` = crashed. -/
def phaseOp (n : Nat) (p : Phase) (s : FileSt) (orc : List Outcome) : FileSt × List Outcome × Bool :=
  match p with
  | .scan => let r := scanOp s orc; (r.1.st, r.1.orc, r.2 == .crashed)
  | .migrate => let r := migOp n s orc; (r.1.st, r.1.orc, r.2 == some .crash)
  | .reconcile => let r := recOp s orc; (r.1.st, r.1.orc, r.2.crashed)

def runPhases (n : Nat) : List Phase → FileSt → List Outcome → FileSt × Bool
  | [], s, _ => (s, false)
  | p :: ps, s, orc =>
    match phaseOp n p s orc with
    | (s', _, true) => (s', true)
    | (s', orc', false) => runPhases n ps s' orc'

/-- `Manager.RunMigrationCycle` (phase order generated). -/
def cycleOp (n : Nat) (s : FileSt) (orc : List Outcome) : FileSt × Bool :=
  runPhases n Arc.Generated.C12.cycleOrder s orc

/-! ## what a query sees -/

/-- distinct tiers in `tier_files` for the measurement: the file's own row plus the other files'. -/
def actualTiers (sibHot sibCold : Bool) (s : FileSt) : List Tier :=
  s.tier :: ((if sibHot then [Tier.hot] else []) ++ (if sibCold then [Tier.cold] else []))

/-- `buildMultiTierReadParquet`: tiers whose "db/m/**/*.parquet" glob goes into `read_parquet([...])`. -/
def globbed (actual : List Tier) : List Tier :=
  if actual.isEmpty then [Arc.Generated.C12.queryFallback]
  else Arc.Generated.C12.queryGlobs.filterMap (fun p => if actual.contains p.1 then some p.2 else none)

/-- How many times each row of the file is returned by a query over the measurement: one per globbed
tier holding the complete object under its final ("*.parquet") name. -/
def visibleCopies (sibHot sibCold : Bool) (s : FileSt) : Nat :=
  ((globbed (actualTiers sibHot sibCold s)).filter s.has).length

/-! ## the long-running process: virtual time and the per-measurement tier cache

`MetadataStore.GetTiersForMeasurement` caches the set of tiers of a measurement for
`tierCacheTTLSeconds`; the mutators listed in `cacheInvalidatedBy` (generated) drop the entry. A
restart (after a crash) starts with an empty cache. `sibHot/sibCold`: other files of the measurement. -/

structure CacheEnt where
  hot : Bool
  cold : Bool
  expires : Nat
deriving DecidableEq, Repr

structure World where
  f : FileSt
  sibHot : Bool
  sibCold : Bool
  now : Nat := 0
  cache : Option CacheEnt := none
deriving Repr

/-- which tiers have a `tier_files` row of the measurement right now -/
def World.tiers (w : World) : Bool × Bool :=
  (decide (w.f.tier = Tier.hot) || w.sibHot, decide (w.f.tier = Tier.cold) || w.sibCold)

def World.after (w : World) (f' : FileSt) (crashed inval : Bool) : World :=
  { w with f := f', cache := if crashed || inval then none else w.cache }

def invBy (m : Mutator) : Bool := Arc.Generated.C12.cacheInvalidatedBy.contains m

def wMig (n : Nat) (w : World) (orc : List Outcome) : World :=
  let r := migOp n w.f orc
  w.after r.1.st (r.2 == some .crash) r.1.inval

def wRec (w : World) (orc : List Outcome) : World :=
  let r := recOp w.f orc
  w.after r.1.st r.2.crashed r.1.inval

/-- the scan also upserts the hot sibling (if any), which invalidates the same measurement's entry -/
def wScan (w : World) (orc : List Outcome) : World :=
  let r := scanOp w.f orc
  w.after r.1.st (r.2 == .crashed)
    (r.1.inval || (w.sibHot && !Arc.Generated.C12.scanSkipsRegistered && invBy .recordFile))

def wPhase (n : Nat) (p : Phase) (w : World) (orc : List Outcome) : World × List Outcome × Bool :=
  match p with
  | .scan => let r := scanOp w.f orc; (wScan w orc, r.1.orc, r.2 == .crashed)
  | .migrate => let r := migOp n w.f orc; (wMig n w orc, r.1.orc, r.2 == some .crash)
  | .reconcile => let r := recOp w.f orc; (wRec w orc, r.1.orc, r.2.crashed)

def wPhases (n : Nat) : List Phase → World → List Outcome → World × Bool
  | [], w, _ => (w, false)
  | p :: ps, w, orc =>
    match wPhase n p w orc with
    | (w', _, true) => (w', true)
    | (w', orc', false) => wPhases n ps w' orc'

def wCycle (n : Nat) (w : World) (orc : List Outcome) : World × Bool :=
  wPhases n Arc.Generated.C12.cycleOrder w orc

def wAge (w : World) : World := { w with f := ageOp w.f }
def wTick (w : World) (d : Nat) : World := { w with now := w.now + d }

/-- `k` further files of the measurement are ingested (RecordFile) and migrated cleanly (UpdateTier). -/
def wAddMig (w : World) (k : Nat) : World :=
  if k = 0 then w
  else { w with sibCold := true, cache := if invBy .recordFile || invBy .updateTier then none else w.cache }

def fillEnt (w : World) : CacheEnt :=
  { hot := w.tiers.1, cold := w.tiers.2, expires := w.now + Arc.Generated.C12.tierCacheTTLSeconds }

/-- the entry a query uses: a live cached one (`now < expiresAt`) or a fresh fill -/
def queryEnt (w : World) : CacheEnt :=
  match w.cache with
  | some e => if w.now < e.expires then e else fillEnt w
  | none => fillEnt w

def entTiers (e : CacheEnt) : List Tier := (if e.hot then [Tier.hot] else []) ++ (if e.cold then [Tier.cold] else [])

/-- a query in the running process: (state with the cache filled, tiers globbed) -/
def wQuery (w : World) : World × List Tier :=
  ({ w with cache := some (queryEnt w) }, globbed (entTiers (queryEnt w)))

/-- copies of the file's rows a query in the running process returns -/
def warmVisible (w : World) : Nat := ((wQuery w).2.filter w.f.has).length

end Arc.C12
