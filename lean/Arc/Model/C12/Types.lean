/-
C12 — vocabulary shared by the generated facts (`Arc.Generated.C12`, written by
`go/factgen/cmd/c12` from `/repo/internal/tiering/{migrator,manager}.go` and
`/repo/internal/api/query.go`) and the executable model (`Arc.Model.C12`). Core-only.
-/
namespace Arc.C12

inductive Tier | hot | cold
deriving DecidableEq, Repr

/-- One storage / metadata mutation of `Migrator.MigrateFile`. -/
inductive Act
  | record                      -- metadata.RecordMigration  (INSERT INTO tier_migrations)
  | copy (src dst : Tier)       -- copyFileStreaming(src, dst): dst.WriteReader fed by src.ReadTo
  | setMeta (t : Tier)          -- metadata.UpdateTier(path, t)  (UPDATE tier_files SET tier = t)
  | del (t : Tier)              -- <backend of t>.Delete(path)
  | complete                    -- metadata.CompleteMigration (only when RecordMigration returned an id)
deriving DecidableEq, Repr

/-- What the code does when the step returns an error. -/
inductive OnFail
  | tolerate                    -- log and continue with the next step
  | abort (cleanup : List Act)  -- run the clean-up mutations (their errors are only logged), return the error
deriving Repr

structure Step where
  name   : String
  act    : Act
  onFail : OnFail
deriving Repr

/-- Phases of `Manager.RunMigrationCycle`. -/
inductive Phase | scan | migrate | reconcile
deriving DecidableEq, Repr

/-- `MetadataStore` methods that change which tiers a measurement has rows in. -/
inductive Mutator | recordFile | updateTier | deleteFile
deriving DecidableEq, Repr

end Arc.C12
