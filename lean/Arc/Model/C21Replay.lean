import Arc.Model.C21
/-!
C21 — cluster-apply LOG REPLAY model. After a node restart the Raft FSM re-applies its log and every
entry's callback runs `Apply*Token` again against the PERSISTENT SQLite row. Pure function level (the
cache is empty after a restart and every `Apply*` flushes it): `applyEntry` is what one callback does to
the row of the token under test, `accepts` is what a cold `VerifyToken` answers.
`createNoop` is the regenerated fact "ApplyCreateToken's identical-replay branch returns without writing".
-/
namespace Arc.C21

inductive LogEntry
  | create (r : Row)
  | mutate (k : MKind)
deriving Repr

/-- `ApplyCreateToken`: fresh row → INSERT; same hash (and name) → no-op (or, if `createNoop = false`,
an upsert re-stamping prefix/expiry/enabled from the create-time entry); different hash → divergence
error, nothing written. `Apply{Revoke,Delete,Rotate,Update}Token`: `applyKind` on an existing row. -/
def applyEntry (createNoop : Bool) (db : Option Row) : LogEntry → Option Row
  | .create r =>
    match db with
    | none => some r
    | some r0 =>
      if r0.hashOf == r.hashOf then
        (if createNoop then some r0
         else some { r0 with legacy := r.legacy, expiry := r.expiry, enabled := r.enabled })
      else some r0
  | .mutate k =>
    match db with
    | none => none
    | some r0 => applyKind k r0

/-- does the callback return nil? (create: divergence is an error; revoke/rotate/update on a missing
row are errors, delete is not) -/
def applyOk (db : Option Row) : LogEntry → Bool
  | .create r => match db with
    | none => true
    | some r0 => r0.hashOf == r.hashOf
  | .mutate k => db.isSome || k == .delete

def applyLog (createNoop : Bool) (db : Option Row) : List LogEntry → Option Row
  | [] => db
  | x :: xs => applyLog createNoop (applyEntry createNoop db x) xs

/-- cold `VerifyToken(val)` at clock `now` -/
def accepts (db : Option Row) (val now : Nat) : Bool :=
  match db with
  | some r => r.enabled && r.hashOf == val && !expired r.expiry now
  | none => false

end Arc.C21
