/-
C29 — model of the continuous-query execution paths of `internal/api/continuous_query.go`
(`ExecuteCQ` driven by `internal/scheduler/cq_scheduler.go`, `handleExecute`, `handleUpdate`,
`recordExecutionAndUpdateTime`, `executeAggregation`) for ONE continuous query.

What is modelled (quirks included, this is the code as it is — not what it should be):
* the persisted cursor `last_processed_time` has RFC3339 *second* resolution: it is written with
  `endTime.Format(time.RFC3339)` and read back with `time.Parse(time.RFC3339, …)`, i.e. it is
  `floorSec` of the instant that was the window end;
* the window handed to the aggregation SQL is `[floorSec start, floorSec end)` (both placeholders are
  `Format(time.RFC3339)`), while the validity test `!startTime.Before(endTime)` uses the un-truncated
  instants; the row label is `startTime.UTC().Truncate(time.Second).UnixMicro()` (since /repo 388c9ab),
  i.e. the whole-second window start in µs;
* with no cursor the start is `now - 1h` at nanosecond precision;
* a manual execution may carry an explicit `start_time` / `end_time` (RFC3339 with optional fraction
  and offset; `""` counts as absent; malformed ⇒ 400) and, exactly like a scheduled one, ends with
  `recordExecutionAndUpdateTime(start, end)` — the cursor becomes `floorSec end` whatever the range was;
* the aggregation runs first and writes the rows; only then record+advance runs in ONE SQLite
  transaction; if that transaction fails the error is only logged: rows stay, response is
  "completed", nothing is recorded and the cursor does not move;
* a failed aggregation — the query fails, or the query returned rows and the destination write
  rejects them — records a `failed` execution, writes nothing and leaves the cursor alone;
* `handleUpdate` rewrites the definition (incl. `is_active`, `interval`, `query`) and never touches
  the cursor; the scheduler has a job iff the query is active and its interval parses (create /
  ReloadCQ / Start after a restart);
* the aggregation itself: `COUNT(*)` of the source rows whose µs timestamp lies in the window
  (plain: always one row; grouped by host: one row per non-empty group; no source files or broken
  SQL ⇒ the aggregation fails).

Times: unbounded `Int`; clock and explicit arguments in unix nanoseconds, cursor/window in unix
seconds, labels and source rows in unix microseconds.  Core-only, executable.
-/
namespace Arc.C29

def nsPerSec : Int := 1000000000
/-- the `-1 * time.Hour` default look-back, in ns (tied to the source by `Arc.Generated.C29`). -/
def hourNs : Int := 3600000000000

/-- `t.Format(time.RFC3339)` read back: whole unix seconds, rounding towards −∞. -/
def floorSec (ns : Int) : Int := ns / nsPerSec
/-- `t.Truncate(time.Second).UnixMicro()`: the whole second of `t`, in µs. -/
def secLabelUs (ns : Int) : Int := floorSec ns * 1000000

inductive Fault | none | agg | recIns | recUpd | wr
deriving Repr, DecidableEq

inductive QKind | plain | grouped | broken | badtime
deriving Repr, DecidableEq

/-- a `start_time` / `end_time` request field -/
inductive TimeArg
  | absent            -- field not present
  | empty             -- ""  (treated like absent by the handler)
  | bad               -- does not parse as RFC3339
  | at (ns : Int)     -- parses to this instant
deriving Repr, DecidableEq

def TimeArg.isExplicit : TimeArg → Bool
  | .at _ => true
  | .bad => true
  | _ => false

structure Src where
  t    : Int    -- µs
  host : Bool   -- false = "a", true = "b"
deriving Repr

structure State where
  lp         : Option Int := none   -- last_processed_time (unix s)
  active     : Bool := true
  intervalOk : Bool := true
  running    : Bool := true         -- the scheduler holds a job for this query
  q          : QKind := .plain
  src        : List Src := []
  nCompleted : Nat := 0             -- rows of continuous_query_executions with status completed
  nFailed    : Nat := 0             -- … with status failed
deriving Repr

inductive Op
  | sched   (now : Int) (f : Fault)
  | manual  (now : Int) (s e : TimeArg) (dry : Bool) (f : Fault)
  | update  (now : Int) (active intervalOk : Bool) (q : QKind)
  | restart (now : Int)
  | src     (t : Int) (host : Bool)
deriving Repr

inductive Kind | sched | manual | other
deriving Repr, DecidableEq

inductive Status
  | completed | recfailed | aggfailed | rejected | inactive | nojob | badstart | badend | dryRun | other
deriving Repr, DecidableEq

structure Event where
  kind     : Kind
  explicit : Bool                   -- manual execution carrying an explicit start_time or end_time
  status   : Status
  win      : Option (Int × Int)     -- window given to the aggregation / reported, unix s, [s, e)
  startNs  : Int                    -- the un-truncated start instant (meaningful when `win` is some)
  rows     : List (Nat × Nat)       -- rows written to the destination: (0 "*" | 1 "a" | 2 "b", n)
  label    : Option Int             -- `time` of those rows (µs); none when no row was written
  lpBefore : Option Int
  lpAfter  : Option Int
deriving Repr

/-- the execution reported success to its caller (scheduler log / HTTP 200 "completed"). -/
def Event.reportedOk (ev : Event) : Bool :=
  ev.status == .completed || ev.status == .recfailed

/-- start instant when no explicit start is given -/
def cursorStart (lp : Option Int) (now : Int) : Int :=
  match lp with
  | some s => s * nsPerSec
  | none => now - hourNs

def pickStart (a : TimeArg) (lp : Option Int) (now : Int) : Option Int :=
  match a with
  | .at ns => some ns
  | .bad => none
  | _ => some (cursorStart lp now)

def pickEnd (a : TimeArg) (now : Int) : Option Int :=
  match a with
  | .at ns => some ns
  | .bad => none
  | _ => some now

def aggFails (st : State) (f : Fault) : Bool :=
  f == .agg || st.q == .broken || st.src.isEmpty

def countIn (src : List Src) (s e : Int) (p : Src → Bool) : Nat :=
  (src.filter fun r => decide (s * 1000000 ≤ r.t) && decide (r.t < e * 1000000) && p r).length

def aggRows (st : State) (s e : Int) : List (Nat × Nat) :=
  match st.q with
  | .grouped =>
    [(1, countIn st.src s e (fun r => !r.host)), (2, countIn st.src s e (fun r => r.host))].filter
      (fun p => decide (0 < p.2))
  | _ => [(0, countIn st.src s e (fun _ => true))]

def recFails (f : Fault) : Bool := f == .recIns || f == .recUpd

/-- the destination write (`arrowBuffer.WriteColumnarRecord`) rejects the rows: injected fault, or a
    query whose `time` output is a non-RFC3339 string. Only attempted when the aggregation returned
    rows (`len(records) == 0` returns before the write). -/
def writeFails (st : State) (f : Fault) (rows : List (Nat × Nat)) : Bool :=
  (f == .wr || st.q == .badtime) && !rows.isEmpty

/-- everything after the window has been chosen (shared by ExecuteCQ and handleExecute). -/
def execWindow (st : State) (kind : Kind) (explicit : Bool) (startNs endNs : Int) (dry : Bool) (f : Fault) :
    State × Event :=
  let ev : Event := { kind := kind, explicit := explicit, status := .rejected, win := none, startNs := startNs,
                      rows := [], label := none, lpBefore := st.lp, lpAfter := st.lp }
  if ¬ (startNs < endNs) then (st, ev)
  else
    let w := (floorSec startNs, floorSec endNs)
    if dry then (st, { ev with status := .dryRun, win := some w })
    else if aggFails st f then
      ({ st with nFailed := st.nFailed + 1 }, { ev with status := .aggfailed, win := some w })
    else
      let rows := aggRows st w.1 w.2
      if writeFails st f rows then
        ({ st with nFailed := st.nFailed + 1 }, { ev with status := .aggfailed, win := some w })
      else
      let label := if rows.isEmpty then none else some (secLabelUs startNs)
      if recFails f then
        (st, { ev with status := .recfailed, win := some w, rows := rows, label := label })
      else
        ({ st with lp := some w.2, nCompleted := st.nCompleted + 1 },
         { ev with status := .completed, win := some w, rows := rows, label := label, lpAfter := some w.2 })

def plainEvent (st : State) (kind : Kind) (status : Status) : Event :=
  { kind := kind, explicit := false, status := status, win := none, startNs := 0, rows := [], label := none,
    lpBefore := st.lp, lpAfter := st.lp }

def step (st : State) (op : Op) : State × Event :=
  match op with
  | .sched now f =>
    if !st.running then (st, plainEvent st .sched .nojob)
    else if !st.active then (st, plainEvent st .sched .inactive)
    else execWindow st .sched false (cursorStart st.lp now) now false f
  | .manual now s e dry f =>
    let ex := s.isExplicit || e.isExplicit
    if !st.active then (st, { plainEvent st .manual .inactive with explicit := ex })
    else
      match pickStart s st.lp now with
      | none => (st, { plainEvent st .manual .badstart with explicit := ex })
      | some startNs =>
        match pickEnd e now with
        | none => (st, { plainEvent st .manual .badend with explicit := ex })
        | some endNs => execWindow st .manual ex startNs endNs dry f
  | .update _ active intervalOk q =>
    let st' := { st with active := active, intervalOk := intervalOk, q := q, running := active && intervalOk }
    (st', plainEvent st .other .other)
  | .restart _ =>
    ({ st with running := st.active && st.intervalOk }, plainEvent st .other .other)
  | .src t host =>
    ({ st with src := st.src ++ [{ t := t, host := host }] }, plainEvent st .other .other)

def runState (st : State) : List Op → State
  | [] => st
  | op :: ops => runState (step st op).1 ops

def trace (st : State) : List Op → List Event
  | [] => []
  | op :: ops => (step st op).2 :: trace (step st op).1 ops

/-- windows of the executions that reported success, in execution order -/
def okWins : List Event → List (Int × Int)
  | [] => []
  | ev :: evs =>
    match ev.reportedOk, ev.win with
    | true, some w => w :: okWins evs
    | _, _ => okWins evs

/-- … restricted to scheduled executions -/
def okSchedWins : List Event → List (Int × Int)
  | [] => []
  | ev :: evs =>
    match ev.reportedOk && ev.kind == .sched, ev.win with
    | true, some w => w :: okSchedWins evs
    | _, _ => okSchedWins evs

/-- end of the last *recorded* (status completed) execution; `c` if there is none -/
def lastCompletedEnd (c : Option Int) : List Event → Option Int
  | [] => c
  | ev :: evs =>
    match ev.status, ev.win with
    | .completed, some w => lastCompletedEnd (some w.2) evs
    | _, _ => lastCompletedEnd c evs

/-- the carve-out: histories without an explicit start_time/end_time on a (non-dry) manual execution
    and without a failing record-and-advance transaction. -/
def tameOp : Op → Bool
  | .manual _ s e dry f => (dry || (!s.isExplicit && !e.isExplicit)) && !recFails f
  | .sched _ f => !recFails f
  | _ => true

def covers (w : Int × Int) (t : Int) : Prop := w.1 ≤ t ∧ t < w.2

end Arc.C29
