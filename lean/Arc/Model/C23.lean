import Arc.Model.C22
import Arc.Model.C22.Run
/-
C23 — role-assignment and RBAC-parent predicates over the shared FSM model (`Arc.Model.C22`).
-/
namespace Arc.C23
open Arc.C22 Arc.C22.SMap

/-- "at most one node is marked primary writer" -/
def OnePrimary (s : NodeSt) : Prop :=
  ∀ k1 k2 n1 n2, s.nodes.get? k1 = some n1 → s.nodes.get? k2 = some n2 →
    n1.wstate = "primary" → n2.wstate = "primary" → k1 = k2

/-- "a node named as the primary writer exists and is marked primary" -/
def PrimaryExists (s : NodeSt) : Prop :=
  s.pw ≠ "" → ∃ n, s.nodes.get? s.pw = some n ∧ n.wstate = "primary"

/-- the effect of any command on the node part of the state -/
def clStep (s : NodeSt) : Cmd → NodeSt
  | .addNode n => (applyAddNode s n).1
  | .updateNode n => (applyAddNode s n).1
  | .removeNode id => (applyRemoveNode s id).1
  | .updateNodeState id st => (applyUpdateNodeState s id st).1
  | .promote id _ => (applyPromote s id).1
  | .demote id => (applyDemote s id).1
  | .assignCompactor id => (applyAssignCompactor s id).1
  | _ => s

/-! RBAC parents -/

def ParentsExist (a : AuthSt) : Prop :=
  (∀ k e, a.teams.get? k = some e → a.orgs.has e.org = true) ∧
  (∀ k e, a.roles.get? k = some e → a.teams.has e.team = true) ∧
  (∀ k e, a.mperms.get? k = some e → a.roles.has e.role = true) ∧
  (∀ k e, a.members.get? k = some e → a.tokens.has e.token = true ∧ a.teams.has e.team = true)

end Arc.C23
