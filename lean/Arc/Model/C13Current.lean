import Arc.Model.C13
import Arc.Generated.C13
/-!
C13 — the error policy of the CURRENT source, assembled from the facts `go/factgen/cmd/c13`
regenerates on every run, plus the two policies the proofs know by name: the one found when the
check was written (`asFound`: `restoreDataFiles` logs and `continue`s) and the repaired ones.
Core-only (linked into `drive_c13`).
-/
namespace Arc.C13

def decodeKind : Nat → StepKind
  | 0 => .data
  | 1 => .sqlite
  | _ => .config

def decodeMode : Nat → StepMode
  | 0 => .failNow
  | 1 => .assign
  | 2 => .accumulate
  | _ => .ignore

/-- `(kind, mode)`; kind 9 = the `if err != nil {fail}` check on the shared variable -/
def decodeInstr (x : Nat × Nat) : Instr :=
  if x.1 == 9 then .check else .step (decodeKind x.1) (decodeMode x.2)

def decodeErr : Nat → ErrPolicy
  | 0 => .continueSilently
  | 1 => .skipCount
  | _ => .abort

/-- the policy the current source implements (regenerated). -/
def current : Policy :=
  { backupReadErr := decodeErr Arc.Generated.C13.backupReadErr
    backupWriteErr := decodeErr Arc.Generated.C13.backupWriteErr
    restoreFileErr := decodeErr Arc.Generated.C13.restoreFileErr
    backupKeepsPart := !Arc.Generated.C13.backupCleansPart
    restoreKeepsPart := !Arc.Generated.C13.restoreCleansPart
    backupReadAttempts := Arc.Generated.C13.backupReadAttempts
    backupRetryResets := Arc.Generated.C13.backupRetryResets
    backupWriteAttempts := Arc.Generated.C13.backupWriteAttempts
    restoreReadAttempts := Arc.Generated.C13.restoreReadAttempts
    restoreRetryResets := Arc.Generated.C13.restoreRetryResets
    restoreWriteAttempts := Arc.Generated.C13.restoreWriteAttempts
    ratioNum := Arc.Generated.C13.ratioNum
    ratioDen := Arc.Generated.C13.ratioDen
    ratioChecked := Arc.Generated.C13.ratioChecked
    manifestSkipped := Arc.Generated.C13.manifestSkippedBeforeMarshal
    restoreProg := Arc.Generated.C13.restoreProgram.map decodeInstr
    dataSkipNoParquet := Arc.Generated.C13.dataSkippedWhenNoParquet }

/-- `RestoreBackup` as found: every step fails the restore at once. -/
def failNowProg : List Instr :=
  [.step .data .failNow, .step .sqlite .failNow, .step .config .failNow]

/-- the policy of the tree the finding was made on. -/
def asFound : Policy :=
  { backupReadErr := .skipCount, backupWriteErr := .abort, restoreFileErr := .continueSilently,
    backupKeepsPart := false, restoreKeepsPart := true,
    backupReadAttempts := 1, backupRetryResets := false, backupWriteAttempts := 1,
    restoreReadAttempts := 1, restoreRetryResets := false, restoreWriteAttempts := 1,
    ratioNum := 1, ratioDen := 10,
    ratioChecked := true, manifestSkipped := true, restoreProg := failNowProg,
    dataSkipNoParquet := false }

/-- repair A: `restoreDataFiles` returns the first per-file error. -/
def repairedAbort : Policy := { asFound with restoreFileErr := .abort }

/-- repair B: `restoreDataFiles` counts failed files, keeps going, and returns an error at the end. -/
def repairedCount : Policy := { asFound with restoreFileErr := .skipCount }

/-- a known-bad step program (seeded mutant C13-2): the data error is carried in the shared `err`,
the SQLite step assigns the same variable, the check comes after it. -/
def maskedProg : List Instr :=
  [.step .data .assign, .step .sqlite .assign, .check, .step .config .failNow]

/-- a known-bad read phase (seeded mutant C13-b2): one retry into the same, un-reset temp file. -/
def retryNoReset : Policy :=
  { repairedCount with backupReadAttempts := 2, backupRetryResets := false }

end Arc.C13
