import Arc.Generated.C09
/-!
C09 — executable model of one partition under the compaction cycle of `internal/compaction`:

* storage = assoc list `Path → File` (a file = multiset of rows + metadata flags), manifests;
* the job program (`Job.Run` after the DuckDB COPY) is the list of storage mutations obtained by
  interpreting the REGENERATED step list `Arc.Generated.C09.jobSteps`; manifest recovery
  (`recoverManifest`) interprets the regenerated branch lists; so reordering "upload" and "delete
  inputs" in the source changes these terms;
* a job dies (`kill`: only the child process; `crash`/`partial`: the whole node) right before its
  k-th mutation; after a kill the parent continues with the adaptive split-and-retry of
  `compactFilesAdaptively`, which — fact `retryConsultsManifests` — does or does not look at the
  manifest the dead job left behind;
* a cycle = recovery of all manifests, `ShouldCompact`, candidate filtering (manifest-tracked inputs
  and outputs excluded), `SplitCandidateIntoBatches`, adaptive compaction of every batch;
* `compactRows inputs = dedup? (⊎ inputs)`; DuckDB's `QUALIFY ROW_NUMBER() … = 1` is the parameter
  `dedupFn` (the driver uses `dedupFirst`; theorems assume only `DedupSpec`).

Core Lean only, executable.
-/
namespace Arc.C09
open Arc.Generated.C09

/-- a row: identity of its full content and of its dedup key at each dedup level
(1: time — `arc:dedup_time` without tags; 2: (host,time) — `arc:tags=host`; 3: (host,region,time);
4: (region,time) — `arc:tags=region`) -/
structure Row where
  rid : Nat
  k1 : Nat
  k2 : Nat
  k3 : Nat
  k4 : Nat
deriving DecidableEq, Repr

def keyAt (lvl : Nat) (r : Row) : Nat :=
  if lvl == 1 then r.k1 else if lvl == 2 then r.k2 else if lvl == 4 then r.k4 else r.k3

/-- union of two declared tag sets (levels): 0 = none, 1 = no tags (time only), 2 = {host},
4 = {region}, 3 = {host,region} -/
def joinLevel (a b : Nat) : Nat :=
  if a == 0 then b else if b == 0 then a else if a == b then a
  else if a == 1 then b else if b == 1 then a else 3

/-- `a`'s tag set is contained in `b`'s -/
abbrev levelLe (a b : Nat) : Prop := joinLevel a b = b

abbrev Path := Nat

/-- inputs are paths `0..`, the output of job `j` (jobs are numbered per partition history) is `outBase + j` -/
def outBase : Nat := 1000

structure File where
  rows     : List Row
  level    : Nat    -- dedup level declared by the footer metadata (0: neither `arc:tags` nor `arc:dedup_time`)
  isOut    : Bool   -- name ends in `_compacted.parquet`
  complete : Bool   -- false: partially uploaded (size differs from the manifest's)
deriving DecidableEq, Repr

structure Manifest where
  mid    : Nat
  inputs : List Path
  out    : Path
deriving DecidableEq, Repr

structure St where
  files : List (Path × File)
  mans  : List Manifest
  njobs : Nat
deriving Repr

inductive Mut
  | writeManifest (m : Manifest)
  | upload (p : Path) (f : File)
  | delInput (p : Path)
  | delOutput (p : Path)
  | delManifest (mid : Nat)
deriving DecidableEq, Repr

def St.get (s : St) (p : Path) : Option File := s.files.lookup p

def delKey (fs : List (Path × File)) (p : Path) : List (Path × File) := fs.filter (fun x => x.1 != p)

def applyMut (s : St) : Mut → St
  | .writeManifest m => { s with mans := s.mans.filter (fun x => x.mid != m.mid) ++ [m] }
  | .upload p f => { s with files := delKey s.files p ++ [(p, f)] }
  | .delInput p => { s with files := delKey s.files p }
  | .delOutput p => { s with files := delKey s.files p }
  | .delManifest mid => { s with mans := s.mans.filter (fun x => x.mid != mid) }

def applyMuts (s : St) (ms : List Mut) : St := ms.foldl applyMut s

/-- rows a query over the partition reads: all complete `*.parquet` files -/
def rowsOf (fs : List (Path × File)) : List Row := fs.flatMap (fun x => x.2.rows)
def visible (s : St) : List Row := rowsOf (s.files.filter (fun x => x.2.complete))

/-! ## compaction of rows -/

/-- keep the first row of every key (one admissible behaviour of `ROW_NUMBER() … = 1`) -/
def dedupFirstAux (lvl : Nat) : List Nat → List Row → List Row
  | _, [] => []
  | seen, r :: rs =>
    if seen.contains (keyAt lvl r) then dedupFirstAux lvl seen rs else r :: dedupFirstAux lvl (keyAt lvl r :: seen) rs

def dedupFirst (lvl : Nat) (rs : List Row) : List Row := dedupFirstAux lvl [] rs

structure Cfg where
  steps       : List JobStep
  recMissing  : List RecStep
  recMismatch : List RecStep
  recValid    : List RecStep
  recoverFirst  : Bool
  filterInputs  : Bool
  filterOutputs : Bool
  retryRecovers : Bool      -- a failed job's own manifest is recovered before the half-batch retry
  tagUnion : Bool           -- the dedup key is the UNION of the inputs' tag lists (else: the first tagged input's)
  minBatch   : Nat
  maxDepth   : Nat
  defMax     : Nat
  maxAllowed : Nat
  minFiles   : Nat          -- tier MinFiles as configured (0 = default)
  defMinFiles : Nat
  maxBatch   : Nat          -- compaction.max_files_per_batch as configured
  dedupFn    : Nat → List Row → List Row   -- DuckDB's dedup at a level

/-- the configuration read off the current source, for given tier/batch settings and dedup behaviour -/
def genCfg (minFiles maxBatch : Nat) (d : Nat → List Row → List Row) : Cfg :=
  { steps := jobSteps, recMissing := recOutputMissing, recMismatch := recSizeMismatch,
    recValid := recOutputValid, recoverFirst := cycleRecoversBeforeCandidates,
    filterInputs := filterExcludesManifestInputs, filterOutputs := filterExcludesManifestOutputs,
    retryRecovers := retryConsultsManifests, tagUnion := dedupKeyIsUnionOfInputTags, minBatch := adaptiveMinBatch, maxDepth := adaptiveMaxDepth,
    defMax := defaultMaxFilesPerBatch, maxAllowed := maxAllowedFilesPerBatch, minFiles := minFiles,
    defMinFiles := hourlyDefaultMinFiles, maxBatch := maxBatch, dedupFn := d }

/-- the union of the inputs' tag lists -/
def unionLevel (fs : List File) : Nat := fs.foldl (fun acc f => joinLevel acc f.level) 0

/-- dedup level of a job: `readTagColumnsFromParquetFiles` + `readDedupTimeFromParquetFiles` -/
def jobLevel (cfg : Cfg) (fs : List File) : Nat :=
  if cfg.tagUnion then unionLevel fs
  else match fs.find? (fun f => decide (f.level ≥ 2)) with
    | some f => f.level
    | none => if fs.any (fun f => f.level == 1) then 1 else 0

def compactRows (cfg : Cfg) (fs : List File) : List Row :=
  if jobLevel cfg fs == 0 then fs.flatMap (fun f => f.rows) else cfg.dedupFn (jobLevel cfg fs) (fs.flatMap (fun f => f.rows))

/-! ## the job -/

def stepMuts (m : Manifest) (outF : File) : JobStep → List Mut
  | .writeManifest => [.writeManifest m]
  | .upload => [.upload m.out outF]
  | .deleteInputs => m.inputs.map .delInput
  | .deleteManifest => [.delManifest m.mid]

def jobMuts (steps : List JobStep) (m : Manifest) (outF : File) : List Mut :=
  steps.flatMap (stepMuts m outF)

inductive FKind | kill | crash | torn | cancel
deriving DecidableEq, Repr

structure Fault where
  job  : Nat     -- index of the job within its cycle
  pos  : Nat     -- dies right before its pos-th mutation; ≥ 1000: after the last one, before reporting
  kind : FKind
deriving Repr

inductive Outcome | ok | killed | crashed
deriving DecidableEq, Repr

/-- downloaded and valid inputs: present (missing ones are skipped) and passing the PAR1 check -/
def validInputs (s : St) (ins : List Path) : List Path :=
  ins.filter (fun p => match s.get p with | some f => f.complete | none => false)

/-- the same files as stored, in listing order (DuckDB reads them as a multiset of rows) -/
def inputFiles (s : St) (ins : List Path) : List (Path × File) :=
  s.files.filter (fun x => ins.contains x.1 && x.2.complete)

def jobManifest (s : St) (ins : List Path) : Manifest :=
  { mid := s.njobs, inputs := validInputs s ins, out := outBase + s.njobs }

def jobOutFile (cfg : Cfg) (s : St) (ins : List Path) : File :=
  { rows := compactRows cfg ((inputFiles s ins).map (fun x => x.2)), level := 0, isOut := true, complete := true }

def jobProgram (cfg : Cfg) (s : St) (ins : List Path) : List Mut :=
  if (validInputs s ins).isEmpty then [] else jobMuts cfg.steps (jobManifest s ins) (jobOutFile cfg s ins)

def outcomeOf : FKind → Outcome
  | .kill => .killed
  | _ => .crashed

/-- a partial upload: the node dies while the output is being written to its final key -/
def partialOf (ms : List Mut) (k : Nat) : List Mut :=
  match ms[k]? with
  | some (.upload p f) => [.upload p { f with complete := false }]
  | _ => []

/-- state, outcome and number of executed mutations of one job started in `s` on `ins` -/
def runJob (cfg : Cfg) (s : St) (ins : List Path) (flt : Option Fault) : St × Outcome × Nat :=
  let ms := jobProgram cfg s ins
  let s1 : St := { s with njobs := s.njobs + 1 }
  match flt with
  | none => (applyMuts s1 ms, .ok, ms.length)
  | some f =>
    -- graceful cancellation (SIGTERM → job ctx): before/during the merge the job gives up without any
    -- storage mutation (pos 100: at the first download read, 101: after the last one); once the merged file exists, no storage call of the job consults
    -- the context any more and the job runs to completion; a job none of whose inputs exist any more
    -- has nothing to download or merge and completes ("all files already compacted")
    if f.kind == .cancel then
      (if (f.pos = 100 ∨ f.pos = 101) ∧ (validInputs s ins).isEmpty = false then (s1, .killed, 0) else (applyMuts s1 ms, .ok, ms.length))
    else if f.pos ≥ 1000 then (applyMuts s1 ms, outcomeOf f.kind, ms.length)
    else if f.pos < ms.length then
      let pre := ms.take f.pos
      let extra := if f.kind == .torn then partialOf ms f.pos else []
      (applyMuts s1 (pre ++ extra), outcomeOf f.kind, f.pos)
    else (applyMuts s1 ms, .ok, ms.length)

/-! ## manifest recovery -/

def recGo (m : Manifest) (failing : List Path) (blocked : Bool) : List RecStep → List Mut
  | [] => []
  | .deleteOutput :: r => .delOutput m.out :: recGo m failing blocked r
  | .deleteManifest :: r => .delManifest m.mid :: recGo m failing blocked r
  | .deleteInputs :: r =>
    (m.inputs.filter (fun p => !failing.contains p)).map .delInput ++ (if blocked then [] else recGo m failing blocked r)

def recBranch (cfg : Cfg) (s : St) (m : Manifest) : List RecStep :=
  match s.get m.out with
  | none => cfg.recMissing
  | some f => if f.complete then cfg.recValid else cfg.recMismatch

/-- `failing`: inputs whose delete returns a storage error (they stay; the manifest is then kept) -/
def recMuts (cfg : Cfg) (s : St) (m : Manifest) (failing : List Path) : List Mut :=
  recGo m failing (m.inputs.any (fun p => failing.contains p && (s.get p).isSome)) (recBranch cfg s m)

def recoverOne (cfg : Cfg) (s : St) (m : Manifest) (failing : List Path) : St :=
  applyMuts s (recMuts cfg s m failing)

def recoverAll (cfg : Cfg) (s : St) (failing : List Path) : St :=
  s.mans.foldl (fun acc m => recoverOne cfg acc m failing) s

/-! ## batching (tier.go) -/

def clampBatch (cfg : Cfg) (n : Nat) : Nat :=
  if n < cfg.minBatch then cfg.defMax else if n > cfg.maxAllowed then cfg.maxAllowed else n

/-- chunks of size `n`; `k` = number of chunks still to produce, the last one takes everything left -/
def chunks (n : Nat) : Nat → List Path → List (List Path)
  | 0, _ => []
  | 1, l => [l]
  | k + 2, l => l.take n :: chunks n (k + 1) (l.drop n)

def numBatches (cfg : Cfg) (len n : Nat) : Nat :=
  let nb := (len + n - 1) / n
  let rem := len % n
  if rem != 0 && rem < cfg.minBatch && nb > 1 then nb - 1 else nb

/-- `SplitCandidateIntoBatches`: the i-th list is batch number i+1 -/
def splitBatches (cfg : Cfg) (files : List Path) : List (List Path) :=
  let n := clampBatch cfg cfg.maxBatch
  if files.length ≤ n then [files] else chunks n (numBatches cfg files.length n) files

/-! ## the adaptive retry and the cycle -/

structure JobRec where
  idx : Nat
  batch : Nat
  files : List Path
  outcome : Outcome
  nmut : Nat
deriving Repr

structure Run where
  st   : St
  cj   : Nat          -- jobs started in this cycle
  dead : Bool         -- the node crashed
  log  : List JobRec

def findFault (plan : List Fault) (j : Nat) : Option Fault := plan.find? (fun f => f.job == j)

def ownManifest (s : St) (mid : Nat) : Option Manifest := s.mans.find? (fun m => m.mid == mid)

/-- one `CompactPartition` call -/
def attempt (cfg : Cfg) (plan : List Fault) (batch : Nat) (r : Run) (files : List Path) : Run × Outcome :=
  let jid := r.st.njobs
  let (s1, oc, n) := runJob cfg r.st files (findFault plan r.cj)
  let s2 := if oc == .killed && cfg.retryRecovers then
      (match ownManifest s1 jid with | some m => recoverOne cfg s1 m [] | none => s1) else s1
  ({ st := s2, cj := r.cj + 1, dead := r.dead || oc == .crashed,
     log := r.log ++ [{ idx := jid, batch := batch, files := files, outcome := oc, nmut := n }] }, oc)

/-- `compactFilesAdaptively`; fuel = maxDepth + 1 - depth. Returns success. -/
def adaptive (cfg : Cfg) (plan : List Fault) (batch : Nat) : Nat → Run → List Path → Run × Bool
  | 0, r, _ => (r, false)
  | fuel + 1, r, files =>
    if r.dead then (r, false)
    else if files.length < cfg.minBatch then (r, false)
    else
      let (r1, oc) := attempt cfg plan batch r files
      match oc with
      | .ok => (r1, true)
      | .crashed => (r1, false)
      | .killed =>
        if files.length ≤ cfg.minBatch then (r1, false)
        else
          let mid := files.length / 2
          let (r2, ok1) := adaptive cfg plan batch fuel r1 (files.take mid)
          if ok1 then adaptive cfg plan batch fuel r2 (files.drop mid) else (r2, false)

def effMinFiles (cfg : Cfg) : Nat := if cfg.minFiles == 0 then cfg.defMinFiles else cfg.minFiles

/-- hourly `ShouldCompact` over the listed files of the partition -/
def shouldCompact (cfg : Cfg) (s : St) : Bool :=
  decide (s.files.length ≥ effMinFiles cfg) &&
  decide ((s.files.filter (fun x => !x.2.isOut)).length ≥ effMinFiles cfg)

def tracked (cfg : Cfg) (s : St) : List Path :=
  s.mans.flatMap (fun m => (if cfg.filterOutputs then [m.out] else []) ++ (if cfg.filterInputs then m.inputs else []))

def candidates (cfg : Cfg) (s : St) : List Path :=
  (s.files.map (fun x => x.1)).filter (fun p => !(tracked cfg s).contains p)

def runBatches (cfg : Cfg) (plan : List Fault) : Nat → Run → List (List Path) → Run
  | _, r, [] => r
  | b, r, fs :: rest => runBatches cfg plan (b + 1) (adaptive cfg plan b (cfg.maxDepth + 1) r fs).1 rest

/-- one compaction cycle of a fresh node over the partition -/
def cycle (cfg : Cfg) (plan : List Fault) (failing : List Path) (s : St) : Run :=
  let s1 := if cfg.recoverFirst then recoverAll cfg s failing else s
  let r0 : Run := { st := s1, cj := 0, dead := false, log := [] }
  if !shouldCompact cfg s1 then r0
  else
    let cand := candidates cfg s1
    if cand.isEmpty then r0 else runBatches cfg plan 1 r0 (splitBatches cfg cand)

/-- a history: faulty cycles, each started by a fresh node -/
def runCycles (cfg : Cfg) : List (List Fault) → St → St
  | [], s => s
  | p :: ps, s => runCycles cfg ps (cycle cfg p [] s).st

/-! ## the property's observables -/

def countKey (lvl k : Nat) (rs : List Row) : Nat := (rs.filter (fun r => keyAt lvl r == k)).length

def initSt (fs : List (Path × File)) : St := { files := fs, mans := [], njobs := 0 }

end Arc.C09
