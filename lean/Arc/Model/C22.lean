import Arc.Model.C22.SMap
import Arc.Model.C22.Types
import Arc.Model.C22.Valid
import Arc.Model.C22.Apply
import Arc.Model.C22.Restore
import Arc.Model.C22.Run
/-!
C22 — executable model of the Raft cluster FSM (`internal/cluster/raft/fsm.go`, `fsm_rbac.go`,
`path_validation.go`): state with every secondary index, the 29 `apply*` commands, snapshot and
restore. Shared with C23 (`Arc.Model.C23`). The line-protocol driver lives in `Arc.Model.C22.Wire`.
-/
