/-
C15 — byte-level model of `internal/sql/mask.go` (`MaskStringLiterals`, `UnmaskStringLiterals`,
`dollarQuoteTag`, `scanQuoted`), of `internal/api/query.go` (`scanSQLFeatures`,
`stripSQLComments`) and `SqlLex`, a reference lexer for the DuckDB/Postgres token classes the
property talks about.

Everything works on `List UInt8`.  Scanners produce a list of *segments* that partition the input;
the text the Go code returns is a rendering of the segments (placeholder numbering for the masker,
`' '`/nothing for comments).  Quirks of the Go code are kept (tree at 73763cd): the masker looks at the PREVIOUS BYTE to decide
whether `$` / `e'` can open a literal; the comment stripper does not nest and ends `--` only at `\n`;
unmasking is ONE pass over the text (strings.NewReplacer).
Core-only, executable.
-/
namespace Arc.C15

abbrev Bytes := List UInt8

/-! ## byte classes -/
def QUOTE : UInt8 := 39      -- '
def DQUOTE : UInt8 := 34     -- "
def BSLASH : UInt8 := 92
def DOLLAR : UInt8 := 36
def DASH : UInt8 := 45
def SLASH : UInt8 := 47
def STAR : UInt8 := 42
def NL : UInt8 := 10
def CR : UInt8 := 13
def USCORE : UInt8 := 95

def isAlpha (c : UInt8) : Bool := (97 ≤ c && c ≤ 122) || (65 ≤ c && c ≤ 90)
def isDigit (c : UInt8) : Bool := 48 ≤ c && c ≤ 57
/-- `isIdentifierByte` of mask.go. -/
def isIdentByte (c : UInt8) : Bool := c == 95 || isAlpha c || isDigit c
def isHigh (c : UInt8) : Bool := 128 ≤ c
def isE (c : UInt8) : Bool := c == 101 || c == 69

/-- A segment of the input. `raw` = one byte outside every token. -/
inductive Seg where
  | raw (b : UInt8)
  | str (o : Bytes)      -- '…'  E'…'  $tag$…$tag$   (the whole token text)
  | ident (o : Bytes)    -- "…"
  | lcom (o : Bytes)     -- -- …        (without the terminating newline)
  | bcom (o : Bytes)     -- /* … */
deriving Repr, DecidableEq

def Seg.bytes : Seg → Bytes
  | .raw b => [b]
  | .str o => o
  | .ident o => o
  | .lcom o => o
  | .bcom o => o

def segBytes (l : List Seg) : Bytes := l.flatMap Seg.bytes

def lastOr (d : UInt8) : Bytes → UInt8
  | [] => d
  | [x] => x
  | _ :: t => lastOr d t

/-- longest prefix whose bytes satisfy `p`, and the rest. -/
def spanP (p : UInt8 → Bool) : Bytes → Bytes × Bytes
  | [] => ([], [])
  | c :: t =>
    if p c then
      let r := spanP p t
      (c :: r.1, r.2)
    else ([], c :: t)

/-! ## quoted bodies -/

/-- `'…'` and `"…"` (SqlLex, and since 8f4fe38 the inline loop of `MaskStringLiterals`): only the
doubled quote is an escape. Input starts right after the opening quote; returns (body incl. closing
quote, rest). -/
def lBody (q : UInt8) : Bytes → Bytes × Bytes
  | [] => ([], [])
  | [c] => ([c], [])
  | c :: c2 :: t2 =>
    if c = q then
      if c2 = q then
        let r := lBody q t2
        (c :: c2 :: r.1, r.2)
      else ([c], c2 :: t2)
    else
      let r := lBody q (c2 :: t2)
      (c :: r.1, r.2)

/-- body of `E'…'` (SqlLex, and `scanQuoted` since 8f4fe38): a backslash consumes the next byte, `''`
is a quote. -/
def lEBody : Bytes → Bytes × Bytes
  | [] => ([], [])
  | [c] => ([c], [])
  | c :: c2 :: t2 =>
    if c = BSLASH then
      let r := lEBody t2
      (c :: c2 :: r.1, r.2)
    else if c = QUOTE then
      if c2 = QUOTE then
        let r := lEBody t2
        (c :: c2 :: r.1, r.2)
      else ([c], c2 :: t2)
    else
      let r := lEBody (c2 :: t2)
      (c :: r.1, r.2)

/-! ## dollar quoting -/

/-- Tag scan right after the opening `$`: `some (tag, afterSecondDollar)`. -/
def tagScan (start cont : UInt8 → Bool) : Bool → Bytes → Option (Bytes × Bytes)
  | _, [] => none
  | first, c :: t =>
    if c = DOLLAR then some ([], t)
    else if (if first then start c else cont c) then
      match tagScan start cont false t with
      | some r => some (c :: r.1, r.2)
      | none => none
    else none

/-- Split at the first occurrence of `pat`: `some (before ++ pat, after)`. (`strings.Index`) -/
def splitSub (pat : Bytes) : Bytes → Option (Bytes × Bytes)
  | [] => none
  | c :: t =>
    if pat.isPrefixOf (c :: t) then some (pat, (c :: t).drop pat.length)
    else match splitSub pat t with
      | some r => some (c :: r.1, r.2)
      | none => none

/-- Dollar-quoted token starting at a `$` whose successor bytes are `after`: `some (token, rest)`;
an unterminated one extends to the end of the input. `none` = not an opener. -/
def dollarTok (start cont : UInt8 → Bool) (after : Bytes) : Option (Bytes × Bytes) :=
  match tagScan start cont true after with
  | none => none
  | some (tag, body) =>
    match splitSub (DOLLAR :: tag ++ [DOLLAR]) body with
    | some (b, rest) => some (DOLLAR :: tag ++ DOLLAR :: b, rest)
    | none => some (DOLLAR :: after, [])

/-- Postgres/DuckDB `dolq_start`/`dolq_cont` and (since abf5a7e) `dollarQuoteTag`: letters, `_`, bytes
≥ 0x80; digits not first. -/
def lTagStart (c : UInt8) : Bool := isAlpha c || c == 95 || isHigh c
def lTagCont (c : UInt8) : Bool := isAlpha c || c == 95 || isHigh c || isDigit c

/-! ## the masker -/

/-- After `/*` at depth `d ≥ 1`: block comments NEST (SqlLex, and the masker since 64dff5c).
Returns (consumed, rest). -/
def lBlock : Nat → Bytes → Bytes × Bytes
  | _, [] => ([], [])
  | _, [c] => ([c], [])
  | d, c :: c2 :: t2 =>
    if c = STAR ∧ c2 = SLASH then
      (if d ≤ 1 then ([c, c2], t2)
       else
        let r := lBlock (d - 1) t2
        (c :: c2 :: r.1, r.2))
    else if c = SLASH ∧ c2 = STAR then
      let r := lBlock (d + 1) t2
      (c :: c2 :: r.1, r.2)
    else
      let r := lBlock d (c2 :: t2)
      (c :: r.1, r.2)

/-- One iteration of the main loop of `MaskStringLiterals` at byte `c` (previous byte `prev`, 0 at
the start), remaining input `t`: the segment produced and the rest. Order of the tests as in the
source: dollar quote, E-string, `--` comment (to `\n` or `\r`, 17363b5), nested block comment, quote. -/
def mTok (prev c : UInt8) (t : Bytes) : Seg × Bytes :=
  if c = DOLLAR then
    if isIdentByte prev then (.raw c, t)
    else match dollarTok lTagStart lTagCont t with
      | some (tok, rest) => (.str tok, rest)
      | none => (.raw c, t)
  else if isE c && t.head? = some QUOTE && !isIdentByte prev then
    let r := lEBody t.tail
    (.str (c :: QUOTE :: r.1), r.2)
  else if c = DASH ∧ t.head? = some DASH then
    let r := spanP (fun b => b != NL && b != CR) (c :: t)
    (.lcom r.1, r.2)
  else if c = SLASH ∧ t.head? = some STAR then
    let r := lBlock 1 t.tail
    (.bcom (c :: STAR :: r.1), r.2)
  else if c = QUOTE then
    let r := lBody QUOTE t
    (.str (c :: r.1), r.2)
  else if c = DQUOTE then
    let r := lBody DQUOTE t
    (.ident (c :: r.1), r.2)
  else (.raw c, t)

def mSegsF : Nat → UInt8 → Bytes → List Seg
  | 0, _, _ => []
  | _, _, [] => []
  | f + 1, prev, c :: t =>
    let r := mTok prev c t
    r.1 :: mSegsF f (lastOr c r.1.bytes) r.2

/-- Segments delimited by `MaskStringLiterals`. -/
def mSegs (s : Bytes) : List Seg := mSegsF s.length 0 s

/-! ### placeholders -/
/-- `%d`: decimal digits of `n` as bytes. -/
def dec (n : Nat) : Bytes := (Nat.toDigits 10 n).map (fun c => c.toNat.toUInt8)

def pfxStr : Bytes := [95, 95, 83, 84, 82, 95]                 -- "__STR_"
def pfxIdent : Bytes := [95, 95, 73, 68, 69, 78, 84, 95]       -- "__IDENT_"
def phStr (n : Nat) : Bytes := pfxStr ++ dec n ++ [95, 95]
def phIdent (n : Nat) : Bytes := pfxIdent ++ dec n ++ [95, 95]

structure Mask where
  ph : Bytes
  orig : Bytes
  isIdent : Bool
deriving Repr, DecidableEq

/-- Placeholder numbering and identifier de-duplication (`maskIndex`, `identPlaceholders`). -/
def render : Nat → List (Bytes × Bytes) → List Seg → Bytes × List Mask
  | _, _, [] => ([], [])
  | n, im, .raw b :: r =>
    let x := render n im r
    (b :: x.1, x.2)
  | n, im, .str o :: r =>
    let x := render (n + 1) im r
    (phStr n ++ x.1, ⟨phStr n, o, false⟩ :: x.2)
  | n, im, .ident o :: r =>
    match im.lookup o with
    | some p =>
      let x := render n im r
      (p ++ x.1, x.2)
    | none =>
      let x := render (n + 1) ((o, phIdent n) :: im) r
      (phIdent n ++ x.1, ⟨phIdent n, o, true⟩ :: x.2)
  | n, im, .lcom o :: r =>
    let x := render n im r
    (o ++ x.1, x.2)
  | n, im, .bcom o :: r =>
    let x := render n im r
    (o ++ x.1, x.2)

/-- `MaskStringLiterals(sql, hasQuotes)`. -/
def mask (s : Bytes) (hasQuotes : Bool) : Bytes × List Mask :=
  if hasQuotes then render 0 [] (mSegs s) else (s, [])

/-! ### unmask -/

/-- first mask (argument order = priority of `strings.NewReplacer`) whose placeholder is a prefix of `t` -/
def findMask (t : Bytes) : List Mask → Option Mask
  | [] => none
  | m :: ms => if !m.ph.isEmpty && m.ph.isPrefixOf t then some m else findMask t ms

/-- one pass of `strings.NewReplacer(ph₀, orig₀, ph₁, orig₁, …).Replace`: at each position the first
matching placeholder (in mask order) is replaced and skipped, otherwise the byte is copied; replaced
text is never rescanned. -/
def unmaskF (masks : List Mask) : Nat → Bytes → Bytes
  | 0, t => t
  | _, [] => []
  | f + 1, c :: t =>
    match findMask (c :: t) masks with
    | some m => m.orig ++ unmaskF masks f ((c :: t).drop m.ph.length)
    | none => c :: unmaskF masks f t

/-- `UnmaskStringLiterals` (942e7b2: single pass). -/
def unmask (t : Bytes) (masks : List Mask) : Bytes := unmaskF masks (t.length + 1) t

/-! ## comment stripping (`stripSQLComments`) -/

/-- After `/*`: scan to the first `*/` (no nesting); an unterminated comment runs to the end
(`closed` flag, 168cceb). Returns (consumed, rest). -/
def sBlock : Bytes → Bytes × Bytes
  | [] => ([], [])
  | [c] => ([c], [])
  | c :: c2 :: t2 =>
    if c = STAR ∧ c2 = SLASH then ([c, c2], t2)
    else
      let r := sBlock (c2 :: t2)
      (c :: r.1, r.2)

def sTok (c : UInt8) (t : Bytes) : Seg × Bytes :=
  if c = DASH ∧ t.head? = some DASH then
    let r := spanP (fun b => b != NL) (c :: t)
    (.lcom r.1, r.2)
  else if c = SLASH ∧ t.head? = some STAR then
    let r := sBlock t.tail
    (.bcom (c :: STAR :: r.1), r.2)
  else (.raw c, t)

def sSegsF : Nat → Bytes → List Seg
  | 0, _ => []
  | _, [] => []
  | f + 1, c :: t =>
    let r := sTok c t
    r.1 :: sSegsF f r.2

/-- Segments delimited by `stripSQLComments`. -/
def sSegs (s : Bytes) : List Seg := sSegsF s.length s

/-- What is written for each segment: bytes outside comments unchanged, a block comment becomes one
space, a line comment disappears (its newline is an ordinary byte and is kept). -/
def stripOut : Seg → Bytes
  | .raw b => [b]
  | .bcom _ => [32]
  | .lcom _ => []
  | .str o => o
  | .ident o => o

/-- `stripSQLComments(sql, hasComments)`. -/
def strip (s : Bytes) (hasComments : Bool) : Bytes :=
  if hasComments then (sSegs s).flatMap stripOut else s

/-! ## `scanSQLFeatures` -/
def hasPair (a b : UInt8) : Bytes → Bool
  | [] => false
  | [_] => false
  | x :: y :: t => (x == a && y == b) || hasPair a b (y :: t)

def hasQuotes (s : Bytes) : Bool := s.any (fun c => c == 39 || c == 34 || c == 36)
def hasComments (s : Bytes) : Bool := hasPair 45 45 s || hasPair 47 42 s

/-- The normalisation every call site in query.go performs: features of the ORIGINAL text, mask,
then strip the MASKED text. -/
def normalize (s : Bytes) : Bytes × List Mask :=
  let m := mask s (hasQuotes s)
  (strip m.1 (hasComments s), m.2)

/-! ## SqlLex — reference lexer (DuckDB / Postgres `scan.l` token classes) -/

def isIdStart (c : UInt8) : Bool := isAlpha c || c == 95 || isHigh c
def isIdCont (c : UInt8) : Bool := isAlpha c || c == 95 || isHigh c || isDigit c || c == 36

/-- One token at byte `c`; `inId` = the previous byte belongs to an unquoted identifier that may
continue. Returns (segment, rest, inId afterwards). -/
def lTok (inId : Bool) (c : UInt8) (t : Bytes) : Seg × Bytes × Bool :=
  if inId && isIdCont c then (.raw c, t, true)
  else if c = QUOTE then
    let r := lBody QUOTE t
    (.str (c :: r.1), r.2, false)
  else if c = DQUOTE then
    let r := lBody DQUOTE t
    (.ident (c :: r.1), r.2, false)
  else if isE c && t.head? = some QUOTE then
    let r := lEBody t.tail
    (.str (c :: QUOTE :: r.1), r.2, false)
  else if c = DOLLAR then
    match dollarTok lTagStart lTagCont t with
    | some (tok, rest) => (.str tok, rest, false)
    | none => (.raw c, t, false)
  else if c = DASH ∧ t.head? = some DASH then
    let r := spanP (fun b => b != NL && b != CR) (c :: t)
    (.lcom r.1, r.2, false)
  else if c = SLASH ∧ t.head? = some STAR then
    let r := lBlock 1 t.tail
    (.bcom (c :: STAR :: r.1), r.2, false)
  else (.raw c, t, isIdStart c)

def lSegsF : Nat → Bool → Bytes → List Seg
  | 0, _, _ => []
  | _, _, [] => []
  | f + 1, inId, c :: t =>
    let r := lTok inId c t
    r.1 :: lSegsF f r.2.2 r.2.1

/-- Tokens DuckDB's lexer sees (literals, quoted identifiers, comments; everything else raw). -/
def lSegs (s : Bytes) : List Seg := lSegsF s.length false s

/-- Forget comments (the masker does not know them). -/
def demote : Seg → List Seg
  | .lcom o => o.map .raw
  | .bcom o => o.map .raw
  | x => [x]

/-- Forget literals (the comment stripper does not know them). -/
def demoteLit : Seg → List Seg
  | .str o => o.map .raw
  | .ident o => o.map .raw
  | x => [x]

/-! ## the class `K` on which the Go code and SqlLex agree (decidable, computed along the lexer)

Each function returns `0` when the input is inside the class, otherwise the code of the first
excluded construct (the harness prints the same codes). -/

def kDollarInIdent : Nat := 6  -- `$` that continues an identifier but follows `$` or a non-ASCII byte
def kEInIdent : Nat := 7       -- e'… / E'… whose `e` continues an identifier after a non-ASCII byte or `$`
def kDollarAfterDigit : Nat := 8  -- dollar-quote opener glued to a number
def kEAfterDigit : Nat := 10   -- E'…' glued to a number
def kLiteralLeft : Nat := 20   -- (strip) a literal is present in the text handed to the stripper
def kCrEndsLine : Nat := 21    -- (strip) `--` comment ended by a carriage return
def kNested : Nat := 22        -- (strip) nested block comment
def kLookalike : Nat := 30     -- (round trip) `STR_` / `IDENT_` in the text OUTSIDE literals and quoted identifiers

/-- Mask-agreement check of the token that `lTok inId c t` produces; `prev` = previous byte. -/
def kTokM (inId : Bool) (prev c : UInt8) (t : Bytes) : Nat :=
  if inId && isIdCont c then
    if c = DOLLAR then (if isIdentByte prev then 0 else kDollarInIdent)
    else if isE c && t.head? = some QUOTE then (if isIdentByte prev then 0 else kEInIdent)
    else 0
  else if c = QUOTE then 0
  else if c = DQUOTE then 0
  else if isE c && t.head? = some QUOTE then (if isIdentByte prev then kEAfterDigit else 0)
  else if c = DOLLAR then
    match tagScan lTagStart lTagCont true t with
    | some _ => if isIdentByte prev then kDollarAfterDigit else 0
    | none => 0
  else 0

def kSegsMF : Nat → Bool → UInt8 → Bytes → Nat
  | 0, _, _, _ => 0
  | _, _, _, [] => 0
  | f + 1, inId, prev, c :: t =>
    let k := kTokM inId prev c t
    if k ≠ 0 then k else
    let r := lTok inId c t
    kSegsMF f r.2.2 (lastOr c r.1.bytes) r.2.1

/-- 0 iff `s` is in the class on which the masker's segmentation = SqlLex's. -/
def kClassM (s : Bytes) : Nat := kSegsMF s.length false 0 s

/-- Strip-agreement check of one token of SqlLex. -/
def kTokS (inId : Bool) (c : UInt8) (t : Bytes) : Nat :=
  let r := lTok inId c t
  match r.1 with
  | .str _ => kLiteralLeft
  | .ident _ => kLiteralLeft
  | .lcom _ => if r.2.1.head? = some CR then kCrEndsLine else 0
  | .bcom o =>
    if hasPair SLASH STAR (o.drop 2) then kNested else 0
  | .raw _ => 0

def kSegsSF : Nat → Bool → Bytes → Nat
  | 0, _, _ => 0
  | _, _, [] => 0
  | f + 1, inId, c :: t =>
    let k := kTokS inId c t
    if k ≠ 0 then k else
    let r := lTok inId c t
    kSegsSF f r.2.2 r.2.1

/-- 0 iff `t` (a text without literals, e.g. a masked query) is in the class on which
`stripSQLComments` delimits exactly SqlLex's comments. -/
def kClassS (t : Bytes) : Nat := kSegsSF t.length false t

def hasSub (pat : Bytes) : Bytes → Bool
  | [] => pat.isEmpty
  | c :: t => pat.isPrefixOf (c :: t) || hasSub pat t

def mkSTR : Bytes := [83, 84, 82, 95]             -- "STR_"
def mkIDENT : Bytes := [73, 68, 69, 78, 84, 95]   -- "IDENT_"

def runClean (run : Bytes) : Bool := !hasSub mkSTR run && !hasSub mkIDENT run

/-- every maximal stretch of text BETWEEN masked tokens (raw bytes and comments, which are copied
through) is free of `STR_` / `IDENT_`; `cur` = the stretch collected so far. -/
def runsClean : Bytes → List Seg → Bool
  | cur, [] => runClean cur
  | cur, .str _ :: r => runClean cur && runsClean [] r
  | cur, .ident _ :: r => runClean cur && runsClean [] r
  | cur, sg :: r => runsClean (cur ++ sg.bytes) r

/-- 0 iff no placeholder look-alike fragment occurs outside the masked tokens of `s`. -/
def kClassP (s : Bytes) : Nat := if runsClean [] (mSegs s) then 0 else kLookalike

end Arc.C15
