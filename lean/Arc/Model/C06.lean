/-
C06 — byte-level model of the WAL file format and reader of `internal/wal`:

* `wal.go`     `rotate` (7-byte file header), `AppendRaw`, `AppendRawWithMeta` (entry framing
               `len32 | ts64 | crc32(payload) | payload`, big-endian; envelope `0x01 | len16 | db | msgpack`),
               `ParseEnvelope`, size-based rotation in `writeEntry`;
* `reader.go`  `Reader.ReadAll` / `readEntry` with `io.ReadFull` semantics and the loop's on-error policy;
* `recovery.go` per-file replay (a file whose `ReadAll` fails is skipped).

Bytes are `List UInt8`. CRC-32 (IEEE, reflected polynomial 0xEDB88320) is an executable table-driven
function over `Nat`, so model and code agree bit for bit and the kernel can evaluate it.
The msgpack library is a *parameter* (`Cfg.dec`): `none` = "neither the row nor the columnar
`Unmarshal` succeeds", `some (isRows, token)` = which of the two succeeded and a token naming the
decoded value. The reader's on-error policy is a parameter too (`Cfg.onFrameErr/onDecodeErr`);
`Arc.Generated.C06` says which one the current source uses.
Core-only, executable.
-/
namespace Arc.C06

abbrev Bytes := List UInt8

/-! ## CRC-32 (IEEE) -/

def crcTable : Array Nat := #[
  0x00000000, 0x77073096, 0xee0e612c, 0x990951ba, 0x076dc419, 0x706af48f, 0xe963a535, 0x9e6495a3,
  0x0edb8832, 0x79dcb8a4, 0xe0d5e91e, 0x97d2d988, 0x09b64c2b, 0x7eb17cbd, 0xe7b82d07, 0x90bf1d91,
  0x1db71064, 0x6ab020f2, 0xf3b97148, 0x84be41de, 0x1adad47d, 0x6ddde4eb, 0xf4d4b551, 0x83d385c7,
  0x136c9856, 0x646ba8c0, 0xfd62f97a, 0x8a65c9ec, 0x14015c4f, 0x63066cd9, 0xfa0f3d63, 0x8d080df5,
  0x3b6e20c8, 0x4c69105e, 0xd56041e4, 0xa2677172, 0x3c03e4d1, 0x4b04d447, 0xd20d85fd, 0xa50ab56b,
  0x35b5a8fa, 0x42b2986c, 0xdbbbc9d6, 0xacbcf940, 0x32d86ce3, 0x45df5c75, 0xdcd60dcf, 0xabd13d59,
  0x26d930ac, 0x51de003a, 0xc8d75180, 0xbfd06116, 0x21b4f4b5, 0x56b3c423, 0xcfba9599, 0xb8bda50f,
  0x2802b89e, 0x5f058808, 0xc60cd9b2, 0xb10be924, 0x2f6f7c87, 0x58684c11, 0xc1611dab, 0xb6662d3d,
  0x76dc4190, 0x01db7106, 0x98d220bc, 0xefd5102a, 0x71b18589, 0x06b6b51f, 0x9fbfe4a5, 0xe8b8d433,
  0x7807c9a2, 0x0f00f934, 0x9609a88e, 0xe10e9818, 0x7f6a0dbb, 0x086d3d2d, 0x91646c97, 0xe6635c01,
  0x6b6b51f4, 0x1c6c6162, 0x856530d8, 0xf262004e, 0x6c0695ed, 0x1b01a57b, 0x8208f4c1, 0xf50fc457,
  0x65b0d9c6, 0x12b7e950, 0x8bbeb8ea, 0xfcb9887c, 0x62dd1ddf, 0x15da2d49, 0x8cd37cf3, 0xfbd44c65,
  0x4db26158, 0x3ab551ce, 0xa3bc0074, 0xd4bb30e2, 0x4adfa541, 0x3dd895d7, 0xa4d1c46d, 0xd3d6f4fb,
  0x4369e96a, 0x346ed9fc, 0xad678846, 0xda60b8d0, 0x44042d73, 0x33031de5, 0xaa0a4c5f, 0xdd0d7cc9,
  0x5005713c, 0x270241aa, 0xbe0b1010, 0xc90c2086, 0x5768b525, 0x206f85b3, 0xb966d409, 0xce61e49f,
  0x5edef90e, 0x29d9c998, 0xb0d09822, 0xc7d7a8b4, 0x59b33d17, 0x2eb40d81, 0xb7bd5c3b, 0xc0ba6cad,
  0xedb88320, 0x9abfb3b6, 0x03b6e20c, 0x74b1d29a, 0xead54739, 0x9dd277af, 0x04db2615, 0x73dc1683,
  0xe3630b12, 0x94643b84, 0x0d6d6a3e, 0x7a6a5aa8, 0xe40ecf0b, 0x9309ff9d, 0x0a00ae27, 0x7d079eb1,
  0xf00f9344, 0x8708a3d2, 0x1e01f268, 0x6906c2fe, 0xf762575d, 0x806567cb, 0x196c3671, 0x6e6b06e7,
  0xfed41b76, 0x89d32be0, 0x10da7a5a, 0x67dd4acc, 0xf9b9df6f, 0x8ebeeff9, 0x17b7be43, 0x60b08ed5,
  0xd6d6a3e8, 0xa1d1937e, 0x38d8c2c4, 0x4fdff252, 0xd1bb67f1, 0xa6bc5767, 0x3fb506dd, 0x48b2364b,
  0xd80d2bda, 0xaf0a1b4c, 0x36034af6, 0x41047a60, 0xdf60efc3, 0xa867df55, 0x316e8eef, 0x4669be79,
  0xcb61b38c, 0xbc66831a, 0x256fd2a0, 0x5268e236, 0xcc0c7795, 0xbb0b4703, 0x220216b9, 0x5505262f,
  0xc5ba3bbe, 0xb2bd0b28, 0x2bb45a92, 0x5cb36a04, 0xc2d7ffa7, 0xb5d0cf31, 0x2cd99e8b, 0x5bdeae1d,
  0x9b64c2b0, 0xec63f226, 0x756aa39c, 0x026d930a, 0x9c0906a9, 0xeb0e363f, 0x72076785, 0x05005713,
  0x95bf4a82, 0xe2b87a14, 0x7bb12bae, 0x0cb61b38, 0x92d28e9b, 0xe5d5be0d, 0x7cdcefb7, 0x0bdbdf21,
  0x86d3d2d4, 0xf1d4e242, 0x68ddb3f8, 0x1fda836e, 0x81be16cd, 0xf6b9265b, 0x6fb077e1, 0x18b74777,
  0x88085ae6, 0xff0f6a70, 0x66063bca, 0x11010b5c, 0x8f659eff, 0xf862ae69, 0x616bffd3, 0x166ccf45,
  0xa00ae278, 0xd70dd2ee, 0x4e048354, 0x3903b3c2, 0xa7672661, 0xd06016f7, 0x4969474d, 0x3e6e77db,
  0xaed16a4a, 0xd9d65adc, 0x40df0b66, 0x37d83bf0, 0xa9bcae53, 0xdebb9ec5, 0x47b2cf7f, 0x30b5ffe9,
  0xbdbdf21c, 0xcabac28a, 0x53b39330, 0x24b4a3a6, 0xbad03605, 0xcdd70693, 0x54de5729, 0x23d967bf,
  0xb3667a2e, 0xc4614ab8, 0x5d681b02, 0x2a6f2b94, 0xb40bbe37, 0xc30c8ea1, 0x5a05df1b, 0x2d02ef8d
]

/-- One table entry from the polynomial (8 shift/xor steps) — `crcTable` is checked against it in Props. -/
def crcEntryGen (i : Nat) : Nat :=
  let s := fun (c : Nat) => if c % 2 = 1 then (c >>> 1) ^^^ 0xEDB88320 else c >>> 1
  s (s (s (s (s (s (s (s i)))))))

def crcStep (c : Nat) (b : UInt8) : Nat :=
  crcTable.getD ((c ^^^ b.toNat) % 256) 0 ^^^ (c >>> 8)

def crcUpdate (c : Nat) (bs : Bytes) : Nat := bs.foldl crcStep c

/-- `crc32.ChecksumIEEE`. -/
def crc32 (bs : Bytes) : Nat := (crcUpdate 0xFFFFFFFF bs ^^^ 0xFFFFFFFF) % 4294967296

/-! ## big-endian fields -/

def rdBE (bs : Bytes) : Nat := bs.foldl (fun a b => a * 256 + b.toNat) 0

def be16 (n : Nat) : Bytes := [UInt8.ofNat (n / 256), UInt8.ofNat n]
def be32 (n : Nat) : Bytes :=
  [UInt8.ofNat (n / 16777216), UInt8.ofNat (n / 65536), UInt8.ofNat (n / 256), UInt8.ofNat n]
def be64 (n : Nat) : Bytes :=
  [UInt8.ofNat (n / 72057594037927936), UInt8.ofNat (n / 281474976710656), UInt8.ofNat (n / 1099511627776),
   UInt8.ofNat (n / 4294967296), UInt8.ofNat (n / 16777216), UInt8.ofNat (n / 65536), UInt8.ofNat (n / 256),
   UInt8.ofNat n]

/-! ## constants (tied to `Arc.Generated.C06` by `C06_constants_tied`) -/

def entryHeaderSize : Nat := 16
def fileHeaderSize : Nat := 7
def maxPayload : Nat := 104857600
def envelopeMarker : UInt8 := 1
def magic : Bytes := [65, 82, 67, 87]          -- "ARCW"
/-- `rotate`: magic, version (uint16 = 1), checksum type (1). -/
def fileHeader : Bytes := magic ++ be16 1 ++ [1]

/-! ## writer -/

/-- What `writeEntry` puts into the file for one accepted append: `payload` is the *logical* payload
(the envelope, if any, included). `ts` is `uint64(time.Now().UnixMicro())`. -/
structure Entry where
  ts : Nat
  payload : Bytes
deriving Repr, DecidableEq

def encodeEntry (e : Entry) : Bytes :=
  be32 e.payload.length ++ (be64 e.ts ++ (be32 (crc32 e.payload) ++ e.payload))

def encLen (e : Entry) : Nat := 16 + e.payload.length

def encodeAll : List Entry → Bytes
  | [] => []
  | e :: es => encodeEntry e ++ encodeAll es

def fileOf (es : List Entry) : Bytes := fileHeader ++ encodeAll es

def envelope (db p : Bytes) : Bytes := envelopeMarker :: (be16 db.length ++ (db ++ p))

inductive AppendRes
  | ok (e : Entry)
  | tooLarge          -- ErrPayloadTooLarge
  | panic             -- `envHeader[:envelopeHeaderLen]` with a database name longer than 255 bytes
deriving Repr

/-- `AppendRaw` with the size limit as a parameter: compares the length it writes. -/
def appendRawL (lim ts : Nat) (p : Bytes) : AppendRes :=
  if p.length > lim then .tooLarge else .ok ⟨ts, p⟩

/-- `AppendRawWithMeta` with the size limit as a parameter: compares `totalPayloadLen` =
envelope header + caller's bytes = the length it writes. -/
def appendRawWithMetaL (lim ts : Nat) (db p : Bytes) : AppendRes :=
  if 3 + db.length + p.length > lim then .tooLarge
  else if db.length > 255 then .panic
  else .ok ⟨ts, envelope db p⟩

def appendRaw (ts : Nat) (p : Bytes) : AppendRes := appendRawL maxPayload ts p

def appendRawWithMeta (ts : Nat) (db p : Bytes) : AppendRes := appendRawWithMetaL maxPayload ts db p

/-- Size-based rotation of `writeEntry`: after an entry is written, `currentSize ≥ MaxSizeBytes`
starts a new file (whose size starts at the 7 header bytes). Returns the entries of each file in
creation order; the last file may be header-only. -/
def rotateSplit (maxSize : Nat) : List Entry → Nat → List Entry → List (List Entry)
  | cur, _, [] => [cur.reverse]
  | cur, sz, e :: es =>
    if sz + encLen e ≥ maxSize then (e :: cur).reverse :: rotateSplit maxSize [] fileHeaderSize es
    else rotateSplit maxSize (e :: cur) (sz + encLen e) es

def filesOf (maxSize : Nat) (es : List Entry) : List Bytes :=
  (rotateSplit maxSize [] fileHeaderSize es).map fileOf

/-! ### rotation with file NAMES

`rotate` names the new file `arc-<time.Now() formatted at some resolution>.wal` and opens it with
`O_WRONLY|O_CREATE|O_APPEND`: if two rotations produce the same name, the second one re-opens the
existing file and appends a second 7-byte header in the middle of it (and `currentSize` restarts
at 7). Instants are unix nanoseconds; `resNs` is the resolution of the name's time layout
(regenerated: `Arc.Generated.C06.fileNameResolutionNs`). -/

def nameKey (resNs t : Nat) : Nat := t / resNs

/-- a write through an `O_APPEND|O_CREATE` handle of the file named `k` -/
def dirAppend (dir : List (Nat × Bytes)) (k : Nat) (bs : Bytes) : List (Nat × Bytes) :=
  if dir.any (fun p => p.1 == k) then dir.map (fun p => if p.1 == k then (p.1, p.2 ++ bs) else p)
  else dir ++ [(k, bs)]

structure WState where
  dir : List (Nat × Bytes)     -- (name key, content) in order of first creation
  cur : Nat                    -- name key of the current file
  size : Nat                   -- `currentSize`
deriving Repr

def wRotate (resNs : Nat) (s : WState) (t : Nat) : WState :=
  { dir := dirAppend s.dir (nameKey resNs t) fileHeader, cur := nameKey resNs t, size := fileHeaderSize }

/-- `writeEntry` at instant `t`: write, then rotate if the size limit is reached -/
def wAppend (resNs maxSize : Nat) (s : WState) (te : Nat × Entry) : WState :=
  if s.size + encLen te.2 ≥ maxSize then
    wRotate resNs { s with dir := dirAppend s.dir s.cur (encodeEntry te.2), size := s.size + encLen te.2 } te.1
  else { s with dir := dirAppend s.dir s.cur (encodeEntry te.2), size := s.size + encLen te.2 }

/-- the WAL directory after `NewWriter` at instant `t0` and the appends `apps` (instant, entry) -/
def wRun (resNs maxSize t0 : Nat) (apps : List (Nat × Entry)) : WState :=
  apps.foldl (wAppend resNs maxSize) (wRotate resNs ⟨[], 0, 0⟩ t0)

def namedFiles (resNs maxSize t0 : Nat) (apps : List (Nat × Entry)) : List Bytes :=
  (wRun resNs maxSize t0 apps).dir.map Prod.snd

/-! ## reader -/

inductive Policy | cont | stop
deriving Repr, DecidableEq

structure Cfg where
  /-- msgpack library + `parseColumnarEntry`, as a parameter. -/
  dec : Bytes → Option (Bool × Bytes)
  /-- what `ReadAll`'s loop does after a framing error (size cap, short payload, CRC mismatch) -/
  onFrameErr : Policy
  /-- … and after a CRC-valid entry that does not deserialise -/
  onDecodeErr : Policy

/-- One entry of `ReadAll`'s result. `db` is the envelope's database for columnar entries; for
row-format entries the reader drops it (`Entry.Records` has no database), so it is `[]` there.
`inner` is the payload after the envelope; `val` the decoder's token for it. -/
structure Out where
  ts : Nat
  rows : Bool
  db : Bytes
  inner : Bytes
  val : Bytes
deriving Repr, DecidableEq

/-- `ParseEnvelope(payload, "")` of the current source: `end := 3 + int(dbLen)` is computed in `int`,
so the bound test is exact and the function never panics. The result type keeps the `Option`
(`none` = runtime panic) so that `classify`/`scan` can still express a panicking parser; see
`parseEnvelope_isSome` in Proofs. -/
def parseEnvelope (p : Bytes) : Option (Bytes × Bytes) :=
  if p.length > 3 ∧ p.head? = some envelopeMarker then
    let hi := 3 + rdBE ((p.drop 1).take 2)
    if hi ≤ p.length then some ((p.drop 3).take (hi - 3), p.drop hi)
    else some ([], p)
  else some ([], p)

/-- `ParseEnvelope` as it was BEFORE repo commit 8704efa (kept only for the historical witness
`C06_envelope_wrap_witness_prefix`; nothing else uses it): `3+dbLen` was computed in `uint16`, so
for `dbLen ≥ 65533` it wrapped to 0..2, passed the `<= len(payload)` test, and `payload[3:3+dbLen]`
had low > high — a runtime panic (`none`). -/
def parseEnvelopePreFix (p : Bytes) : Option (Bytes × Bytes) :=
  if p.length > 3 ∧ p.head? = some envelopeMarker then
    let hi := (3 + rdBE ((p.drop 1).take 2)) % 65536
    if hi ≤ p.length then
      if hi < 3 then none else some ((p.drop 3).take (hi - 3), p.drop hi)
    else some ([], p)
  else some ([], p)

inductive Ev
  | out (o : Out)     -- appended to `entries`
  | skip              -- `CorruptedEntries++`
  | panic             -- the process panics inside `readEntry`
deriving Repr, DecidableEq

/-- The tail of `readEntry`, after the checksum matched. -/
def classify (cfg : Cfg) (ts : Nat) (p : Bytes) : Ev :=
  match parseEnvelope p with
  | none => .panic
  | some (db, inner) =>
    match cfg.dec inner with
    | none => .skip
    | some (rows, val) => .out { ts := ts, rows := rows, db := if rows then [] else db, inner := inner, val := val }

/-- Outcome of one `readEntry` call on the unread rest of the file. -/
inductive Step
  | eof                                  -- 0..15 bytes left: `io.EOF`, the loop ends
  | tooLarge (next : Bytes)              -- error; the 16 header bytes are consumed
  | shortPayload                         -- error; `io.ReadFull` consumed everything up to EOF
  | badCrc (next : Bytes)                -- error; header and payload consumed
  | frame (ts : Nat) (payload next : Bytes)
deriving Repr

def readEntry (rest : Bytes) : Step :=
  if rest.length < 16 then .eof
  else if rdBE (rest.take 4) > maxPayload then .tooLarge (rest.drop 16)
  else if (rest.drop 16).length < rdBE (rest.take 4) then .shortPayload
  else if crc32 ((rest.drop 16).take (rdBE (rest.take 4))) ≠ rdBE ((rest.drop 12).take 4) then
    .badCrc ((rest.drop 16).drop (rdBE (rest.take 4)))
  else .frame (rdBE ((rest.drop 4).take 8)) ((rest.drop 16).take (rdBE (rest.take 4)))
         ((rest.drop 16).drop (rdBE (rest.take 4)))

/-- `ReadAll`'s loop (fuel = an upper bound on the number of iterations). -/
def scan (cfg : Cfg) : Nat → Bytes → List Ev
  | 0, _ => []
  | f + 1, rest =>
    match readEntry rest with
    | .eof => []
    | .tooLarge next => .skip :: (if cfg.onFrameErr = .cont then scan cfg f next else [])
    | .shortPayload => [.skip]
    | .badCrc next => .skip :: (if cfg.onFrameErr = .cont then scan cfg f next else [])
    | .frame ts p next =>
      match classify cfg ts p with
      | .panic => [.panic]
      | .skip => .skip :: (if cfg.onDecodeErr = .cont then scan cfg f next else [])
      | .out o => .out o :: scan cfg f next

def yielded : List Ev → List Out
  | [] => []
  | .out o :: evs => o :: yielded evs
  | _ :: evs => yielded evs

def skips : List Ev → Nat
  | [] => 0
  | .skip :: evs => skips evs + 1
  | _ :: evs => skips evs

def panics : List Ev → Bool
  | [] => false
  | .panic :: _ => true
  | _ :: evs => panics evs

inductive Res
  | ok (outs : List Out) (corrupted : Nat)
  | badMagic          -- `invalid WAL magic bytes` (the file is skipped by recovery and kept)
  | panic
deriving Repr, DecidableEq

/-- `Reader.ReadAll` on the bytes of one file. -/
def readAll (cfg : Cfg) (bs : Bytes) : Res :=
  if bs.length < 7 then .ok [] 0
  else if bs.take 4 ≠ magic then .badMagic
  else if panics (scan cfg bs.length (bs.drop 7)) then .panic
  else .ok (yielded (scan cfg bs.length (bs.drop 7))) (skips (scan cfg bs.length (bs.drop 7)))

/-- What recovery replays from one file. -/
def recovered (cfg : Cfg) (bs : Bytes) : List Out :=
  match readAll cfg bs with
  | .ok outs _ => outs
  | _ => []

/-! ### recovery order across files

`findWALFiles`: `filepath.Glob` (name order) then `sort.Slice` by modification time. For ≤ 12 files
`sort.Slice` is an insertion sort, i.e. with the strict comparator `Before` it is stable (files with
equal mtimes stay in name order); with a non-strict comparator (`!After`) every group of equal
mtimes is reversed. `strict` is the regenerated fact `Arc.Generated.C06.mtimeComparatorStrict`. -/

def insByMtime (strict : Bool) (x : Nat × Bytes) : List (Nat × Bytes) → List (Nat × Bytes)
  | [] => [x]
  | y :: ys =>
    if (if strict then decide (y.1 < x.1) else decide (y.1 ≤ x.1)) then y :: insByMtime strict x ys
    else x :: y :: ys

/-- files given in name order as (mtime, content) → the order recovery reads them in -/
def sortByMtime (strict : Bool) : List (Nat × Bytes) → List (Nat × Bytes)
  | [] => []
  | x :: xs => insByMtime strict x (sortByMtime strict xs)

/-- what a recovery pass over the directory replays -/
def recoverDir (cfg : Cfg) (strict : Bool) (files : List (Nat × Bytes)) : List Out :=
  (sortByMtime strict files).flatMap fun f => recovered cfg f.2

/-! ### ownership of appended bytes

`Entry.payload` is the byte string passed to `AppendRaw*` AT THE TIME OF THE CALL: the model's
append functions are pure, i.e. the writer owns a private copy (and its checksum) when the call
returns; later changes of the caller's buffer cannot reach the file. This is the regenerated fact
`Arc.Generated.C06.appendCopiesBeforeEnqueue` (copy + CRC before `tryEnqueue`). -/

def view? (cfg : Cfg) (e : Entry) : Option Out :=
  match classify cfg e.ts e.payload with
  | .out o => some o
  | _ => none

/-- the (format, database, payload) part of a result — what the property compares. -/
def Out.pd (o : Out) : Bool × Bytes × Bytes := (o.rows, o.db, o.inner)

/-- number of entries of `es` that lie completely inside the first `n` bytes of `encodeAll es` -/
def complete : List Entry → Nat → Nat
  | [], _ => 0
  | e :: es, n => if encLen e ≤ n then complete es (n - encLen e) + 1 else 0

def completeFile (es : List Entry) (n : Nat) : Nat := if n < 7 then 0 else complete es (n - 7)

/-! ## vocabulary of the property statements (all executable / decidable) -/

/-- well-formed appended entry: what `AppendRaw` / `AppendRawWithMeta` guarantee (size cap, uint64 clock). -/
def Entry.WF (e : Entry) : Prop := e.payload.length ≤ maxPayload ∧ e.ts < 18446744073709551616

instance (e : Entry) : Decidable e.WF := by unfold Entry.WF; exact inferInstance

/-- (format, database, inner payload) the reader returns for a CRC-valid payload; `none` = nothing
is returned (undecodable, or the envelope parser panics). Independent of the timestamp. -/
def viewpd (cfg : Cfg) (p : Bytes) : Option (Bool × Bytes × Bytes) :=
  match classify cfg 0 p with
  | .out o => some o.pd
  | _ => none

/-- the entry of `es` that owns byte `i` of `encodeAll es`: (entries before, entry, entries after, offset in it) -/
def locate : List Entry → Nat → Option (List Entry × Entry × List Entry × Nat)
  | [], _ => none
  | e :: es, i =>
    if i < encLen e then some ([], e, es, i)
    else match locate es (i - encLen e) with
      | some (pre, x, post, j) => some (e :: pre, x, post, j)
      | none => none

/-- the payload `readEntry` frames at the start of `X` when the size test and `ReadFull` succeed -/
def framedPayload (X : Bytes) : Bytes := (X.drop 16).take (rdBE (X.take 4))

/-- For a corruption of file byte `k` to `v`: (original payload of the entry that owns the byte,
payload the reader frames at that entry afterwards). -/
def damagedFrame (es : List Entry) (k : Nat) (v : UInt8) : Option (Bytes × Bytes) :=
  match locate es (k - 7) with
  | some (_, e, post, j) => some (e.payload, framedPayload ((encodeEntry e).set j v ++ encodeAll post))
  | none => none

/-- **CRC detection hypothesis** (never an axiom): at the entry hit by the corruption, the checksum
tells the payload now framed there from the original one whenever they differ. -/
def CrcDetectsAt (es : List Entry) (k : Nat) (v : UInt8) : Prop :=
  match damagedFrame es k v with
  | some (p, q) => q ≠ p → crc32 q ≠ crc32 p
  | none => True

instance (es : List Entry) (k : Nat) (v : UInt8) : Decidable (CrcDetectsAt es k v) := by
  unfold CrcDetectsAt; split <;> exact inferInstance

/-- file byte `k` lies in the 4-byte length field of some entry -/
def inLenField (es : List Entry) (k : Nat) : Bool :=
  match locate es (k - 7) with
  | some (_, _, _, j) => decide (7 ≤ k ∧ j < 4)
  | none => false

end Arc.C06
