/-
C28 — model of `internal/governance`:

* `sliding_window.go`  `slidingWindowCounter` (`newSlidingWindowCounter`, `advance`, `Allow`,
  `Remaining`, `RetryAfterSec`, `UpdateLimit`)
* `quota_tracker.go`   `quotaTracker` (`newQuotaTracker`, `maybeReset`, `AllowQuery`, `GetUsage`,
  `UpdateLimits`)
* `manager.go`         per-token limiters/trackers, `CheckRateLimit`, `CheckQuota`,
  `updateTrackersForToken`, `DeletePolicy`, `GetTokenUsage`; and the order in which
  `internal/api/query.go:executeQuery` calls them (`CheckRateLimit`, and only if allowed `CheckQuota`).

Time is an unbounded `Int` of unix nanoseconds (the virtual clock).  Quirks kept on purpose:

* the ring of `n` slots covers the *current, partly elapsed* slot plus the `n-1` previous ones, i.e.
  between `(n-1)·d` and `n·d` of real time — not the configured window `W = n·d`;
* `advance` ignores a clock that went backwards (`elapsed <= 0`);
* `maybeReset` resets when `!now.Before(resetAt)` (since /repo 9f59e62; it used to be the strict
  `now.After(resetAt)`, which charged a request at exactly the reset instant to the *old* hour/day);
* `Time.Truncate(d)` truncates relative to Go's zero time (year 1), not the unix epoch;
* the minute limiter is charged even when the hour limiter or the quota then rejects.

Representation: the Go ring buffer (`slots []int`, `currentSlot`) is kept as `recent`, the same
numbers listed from the current slot backwards in age (`recent[k] = slots[(cur + n - k) % n]`) plus
`cur`; `SW.slots` renders the physical array and the harness diffs it against the real one after
every op.  Core-only, executable.
-/
namespace Arc.C28

def msNs : Int := 1000000
def secNs : Int := 1000000000
def minuteNs : Int := 60000000000
def hourNs : Int := 3600000000000
def dayNs : Int := 86400000000000
/-- ns from Go's zero `time.Time` (0001-01-01T00:00:00Z) to the unix epoch (719162 days). -/
def goEpochOffNs : Int := 62135596800000000000

/-- `time.Unix(0, now).Truncate(d).UnixNano()`: round down to a multiple of `d` since the zero time. -/
def trunc (d now : Int) : Int := if d ≤ 0 then now else now - (now + goEpochOffNs) % d

/-! ## slidingWindowCounter -/

structure SW where
  d      : Int        -- slotDuration (ns)
  n      : Nat        -- slotCount
  recent : List Nat   -- slot counts, current slot first, then 1 slot ago, …
  cur    : Nat        -- currentSlot
  last   : Int        -- lastSlotTime (unix ns)
  total  : Int
  limit  : Int
deriving Repr

/-- `newSlidingWindowCounter(windowSize, slotCount, limit)` at virtual time `now`. -/
def swNew (w slotArg limit now : Int) : SW :=
  let n : Nat := if slotArg ≤ 0 then 60 else slotArg.toNat
  let d0 := Int.tdiv w (n : Int)
  let d := if d0 < msNs then msNs else d0
  { d := d, n := n, recent := List.replicate n 0, cur := 0, last := trunc d now, total := 0, limit := limit }

/-- the oldest slot of the ring (`slots[(cur+1) % n]`). -/
def lastOr0 : List Nat → Nat
  | [] => 0
  | [a] => a
  | _ :: b :: t => lastOr0 (b :: t)

/-- one iteration of the loop in `advance`: move to the next slot, expire what it held. -/
def shift1 (s : SW) : SW :=
  { s with cur := (s.cur + 1) % s.n, total := s.total - (lastOr0 s.recent : Nat), recent := 0 :: s.recent.dropLast }

def shiftN : Nat → SW → SW
  | 0, s => s
  | k + 1, s => shiftN k (shift1 s)

def swReset (s : SW) (tn : Int) : SW :=
  { s with recent := List.replicate s.n 0, total := 0, cur := 0, last := tn }

/-- `advance()` at virtual time `now`. -/
def advance (s : SW) (now : Int) : SW :=
  if trunc s.d now - s.last ≤ 0 then s
  else if (trunc s.d now - s.last) / s.d ≥ (s.n : Int) then swReset s (trunc s.d now)
  else { shiftN ((trunc s.d now - s.last) / s.d).toNat s with last := trunc s.d now }

def bump : List Nat → List Nat
  | [] => []
  | x :: xs => (x + 1) :: xs

/-- `s.limit > 0 && s.total >= s.limit` -/
def swFull (s : SW) : Bool := decide (0 < s.limit) && decide (s.limit ≤ s.total)

def countIn (s : SW) : SW := { s with recent := bump s.recent, total := s.total + 1 }

/-- `Allow()` -/
def swAllow (s : SW) (now : Int) : SW × Bool :=
  if swFull (advance s now) then (advance s now, false) else (countIn (advance s now), true)

/-- `Remaining()` -/
def swRemaining (s : SW) (now : Int) : SW × Int :=
  let a := advance s now
  (a, if a.limit - a.total < 0 then 0 else a.limit - a.total)

/-- `RetryAfterSec()` (`int(retryAfter.Seconds()) + 1`; exact for the durations that occur). -/
def swRetryAfter (s : SW) (now : Int) : SW × Int :=
  let a := advance s now
  if a.limit ≤ 0 ∨ a.total < a.limit then (a, 0) else
  let ra0 := a.d - (now - a.last)
  let ra := if ra0 ≤ 0 then a.d else ra0
  let secs := Int.tdiv ra secNs + 1
  (a, if secs < 1 then 1 else secs)

/-- `UpdateLimit(limit)` -/
def swSetLimit (s : SW) (l : Int) : SW := { s with limit := l }

/-- physical `slots[i]` of the Go ring buffer. -/
def SW.slot (s : SW) (i : Nat) : Nat := s.recent.getD ((s.cur + s.n - i) % s.n) 0
def SW.slots (s : SW) : List Nat := (List.range s.n).map s.slot

/-! ## quotaTracker -/

structure QT where
  h    : Int   -- queriesThisHour
  dc   : Int   -- queriesThisDay
  hourResetAt : Int
  dayResetAt  : Int
  maxH : Int
  maxD : Int
deriving Repr

inductive QV | ok | hour | day
deriving Repr, DecidableEq

def qtNew (mh md now : Int) : QT :=
  { h := 0, dc := 0, hourResetAt := trunc hourNs now + hourNs, dayResetAt := trunc dayNs now + dayNs,
    maxH := mh, maxD := md }

def resetHour (q : QT) (now : Int) : QT :=
  if q.hourResetAt ≤ now then { q with h := 0, hourResetAt := trunc hourNs now + hourNs } else q

def resetDay (q : QT) (now : Int) : QT :=
  if q.dayResetAt ≤ now then { q with dc := 0, dayResetAt := trunc dayNs now + dayNs } else q

/-- `maybeReset()` — `!now.Before(resetAt)`: the reset instant itself belongs to the new hour/day. -/
def maybeReset (q : QT) (now : Int) : QT := resetDay (resetHour q now) now

def qtVerdict (q : QT) : QV :=
  if 0 < q.maxH ∧ q.maxH ≤ q.h then .hour
  else if 0 < q.maxD ∧ q.maxD ≤ q.dc then .day
  else .ok

/-- `AllowQuery()` -/
def qtAllow (q : QT) (now : Int) : QT × QV :=
  if qtVerdict (maybeReset q now) = .ok then
    ({ maybeReset q now with h := (maybeReset q now).h + 1, dc := (maybeReset q now).dc + 1 }, .ok)
  else (maybeReset q now, qtVerdict (maybeReset q now))

def qtSetLimits (q : QT) (mh md : Int) : QT := { q with maxH := mh, maxD := md }

/-! ## Manager (per-token state) and the handler order -/

structure Policy where
  rpm : Int   -- RateLimitPerMinute
  rph : Int   -- RateLimitPerHour
  qh  : Int   -- MaxQueriesPerHour
  qd  : Int   -- MaxQueriesPerDay
deriving Repr

structure Tok where
  pol    : Option Policy := none
  minute : Option SW := none
  hour   : Option SW := none
  qt     : Option QT := none
deriving Repr

structure Mgr where
  defaults : Policy
  toks : List (Int × Tok)
deriving Repr

/-- (windowSize, slotCount) passed to `newSlidingWindowCounter` by `getOrCreateMinuteLimiter` /
`getOrCreateHourLimiter` (tied to the source by `C28_sites_tied`). -/
def minuteSite : Int × Int := (60000000000, 60)
def hourSite : Int × Int := (3600000000000, 60)

def Mgr.get (m : Mgr) (t : Int) : Tok := (m.toks.lookup t).getD {}
def Mgr.put (m : Mgr) (t : Int) (k : Tok) : Mgr :=
  { m with toks := (t, k) :: m.toks.filter (fun p => !(p.1 == t)) }

/-- `getEffectivePolicy`: a nil policy (all defaults 0) behaves like the all-zero policy. -/
def Mgr.policy (m : Mgr) (t : Int) : Policy := ((m.get t).pol).getD m.defaults

inductive Verdict
  | admitted
  | rlMinute (retry : Int)
  | rlHour (retry : Int)
  | quotaHour
  | quotaDay
deriving Repr, DecidableEq

/-- `CheckRateLimit(tokenID)`; `none` = allowed. -/
def checkRateLimit (k : Tok) (p : Policy) (now : Int) : Tok × Option Verdict :=
  let k1 : Tok × Option Verdict :=
    if 0 < p.rpm then
      let l := k.minute.getD (swNew minuteSite.1 minuteSite.2 p.rpm now)
      let r := swAllow l now
      if r.2 then ({ k with minute := some r.1 }, none)
      else
        let ra := swRetryAfter r.1 now
        ({ k with minute := some ra.1 }, some (.rlMinute ra.2))
    else (k, none)
  match k1.2 with
  | some v => (k1.1, some v)
  | none =>
    if 0 < p.rph then
      let l := k1.1.hour.getD (swNew hourSite.1 hourSite.2 p.rph now)
      let r := swAllow l now
      if r.2 then ({ k1.1 with hour := some r.1 }, none)
      else
        let ra := swRetryAfter r.1 now
        ({ k1.1 with hour := some ra.1 }, some (.rlHour ra.2))
    else (k1.1, none)

/-- `CheckQuota(tokenID)`; `none` = allowed. -/
def checkQuota (k : Tok) (p : Policy) (now : Int) : Tok × Option Verdict :=
  if 0 < p.qh ∨ 0 < p.qd then
    let q := k.qt.getD (qtNew p.qh p.qd now)
    let r := qtAllow q now
    ({ k with qt := some r.1 },
      match r.2 with
      | .ok => none
      | .hour => some .quotaHour
      | .day => some .quotaDay)
  else (k, none)

/-- the governance block of `executeQuery`: `CheckRateLimit`, return on reject, then `CheckQuota`. -/
def handleTok (k : Tok) (p : Policy) (now : Int) : Tok × Verdict :=
  match (checkRateLimit k p now).2 with
  | some v => ((checkRateLimit k p now).1, v)
  | none =>
    match (checkQuota (checkRateLimit k p now).1 p now).2 with
    | some v => ((checkQuota (checkRateLimit k p now).1 p now).1, v)
    | none => ((checkQuota (checkRateLimit k p now).1 p now).1, .admitted)

def query (m : Mgr) (t : Int) (now : Int) : Mgr × Verdict :=
  let r := handleTok (m.get t) (m.policy t) now
  (m.put t r.1, r.2)

/-- `CreatePolicy` / `UpdatePolicy`: cache the policy, `updateTrackersForToken`. -/
def setPolicy (m : Mgr) (t : Int) (p : Policy) : Mgr :=
  let k := m.get t
  m.put t { pol := some p,
            minute := k.minute.map (swSetLimit · p.rpm),
            hour := k.hour.map (swSetLimit · p.rph),
            qt := k.qt.map (qtSetLimits · p.qh p.qd) }

/-- `DeletePolicy`: forget the policy and all in-memory limiters/trackers of the token. -/
def delPolicy (m : Mgr) (t : Int) : Mgr := m.put t {}

/-- `GetTokenUsage`: `GetUsage()` (maybeReset) then `Remaining()` of the limiters the effective
policy enables. Returns (hourUsed, dayUsed, hourResetAt, dayResetAt, remMinute, remHour). -/
def usage (m : Mgr) (t : Int) (now : Int) : Mgr × (Int × Int × Int × Int × Int × Int) :=
  let k := m.get t
  let p := m.policy t
  let q' := k.qt.map (maybeReset · now)
  let qo : Int × Int × Int × Int := match q' with
    | some q => (q.h, q.dc, q.hourResetAt, q.dayResetAt)
    | none => (0, 0, trunc hourNs now + hourNs, trunc dayNs now + dayNs)
  let mm : Option SW × Int :=
    if 0 < p.rpm then
      match k.minute with
      | some l => (some (swRemaining l now).1, (swRemaining l now).2)
      | none => (none, p.rpm)
    else (k.minute, 0)
  let hh : Option SW × Int :=
    if 0 < p.rph then
      match k.hour with
      | some l => (some (swRemaining l now).1, (swRemaining l now).2)
      | none => (none, p.rph)
    else (k.hour, 0)
  (m.put t { k with qt := q', minute := mm.1, hour := hh.1 }, (qo.1, qo.2.1, qo.2.2.1, qo.2.2.2, mm.2, hh.2))

end Arc.C28
