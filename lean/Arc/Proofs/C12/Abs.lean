import Arc.Model.C12
/-!
# C12 — finite abstraction of the migration interpreter

`FileSt` is projected to `Abs = (hot, cold, tier, recent)` (16 values). Every primitive mutation is
over-approximated by a finite nondeterministic relation (`absPrim`), the step-list interpreter by
`absRun`. `runSteps_sim` shows that, for EVERY step list, chunk count and oracle, the concrete run is
one of the abstract runs. Properties of a concrete step list (the generated one) then reduce to
`decide`-able checks over 8 abstract states (`SafeMig`, `OnceMig`, …).
-/
namespace Arc.C12

structure Abs where
  hot : Bool
  cold : Bool
  tier : Tier
  recent : Bool
deriving DecidableEq, Repr

def absOf (s : FileSt) : Abs := { hot := s.hot, cold := s.cold, tier := s.tier, recent := s.recent }

def allAbs : List Abs :=
  [false, true].flatMap fun r =>
  [⟨false, false, .hot, r⟩, ⟨false, true, .hot, r⟩, ⟨true, false, .hot, r⟩, ⟨true, true, .hot, r⟩,
   ⟨false, false, .cold, r⟩, ⟨false, true, .cold, r⟩, ⟨true, false, .cold, r⟩, ⟨true, true, .cold, r⟩]

theorem mem_allAbs (a : Abs) : a ∈ allAbs := by
  obtain ⟨h, c, t, r⟩ := a
  cases h <;> cases c <;> cases t <;> cases r <;> simp [allAbs]

def Abs.has (a : Abs) : Tier → Bool
  | .hot => a.hot
  | .cold => a.cold

def Abs.setObj (a : Abs) (t : Tier) (b : Bool) : Abs :=
  match t with
  | .hot => { a with hot := b }
  | .cold => { a with cold := b }

/-- the tier the metadata row points to holds the complete object -/
def Abs.inv (a : Abs) : Bool := a.has a.tier

theorem absOf_setObj (s : FileSt) (t : Tier) (b : Bool) : absOf (s.setObj t b) = (absOf s).setObj t b := by
  cases t <;> rfl

theorem absOf_has (s : FileSt) (t : Tier) : s.has t = (absOf s).has t := by
  cases t <;> rfl

/-! ## abstract primitives -/

def absAtomic (a a' : Abs) : List (Abs × R) := [(a', .ok), (a, .failed), (a, .crashed)]

def absPrim : Act → Abs → List (Abs × R)
  | .record, a => absAtomic a a
  | .complete, a => absAtomic a a
  | .copy .hot .cold, a => absAtomic a { a with cold := true }
  | .copy .hot .hot, a => [(a, .failed)]
  | .copy .cold .hot, a => [(a, .failed)]
  | .copy .cold .cold, a => [(a, .failed)]
  | .setMeta t, a => absAtomic a { a with tier := t, recent := true }
  | .del t, a => absAtomic a (a.setObj t false)

def absCleanup : List Act → Abs → List (Abs × Exit)
  | [], a => [(a, .err)]
  | x :: rest, a =>
    (absPrim x a).flatMap fun p => if p.2 = .crashed then [(p.1, .crash)] else absCleanup rest p.1

def absRun : List Step → Abs → List (Abs × Exit)
  | [], a => [(a, .ok)]
  | s :: rest, a =>
    (absPrim s.act a).flatMap fun p =>
      match p.2 with
      | .ok => absRun rest p.1
      | .crashed => [(p.1, .crash)]
      | .failed =>
        match s.onFail with
        | .tolerate => absRun rest p.1
        | .abort cl => absCleanup cl p.1

/-! ## simulation -/

theorem atomic_cases (x : Exec) (f : Exec → Exec) :
    (∃ r, atomic x f = (f { x with orc := r }, .ok)) ∨
    (∃ r, atomic x f = ({ x with orc := r }, .failed)) ∨
    (∃ r, atomic x f = ({ x with orc := r }, .crashed)) := by
  unfold atomic
  cases h : pop x.orc with
  | mk o r =>
    cases o
    · exact Or.inl ⟨r, rfl⟩
    · exact Or.inr (Or.inl ⟨r, rfl⟩)
    · exact Or.inr (Or.inr ⟨r, rfl⟩)
    · exact Or.inr (Or.inl ⟨r, rfl⟩)

theorem atomic_sim (x : Exec) (f : Exec → Exec) (a' : Abs)
    (hf : ∀ r, absOf (f { x with orc := r }).st = a') :
    (absOf (atomic x f).1.st, (atomic x f).2) ∈ absAtomic (absOf x.st) a' := by
  rcases atomic_cases x f with ⟨r, h⟩ | ⟨r, h⟩ | ⟨r, h⟩ <;> simp [h, absAtomic, hf]

theorem copyChunks_abs (k w : Nat) (x : Exec) : absOf (copyChunks k w x).1.st = absOf x.st := by
  induction k generalizing w x with
  | zero => simp [copyChunks]
  | succ k ih =>
    unfold copyChunks
    cases h : pop x.orc with
    | mk o r =>
      cases o
      · simp only []
        rw [ih]
        rfl
      · rfl
      · rfl
      · rfl

theorem copyHotCold_sim (n : Nat) (x : Exec) :
    (absOf (copyHotCold n x).1.st, (copyHotCold n x).2) ∈
      absAtomic (absOf x.st) { absOf x.st with cold := true } := by
  unfold copyHotCold
  rcases atomic_cases x (fun y => { y with st := { y.st with part := some 0 } }) with ⟨r, h⟩ | ⟨r, h⟩ | ⟨r, h⟩
  · rw [h]
    simp only []
    split
    · simp [absAtomic, absOf]
    · -- chunks
      generalize hx1 : ({ st := { hot := x.st.hot, cold := x.st.cold, part := some 0, tier := x.st.tier, pend := x.st.pend, recent := x.st.recent },
                          orc := r, logged := x.logged, inval := x.inval } : Exec) = x1
      have habs1 : absOf x1.st = absOf x.st := by subst hx1; rfl
      have hc := copyChunks_abs n 0 x1
      cases hcc : copyChunks n 0 x1 with
      | mk x2 r2 =>
        rw [hcc] at hc
        simp only [] at hc
        cases r2
        · simp only []
          have := atomic_sim x2 (fun y => { y with st := { y.st with cold := true, part := none } })
            { absOf x.st with cold := true } (by
              intro r'
              have h2 : absOf x2.st = absOf x.st := hc.trans habs1
              simp only [absOf, Abs.mk.injEq] at h2 ⊢
              exact ⟨h2.1, trivial, h2.2.2.1, h2.2.2.2⟩)
          rw [hc, habs1] at this
          exact this
        · simp [absAtomic, hc, habs1]
        · simp [absAtomic, hc, habs1]
  · rw [h]; simp [absAtomic, absOf]
  · rw [h]; simp [absAtomic, absOf]

theorem prim_sim (n : Nat) (a : Act) (x : Exec) :
    (absOf (prim n a x).1.st, (prim n a x).2) ∈ absPrim a (absOf x.st) := by
  cases a with
  | record =>
    exact atomic_sim x _ _ (by intro r; rfl)
  | complete =>
    by_cases hl : x.logged = true
    · have : prim n .complete x
          = atomic x (fun y => { y with st := { y.st with pend := y.st.pend - 1 } }) := by
        simp [prim, hl]
      rw [this]
      exact atomic_sim x _ _ (by intro r; rfl)
    · have : prim n .complete x = (x, .ok) := by simp [prim, hl]
      rw [this]
      simp [absPrim, absAtomic]
  | copy src dst =>
    cases src <;> cases dst
    · simp [prim, absPrim]
    · exact copyHotCold_sim n x
    · simp [prim, absPrim]
    · simp [prim, absPrim]
  | setMeta t =>
    exact atomic_sim x _ _ (by intro r; rfl)
  | del t =>
    exact atomic_sim x _ _ (by intro r; exact absOf_setObj _ _ _)

theorem runCleanup_sim (n : Nat) (cl : List Act) (x : Exec) :
    (absOf (runCleanup n cl x).1.st, (runCleanup n cl x).2) ∈ absCleanup cl (absOf x.st) := by
  induction cl generalizing x with
  | nil => simp [runCleanup, absCleanup]
  | cons a rest ih =>
    have hp := prim_sim n a x
    unfold runCleanup absCleanup
    rw [List.mem_flatMap]
    refine ⟨_, hp, ?_⟩
    cases hpr : prim n a x with
    | mk x' r =>
      cases r <;> simp [ih x']

theorem runSteps_sim (n : Nat) (steps : List Step) (x : Exec) :
    (absOf (runSteps n steps x).1.st, (runSteps n steps x).2) ∈ absRun steps (absOf x.st) := by
  induction steps generalizing x with
  | nil => simp [runSteps, absRun]
  | cons s rest ih =>
    have hp := prim_sim n s.act x
    unfold runSteps absRun
    rw [List.mem_flatMap]
    refine ⟨_, hp, ?_⟩
    cases hpr : prim n s.act x with
    | mk x' r =>
      cases r
      · simpa using ih x'
      · simp only []
        cases hof : s.onFail with
        | tolerate => simpa using ih x'
        | abort cl => simpa using runCleanup_sim n cl x'
      · simp

end Arc.C12
