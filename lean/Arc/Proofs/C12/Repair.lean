import Arc.Proofs.C12.Ops
/-!
# C12 — model of the PROPOSED repair of `ReconcileOrphanedFiles`

Patch (see the report): before the existing hot-orphan pass, probe the cold backend for every
current migration candidate (metadata tier = source tier) and delete a cold copy found there.
For one file the two passes are mutually exclusive (candidate ⇔ metadata says hot, hot-orphan pass
⇔ metadata says cold), so the repaired operation is:
-/
namespace Arc.C12
open Arc.Generated.C12

def recFixOp (s : FileSt) (orc : List Outcome) : Exec × RecOut :=
  let x : Exec := { st := s, orc := orc, logged := false }
  if s.tier = srcTier then
    match atomic x id with                                     -- coldBackend.Exists probe
    | (x1, .crashed) => (x1, { crashed := true })
    | (x1, .failed) => (x1, { errors := 1 })
    | (x1, .ok) =>
      if x1.st.has dstTier then
        match atomic x1 (fun y => { y with st := y.st.setObj dstTier false }) with
        | (x2, .ok) => (x2, { found := 1, deleted := 1 })
        | (x2, .failed) => (x2, { found := 1, errors := 1 })
        | (x2, .crashed) => (x2, { found := 1, crashed := true })
      else (x1, {})
  else recOp s orc

def absRecFix (a : Abs) : List Abs :=
  if a.tier = srcTier then
    (if a.has dstTier then [a, a.setObj dstTier false] else [a])
  else absRec a

def absRecFixOk (a : Abs) : Abs :=
  if a.tier = srcTier then (if a.has dstTier then a.setObj dstTier false else a) else absRecOk a

theorem recFixOp_sim (s : FileSt) (orc : List Outcome) : absOf (recFixOp s orc).1.st ∈ absRecFix (absOf s) := by
  unfold recFixOp absRecFix
  simp only []
  by_cases hg : s.tier = srcTier
  · have hg' : (absOf s).tier = srcTier := hg
    rw [if_pos hg, if_pos hg']
    rcases atomic_cases { st := s, orc := orc, logged := false } id with ⟨r, h⟩ | ⟨r, h⟩ | ⟨r, h⟩
    · rw [h]
      simp only [id]
      rw [← absOf_has]
      by_cases hp : s.has dstTier = true
      · rw [if_pos hp, if_pos hp]
        rcases atomic_cases { st := s, orc := r, logged := false }
            (fun y => { y with st := y.st.setObj dstTier false }) with ⟨r2, h2⟩ | ⟨r2, h2⟩ | ⟨r2, h2⟩
        · rw [h2]; simp [absOf_setObj]
        · rw [h2]; simp
        · rw [h2]; simp
      · rw [if_neg hp, if_neg hp]; simp
    · rw [h]; split <;> simp
    · rw [h]; split <;> simp
  · have hg' : ¬ (absOf s).tier = srcTier := hg
    rw [if_neg hg, if_neg hg']
    exact recOp_sim s orc

theorem recFixOp_clean (s : FileSt) (orc : List Outcome) (h : AllOk orc) :
    (recFixOp s orc).2.errors = 0 ∧ (recFixOp s orc).2.crashed = false ∧
      absOf (recFixOp s orc).1.st = absRecFixOk (absOf s) := by
  unfold recFixOp absRecFixOk
  simp only []
  by_cases hg : s.tier = srcTier
  · have hg' : (absOf s).tier = srcTier := hg
    rw [if_pos hg, if_pos hg']
    obtain ⟨r, hr, he⟩ := atomic_clean { st := s, orc := orc, logged := false } id h
    rw [he]
    simp only [id]
    rw [← absOf_has]
    by_cases hp : s.has dstTier = true
    · rw [if_pos hp, if_pos hp]
      obtain ⟨r2, _, he2⟩ := atomic_clean { st := s, orc := r, logged := false }
        (fun y => { y with st := y.st.setObj dstTier false }) hr
      rw [he2]
      exact ⟨rfl, rfl, absOf_setObj _ _ _⟩
    · rw [if_neg hp, if_neg hp]
      exact ⟨rfl, rfl, rfl⟩
  · have hg' : ¬ (absOf s).tier = srcTier := hg
    rw [if_neg hg, if_neg hg']
    obtain ⟨h1, h2, _, h4⟩ := recOp_clean s orc h
    exact ⟨h1, h2, h4⟩

end Arc.C12
