import Arc.Proofs.C12.Ops
/-!
# C12 — the per-measurement tier cache stays coherent with the metadata

`TI x0 x`: relative to `x0`, either an invalidating mutation took effect (`inval`) or the file's
metadata tier is unchanged. Every run of the interpreter satisfies it provided `UpdateTier` /
`RecordFile` are among the generated `cacheInvalidatedBy`; hence a cache entry that survives an
operation still describes the measurement's tiers.
-/
namespace Arc.C12
open Arc.Generated.C12

def TI (x0 x : Exec) : Prop := x.inval = true ∨ (x.st.tier = x0.st.tier ∧ x.inval = x0.inval)

theorem TI.refl (x : Exec) : TI x x := Or.inr ⟨rfl, rfl⟩

theorem TI.trans {a b c : Exec} (h1 : TI a b) (h2 : TI b c) : TI a c := by
  rcases h2 with h2 | ⟨h2t, h2i⟩
  · exact Or.inl h2
  · rcases h1 with h1 | ⟨h1t, h1i⟩
    · exact Or.inl (by rw [h2i]; exact h1)
    · exact Or.inr ⟨h2t.trans h1t, h2i.trans h1i⟩

theorem atomic_TI (x : Exec) (f : Exec → Exec) (hf : ∀ r, TI x (f { x with orc := r })) :
    TI x (atomic x f).1 := by
  rcases atomic_cases x f with ⟨r, h⟩ | ⟨r, h⟩ | ⟨r, h⟩
  · rw [h]; exact hf r
  · rw [h]; exact Or.inr ⟨rfl, rfl⟩
  · rw [h]; exact Or.inr ⟨rfl, rfl⟩

theorem copyChunks_TI (k w : Nat) (x : Exec) : TI x (copyChunks k w x).1 := by
  induction k generalizing w x with
  | zero => exact TI.refl x
  | succ k ih =>
    unfold copyChunks
    cases h : pop x.orc with
    | mk o r =>
      cases o
      · simp only []
        exact TI.trans (Or.inr ⟨rfl, rfl⟩) (ih (w + 1) _)
      · exact Or.inr ⟨rfl, rfl⟩
      · exact Or.inr ⟨rfl, rfl⟩
      · exact Or.inr ⟨rfl, rfl⟩

theorem copyHotCold_TI (n : Nat) (x : Exec) : TI x (copyHotCold n x).1 := by
  unfold copyHotCold
  rcases atomic_cases x (fun y => { y with st := { y.st with part := some 0 } }) with ⟨r, h⟩ | ⟨r, h⟩ | ⟨r, h⟩
  · rw [h]
    simp only []
    split
    · exact Or.inr ⟨rfl, rfl⟩
    · generalize hx1 : ({ st := { hot := x.st.hot, cold := x.st.cold, part := some 0, tier := x.st.tier, pend := x.st.pend, recent := x.st.recent },
                          orc := r, logged := x.logged, inval := x.inval } : Exec) = x1
      have h1 : TI x x1 := by subst hx1; exact Or.inr ⟨rfl, rfl⟩
      have hc := copyChunks_TI n 0 x1
      cases hcc : copyChunks n 0 x1 with
      | mk x2 r2 =>
        rw [hcc] at hc
        simp only [] at hc
        cases r2
        · simp only []
          exact TI.trans (TI.trans h1 hc)
            (atomic_TI x2 _ (fun r' => Or.inr ⟨rfl, rfl⟩))
        · exact TI.trans h1 hc
        · exact TI.trans h1 hc
  · rw [h]; exact Or.inr ⟨rfl, rfl⟩
  · rw [h]; exact Or.inr ⟨rfl, rfl⟩

theorem prim_TI (hu : invBy .updateTier = true) (n : Nat) (a : Act) (x : Exec) : TI x (prim n a x).1 := by
  cases a with
  | record => exact atomic_TI x _ (fun r => Or.inr ⟨rfl, rfl⟩)
  | complete =>
    by_cases hl : x.logged = true
    · have : prim n .complete x
          = atomic x (fun y => { y with st := { y.st with pend := y.st.pend - 1 } }) := by
        simp [prim, hl]
      rw [this]
      exact atomic_TI x _ (fun r => Or.inr ⟨rfl, rfl⟩)
    · have : prim n .complete x = (x, .ok) := by simp [prim, hl]
      rw [this]; exact TI.refl x
  | copy src dst =>
    cases src <;> cases dst
    · exact TI.refl x
    · exact copyHotCold_TI n x
    · exact TI.refl x
    · exact TI.refl x
  | setMeta t =>
    refine atomic_TI x _ (fun r => Or.inl ?_)
    show (x.inval || cacheInvalidatedBy.contains Mutator.updateTier) = true
    have : cacheInvalidatedBy.contains Mutator.updateTier = true := hu
    rw [this]; simp
  | del t =>
    refine atomic_TI x _ (fun r => Or.inr ⟨?_, rfl⟩)
    cases t <;> rfl

theorem runCleanup_TI (hu : invBy .updateTier = true) (n : Nat) (cl : List Act) (x : Exec) :
    TI x (runCleanup n cl x).1 := by
  induction cl generalizing x with
  | nil => exact TI.refl x
  | cons a rest ih =>
    have hp := prim_TI hu n a x
    unfold runCleanup
    cases hpr : prim n a x with
    | mk x' r =>
      rw [hpr] at hp
      cases r
      · exact TI.trans hp (ih x')
      · exact TI.trans hp (ih x')
      · exact hp

theorem runSteps_TI (hu : invBy .updateTier = true) (n : Nat) (steps : List Step) (x : Exec) :
    TI x (runSteps n steps x).1 := by
  induction steps generalizing x with
  | nil => exact TI.refl x
  | cons s rest ih =>
    have hp := prim_TI hu n s.act x
    unfold runSteps
    cases hpr : prim n s.act x with
    | mk x' r =>
      rw [hpr] at hp
      cases r
      · exact TI.trans hp (ih x')
      · simp only []
        cases hof : s.onFail with
        | tolerate => exact TI.trans hp (ih x')
        | abort cl => exact TI.trans hp (runCleanup_TI hu n cl x')
      · exact hp

/-- after a migration attempt: the cache was invalidated or the metadata tier is unchanged -/
theorem migOp_TI (hu : invBy .updateTier = true) (n : Nat) (s : FileSt) (orc : List Outcome) :
    (migOp n s orc).1.inval = true ∨ (migOp n s orc).1.st.tier = s.tier := by
  unfold migOp
  split
  · rcases runSteps_TI hu n migrateSteps { st := s, orc := orc, logged := false } with h | h
    · exact Or.inl h
    · exact Or.inr h.1
  · exact Or.inr rfl

theorem scanOp_TI (hr : invBy .recordFile = true) (s : FileSt) (orc : List Outcome) :
    (scanOp s orc).1.inval = true ∨ (scanOp s orc).1.st.tier = s.tier := by
  unfold scanOp
  simp only []
  split
  · have := atomic_TI { st := s, orc := orc, logged := false }
      (fun y => { y with st := { y.st with tier := scanTier,
                                           recent := if y.st.tier = scanTier then y.st.recent else true },
                         inval := y.inval || cacheInvalidatedBy.contains .recordFile })
      (fun r => Or.inl (by
        show (false || cacheInvalidatedBy.contains Mutator.recordFile) = true
        have : cacheInvalidatedBy.contains Mutator.recordFile = true := hr
        rw [this]; rfl))
    rcases this with h | h
    · exact Or.inl h
    · exact Or.inr h.1
  · exact Or.inr rfl

theorem recOp_tier (s : FileSt) (orc : List Outcome) : (recOp s orc).1.st.tier = s.tier := by
  unfold recOp
  simp only []
  split
  · rcases atomic_cases { st := s, orc := orc, logged := false } id with ⟨r, h⟩ | ⟨r, h⟩ | ⟨r, h⟩
    · rw [h]
      simp only [id]
      split
      · rcases atomic_cases { st := s, orc := r, logged := false }
            (fun y => { y with st := y.st.setObj recDelete false }) with ⟨r2, h2⟩ | ⟨r2, h2⟩ | ⟨r2, h2⟩
        · rw [h2]; cases recDelete <;> rfl
        · rw [h2]
        · rw [h2]
      · rfl
    · rw [h]
    · rw [h]
  · rfl

/-! ## coherence of the cache -/

/-- a cache entry, if present, lists exactly the tiers the measurement currently has rows in -/
def Coh (w : World) : Prop := ∀ e, w.cache = some e → (e.hot, e.cold) = w.tiers

theorem coh_after (w : World) (f' : FileSt) (crashed inval : Bool) (h : Coh w)
    (ht : inval = true ∨ f'.tier = w.f.tier) : Coh (w.after f' crashed inval) := by
  intro e he
  unfold World.after at he ⊢
  cases hc : (crashed || inval) with
  | true => simp [hc] at he
  | false =>
    simp only [hc, Bool.false_eq_true, if_false] at he
    have hi : inval = false := by cases crashed <;> cases inval <;> simp_all
    rcases ht with ht | ht
    · rw [hi] at ht; cases ht
    · have := h e he
      unfold World.tiers at this ⊢
      simp only [ht]
      exact this

theorem coh_mig (hu : invBy .updateTier = true) (n : Nat) (w : World) (orc : List Outcome) (h : Coh w) :
    Coh (wMig n w orc) := coh_after w _ _ _ h (migOp_TI hu n w.f orc)

theorem coh_rec (w : World) (orc : List Outcome) (h : Coh w) : Coh (wRec w orc) :=
  coh_after w _ _ _ h (Or.inr (recOp_tier w.f orc))

theorem coh_scan (hr : invBy .recordFile = true) (w : World) (orc : List Outcome) (h : Coh w) :
    Coh (wScan w orc) := by
  refine coh_after w _ _ _ h ?_
  rcases scanOp_TI hr w.f orc with h1 | h1
  · exact Or.inl (by rw [h1]; rfl)
  · exact Or.inr h1

theorem coh_addMig (hr : invBy .recordFile = true) (w : World) (k : Nat) (h : Coh w) : Coh (wAddMig w k) := by
  unfold wAddMig
  split
  · exact h
  · intro e he
    simp [hr] at he

theorem coh_query (w : World) (h : Coh w) : Coh (wQuery w).1 := by
  intro e he
  simp only [wQuery, Option.some.injEq] at he
  subst he
  show ((queryEnt w).hot, (queryEnt w).cold) = w.tiers
  unfold queryEnt
  cases hc : w.cache with
  | none => rfl
  | some e0 =>
    simp only []
    split
    · exact h e0 hc
    · rfl

theorem queryEnt_tiers (w : World) (h : Coh w) : ((queryEnt w).hot, (queryEnt w).cold) = w.tiers :=
  coh_query w h _ rfl

end Arc.C12
