import Arc.Proofs.C12.Abs
/-!
# C12 — abstraction of the operations (migrate / reconcile / scan / cycle) and fault-free runs
-/
namespace Arc.C12
open Arc.Generated.C12

/-! ## reconcile and scan: nondeterministic abstraction (any faults) -/

def absRec (a : Abs) : List Abs :=
  if a.tier = recGuard ∧ a.recent = true then
    (if a.has recProbe then [a, a.setObj recDelete false] else [a])
  else [a]

def absScan (a : Abs) : List Abs :=
  if a.hot && !scanSkipsRegistered then
    [a, { a with tier := scanTier, recent := if a.tier = scanTier then a.recent else true }]
  else [a]

def absAge (a : Abs) : Abs := { a with recent := false }

theorem absOf_age (s : FileSt) : absOf (ageOp s) = absAge (absOf s) := rfl

def absMig (a : Abs) : List Abs :=
  if a.tier = srcTier then (absRun migrateSteps a).map (·.1) else [a]

theorem recOp_sim (s : FileSt) (orc : List Outcome) : absOf (recOp s orc).1.st ∈ absRec (absOf s) := by
  unfold recOp absRec
  simp only []
  by_cases hg : s.tier = recGuard ∧ s.recent = true
  · have hg' : (absOf s).tier = recGuard ∧ (absOf s).recent = true := hg
    rw [if_pos hg, if_pos hg']
    rcases atomic_cases { st := s, orc := orc, logged := false } id with ⟨r, h⟩ | ⟨r, h⟩ | ⟨r, h⟩
    · rw [h]
      simp only [id]
      rw [← absOf_has]
      by_cases hp : s.has recProbe = true
      · rw [if_pos hp, if_pos hp]
        rcases atomic_cases { st := s, orc := r, logged := false }
            (fun y => { y with st := y.st.setObj recDelete false }) with ⟨r2, h2⟩ | ⟨r2, h2⟩ | ⟨r2, h2⟩
        · rw [h2]; simp [absOf_setObj]
        · rw [h2]; simp
        · rw [h2]; simp
      · rw [if_neg hp, if_neg hp]; simp
    · rw [h]; split <;> simp
    · rw [h]; split <;> simp
  · have hg' : ¬ ((absOf s).tier = recGuard ∧ (absOf s).recent = true) := hg
    rw [if_neg hg, if_neg hg']; simp

theorem scanOp_sim (s : FileSt) (orc : List Outcome) : absOf (scanOp s orc).1.st ∈ absScan (absOf s) := by
  unfold scanOp absScan
  simp only []
  by_cases hh : (s.hot && !scanSkipsRegistered) = true
  · have hh' : ((absOf s).hot && !scanSkipsRegistered) = true := hh
    rw [if_pos hh, if_pos hh']
    rcases atomic_cases { st := s, orc := orc, logged := false }
        (fun y => { y with st := { y.st with tier := scanTier,
                                             recent := if y.st.tier = scanTier then y.st.recent else true },
                             inval := y.inval || cacheInvalidatedBy.contains .recordFile })
      with ⟨r, h⟩ | ⟨r, h⟩ | ⟨r, h⟩
    · rw [h]; exact List.mem_cons_of_mem _ (List.mem_singleton.mpr rfl)
    · rw [h]; simp
    · rw [h]; simp
  · have hh' : ¬ ((absOf s).hot && !scanSkipsRegistered) = true := hh
    rw [if_neg hh, if_neg hh']; simp

theorem migOp_sim (n : Nat) (s : FileSt) (orc : List Outcome) :
    absOf (migOp n s orc).1.st ∈ absMig (absOf s) := by
  unfold migOp absMig
  by_cases hg : s.tier = srcTier
  · have hg' : (absOf s).tier = srcTier := hg
    rw [if_pos hg, if_pos hg']
    simp only []
    have := runSteps_sim n migrateSteps { st := s, orc := orc, logged := false }
    exact List.mem_map.mpr ⟨_, this, rfl⟩
  · have hg' : ¬ (absOf s).tier = srcTier := hg
    rw [if_neg hg, if_neg hg']; simp

/-! ## fault-free runs (every oracle letter is `ok`) -/

def AllOk (o : List Outcome) : Prop := ∀ x ∈ o, x = Outcome.ok

theorem allOk_nil : AllOk [] := by intro x hx; cases hx

theorem pop_allOk (o : List Outcome) (h : AllOk o) : (pop o).1 = .ok ∧ AllOk (pop o).2 := by
  cases o with
  | nil => exact ⟨rfl, h⟩
  | cons a r =>
    refine ⟨h a (by simp), ?_⟩
    intro x hx
    exact h x (by simp [pop] at hx; simp [hx])

theorem atomic_clean (x : Exec) (f : Exec → Exec) (h : AllOk x.orc) :
    ∃ r, AllOk r ∧ atomic x f = (f { x with orc := r }, .ok) := by
  have hp := pop_allOk x.orc h
  unfold atomic
  cases hpo : pop x.orc with
  | mk o r =>
    rw [hpo] at hp
    simp only [] at hp
    obtain ⟨ho, hr⟩ := hp
    subst ho
    exact ⟨r, hr, rfl⟩

theorem copyChunks_clean (k w : Nat) (x : Exec) (h : AllOk x.orc) :
    (copyChunks k w x).2 = .ok ∧ AllOk (copyChunks k w x).1.orc := by
  induction k generalizing w x with
  | zero => exact ⟨rfl, h⟩
  | succ k ih =>
    have hp := pop_allOk x.orc h
    unfold copyChunks
    cases hpo : pop x.orc with
    | mk o r =>
      rw [hpo] at hp
      simp only [] at hp
      obtain ⟨ho, hr⟩ := hp
      subst ho
      simp only []
      exact ih (w + 1) _ hr

/-- result of a primitive when nothing fails -/
def absPrimOk : Act → Abs → Option Abs
  | .record, a => some a
  | .complete, a => some a
  | .copy .hot .cold, a => if a.hot then some { a with cold := true } else none
  | .copy .hot .hot, _ => none
  | .copy .cold .hot, _ => none
  | .copy .cold .cold, _ => none
  | .setMeta t, a => some { a with tier := t, recent := true }
  | .del t, a => some (a.setObj t false)

def absRunOk : List Step → Abs → Option Abs
  | [], a => some a
  | s :: rest, a =>
    match absPrimOk s.act a with
    | some a' => absRunOk rest a'
    | none => none

theorem copyHotCold_clean (n : Nat) (x : Exec) (h : AllOk x.orc) (hh : x.st.hot = true) :
    (copyHotCold n x).2 = .ok ∧ AllOk (copyHotCold n x).1.orc ∧
      absOf (copyHotCold n x).1.st = { absOf x.st with cold := true } := by
  unfold copyHotCold
  obtain ⟨r, hr, he⟩ := atomic_clean x (fun y => { y with st := { y.st with part := some 0 } }) h
  rw [he]
  simp only [hh, Bool.not_true, Bool.false_eq_true, if_false]
  generalize hx1 : ({ st := { hot := x.st.hot, cold := x.st.cold, part := some 0, tier := x.st.tier, pend := x.st.pend, recent := x.st.recent },
                      orc := r, logged := x.logged, inval := x.inval } : Exec) = x1
  have hx1' : ({ st := { hot := true, cold := x.st.cold, part := some 0, tier := x.st.tier, pend := x.st.pend, recent := x.st.recent },
                      orc := r, logged := x.logged, inval := x.inval } : Exec) = x1 := by rw [← hx1, hh]
  have habs1 : absOf x1.st = absOf x.st := by subst hx1; rfl
  have hr1 : AllOk x1.orc := by subst hx1; exact hr
  have hc := copyChunks_clean n 0 x1 hr1
  have hca := copyChunks_abs n 0 x1
  try rw [hx1']
  cases hcc : copyChunks n 0 x1 with
  | mk x2 r2 =>
    rw [hcc] at hc hca
    simp only [] at hc hca
    obtain ⟨hr2, ho2⟩ := hc
    subst hr2
    simp only []
    obtain ⟨r3, hr3, he3⟩ := atomic_clean x2 (fun y => { y with st := { y.st with cold := true, part := none } }) ho2
    rw [he3]
    refine ⟨rfl, hr3, ?_⟩
    have h2 : absOf x2.st = absOf x.st := hca.trans habs1
    simp only [absOf, Abs.mk.injEq] at h2 ⊢
    exact ⟨h2.1, trivial, h2.2.2.1, h2.2.2.2⟩

theorem prim_clean (n : Nat) (a : Act) (x : Exec) (a' : Abs) (h : AllOk x.orc)
    (hp : absPrimOk a (absOf x.st) = some a') :
    (prim n a x).2 = .ok ∧ AllOk (prim n a x).1.orc ∧ absOf (prim n a x).1.st = a' := by
  cases a with
  | record =>
    obtain ⟨r, hr, he⟩ := atomic_clean x (fun y => { y with st := { y.st with pend := y.st.pend + 1 }, logged := true }) h
    simp only [absPrimOk, Option.some.injEq] at hp
    subst hp
    simp only [prim]
    rw [he]
    exact ⟨rfl, hr, rfl⟩
  | complete =>
    simp only [absPrimOk, Option.some.injEq] at hp
    subst hp
    by_cases hl : x.logged = true
    · have : prim n .complete x
          = atomic x (fun y => { y with st := { y.st with pend := y.st.pend - 1 } }) := by
        simp [prim, hl]
      rw [this]
      obtain ⟨r, hr, he⟩ := atomic_clean x (fun y => { y with st := { y.st with pend := y.st.pend - 1 } }) h
      rw [he]
      exact ⟨rfl, hr, rfl⟩
    · have : prim n .complete x = (x, .ok) := by simp [prim, hl]
      rw [this]
      exact ⟨rfl, h, rfl⟩
  | copy src dst =>
    cases src <;> cases dst
    · simp [absPrimOk] at hp
    · simp only [absPrimOk] at hp
      by_cases hh : x.st.hot = true
      · have hh' : (absOf x.st).hot = true := hh
        rw [if_pos hh'] at hp
        simp only [Option.some.injEq] at hp
        subst hp
        exact copyHotCold_clean n x h hh
      · have hh' : ¬ (absOf x.st).hot = true := hh
        rw [if_neg hh'] at hp
        cases hp
    · simp [absPrimOk] at hp
    · simp [absPrimOk] at hp
  | setMeta t =>
    obtain ⟨r, hr, he⟩ := atomic_clean x (fun y => { y with st := { y.st with tier := t, recent := true }, inval := y.inval || cacheInvalidatedBy.contains .updateTier }) h
    simp only [absPrimOk, Option.some.injEq] at hp
    subst hp
    simp only [prim]
    rw [he]
    exact ⟨rfl, hr, rfl⟩
  | del t =>
    obtain ⟨r, hr, he⟩ := atomic_clean x (fun y => { y with st := y.st.setObj t false }) h
    simp only [absPrimOk, Option.some.injEq] at hp
    subst hp
    simp only [prim]
    rw [he]
    exact ⟨rfl, hr, absOf_setObj _ _ _⟩

theorem runSteps_clean (n : Nat) (steps : List Step) (x : Exec) (a' : Abs) (h : AllOk x.orc)
    (hp : absRunOk steps (absOf x.st) = some a') :
    (runSteps n steps x).2 = .ok ∧ AllOk (runSteps n steps x).1.orc ∧ absOf (runSteps n steps x).1.st = a' := by
  induction steps generalizing x with
  | nil =>
    simp only [absRunOk, Option.some.injEq] at hp
    subst hp
    exact ⟨rfl, h, rfl⟩
  | cons s rest ih =>
    unfold absRunOk at hp
    cases hq : absPrimOk s.act (absOf x.st) with
    | none => rw [hq] at hp; cases hp
    | some a1 =>
      rw [hq] at hp
      simp only [] at hp
      obtain ⟨h1, h2, h3⟩ := prim_clean n s.act x a1 h hq
      unfold runSteps
      cases hpr : prim n s.act x with
      | mk x' r =>
        rw [hpr] at h1 h2 h3
        simp only [] at h1 h2 h3
        subst h1
        simp only []
        exact ih x' h2 (by rw [h3]; exact hp)

/-- fault-free `MigrateTier` over the file -/
def absMigOk (a : Abs) : Option Abs :=
  if a.tier = srcTier then absRunOk migrateSteps a else some a

/-- fault-free `ReconcileOrphanedFiles` over the file -/
def absRecOk (a : Abs) : Abs :=
  if a.tier = recGuard ∧ a.recent = true then (if a.has recProbe then a.setObj recDelete false else a) else a

/-- fault-free `ScanAndRegisterFiles` over the file -/
def absScanOk (a : Abs) : Abs :=
  if a.hot && !scanSkipsRegistered then
    { a with tier := scanTier, recent := if a.tier = scanTier then a.recent else true }
  else a

theorem migOp_clean (n : Nat) (s : FileSt) (orc : List Outcome) (a' : Abs) (h : AllOk orc)
    (hp : absMigOk (absOf s) = some a') :
    ((migOp n s orc).2 = some .ok ∨ (migOp n s orc).2 = none) ∧ AllOk (migOp n s orc).1.orc ∧
      absOf (migOp n s orc).1.st = a' ∧ (s.tier = srcTier → (migOp n s orc).2 = some .ok) := by
  unfold migOp
  unfold absMigOk at hp
  by_cases hg : s.tier = srcTier
  · have hg' : (absOf s).tier = srcTier := hg
    rw [if_pos hg'] at hp
    rw [if_pos hg]
    obtain ⟨h1, h2, h3⟩ := runSteps_clean n migrateSteps { st := s, orc := orc, logged := false } a' h hp
    simp only []
    exact ⟨Or.inl (by rw [h1]), h2, h3, fun _ => by rw [h1]⟩
  · have hg' : ¬ (absOf s).tier = srcTier := hg
    rw [if_neg hg'] at hp
    rw [if_neg hg]
    simp only [Option.some.injEq] at hp
    subst hp
    exact ⟨Or.inr rfl, h, rfl, fun h' => absurd h' hg⟩

theorem recOp_clean (s : FileSt) (orc : List Outcome) (h : AllOk orc) :
    (recOp s orc).2.errors = 0 ∧ (recOp s orc).2.crashed = false ∧ AllOk (recOp s orc).1.orc ∧
      absOf (recOp s orc).1.st = absRecOk (absOf s) := by
  unfold recOp absRecOk
  simp only []
  by_cases hg : s.tier = recGuard ∧ s.recent = true
  · have hg' : (absOf s).tier = recGuard ∧ (absOf s).recent = true := hg
    rw [if_pos hg, if_pos hg']
    obtain ⟨r, hr, he⟩ := atomic_clean { st := s, orc := orc, logged := false } id h
    rw [he]
    simp only [id]
    rw [← absOf_has]
    by_cases hp : s.has recProbe = true
    · rw [if_pos hp, if_pos hp]
      obtain ⟨r2, hr2, he2⟩ := atomic_clean { st := s, orc := r, logged := false }
        (fun y => { y with st := y.st.setObj recDelete false }) hr
      rw [he2]
      exact ⟨rfl, rfl, hr2, absOf_setObj _ _ _⟩
    · rw [if_neg hp, if_neg hp]
      exact ⟨rfl, rfl, hr, rfl⟩
  · have hg' : ¬ ((absOf s).tier = recGuard ∧ (absOf s).recent = true) := hg
    rw [if_neg hg, if_neg hg']
    exact ⟨rfl, rfl, h, rfl⟩

theorem scanOp_clean (s : FileSt) (orc : List Outcome) (h : AllOk orc) :
    (scanOp s orc).2 = .ok ∧ AllOk (scanOp s orc).1.orc ∧ absOf (scanOp s orc).1.st = absScanOk (absOf s) := by
  unfold scanOp absScanOk
  simp only []
  by_cases hh : (s.hot && !scanSkipsRegistered) = true
  · have hh' : ((absOf s).hot && !scanSkipsRegistered) = true := hh
    rw [if_pos hh, if_pos hh']
    obtain ⟨r, hr, he⟩ := atomic_clean { st := s, orc := orc, logged := false }
      (fun y => { y with st := { y.st with tier := scanTier,
                                           recent := if y.st.tier = scanTier then y.st.recent else true },
                             inval := y.inval || cacheInvalidatedBy.contains .recordFile }) h
    rw [he]
    exact ⟨rfl, hr, rfl⟩
  · have hh' : ¬ ((absOf s).hot && !scanSkipsRegistered) = true := hh
    rw [if_neg hh, if_neg hh']
    exact ⟨rfl, h, rfl⟩

/-! ## the cycle -/

def absPhaseOk (p : Phase) (a : Abs) : Option Abs :=
  match p with
  | .scan => some (absScanOk a)
  | .migrate => absMigOk a
  | .reconcile => some (absRecOk a)

def absPhasesOk : List Phase → Abs → Option Abs
  | [], a => some a
  | p :: ps, a =>
    match absPhaseOk p a with
    | some a' => absPhasesOk ps a'
    | none => none

theorem phaseOp_clean (n : Nat) (p : Phase) (s : FileSt) (orc : List Outcome) (a' : Abs) (h : AllOk orc)
    (hp : absPhaseOk p (absOf s) = some a') :
    (phaseOp n p s orc).2.2 = false ∧ AllOk (phaseOp n p s orc).2.1 ∧ absOf (phaseOp n p s orc).1 = a' := by
  cases p with
  | scan =>
    obtain ⟨h1, h2, h3⟩ := scanOp_clean s orc h
    simp only [absPhaseOk, Option.some.injEq] at hp
    subst hp
    simp only [phaseOp]
    refine ⟨by rw [h1]; rfl, h2, h3⟩
  | migrate =>
    obtain ⟨h1, h2, h3, _⟩ := migOp_clean n s orc a' h hp
    simp only [phaseOp]
    refine ⟨?_, h2, h3⟩
    rcases h1 with h1 | h1 <;> rw [h1] <;> rfl
  | reconcile =>
    obtain ⟨_, h1, h2, h3⟩ := recOp_clean s orc h
    simp only [absPhaseOk, Option.some.injEq] at hp
    subst hp
    simp only [phaseOp]
    exact ⟨h1, h2, h3⟩

theorem runPhases_clean (n : Nat) (ps : List Phase) (s : FileSt) (orc : List Outcome) (a' : Abs) (h : AllOk orc)
    (hp : absPhasesOk ps (absOf s) = some a') :
    (runPhases n ps s orc).2 = false ∧ absOf (runPhases n ps s orc).1 = a' := by
  induction ps generalizing s orc with
  | nil =>
    simp only [absPhasesOk, Option.some.injEq] at hp
    subst hp
    exact ⟨rfl, rfl⟩
  | cons p rest ih =>
    unfold absPhasesOk at hp
    cases hq : absPhaseOk p (absOf s) with
    | none => rw [hq] at hp; cases hp
    | some a1 =>
      rw [hq] at hp
      simp only [] at hp
      obtain ⟨h1, h2, h3⟩ := phaseOp_clean n p s orc a1 h hq
      unfold runPhases
      cases hph : phaseOp n p s orc with
      | mk s' rest' =>
        cases rest' with
        | mk orc' cr =>
          rw [hph] at h1 h2 h3
          simp only [] at h1 h2 h3
          subst h1
          simp only []
          exact ih s' orc' h2 (by rw [h3]; exact hp)

end Arc.C12
